"""C05: allocation sites of the deserialiser and the plumbing of the CLI's binary flag -> S2T/Gen/SerialSites.lean

Two closed-world inventories read from the *current* tree (no line numbers, no local variable names where avoidable):

* `returns`        (function, kind, detail) for every `return` of every function of serialization.py reachable from
                   `deserialize_extraction`: what the returned expression is, after following local names to the
                   expressions bound to them —
                     new         a constructor call (`io.BytesIO(..)`, `dict(..)`, `base64.b64decode(..)`, a method of such a
                                 call), a comprehension or a display; detail = the constructor
                     class-call  a call of a local name holding a class (`cls(**kwargs)`)
                     path-call   a call of another function of serialization.py; detail = its name
                     param       a parameter handed through
                     const       a constant
                     cell        a state cell (the registry)
                     other:<src> anything else (a subscript of a pool, an attribute, a module-level object, ...)
* `streamMakers`   (function, constructor) for every path function in which a stream constructor call occurs
* `moduleObjects`  module-level names of serialization.py bound at runtime to anything that is not a module, a plain
                   function, a class, an immutable scalar / string / tuple or an inventoried state cell (e.g. an
                   `io.BytesIO()` kept as a constant, a `functools` wrapper object)
* `flagSites`      (enclosing function, callee, form) for every mention inside cli.py of `serialize_extraction` or of a cli.py
                   function with an `include_binary` parameter: form = `kw=<expr>` (a call passing include_binary=<expr>),
                   `missing` (a call without it), `ref` (not called here: passed to map / partial / stored), `default=<expr>`
                   (the parameter has a default)
* `flagSources`    the expressions assigned to a local named `include_binary` in cli.py
"""
import ast
import importlib
import os
import types

from translate import HEADER, REPO, generator, lean_list, lean_str

SER = "sharepoint2text/parsing/extractors/serialization.py"
CLI = "sharepoint2text/cli.py"
NEW_CALLS = {"io.BytesIO", "BytesIO", "dict", "list", "set", "tuple", "bytes", "bytearray", "str", "frozenset",
             "base64.b64decode", "typing.get_type_hints", "get_type_hints"}
STREAM_CTORS = {"io.BytesIO", "BytesIO"}
FLAG = "include_binary"


def _parse(rel):
    with open(os.path.join(REPO, rel), encoding="utf-8") as fh:
        return ast.parse(fh.read(), filename=rel)


def _top_functions(tree):
    return {n.name: n for n in tree.body if isinstance(n, (ast.FunctionDef, ast.AsyncFunctionDef))}


def _calls(f):
    return {ast.unparse(n.func).split(".")[-1] for n in ast.walk(f) if isinstance(n, ast.Call)}


def _reach(fns, start):
    seen, todo = set(), [start]
    while todo:
        q = todo.pop()
        if q in seen or q not in fns:
            continue
        seen.add(q)
        todo += [c for c in _calls(fns[q]) if c in fns]
    return sorted(seen)


def _params(f):
    a = f.args
    out = {x.arg for x in a.posonlyargs + a.args + a.kwonlyargs}
    if a.vararg:
        out.add(a.vararg.arg)
    if a.kwarg:
        out.add(a.kwarg.arg)
    return out


def _bindings(f):
    """local name -> [expressions assigned to it] (None for a binding that is not a plain assignment)"""
    out = {}
    for n in ast.walk(f):
        if isinstance(n, ast.Assign):
            for t in n.targets:
                if isinstance(t, ast.Name):
                    out.setdefault(t.id, []).append(n.value)
                elif isinstance(t, (ast.Tuple, ast.List)):
                    for e in t.elts:
                        if isinstance(e, ast.Name):
                            out.setdefault(e.id, []).append(None)
        elif isinstance(n, ast.AnnAssign) and isinstance(n.target, ast.Name) and n.value is not None:
            out.setdefault(n.target.id, []).append(n.value)
        elif isinstance(n, ast.AugAssign) and isinstance(n.target, ast.Name):
            out.setdefault(n.target.id, []).append(None)
        elif isinstance(n, (ast.For, ast.comprehension)) and isinstance(n.target, ast.Name):
            out.setdefault(n.target.id, []).append(None)
        elif isinstance(n, ast.NamedExpr) and isinstance(n.target, ast.Name):
            out.setdefault(n.target.id, []).append(n.value)
    return out


def _kinds(e, f, fns, cells, depth=0):
    """set of (kind, detail) of what expression e of function f can evaluate to"""
    params, binds = _params(f), _bindings(f)
    if e is None or isinstance(e, ast.Constant):
        return {("const", "")}
    if isinstance(e, ast.Tuple):
        out = set()
        for x in e.elts:
            out |= _kinds(x, f, fns, cells, depth)
        return out or {("const", "")}
    if isinstance(e, ast.IfExp):
        return _kinds(e.body, f, fns, cells, depth) | _kinds(e.orelse, f, fns, cells, depth)
    if isinstance(e, (ast.ListComp, ast.DictComp, ast.SetComp, ast.List, ast.Dict, ast.Set, ast.JoinedStr)):
        return {("new", type(e).__name__)}
    if isinstance(e, (ast.Compare, ast.BoolOp, ast.UnaryOp)) and not isinstance(e, ast.BoolOp):
        return {("const", "")}
    if isinstance(e, ast.Call):
        fn = ast.unparse(e.func)
        if fn in NEW_CALLS:
            return {("new", fn)}
        if isinstance(e.func, ast.Name) and (e.func.id in params or e.func.id in binds):
            return {("class-call", "")}
        if fn.split(".")[-1] in fns and (isinstance(e.func, ast.Name) or fn.count(".") == 0):
            return {("path-call", fn)}
        if isinstance(e.func, ast.Attribute) and isinstance(e.func.value, ast.Call):
            inner = _kinds(e.func.value, f, fns, cells, depth)
            if all(k == "new" for k, _ in inner):
                return {("new", next(iter(sorted(inner)))[1])}
        return {("other:" + ast.unparse(e), "")}
    if isinstance(e, ast.Name):
        out = set()
        if e.id in cells:
            return {("cell", e.id)}
        if e.id in params:
            out.add(("param", ""))
        if e.id in binds and depth < 6:
            for v in binds[e.id]:
                if v is None:
                    out.add(("other:" + e.id + " (bound by a loop / unpacking)", ""))
                elif isinstance(v, ast.Name) and v.id == e.id:
                    continue
                else:
                    out |= _kinds(v, f, fns, cells, depth + 1)
        if not out:
            out.add(("other:" + e.id, ""))
        return out
    return {("other:" + ast.unparse(e), "")}


def _returns(f):
    """Return nodes of f itself (not of nested defs)"""
    out = []

    def visit(n):
        for ch in ast.iter_child_nodes(n):
            if isinstance(ch, (ast.FunctionDef, ast.AsyncFunctionDef, ast.Lambda, ast.ClassDef)):
                continue
            if isinstance(ch, ast.Return):
                out.append(ch)
            visit(ch)

    visit(f)
    return out


def scan():
    from gen.serial_state import scan as state_scan
    S = importlib.import_module("sharepoint2text.parsing.extractors.serialization")
    notes = []
    tree = _parse(SER)
    fns = _top_functions(tree)
    cells = {c for c in state_scan()["cells"] if ":" not in c}
    path = _reach(fns, "deserialize_extraction")
    if "deserialize_extraction" not in fns:
        notes.append("deserialize_extraction not found")
    rets, makers = set(), set()
    for q in path:
        f = fns[q]
        for n in ast.walk(f):
            if isinstance(n, ast.Call) and ast.unparse(n.func) in STREAM_CTORS:
                makers.add((q, ast.unparse(n.func)))
    for q in path:
        f = fns[q]
        nested = [n for n in ast.walk(f) if n is not f and isinstance(n, (ast.FunctionDef, ast.AsyncFunctionDef, ast.Lambda))]
        if nested:
            notes.append(f"{q}: nested function / lambda on the deserialiser path")
        if any(isinstance(n, (ast.Yield, ast.YieldFrom)) for n in ast.walk(f)):
            notes.append(f"{q}: generator on the deserialiser path")
        if f.decorator_list:
            rets.add((q, "other:decorated " + ", ".join(ast.unparse(d) for d in f.decorator_list), ""))
        for r in _returns(f):
            for k, d in _kinds(r.value, f, fns, cells):
                rets.add((q, k, d))
    # module-level objects that are neither code nor immutable nor an inventoried cell
    immut = (str, bytes, int, float, bool, type(None), tuple, frozenset)
    modobjs = []
    for name, v in sorted(vars(S).items()):
        if name.startswith("__") or name in cells:
            continue
        if isinstance(v, (types.ModuleType, types.FunctionType, types.BuiltinFunctionType, type)) or isinstance(v, immut):
            continue
        modobjs.append(f"{name}:{type(v).__module__}.{type(v).__name__}")
    for name, f in fns.items():
        v = vars(S).get(name)
        if v is not None and not isinstance(v, types.FunctionType):
            tag = f"{name}:{type(v).__module__}.{type(v).__name__}"
            if tag not in modobjs:
                modobjs.append(tag)
    # ---- the CLI's binary flag
    ctree = _parse(CLI)
    cfns = {}
    for n in ast.walk(ctree):
        if isinstance(n, (ast.FunctionDef, ast.AsyncFunctionDef)):
            cfns[n.name] = n
    takers = {"serialize_extraction"} | {q for q, f in cfns.items() if FLAG in _params(f)}
    sites, sources = set(), []
    par = {}
    for n in ast.walk(ctree):
        for ch in ast.iter_child_nodes(n):
            par[ch] = n

    def enclosing(n):
        while n in par:
            n = par[n]
            if isinstance(n, (ast.FunctionDef, ast.AsyncFunctionDef)):
                return n.name
        return "<module>"

    for n in ast.walk(ctree):
        name = n.id if isinstance(n, ast.Name) else n.attr if isinstance(n, ast.Attribute) else None
        if name in takers and isinstance(getattr(n, "ctx", None), ast.Load):
            p = par.get(n)
            if isinstance(p, ast.Call) and p.func is n:
                kws = [k for k in p.keywords if k.arg == FLAG]
                if kws:
                    form = "kw=" + ast.unparse(kws[0].value)
                elif any(k.arg is None for k in p.keywords):
                    form = "kw=**"
                else:
                    form = "missing"
            else:
                form = "ref"
            sites.add((enclosing(n), name, form))
        if isinstance(n, ast.Assign) and any(isinstance(t, ast.Name) and t.id == FLAG for t in n.targets):
            sources.append(ast.unparse(n.value))
        if isinstance(n, (ast.AnnAssign, ast.AugAssign, ast.NamedExpr)) and isinstance(n.target, ast.Name) and n.target.id == FLAG:
            sources.append(ast.unparse(n.value) if n.value is not None else "<none>")
    for q, f in sorted(cfns.items()):
        a = f.args
        pos = a.posonlyargs + a.args
        for arg, d in list(zip(pos[len(pos) - len(a.defaults):], a.defaults)) + [(x, d) for x, d in zip(a.kwonlyargs, a.kw_defaults) if d is not None]:
            if arg.arg == FLAG:
                sites.add(("<def>", q, "default=" + ast.unparse(d)))
    # serialize_extraction itself must still take the flag (its default is what a dropped flag falls back to)
    se = fns.get("serialize_extraction")
    if se is None or FLAG not in _params(se):
        notes.append("serialize_extraction has no include_binary parameter")
    return {"returns": sorted(rets), "makers": sorted(makers), "modobjs": modobjs, "sites": sorted(sites),
            "sources": sorted(sources), "notes": notes}


@generator("SerialSites")
def gen_serial_sites() -> str:
    r = scan()
    L = [HEADER.format(src=f"{SER}, cli.py (allocation sites of the deserialiser, plumbing of the binary flag)")]
    L.append("namespace S2T.Gen.SerialSites\n")
    L.append("/-- (function, kind, detail) of every value a function on the deserialiser's path can return -/")
    L.append("def returns : List (String × String × String) := "
             + lean_list(f"({lean_str(a)}, {lean_str(b)}, {lean_str(c)})" for a, b, c in r["returns"]) + "\n")
    L.append("/-- (function, constructor) of every stream constructor call on the deserialiser's path -/")
    L.append("def streamMakers : List (String × String) := " + lean_list(f"({lean_str(a)}, {lean_str(b)})" for a, b in r["makers"]) + "\n")
    L.append("/-- module-level objects of serialization.py that are neither code, immutable, nor an inventoried state cell -/")
    L.append("def moduleObjects : List String := " + lean_list(lean_str(x) for x in r["modobjs"]) + "\n")
    L.append("/-- (enclosing function, callee, form) of every mention of a flag-taking serialiser in cli.py -/")
    L.append("def flagSites : List (String × String × String) := "
             + lean_list(f"({lean_str(a)}, {lean_str(b)}, {lean_str(c)})" for a, b, c in r["sites"]) + "\n")
    L.append("/-- expressions assigned to a local `include_binary` in cli.py -/")
    L.append("def flagSources : List String := " + lean_list(lean_str(x) for x in r["sources"]) + "\n")
    L.append("/-- translator cross-check notes; must be empty -/")
    L.append("def notes : List String := " + lean_list(lean_str(x) for x in r["notes"]) + "\n")
    L.append("end S2T.Gen.SerialSites\n")
    return "\n".join(L)
