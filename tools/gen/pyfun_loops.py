"""Function-level translator, part 4: the library's own `while` loops as STEP FUNCTIONS (generator `PyLoops`).

For every whitelisted `while` statement (`LOOPS`: source file, enclosing function, ordinal of the `while` inside it) the
AST of the statement — test and body, nothing else — is translated, construct by construct, into

    structure Env   — the locals the loop only reads               (fields v0, v1, … in order of first occurrence)
    structure State — the locals assigned in the body that are live at the loop head or read after the loop
    def step (py_env : Env) (py_ora : State → Nat → Bool) (py_s : State) : M (Step State Ret)
    def stepO …  : M (Option State)        (`none` = the loop exits: test false / break / return)
    def init (inputs …) : Env × State      (the straight-line assignments that precede the loop)

`LoopTr` extends `pyfun_aes.SeqFuncTr` (non-negative ints as `Nat`, differences as `Int`, bytes / lists, indexing and
slices with their `IndexError`); primitives added here live in lean/S2T/Py/Loops.lean (TRUSTED list there).  Same
discipline as pyfun.py: what is not understood appends to `notes` (theorem `gen_py_notes_empty` of
Props/C12_LoopsSrc.lean then fails), never a silent approximation.

Newly supported
| Python | Lean |
|---|---|
| `while TEST: BODY` (the whitelisted statement) | `step`: `if !TEST then return .stop`, then BODY, then `return .next ⟨state…⟩` |
| `continue` / `break` / `return e` at the level of that loop (also inside `if`, `try`, inner `for`) | `return (.next ⟨…⟩)` / `return (.brk ⟨…⟩)` / `return (.ret e)` |
| locals assigned in the body | ALL are pre-declared `let mut x : T := …` at the top of `step` (state: from `py_s`; temporaries — definitely assigned before every read of the same iteration, not read after the loop — from `default`, never observed), so Python's function-level scoping needs no hoisting |
| types of locals | inferred by iteration from the assignments (join: `Nat ⊔ Int = Int`, `T ⊔ None = Option T`, otherwise opaque); inputs (locals bound by code that is not translated) get their type from the whitelist / the parameter annotation |
| `try: … except E: …` inside the body, handlers with `break` / `continue` | Lean's statement-level `try … catch e => if e.isa "E" then … else throw e`; `except struct.error` ↦ `"struct.error"` |
| `int.from_bytes(b, "big"/"little"[, signed=True])` | `Loops.fromBytes` / `fromBytesSigned` |
| `struct.unpack(FMT, b)`, `struct.unpack_from(FMT, d, off)`, `S.unpack_from(d, off)` / `S.unpack(b)` for a module constant `S = struct.Struct(FMT)` | `(← Loops.unpackU FMT b)` … (`U`: every code of the RUNTIME format is unsigned → `List Nat`; otherwise `I` → `List Int`); FMT is the definition an existing generator emits (`Gen.C12Consts.pptHeaderFmt`) or the literal; `struct.error` kept |
| `a, b, c = <list>` onto pre-declared locals | `let [t1, t2, t3] := e | throw unpackError` + assignments |
| `d.find(pat[, start])`, `d.startswith(pat)` on bytes, bytes literals, `abs(x)`, `1 << n` with an `int` count, `x or None`, `a // k`, `a % k` on `Int` for a positive literal `k`, `x in CONST` for a module constant set / tuple of ints | `Loops.bytesFind`, `bytesStartswith`, list literal, `Int.natAbs`, `(← Loops.shl a n)`, `Loops.orNone`, `/`, `%` (`Int` Euclidean = floor for `k > 0`), `C.contains x` |
| module-level int constants (own or imported) | the literal of the runtime value, cross-checked with the AST literal of the defining module |
| `Cls(k=v, …)` of a `NamedTuple` class | the tuple in `_fields` order (checked at translation time) |
| `yield e` inside the loop | `py_yield := py_yield ++ [e]` on an extra state field (the values yielded so far) |
| `xs.pop()` / `xs.append(e)` on a local list, `xs[-1]` | `(← Py.Loops.listPop xs)` (`IndexError`), `++`, `getItem` — accepted only if the list is bound to fresh lists in the function and does not escape |
| an expression the translator does not look into (call of a function / method that is not translated, attribute of such a value, str / float formatting …) | an OPAQUE value (`Unit`): may be stored in opaque locals, passed to opaque calls, dropped as a statement; its tracked, possibly raising sub-expressions are still evaluated.  A CONDITION on an opaque value is an oracle bit `py_ora py_s k` — all theorems quantify over every oracle.  An opaque value flowing into a tracked computation, an opaque call inside a `try` body, an opaque condition inside an inner loop, a tracked list passed to an opaque call: unsupported (note) |
"""
from __future__ import annotations

import ast
import builtins
import importlib
import os

from translate import HEADER, REPO, fresh_import, generator, lean_list, lean_str, parse

from gen.pyfun import (BOOL, BYTES, INT, NAT, NONE, STR, UNK, ModTr, Lst, Opt, SetT, Tup, Unsupported, ident, lt)
from gen.pyfun_aes import SeqFuncTr, as_int, int_const, is_intish, is_seq, elt_of
from gen.c12 import _const_eval

EX = "sharepoint2text/parsing/extractors/"
OPAQUE = ("opaque",)
BOT = ("bot",)
P = "S2T.Py.Loops."


class Refuse(Unsupported):
    """a RECOGNISED primitive used in a form that is not modelled: always a note, never turned into an opaque value"""


def tlean(t):
    if t in (OPAQUE, BOT):
        return "Unit"
    if t[0] == "opt":
        return f"(Option {tlean(t[1])})"
    if t[0] == "tuple":
        return "(" + " × ".join(tlean(x) for x in t[1]) + ")" if t[1] else "Unit"
    if t[0] in ("list", "set"):
        return f"(List {tlean(t[1])})"
    return lt(t)


def join(a, b):
    if a == b: return a
    if a == BOT: return b
    if b == BOT: return a
    if a == UNK: return b      # a failed expression (a note has been recorded) does not decide a type
    if b == UNK: return a
    if a == OPAQUE or b == OPAQUE: return OPAQUE
    if {a, b} == {NAT, INT}: return INT
    if a == NONE: return b if b[0] == "opt" else Opt(b)
    if b == NONE: return a if a[0] == "opt" else Opt(a)
    if a[0] == "opt" and b[0] == "opt":
        j = join(a[1], b[1]); return OPAQUE if j == OPAQUE else Opt(j)
    if a[0] == "opt":
        j = join(a[1], b); return OPAQUE if j == OPAQUE else Opt(j)
    if b[0] == "opt":
        j = join(a, b[1]); return OPAQUE if j == OPAQUE else Opt(j)
    if {a, b} == {BYTES, Lst(NAT)}: return Lst(NAT)
    if a[0] == "list" and b[0] == "list":
        j = join(a[1], b[1]); return OPAQUE if j == OPAQUE else Lst(j)
    if a[0] == "tuple" and b[0] == "tuple" and len(a[1]) == len(b[1]):
        js = [join(x, y) for x, y in zip(a[1], b[1])]
        return OPAQUE if OPAQUE in js else Tup(*js)
    return OPAQUE


BASE_ANNOT = {"int": NAT, "bytes": BYTES, "bool": BOOL, "str": STR, "None": NONE, "bytes | memoryview": BYTES}

# per source file: python module, module constants ↦ (definition an existing generator emits, type),
# struct.Struct constants ↦ definition of their format string
SOURCES = {
    EX + "util/encryption.py": dict(pymod="sharepoint2text.parsing.extractors.util.encryption", consts={}, structs={}),
    EX + "util/image_utils.py": dict(pymod="sharepoint2text.parsing.extractors.util.image_utils", consts={}, structs={}),
    EX + "ms_modern/docx_extractor.py": dict(
        pymod="sharepoint2text.parsing.extractors.ms_modern.docx_extractor",
        consts={"_JPEG_SOF_MARKERS": ("S2T.Gen.C12Consts.sofDocx", SetT(NAT))}, structs={}),
    EX + "ms_modern/xlsx_extractor.py": dict(
        pymod="sharepoint2text.parsing.extractors.ms_modern.xlsx_extractor",
        consts={"_JPEG_SOF_MARKERS": ("S2T.Gen.C12Consts.sofXlsx", SetT(NAT))}, structs={}),
    EX + "ms_modern/pptx_extractor.py": dict(
        pymod="sharepoint2text.parsing.extractors.ms_modern.pptx_extractor", consts={}, structs={}),
    EX + "ms_legacy/ppt_extractor.py": dict(
        pymod="sharepoint2text.parsing.extractors.ms_legacy.ppt_extractor",
        consts={"_RECORD_HEADER_SIZE": ("S2T.Gen.C12Consts.pptHeaderSize", NAT)},
        structs={"_RECORD_HEADER": "S2T.Gen.C12Consts.pptHeaderFmt"}),
    EX + "ms_legacy/xls_extractor.py": dict(
        pymod="sharepoint2text.parsing.extractors.ms_legacy.xls_extractor",
        consts={"_RECORD_HEADER_SIZE": ("S2T.Gen.C12Consts.xlsHeaderSize", NAT),
                "BLIP_TYPES": ("S2T.Gen.C12Consts.blipTypes", SetT(NAT))},
        structs={"_RECORD_HEADER": "S2T.Gen.C12Consts.xlsHeaderFmt"}),
    EX + "ms_legacy/doc_extractor.py": dict(
        pymod="sharepoint2text.parsing.extractors.ms_legacy.doc_extractor", consts={},
        structs={"_DIB24": "S2T.Gen.C12Consts.dibFmt"}),
    EX + "ms_legacy/rtf_extractor.py": dict(
        pymod="sharepoint2text.parsing.extractors.ms_legacy.rtf_extractor", consts={}, structs={}),
    EX + "data_types.py": dict(pymod="sharepoint2text.parsing.extractors.data_types", consts={}, structs={},
                               annot={"int": INT}),
    EX + "open_office/ods_extractor.py": dict(
        pymod="sharepoint2text.parsing.extractors.open_office.ods_extractor", consts={}, structs={}),
    EX + "pdf/pdf_extractor.py": dict(pymod="sharepoint2text.parsing.extractors.pdf.pdf_extractor", consts={}, structs={}),
    EX + "util/sevenzip.py": dict(
        pymod="sharepoint2text.parsing.extractors.util.sevenzip", consts={}, structs={},
        # the header stream: `self._stream` is a BytesIO; these reader methods are hand-modelled (S2T.Loops.readU8 …)
        # and enter the translation as primitives on (buffer, position); result types
        stream=dict(readers={"_read_uint8": ("szReadU8", 0, NAT), "_read_uint32": ("szReadU32", 0, NAT),
                             "_read_number": ("szReadNumber", 0, NAT), "_read_bytes": ("szReadBytes", 1, BYTES)},
                    exc=("Bad7zFile", ["Bad7zFile", "Exception", "BaseException"]))),
    EX + "util/omml_to_latex.py": dict(pymod="sharepoint2text.parsing.extractors.util.omml_to_latex", consts={}, structs={}),
}

# the whitelist: (Lean namespace, source, enclosing function, ordinal of the `while` in it, inputs = locals bound by
# code that is not translated ↦ type)
LOOPS = [
    dict(name="xls_filepass", src=EX + "util/encryption.py", func="is_xls_encrypted", nth=1, inputs={"data": BYTES}),
    dict(name="jpeg_dims", src=EX + "util/image_utils.py", func="get_jpeg_dimensions", nth=1),
    dict(name="sof_docx", src=EX + "ms_modern/docx_extractor.py", func="_get_image_pixel_dimensions", nth=1),
    dict(name="sof_xlsx", src=EX + "ms_modern/xlsx_extractor.py", func="_get_image_pixel_dimensions", nth=1),
    dict(name="sof_pptx", src=EX + "ms_modern/pptx_extractor.py", func="_get_image_pixel_dimensions", nth=1),
    dict(name="png_chunks", src=EX + "ms_legacy/doc_extractor.py", func="_DocReader._extract_png_images_from_bytes", nth=2,
         inputs={"start": NAT}),
    dict(name="ppt_iter", src=EX + "ms_legacy/ppt_extractor.py", func="_iter_records", nth=1),
    dict(name="xls_blip", src=EX + "ms_legacy/xls_extractor.py", func="_extract_images_from_workbook", nth=1,
         inputs={"data": BYTES}),
    dict(name="dib_carve", src=EX + "ms_legacy/doc_extractor.py", func="_DocReader._extract_images_from_word_document", nth=1),
    # RTF index walks (inner loops; `i`, `j` are set by the enclosing loop)
    dict(name="rtf_skip_group", src=EX + "ms_legacy/rtf_extractor.py", func="_RtfParser._remove_ignorable_groups", nth=2,
         inputs={"i": NAT}),
    dict(name="rtf_scan_alpha", src=EX + "ms_legacy/rtf_extractor.py", func="_RtfParser._strip_rtf_full_with_pages", nth=2,
         inputs={"i": NAT}),
    dict(name="rtf_scan_param", src=EX + "ms_legacy/rtf_extractor.py", func="_RtfParser._strip_rtf_full_with_pages", nth=3,
         inputs={"j": NAT}),
    dict(name="rtf_trim_back", src=EX + "ms_legacy/rtf_extractor.py", func="_RtfParser._strip_rtf_full_with_pages", nth=4,
         inputs={"control_word": STR}),
    # stack pops
    dict(name="pop_headings_doc", src=EX + "data_types.py", func="DocContent.iterate_units", nth=1, inputs={"level": INT}),
    dict(name="pop_headings_docx", src=EX + "data_types.py", func="DocxContent.iterate_units", nth=1, inputs={"level": INT}),
    dict(name="pop_headings_odt", src=EX + "data_types.py", func="OdtContent.iterate_units", nth=1, inputs={"heading_level": INT}),
    dict(name="pop_ended", src=EX + "ms_legacy/ppt_extractor.py", func="_parse_containers", nth=1),
    dict(name="trim_empty_rows", src=EX + "open_office/ods_extractor.py", func="_extract_sheet", nth=1),
    # 7z header stream loops (the reader methods stay hand-modelled: see SOURCES[...]["stream"])
    dict(name="sz_skip_props", src=EX + "util/sevenzip.py", func="SevenZipReader._parse_main_header", nth=1),
    dict(name="sz_read_name", src=EX + "util/sevenzip.py", func="SevenZipReader._parse_files_info", nth=2),
    dict(name="trailing_numeric", src=EX + "pdf/pdf_extractor.py", func="_TableExtractor._extract_row", nth=1,
         inputs={"tokens": Lst(STR)}),
]


def _parents(root):
    par = {}
    for p in ast.walk(root):
        for ch in ast.iter_child_nodes(p):
            par[ch] = p
    return par


def find_func(tree, qual):
    node = tree
    for part in qual.split("."):
        nxt = None
        for ch in ast.iter_child_nodes(node):
            if isinstance(ch, (ast.FunctionDef, ast.ClassDef)) and ch.name == part:
                nxt = ch
                break
        if nxt is None:
            # nested function: search deeper
            for ch in ast.walk(node):
                if isinstance(ch, (ast.FunctionDef, ast.ClassDef)) and ch.name == part and ch is not node:
                    nxt = ch
                    break
        if nxt is None:
            return None
        node = nxt
    return node


def own_whiles(fn):
    """`while` statements of fn in source order, not those of nested function definitions"""
    res = []

    def walk(n):
        for ch in ast.iter_child_nodes(n):
            if isinstance(ch, (ast.FunctionDef, ast.AsyncFunctionDef, ast.Lambda, ast.ClassDef)):
                continue
            if isinstance(ch, ast.While):
                res.append(ch)
            walk(ch)
    walk(fn)
    return sorted(res, key=lambda w: (w.lineno, w.col_offset))


class LoopMod(ModTr):
    def __init__(self, src, cfg, notes):
        self.name = "PyLoops"
        self.cfg = dict(cfg, src=src, uses=[], loggers={"logger"}, annot=dict(BASE_ANNOT, **cfg.get("annot", {})))
        self.notes = notes
        self.sigs = {}
        self.excs = {}
        self.funcrefs = {}
        self.pymod = fresh_import(cfg["pymod"])
        self.tree = parse(src)

    def const_int(self, name):
        """a module-level int constant (own or imported): runtime value, cross-checked with the AST literal of the
        module that defines it; -> value or None"""
        v = getattr(self.pymod, name, None)
        if not isinstance(v, int) or isinstance(v, bool):
            return None
        lit = self._literal(self.tree, name, self.pymod, 0)
        if lit is None:
            self.notes.append(f"{self.cfg['src']}: no module-level literal found for the int constant `{name}`")
        elif lit != v:
            self.notes.append(f"{self.cfg['src']}: runtime value of `{name}` ({v}) differs from the source literal ({lit})")
        return v

    def _literal(self, tree, name, pymod, depth):
        for node in tree.body:
            tgt = val = None
            if isinstance(node, ast.Assign) and len(node.targets) == 1:
                tgt, val = node.targets[0], node.value
            elif isinstance(node, ast.AnnAssign) and node.value is not None:
                tgt, val = node.target, node.value
            if isinstance(tgt, ast.Name) and tgt.id == name:
                try:
                    return _const_eval(val)
                except Exception:
                    return None
            if isinstance(node, ast.ImportFrom) and depth < 3 and any((a.asname or a.name) == name for a in node.names):
                orig = next(a.name for a in node.names if (a.asname or a.name) == name)
                try:
                    m = importlib.import_module(node.module) if node.level == 0 else None
                    rel = os.path.relpath(m.__file__, REPO)
                    return self._literal(parse(rel), orig, m, depth + 1)
                except Exception:
                    return None
        return None


class LoopTr(SeqFuncTr):
    def __init__(self, mod, fnode, qual, loop, spec):
        super().__init__(mod, fnode, spec)
        self.qual, self.loop, self.spec = qual, loop, spec
        self.is_generator = False          # `yield` inside the loop is handled here (state field py_yield)
        self.par = _parents(fnode)
        self.vt: dict = {}                 # name -> type (assumption of the current pass)
        self.seen: dict = {}               # name -> join of the types assigned in the current pass
        self.envvars: list = []
        self.statevars: list = []
        self.temps: list = []
        self.ora = 0
        self.oradoc: list = []
        self.ret_t = BOT
        self.yield_t = BOT
        self.pass_notes: list = []
        self._cache: dict = {}
        self.inner = 0                     # depth of inner loops / comprehensions while translating
        self.try_depth = 0
        self.fresh_lists: set = set()
        self.stream = mod.cfg.get("stream")
        self.uses_stream = False
        self.hoist: list = []              # statements that must run before the statement being translated
        self.guarded = 0                   # > 0 while translating an operand that Python evaluates conditionally
        self.prelude: list = []            # (name, code, type) of pre-loop bindings, in order
        self.inputs: list = []             # (name, type)
        self.eff = True

    # ------------------------------------------------------------------ diagnostics
    def note(self, node, msg):
        ln = getattr(node, "lineno", "?")
        s = f"{self.mod.cfg['src']}:{self.qual}:{ln}: {msg}"
        if s not in self.pass_notes:
            self.pass_notes.append(s)

    # ------------------------------------------------------------------ types
    def annot(self, node):
        """annotation -> type: the module's table, `list[T]` / `List[T]`, `tuple[A, B]`, `Optional[T]`, `T | None`;
        a container of values the translation does not look into is itself opaque"""
        if node is None:
            return None
        r = super().annot(node)
        if r is not None:
            return r
        if isinstance(node, ast.Constant) and isinstance(node.value, str):
            try:
                return self.annot(ast.parse(node.value, mode="eval").body)
            except SyntaxError:
                return None
        if isinstance(node, ast.Subscript):
            head = ast.unparse(node.value).split(".")[-1]
            args = node.slice.elts if isinstance(node.slice, ast.Tuple) else [node.slice]
            ts = [self.annot(a) or OPAQUE for a in args]
            if head in ("list", "List") and len(ts) == 1:
                return OPAQUE if ts[0] == OPAQUE else Lst(ts[0])
            if head in ("tuple", "Tuple") and ts and not any(isinstance(a, ast.Constant) and a.value is Ellipsis for a in args):
                return OPAQUE if all(t == OPAQUE for t in ts) else Tup(*ts)
            if head == "Optional" and len(ts) == 1:
                return OPAQUE if ts[0] == OPAQUE else Opt(ts[0])
            return None
        if isinstance(node, ast.BinOp) and isinstance(node.op, ast.BitOr):
            l, r2 = node.left, node.right
            if isinstance(r2, ast.Constant) and r2.value is None:
                t = self.annot(l)
                return None if t is None else (OPAQUE if t == OPAQUE else Opt(t))
        return None

    def declared_types(self):
        """name -> type of the annotated assignments `x: T = …` of the enclosing function"""
        out = {}
        for n in ast.walk(self.node):
            if isinstance(n, ast.AnnAssign) and isinstance(n.target, ast.Name):
                t = self.annot(n.annotation)
                if t is not None:
                    out[n.target.id] = t
        return out

    # ------------------------------------------------------------------ analysis
    def _mutated(self, node):
        """names of locals mutated in place inside `node` (`x.append(…)`, `x.pop()`, `x[i] = …`, …)"""
        out = []
        for n in ast.walk(node):
            if isinstance(n, ast.Call) and isinstance(n.func, ast.Attribute) and isinstance(n.func.value, ast.Name) \
                    and n.func.attr in ("append", "pop", "extend", "clear", "insert", "remove", "add", "update", "discard"):
                out.append(n.func.value.id)
            if isinstance(n, ast.Subscript) and isinstance(n.ctx, ast.Store) and isinstance(n.value, ast.Name):
                out.append(n.value.id)
        return out

    def _stores(self, node, skip_comp=True):
        out = []

        def walk(n):
            if isinstance(n, (ast.FunctionDef, ast.AsyncFunctionDef, ast.Lambda, ast.ClassDef)) and n is not node:
                return
            if skip_comp and isinstance(n, (ast.ListComp, ast.SetComp, ast.DictComp, ast.GeneratorExp)):
                return
            if isinstance(n, ast.Name) and isinstance(n.ctx, ast.Store) and n.id not in out:
                out.append(n.id)
            for ch in ast.iter_child_nodes(n):
                walk(ch)
        walk(node)
        return out

    def _for_targets(self, node):
        out = set()
        for n in ast.walk(node):
            if isinstance(n, ast.For):
                out |= set(self._targets(n.target))
            if isinstance(n, ast.ExceptHandler) and n.name:
                out.add(n.name)
        return out

    def _loads(self, node):
        out = []
        for n in ast.walk(node):
            if isinstance(n, ast.Name) and isinstance(n.ctx, ast.Load) and n.id not in out:
                out.append(n.id)
        return out

    def _occurrence_order(self):
        order = []
        for n in [self.loop.test] + list(self.loop.body):
            for m in sorted((x for x in ast.walk(n) if isinstance(x, ast.Name)), key=lambda x: (x.lineno, x.col_offset)):
                if m.id not in order:
                    order.append(m.id)
        return order

    def live_at_head(self, assigned):
        """names assigned in the loop that may be read, in the test or the body, before any assignment of the same iteration"""
        live = set()

        def reads(node, da):
            if node is None:
                return
            for m in ast.walk(node):
                if isinstance(m, ast.Name) and isinstance(m.ctx, ast.Load) and m.id in assigned and m.id not in da:
                    live.add(m.id)

        def targets_of(t):
            return set(self._targets(t))

        def walk(stmts, da):
            """-> set of definitely assigned names at the end, or None if control never falls off the end"""
            for st in stmts:
                if isinstance(st, ast.Assign):
                    reads(st.value, da)
                    for t in st.targets:
                        if not isinstance(t, (ast.Name, ast.Tuple, ast.List)):
                            reads(t, da)
                    for t in st.targets:
                        da |= targets_of(t)
                elif isinstance(st, ast.AnnAssign):
                    reads(st.value, da)
                    if st.value is not None:
                        da |= targets_of(st.target)
                elif isinstance(st, ast.AugAssign):
                    reads(st.value, da)
                    reads(ast.Name(id=st.target.id, ctx=ast.Load()) if isinstance(st.target, ast.Name) else st.target, da)
                    da |= targets_of(st.target)
                elif isinstance(st, ast.If):
                    reads(st.test, da)
                    a = walk(st.body, set(da))
                    b = walk(st.orelse, set(da))
                    if a is None and b is None:
                        return None
                    da = b if a is None else a if b is None else (a & b)
                elif isinstance(st, (ast.For, ast.While)):
                    if isinstance(st, ast.For):
                        reads(st.iter, da)
                        walk(st.body, set(da) | targets_of(st.target))
                    else:
                        reads(st.test, da)
                        walk(st.body, set(da))
                    walk(st.orelse, set(da))
                elif isinstance(st, ast.Try):
                    outs = [walk(st.body + st.orelse, set(da))]
                    for h in st.handlers:
                        outs.append(walk(h.body, set(da)))
                    outs = [o for o in outs if o is not None]
                    if st.finalbody:
                        walk(st.finalbody, set(da))
                    if not outs:
                        return None
                    r = outs[0]
                    for o in outs[1:]:
                        r = r & o
                    da = r
                elif isinstance(st, ast.With):
                    for it in st.items:
                        reads(it.context_expr, da)
                        if it.optional_vars is not None:
                            da |= targets_of(it.optional_vars)
                    r = walk(st.body, da)
                    if r is None:
                        return None
                    da = r
                elif isinstance(st, (ast.Return, ast.Raise, ast.Break, ast.Continue)):
                    reads(st, da)
                    return None
                else:
                    reads(st, da)
            return da

        reads(self.loop.test, set())
        walk(list(self.loop.body), set())
        return live

    def read_outside(self, name):
        """is `name` read after the loop (anywhere else in the function when the loop sits inside another loop)"""
        nested = False
        p = self.par.get(self.loop)
        while p is not None and p is not self.node:
            if isinstance(p, (ast.For, ast.While)):
                nested = True
            p = self.par.get(p)
        inside = {id(n) for n in ast.walk(self.loop)}
        for n in ast.walk(self.node):
            if isinstance(n, ast.Name) and n.id == name and isinstance(n.ctx, ast.Load) and id(n) not in inside:
                if nested or n.lineno > self.loop.end_lineno:
                    return True
        return False

    def path_blocks(self):
        """[(statement list, index of the statement that contains the loop)] from the function body down to the loop"""
        chain = []
        node = self.loop
        while node is not self.node:
            p = self.par[node]
            for fld in ("body", "orelse", "finalbody", "handlers"):
                blk = getattr(p, fld, None)
                if isinstance(blk, list) and node in blk:
                    if fld != "handlers":
                        chain.append((blk, blk.index(node), p))
                    break
            node = p
        return list(reversed(chain))

    def analyse_loop(self):
        loop = self.loop
        self.nonlocals = {}
        for n in ast.walk(self.node):
            if isinstance(n, (ast.Nonlocal, ast.Global)):
                for nm in n.names:
                    self.nonlocals[nm] = n
        if loop.orelse:
            self.note(loop, "while … else")
        fortg = self._for_targets(loop)
        assigned = [n for n in self._stores(loop) if n != "_"]
        plain = set()
        for n in ast.walk(loop):
            if isinstance(n, (ast.Assign, ast.AugAssign, ast.AnnAssign)):
                for t in (n.targets if isinstance(n, ast.Assign) else [n.target]):
                    plain |= set(self._targets(t))
            if isinstance(n, ast.With):
                for it in n.items:
                    if it.optional_vars is not None:
                        plain |= set(self._targets(it.optional_vars))
        assigned = [n for n in assigned if n in plain or n not in fortg]
        self.scoped = {n for n in fortg if n not in plain}
        # in-place mutated local lists count as assigned
        for n in ast.walk(loop):
            if isinstance(n, ast.Call) and isinstance(n.func, ast.Attribute) and isinstance(n.func.value, ast.Name) \
                    and n.func.attr in ("append", "pop", "extend", "clear") and n.func.value.id not in assigned \
                    and self.is_local(n.func.value.id):
                assigned.append(n.func.value.id)
                self.listmut.add(n.func.value.id)
        live = self.live_at_head(set(assigned))
        has_yield = any(isinstance(n, (ast.Yield, ast.YieldFrom)) for n in ast.walk(loop))
        order = self._occurrence_order()
        for n in order:
            if n in assigned:
                if n in live or self.read_outside(n) or n in self.listmut:
                    self.statevars.append(n)
                else:
                    self.temps.append(n)
        if has_yield:
            self.statevars.append("py_yield")
        local_names = self.local_names()
        for n in order:
            if n not in assigned and n not in self.scoped and n in local_names:
                self.envvars.append(n)
        for n in self.envvars + self.statevars + self.temps:
            if n in self.nonlocals:
                self.note(self.nonlocals[n], f"the loop's local `{n}` is declared global / nonlocal (a nested function or another "
                                             "module function may re-bind it)")

    def local_names(self):
        a = self.node.args
        names = {x.arg for x in list(a.args) + list(a.kwonlyargs) + list(a.posonlyargs)}
        if a.vararg: names.add(a.vararg.arg)
        if a.kwarg: names.add(a.kwarg.arg)
        names |= set(self._stores(self.node, skip_comp=True))
        return names

    def is_local(self, n):
        return n in self.local_names()

    # ------------------------------------------------------------------ pre-loop bindings
    def prebind(self):
        """types (and, where translatable, defining terms) of the loop's locals at loop entry"""
        a = self.node.args
        known = {}           # name -> type at loop entry
        binding = {}         # name -> (code, type, reads)
        order = []
        inputs = dict(self.spec.get("inputs", {}))
        for arg in list(a.args) + list(a.kwonlyargs):
            t = inputs.get(arg.arg) or self.annot(arg.annotation) or OPAQUE
            known[arg.arg] = t
        chain = self.path_blocks()
        self.vars = dict(known)
        self.declared = set(known)
        decl = self.declared_types()
        unknown = lambda n: inputs.get(n, decl.get(n, OPAQUE))
        for blk, idx, owner in chain:
            if isinstance(owner, (ast.For, ast.While)):
                # another iteration of an enclosing loop may have re-bound / mutated these before the loop is entered
                for n in self._stores(owner) + self._mutated(owner):
                    known[n] = unknown(n); binding.pop(n, None)
                    if n in order:
                        order.remove(n)
            if isinstance(owner, ast.For):
                for n in self._targets(owner.target):
                    known[n] = inputs.get(n, OPAQUE); binding.pop(n, None)
            if isinstance(owner, ast.With):
                for it in owner.items:
                    if it.optional_vars is not None:
                        for n in self._targets(it.optional_vars):
                            known[n] = inputs.get(n, OPAQUE); binding.pop(n, None)
            for st in blk[:idx]:
                simple = None
                if isinstance(st, ast.Assign) and len(st.targets) == 1 and isinstance(st.targets[0], ast.Name):
                    simple = (st.targets[0].id, st.value, st)
                elif isinstance(st, ast.AnnAssign) and isinstance(st.target, ast.Name) and st.value is not None:
                    simple = (st.target.id, st.value, st)
                if simple and simple[0] not in inputs:
                    n, val, stn = simple
                    self.vars = dict(known)
                    self.declared = set(known)
                    self.prebinding = True
                    self._cache = {}
                    saved = list(self.pass_notes)
                    if isinstance(val, ast.List) and not val.elts:
                        t = self.annot(stn.annotation) if isinstance(stn, ast.AnnAssign) else None
                        c, t, eff = ("[]", t, False) if t is not None and t[0] == "list" else ("()", OPAQUE, False)
                    else:
                        try:
                            c, t, eff = self._expr(val)
                        except Unsupported:
                            c, t, eff = "()", OPAQUE, False
                    self.pass_notes = saved
                    self.prebinding = False
                    if isinstance(stn, ast.AnnAssign) and t == NONE:
                        t2 = self.annot(stn.annotation)
                        if t2 is not None and t2[0] == "opt":
                            c, t = "none", t2
                    if t in (OPAQUE, UNK) or eff:
                        known[n] = OPAQUE if not eff else t
                        binding.pop(n, None)
                    else:
                        known[n] = t
                        binding[n] = (c, t, [x for x in self._loads(val)])
                        if n in order:
                            order.remove(n)
                        order.append(n)
                    continue
                for n in self._stores(st) + self._mutated(st):
                    known[n] = unknown(n)
                    binding.pop(n, None)
                    if n in order:
                        order.remove(n)
        for n, t in inputs.items():
            known[n] = t
            binding.pop(n, None)
        # a binding is usable only if everything it reads is (transitively) an input or a usable binding; re-bound
        # names between a binding and the loop would make its term stale: checked by construction (later binding wins,
        # and a binding that reads a name re-bound AFTER it is dropped)
        pos = {n: i for i, n in enumerate(order)}
        for n in list(order):
            c, t, reads = binding[n]
            for r in reads:
                if r in binding and pos.get(r, -1) > pos[n]:
                    binding.pop(n); order.remove(n); known[n] = t
                    break
        self.entry_types = known
        self.binding = {n: binding[n] for n in order if n in binding}
        self.binding_order = [n for n in order if n in binding]

    # ------------------------------------------------------------------ expressions
    def expr(self, e):
        k = id(e)
        if k in self._cache:
            return self._cache[k]
        conditional, c, p = False, e, self.par.get(e)
        while p is not None and not isinstance(p, ast.stmt):
            if (isinstance(p, ast.BoolOp) and p.values and p.values[0] is not c) or \
                    (isinstance(p, ast.IfExp) and p.test is not c) or isinstance(p, (ast.comprehension, ast.Lambda)) or \
                    (isinstance(p, ast.Compare) and len(p.ops) > 1 and p.left is not c and p.comparators[0] is not c):
                conditional = True
            c, p = p, self.par.get(p)
        if conditional:
            self.guarded += 1
            try:
                return self._expr_cached(e, k)
            finally:
                self.guarded -= 1
        return self._expr_cached(e, k)

    def _expr_cached(self, e, k):
        try:
            r = self._expr(e)
        except Unsupported as u:
            r = self.bad(e, str(u))
        self._cache[k] = r
        return r

    def bad(self, node, msg):
        self.note(node, msg)
        return "(default)", UNK, False

    def opaque(self, e, children):
        """an opaque value; its tracked sub-expressions that may raise are still evaluated, in order"""
        parts = []
        for ch in children:
            if ch is None:
                continue
            c, t, eff = self.expr(ch)
            if t[0] == "list" and isinstance(ch, ast.Name) and ch.id in self.listmut:
                self.note(ch, f"the tracked list `{ch.id}` is passed to a call that is not translated (it could be mutated there)")
            if eff:
                parts.append(c)
        if self.stream_state and any(isinstance(n, ast.Name) and n.id == "self" for n in ast.walk(e)):
            self.note(e, f"`{ast.unparse(e)[:60]}` involves `self` in a loop that reads the header stream: a method that is not "
                         "one of the mapped readers could move the stream position")
        if self.try_depth and isinstance(e, ast.Call):
            self.note(e, f"call `{ast.unparse(e.func)}(…)`, which is not translated, inside a `try` body (the exceptions "
                         "it may raise there are not modelled)")
        if parts:
            return f"({P}opq ({', '.join(parts)}))", OPAQUE, True
        return "()", OPAQUE, False

    def children_of(self, e):
        if isinstance(e, ast.Call):
            ch = []
            if isinstance(e.func, ast.Attribute):
                ch.append(e.func.value)
            ch += [a.value if isinstance(a, ast.Starred) else a for a in e.args] + [k.value for k in e.keywords]
            return ch
        return [c for c in ast.iter_child_nodes(e) if isinstance(c, ast.expr)]

    def has_bot(self, e):
        """does `e` read a local whose type the inference has not reached yet"""
        return any(isinstance(n, ast.Name) and isinstance(n.ctx, ast.Load) and self.vt.get(n.id) == BOT and n.id in self.declared
                   for n in ast.walk(e))

    def _expr(self, e):
        if self.has_bot(e):
            return "(default)", BOT, False
        r = self._expr_loop(e)
        if r is not None:
            return r
        try:
            return super()._expr(e)
        except Refuse:
            raise
        except Unsupported:
            if isinstance(e, (ast.Call, ast.Attribute, ast.Name, ast.Constant, ast.JoinedStr, ast.Lambda, ast.Dict,
                              ast.Set, ast.Starred, ast.FormattedValue)):
                return self.opaque(e, self.children_of(e))
            kids = self.children_of(e)
            if any(self.expr(k)[1] == OPAQUE for k in kids):
                return self.opaque(e, kids)
            raise

    def const_code(self, n):
        if n in self.mod.cfg["consts"]:
            return self.mod.cfg["consts"][n]
        v = self.mod.const_int(n) if not self.is_local(n) and not hasattr(builtins, n) else None
        if v is not None:
            return (f"({v} : Nat)", NAT) if v >= 0 else (f"({v} : Int)", INT)
        return None

    def struct_fmt(self, node):
        """(lean term of the format string, runtime format) for a format expression / a Struct constant"""
        if isinstance(node, ast.Constant) and isinstance(node.value, str):
            return lean_str(node.value), node.value
        if isinstance(node, ast.Name) and not self.is_local(node.id) and node.id in self.mod.cfg.get("structs", {}):
            import struct as _struct
            obj = getattr(self.mod.pymod, node.id, None)
            if not isinstance(obj, _struct.Struct):
                raise Refuse(f"`{node.id}` is not a struct.Struct at run time")
            return self.mod.cfg["structs"][node.id], obj.format
        return None

    def unpack_call(self, fmt, args, from_):
        code, rt = fmt
        unsigned = len(rt) > 1 and rt[0] in "<>" and all(ch in "BHIQ" for ch in rt[1:])
        if not (len(rt) > 1 and rt[0] in "<>" and all(ch in "BHIQbhiq" for ch in rt[1:])):
            raise Refuse(f"struct format {rt!r} is outside the modelled grammar (`<` / `>` + codes BHIQbhiq)")
        d, td, ed = self.expr(args[0])
        if td not in (BYTES, Lst(NAT)):
            raise Refuse(f"struct unpack of a value of type {tlean(td)}")
        if from_:
            if len(args) == 2:
                o, to, eo = self.expr(args[1])
                if not is_intish(to):
                    raise Refuse(f"unpack_from offset of type {tlean(to)}")
                o = as_int(o, to)
            else:
                o = "(0 : Int)"
            fn = "unpackFromU" if unsigned else "unpackFromI"
            return f"(← {P}{fn} {code} {d} {o})", Lst(NAT if unsigned else INT), True
        fn = "unpackU" if unsigned else "unpackI"
        return f"(← {P}{fn} {code} {d})", Lst(NAT if unsigned else INT), True

    def _expr_loop(self, e):
        if isinstance(e, ast.Constant):
            if isinstance(e.value, bytes):
                return "([" + ", ".join(str(b) for b in e.value) + "] : List Nat)", BYTES, False
            if isinstance(e.value, float) or e.value is Ellipsis:
                return "()", OPAQUE, False
            return None
        if isinstance(e, ast.Name):
            n = e.id
            if n in self.vt and n in self.declared:
                t = self.vt[n]
                if t in (OPAQUE, BOT):
                    return "()", OPAQUE, False
                if n in self.envvars and not self.prebinding:
                    return f"py_env.v{self.envvars.index(n)}", t, False
                if t[0] == "opt" and self.narrowed(n):
                    return f"(← S2T.Py.unwrap {ident(n)})", t[1], True
                return ident(n), t, False
            if n in self.vars and n in self.declared:
                t = self.vars[n]
                if t in (OPAQUE, BOT, UNK):
                    return "()", OPAQUE, False
                return None
            if self.is_local(n):
                return "()", OPAQUE, False          # a local this loop does not track
            cc = self.const_code(n)
            if cc is not None:
                return cc[0], cc[1], False
            return "()", OPAQUE, False              # a global that is not a mapped constant (module, class, function)
        if isinstance(e, ast.Attribute):
            c, t, eff = self.expr(e.value)
            if t == OPAQUE:
                return self.opaque(e, [e.value])
            return None
        if isinstance(e, ast.Call):
            return self._call_loop(e)
        if isinstance(e, ast.BoolOp) and isinstance(e.op, ast.Or) and len(e.values) == 2 \
                and isinstance(e.values[1], ast.Constant) and e.values[1].value is None:
            c, t, eff = self.expr(e.values[0])
            if t in (NAT, INT, BYTES, STR) or t[0] == "list":
                return f"({P}orNone {c})", Opt(t), eff
            if t == OPAQUE:
                return self.opaque(e, [e.values[0]])
            raise Unsupported(f"`x or None` on {tlean(t)}")
        if isinstance(e, ast.BinOp):
            a, ta, ea = self.expr(e.left)
            b, tb, eb = self.expr(e.right)
            if OPAQUE in (ta, tb):
                return self.opaque(e, [e.left, e.right])
            k = int_const(e.right)
            if isinstance(e.op, ast.LShift) and ta == NAT and tb == INT:
                return f"(← {P}shl {a} {b})", NAT, True
            if isinstance(e.op, (ast.FloorDiv, ast.Mod)) and ta == INT and k is not None and k > 0:
                return f"({a} {'/' if isinstance(e.op, ast.FloorDiv) else '%'} ({k} : Int))", INT, ea
            return None
        if isinstance(e, ast.IfExp):
            c, ec = self.cond(e.test)
            a, ta, ea = self.expr(e.body)
            b, tb, eb = self.expr(e.orelse)
            t = join(ta, tb)
            if t == OPAQUE:
                return self.opaque(e, [e.test, e.body, e.orelse])
            a, b = self.coerce(a, ta, t, e), self.coerce(b, tb, t, e)
            if ea or eb:
                return f"(← (do if {c} then pure {a} else pure {b} : S2T.Py.M {tlean(t)}))", t, True
            return f"(if {c} then {a} else {b})", t, ec
        if isinstance(e, ast.Subscript):
            c, t, eff = self.expr(e.value)
            if t == OPAQUE:
                return self.opaque(e, self.children_of(e))
            if t == STR and not isinstance(e.slice, ast.Slice):
                # a character of a str: not looked into (an opaque value), but the IndexError is kept
                k, tk, ek = self.expr(e.slice)
                if tk == NAT:
                    return f"({P}opq (← {P}getItemN {c} {k}))", OPAQUE, True
                if tk == INT:
                    return f"({P}opq (← S2T.Py.getItem {c} {k}))", OPAQUE, True
                raise Unsupported(f"str index of type {tlean(tk)}")
            if t == STR:
                return self.opaque(e, self.children_of(e))
            return None
        if isinstance(e, ast.List) and not e.elts:
            return "()", OPAQUE, False      # an empty list whose element type nothing fixes: not looked into
        if isinstance(e, ast.Tuple):
            parts = [self.expr(x) for x in e.elts]
            return "(" + ", ".join(p[0] for p in parts) + ")", Tup(*[p[1] for p in parts]), any(p[2] for p in parts)
        if isinstance(e, (ast.ListComp, ast.GeneratorExp, ast.SetComp, ast.DictComp)):
            self.inner += 1
            try:
                return None if isinstance(e, (ast.ListComp, ast.GeneratorExp)) else self.opaque(e, [])
            finally:
                self.inner -= 1
        return None

    def seq_subscript(self, c, t, eff, e):
        """indices / slice bounds that are non-negative by type go to the `Nat`-indexed forms (`getItemN`, `sliceN`,
        `List.drop`, `List.take`), PROVED equal to `Py.getItem` / `Py.slice` at the casts in lean/S2T/Py/Loops.lean"""
        s = e.slice
        if isinstance(s, ast.Slice):
            if s.step is None:
                lo = self.expr(s.lower) if s.lower is not None else None
                hi = self.expr(s.upper) if s.upper is not None else None
                if (lo is None or lo[1] == NAT) and (hi is None or hi[1] == NAT):
                    ef = eff or bool(lo and lo[2]) or bool(hi and hi[2])
                    if lo and hi:
                        return f"({P}sliceN {c} {lo[0]} {hi[0]})", t, ef
                    if lo:
                        return f"(List.drop {lo[0]} {c})", t, ef
                    if hi:
                        return f"(List.take {hi[0]} {c})", t, ef
                    return c, t, ef
        else:
            k, tk, ek = self.expr(s)
            if tk == NAT:
                return f"(← {P}getItemN {c} {k})", elt_of(t), True
        return super().seq_subscript(c, t, eff, e)

    def any_all(self, which, g):
        saved = (self.ora, list(self.oradoc), list(self.pass_notes))
        self.inner += 1
        try:
            r = super().any_all(which, g)
        except Unsupported:
            r = None
        finally:
            self.inner -= 1
        if r is None or self.ora != saved[0]:
            # the element test looks at opaque values: the whole `any(...)` / `all(...)` is one opaque value
            self.ora, self.oradoc, self.pass_notes = saved[0], saved[1], saved[2]
            c, t, eff = self.expr(g.generators[0].iter)
            return (f"({P}opq {c})", OPAQUE, True) if eff else ("()", OPAQUE, False)
        return r

    def comprehension(self, g):
        self.inner += 1
        try:
            return super().comprehension(g)
        finally:
            self.inner -= 1

    def stream_call(self, e):
        """`self._read_uint8()` … on the 7z header stream: `let r ← szReadU8 buffer pos; pos := r.pos` hoisted in front of
        the current statement, value `r.val`"""
        f = e.func
        if not (self.stream and isinstance(f, ast.Attribute) and isinstance(f.value, ast.Name) and f.value.id == "self"
                and f.attr in self.stream["readers"]):
            return None
        fn, nargs, rt = self.stream["readers"][f.attr]
        if e.keywords or len(e.args) != nargs:
            raise Refuse(f"self.{f.attr} with these arguments")
        if self.prebinding:
            return "(default)", rt, True       # in front of the loop: only the type is used (the local becomes an input)
        if self.guarded or self.inner:
            raise Refuse(f"self.{f.attr}() inside a conditionally evaluated operand / an inner loop (the stream position "
                         "is threaded through statements)")
        args = []
        for a in e.args:
            c, t, eff = self.expr(a)
            if t != NAT:
                raise Refuse(f"self.{f.attr} with an argument of type {tlean(t)}")
            args.append(c)
        self.uses_stream = True
        self.tmp += 1
        r = f"py_r{self.tmp}"
        self.hoist.append(f"let {r} ← {P}{fn} py_env.stream py_pos" + "".join(" " + a for a in args))
        self.hoist.append(f"py_pos := {r}.pos")
        return f"{r}.val", rt, False

    def _call_loop(self, e):
        r = self.stream_call(e)
        if r is not None:
            return r
        f = e.func
        d = None
        if isinstance(f, ast.Attribute):
            parts, node = [], f
            while isinstance(node, ast.Attribute):
                parts.append(node.attr); node = node.value
            if isinstance(node, ast.Name) and not self.is_local(node.id):
                d = ".".join(reversed(parts + [node.id]))
        if d == "int.from_bytes":
            kws = {k.arg: k.value for k in e.keywords}
            args = list(e.args)
            order = args[1] if len(args) > 1 else kws.pop("byteorder", None)
            signed = kws.pop("signed", None)
            if not args or kws or not (isinstance(order, ast.Constant) and order.value in ("big", "little")) \
                    or (signed is not None and not (isinstance(signed, ast.Constant) and isinstance(signed.value, bool))):
                raise Refuse("int.from_bytes with these arguments (byteorder must be the literal 'big' or 'little')")
            c, t, eff = self.expr(args[0])
            if t not in (BYTES, Lst(NAT)):
                raise Refuse(f"int.from_bytes of a value of type {tlean(t)}")
            big = "true" if order.value == "big" else "false"
            if signed is not None and signed.value:
                return f"({P}fromBytesSigned {big} {c})", INT, eff
            return f"({P}fromBytes {big} {c})", NAT, eff
        if d in ("struct.unpack", "struct.unpack_from") and not e.keywords and len(e.args) >= 2:
            fmt = self.struct_fmt(e.args[0])
            if fmt is None:
                raise Refuse("struct format that is neither a literal nor a mapped Struct constant")
            return self.unpack_call(fmt, e.args[1:], d.endswith("_from"))
        if isinstance(f, ast.Attribute) and f.attr in ("unpack", "unpack_from") and isinstance(f.value, ast.Name) \
                and not e.keywords and e.args:
            fmt = self.struct_fmt(f.value)
            if fmt is not None:
                return self.unpack_call(fmt, e.args, f.attr == "unpack_from")
        if isinstance(f, ast.Name) and not self.is_local(f.id):
            n = f.id
            if n == "abs" and len(e.args) == 1 and not e.keywords:
                c, t, eff = self.expr(e.args[0])
                if t == INT: return f"(Int.natAbs {c})", NAT, eff
                if t == NAT: return c, NAT, eff
                if t == OPAQUE: return self.opaque(e, e.args)
                raise Refuse(f"abs of {tlean(t)}")
            if n == "len" and len(e.args) == 1 and not e.keywords:
                c, t, eff = self.expr(e.args[0])
                if t == OPAQUE: return self.opaque(e, e.args)
                if t == STR: return f"(List.length {c})", NAT, eff
                return None
            cls = getattr(self.mod.pymod, n, None)
            if isinstance(cls, type) and issubclass(cls, tuple) and hasattr(cls, "_fields"):
                fields = list(cls._fields)
                given = {}
                for i, a in enumerate(e.args):
                    if i >= len(fields) or isinstance(a, ast.Starred):
                        raise Refuse(f"constructor call of the NamedTuple {n} with these arguments")
                    given[fields[i]] = a
                for k in e.keywords:
                    if k.arg not in fields or k.arg in given:
                        raise Refuse(f"constructor call of the NamedTuple {n} with keyword {k.arg!r}")
                    given[k.arg] = k.value
                if set(given) != set(fields):
                    raise Refuse(f"constructor call of the NamedTuple {n} without all fields (defaults are not modelled)")
                # Python evaluates the arguments in call order; the tuple lists them in field order: equal unless
                # two of them can raise
                vals = {k: self.expr(v) for k, v in given.items()}
                if sum(1 for v in vals.values() if v[2]) > 1 and list(given) != fields:
                    raise Refuse(f"NamedTuple {n}: several raising arguments given out of field order")
                if any(v[1] == OPAQUE for v in vals.values()):
                    return self.opaque(e, list(given.values()))
                return ("(" + ", ".join(vals[k][0] for k in fields) + ")", Tup(*[vals[k][1] for k in fields]),
                        any(v[2] for v in vals.values()))
        if isinstance(f, ast.Attribute):
            c, t, eff = self.expr(f.value)
            if t in (BYTES, Lst(NAT)) and not e.keywords:
                if f.attr == "find" and 1 <= len(e.args) <= 2:
                    p, tp, ep = self.expr(e.args[0])
                    if tp not in (BYTES, Lst(NAT)):
                        raise Refuse(f"bytes.find of a pattern of type {tlean(tp)}")
                    if len(e.args) == 2:
                        s, ts, es = self.expr(e.args[1])
                        if not is_intish(ts):
                            raise Refuse(f"bytes.find start of type {tlean(ts)}")
                        s = as_int(s, ts)
                    else:
                        s, es = "(0 : Int)", False
                    return f"({P}bytesFind {c} {p} {s})", INT, eff or ep or es
                if f.attr == "startswith" and len(e.args) == 1:
                    p, tp, ep = self.expr(e.args[0])
                    if tp in (BYTES, Lst(NAT)):
                        return f"({P}bytesStartswith {c} {p})", BOOL, eff or ep
                raise Refuse(f"method .{f.attr} on bytes with these arguments")
            if t[0] == "list" and isinstance(f.value, ast.Name) and f.value.id in self.listmut and f.attr == "pop" \
                    and not e.args and not e.keywords:
                raise Refuse("list.pop() used as a value inside an expression (only `x = xs.pop()`, `a, b = xs.pop()` "
                             "and the statement `xs.pop()` are translated)")
            if t == OPAQUE:
                return self.opaque(e, self.children_of(e))
        return None

    def coerce(self, code, t, want, node):
        if want is None or t == want or want in (UNK, OPAQUE, BOT) or t == UNK:
            return code
        if t == NAT and want == INT:
            return as_int(code, t)
        if t == NONE and want[0] == "opt":
            return "none"
        if want[0] == "opt" and t[0] != "opt":
            return f"(some {self.coerce(code, t, want[1], node)})"
        if t == BYTES and want == Lst(NAT) or t == Lst(NAT) and want == BYTES:
            return code
        if t[0] == "tuple" and want[0] == "tuple" and len(t[1]) == len(want[1]) and code.startswith("("):
            return code if all(join(x, y) == y for x, y in zip(t[1], want[1])) and t[1] == want[1] else \
                self._coerce_fail(code, t, want, node)
        return self._coerce_fail(code, t, want, node)

    def _coerce_fail(self, code, t, want, node):
        self.note(node, f"type mismatch: have {tlean(t)}, need {tlean(want)}")
        return "(default)"

    # ------------------------------------------------------------------ conditions
    def oracle(self, e, effs=()):
        if self.inner:
            self.note(e, "a condition on an opaque value inside an inner loop / comprehension (one oracle bit per "
                         "iteration of the translated loop would not cover it)")
        k = self.ora
        self.ora += 1
        self.oradoc.append(f"{k}: `{ast.unparse(e)[:90]}` (line {e.lineno})")
        if effs:
            return f"({P}opq ({', '.join(effs)}) |> fun _ => py_ora py_s {k})", True
        return f"(py_ora py_s {k})", False

    def cond(self, e):
        c, eff = self._cond(e)
        return (f"({c})" if c.startswith("decide ") else c), eff

    def _cond(self, e):
        if self.has_bot(e):
            return "(default)", False
        if isinstance(e, ast.BoolOp) or (isinstance(e, ast.UnaryOp) and isinstance(e.op, ast.Not)):
            return super().cond(e)
        if isinstance(e, ast.Compare):
            return self.compare(e)
        c, t, eff = self.expr(e)
        if t == OPAQUE:
            return self.oracle(e, [c] if eff else [])
        if t == BOOL:
            return c, eff
        if t in (INT, STR, NAT, BYTES) or t[0] in ("opt", "list"):
            return f"(S2T.Py.truthy {c})", eff
        if t != UNK:
            self.note(e, f"truthiness of a value of type {tlean(t)}")
        return "(default)", eff

    def compare(self, e):
        operands = [e.left] + list(e.comparators)
        vals = [self.expr(x) for x in operands]
        if any(v[1] == OPAQUE for v in vals):
            return self.oracle(e, [v[0] for v in vals if v[2]])
        if len(e.ops) == 1 and isinstance(e.ops[0], (ast.In, ast.NotIn)):
            (a, ta, ea), (b, tb, eb) = vals
            rn = operands[1]
            if isinstance(rn, (ast.Tuple, ast.List, ast.Set)) and rn.elts and is_intish(ta) \
                    and all(int_const(x) is not None for x in rn.elts):
                vs = [int_const(x) for x in rn.elts]
                if ta == NAT and all(v >= 0 for v in vs):
                    c = "([" + ", ".join(f"({v} : Nat)" for v in vs) + f"].contains {a})"
                else:
                    c = "([" + ", ".join(f"({v} : Int)" for v in vs) + f"].contains {as_int(a, ta)})"
                return (c if isinstance(e.ops[0], ast.In) else f"(!{c})"), ea
            if tb[0] in ("set", "list") and tb[1] == NAT and ta == NAT:
                c = f"({b}.contains {a})"
                return (c if isinstance(e.ops[0], ast.In) else f"(!{c})"), ea or eb
            if tb[0] == "tuple" and tb[1] and all(x == ta for x in tb[1]) and ta in (NAT, INT, BYTES, STR):
                c = f"([{b[1:-1]}].contains {a})"
                return (c if isinstance(e.ops[0], ast.In) else f"(!{c})"), ea or eb
        if len(e.ops) == 1 and isinstance(e.ops[0], (ast.Is, ast.IsNot)) and vals[0][1][0] == "opt" \
                and isinstance(operands[1], ast.Constant) and operands[1].value is None and not isinstance(operands[0], ast.Name):
            c = f"{vals[0][0]}.isNone" if isinstance(e.ops[0], ast.Is) else f"{vals[0][0]}.isSome"
            return c, vals[0][2]
        return super().compare(e)

    # ------------------------------------------------------------------ statements
    def state_code(self):
        fields = [ident(n) for n in self.statevars if self.vt.get(n, BOT) not in (OPAQUE, BOT)]
        if self.stream_state:
            fields.append("py_pos")
        return "(State.mk" + "".join(" " + f for f in fields) + ")"

    def set_var(self, name, code, t, node, out, ind):
        """assignment to a pre-declared local of the loop"""
        if name == "_":
            if "(←" in code:
                out.append(f"{ind}let _ := {code}")
            return
        self.seen[name] = join(self.seen.get(name, BOT), t)
        want = self.vt.get(name, BOT)
        self.kill(name)
        if t == BOT:
            return
        if want in (OPAQUE, BOT) or t == OPAQUE:
            if "(←" in code:
                out.append(f"{ind}let _ := {code}")
            return
        if join(want, t) != want:
            out.append(f"{ind}let _ := {code}  -- (type of `{name}` still being inferred)")
            return
        out.append(f"{ind}{ident(name)} := {self.coerce(code, t, want, node)}")
        if want[0] == "opt" and t != NONE and t[0] != "opt":
            self.narrow[-1].add(name)

    def assign_to(self, target, code, t, node, out, ind, monadic_rhs=False):
        if isinstance(target, ast.Name):
            if target.id in self.vt or target.id == "_":
                return self.set_var(target.id, code, t, node, out, ind)
            raise Unsupported(f"assignment to `{target.id}`, which the loop analysis did not classify")
        if isinstance(target, (ast.Tuple, ast.List)) and all(isinstance(x, ast.Name) for x in target.elts):
            names = [x.id for x in target.elts]
            if t == OPAQUE:
                for n in names:
                    self.set_var(n, "()", OPAQUE, node, out, ind)
                if "(←" in code:
                    out.append(f"{ind}let _ := {code}")
                return
            if is_seq(t):
                self.tmp += 1
                tmps = [f"py_u{self.tmp}_{i}" for i in range(len(names))]
                out.append(f"{ind}let [{', '.join(tmps)}] := {code} | throw S2T.Py.unpackError")
                for n, tm in zip(names, tmps):
                    self.set_var(n, tm, elt_of(t), node, out, ind)
                return
            if t[0] == "tuple" and len(t[1]) == len(names):
                self.tmp += 1
                tmp = f"py_t{self.tmp}"
                out.append(f"{ind}let {tmp} : {tlean(t)} := {code}")
                k = len(names)
                for i, n in enumerate(names):
                    proj = ".2" * i + (".1" if i < k - 1 else "")
                    self.set_var(n, f"{tmp}{proj}", t[1][i], node, out, ind)
                return
        if isinstance(target, (ast.Attribute, ast.Subscript)):
            c, tv, eff = self.expr(target.value)
            if tv == OPAQUE:
                if "(←" in code:
                    out.append(f"{ind}let _ := {code}")
                return
        raise Unsupported(f"assignment target {ast.unparse(target)} with a value of type {tlean(t)}")

    def raise_code(self, st):
        exc = st.exc
        if isinstance(exc, ast.Call):
            exc = exc.func
        if not isinstance(exc, ast.Name):
            raise Unsupported(f"raise of {ast.unparse(st.exc) if st.exc else 'the current exception'}")
        cls = self.mod.exc_class(exc.id)
        raises = sorted((n for n in ast.walk(self.node) if isinstance(n, ast.Raise)), key=lambda n: (n.lineno, n.col_offset))
        return f"throw ({cls} {lean_str(self.node.name)} {raises.index(st)})"

    def handler_test(self, h, evar):
        if h.type is None:
            return "true"
        tys = h.type.elts if isinstance(h.type, ast.Tuple) else [h.type]
        names = []
        for ty in tys:
            if isinstance(ty, ast.Name):
                names.append(self.mod.exc_name(ty.id))
                continue
            obj = None
            if isinstance(ty, ast.Attribute) and isinstance(ty.value, ast.Name):
                obj = getattr(getattr(self.mod.pymod, ty.value.id, None), ty.attr, None)
            if not (isinstance(obj, type) and issubclass(obj, BaseException)):
                raise Unsupported(f"except clause `{ast.unparse(ty)}` is not an exception class")
            names.append(obj.__name__ if obj.__module__ == "builtins" else f"{obj.__module__}.{obj.__name__}")
        return "(" + " || ".join(f"{evar}.isa {lean_str(n)}" for n in names) + ")"

    def try_stmt(self, st, out, ind, in_loop):
        if st.finalbody or st.orelse:
            raise Unsupported("try … finally / else")
        self.try_depth += 1
        body = self.block(st.body, ind + "  ", in_loop)
        self.try_depth -= 1
        evar = "py_exc"
        hl, first = [], True
        for h in st.handlers:
            test = self.handler_test(h, evar)
            if h.name:
                self.vt[h.name] = OPAQUE
                self.declared.add(h.name)
            hb = self.block(h.body, ind + "    ", in_loop)
            hl.append(f"{ind}  {'if' if first else 'else if'} {test} then")
            hl += hb
            first = False
        hl.append(f"{ind}  else throw {evar}")
        out.append(f"{ind}try")
        out += body
        out.append(f"{ind}catch {evar} =>")
        out += hl

    def block(self, stmts, ind, in_loop, in_try=False, keep=False):
        out = []
        self.narrow.append(set())
        for st in stmts:
            self._cache = {}
            self.stmt(st, out, ind, in_loop, False)
            if isinstance(st, ast.If) and not st.orelse and self.terminal(st.body):
                self.narrow[-1] |= self.facts(st.test, False)
        self.narrow.pop()
        if not out:
            out.append(f"{ind}pure ()")
        return out

    def stmt(self, st, out, ind, in_loop, in_try):
        outer, self.hoist = self.hoist, []
        lines = []
        try:
            self._stmt(st, lines, ind, in_loop, in_try)
        except Unsupported as u:
            self.note(st, str(u))
            lines.append(f"{ind}let _ := (default : Unit)  -- UNSUPPORTED: {str(u)[:80]}")
        out += [ind + h for h in self.hoist] + lines
        self.hoist = outer

    def _stmt(self, st, out, ind, in_loop, in_try):
        if isinstance(st, ast.Expr) and isinstance(st.value, ast.Constant):
            return
        if self.is_logging(st) or isinstance(st, ast.Pass):
            return
        if isinstance(st, ast.Continue):
            out.append(f"{ind}continue" if in_loop else f"{ind}return ({P}Step.next {self.state_code()})")
            return
        if isinstance(st, ast.Break):
            out.append(f"{ind}break" if in_loop else f"{ind}return ({P}Step.brk {self.state_code()})")
            return
        if isinstance(st, ast.Return):
            if st.value is None:
                c, t = "()", NONE
            else:
                c, t, _ = self.expr(st.value)
            self.ret_seen = join(self.ret_seen, t)
            if join(self.ret_t, t) != self.ret_t:
                out.append(f"{ind}let _ := {c}  -- (return type still being inferred)")
                return
            if self.ret_t == OPAQUE:
                c = "()"
            out.append(f"{ind}return ({P}Step.ret {self.coerce(c, t, self.ret_t, st)})")
            return
        if isinstance(st, ast.Expr) and isinstance(st.value, (ast.Yield, ast.YieldFrom)):
            if isinstance(st.value, ast.YieldFrom) or st.value.value is None:
                raise Unsupported("bare yield / yield from")
            if in_loop:
                raise Unsupported("yield inside an inner loop")
            c, t, eff = self.expr(st.value.value)
            self.seen["py_yield"] = join(self.seen.get("py_yield", BOT), OPAQUE if t == OPAQUE else Lst(t))
            want = self.vt.get("py_yield", BOT)
            if want[0] == "list" and join(want[1], t) == want[1]:
                out.append(f"{ind}py_yield := py_yield ++ [{self.coerce(c, t, want[1], st)}]")
            elif "(←" in c:
                out.append(f"{ind}let _ := {c}")
            return
        if isinstance(st, ast.Expr) and isinstance(st.value, ast.Call):
            c = st.value
            f = c.func
            if isinstance(f, ast.Attribute) and isinstance(f.value, ast.Name) and f.value.id in self.listmut \
                    and self.vt.get(f.value.id, BOT)[0] == "list":
                v = f.value.id
                tv = self.vt[v]
                if f.attr == "pop" and not c.args and not c.keywords:
                    out.append(f"{ind}{ident(v)} := (← {P}listPop {ident(v)}).2")
                    return
                if f.attr == "append" and len(c.args) == 1 and not c.keywords:
                    a, ta, ea = self.expr(c.args[0])
                    self.seen[v] = join(self.seen.get(v, BOT), Lst(ta))
                    if join(tv[1], ta) == tv[1]:
                        out.append(f"{ind}{ident(v)} := {ident(v)} ++ [{self.coerce(a, ta, tv[1], st)}]")
                    return
                raise Unsupported(f".{f.attr} on the tracked list `{v}` with these arguments")
            code, t, eff = self.expr(c)
            if t == OPAQUE:
                if eff:
                    out.append(f"{ind}let _ := {code}")
                return
            if eff:
                out.append(f"{ind}let _ := {code}")
            return
        if isinstance(st, (ast.Assign, ast.AnnAssign)):
            if st.value is None:
                return
            targets = st.targets if isinstance(st, ast.Assign) else [st.target]
            if len(targets) != 1:
                raise Unsupported("chained assignment")
            tg = targets[0]
            # x = xs.pop() / a, b = xs.pop() on a tracked list
            v = st.value
            if isinstance(v, ast.Call) and isinstance(v.func, ast.Attribute) and v.func.attr == "pop" and not v.args \
                    and not v.keywords and isinstance(v.func.value, ast.Name) and v.func.value.id in self.listmut \
                    and self.vt.get(v.func.value.id, BOT)[0] == "list":
                lv = v.func.value.id
                self.tmp += 1
                tmp = f"py_p{self.tmp}"
                out.append(f"{ind}let {tmp} ← {P}listPop {ident(lv)}")
                out.append(f"{ind}{ident(lv)} := {tmp}.2")
                self.assign_to(tg, f"{tmp}.1", self.vt[lv][1], st, out, ind)
                return
            if isinstance(v, ast.List) and not v.elts and isinstance(tg, ast.Name) and self.vt.get(tg.id, BOT)[0] == "list":
                self.set_var(tg.id, "[]", self.vt[tg.id], st, out, ind)
                return
            c, t, eff = self.expr(v)
            self.assign_to(tg, c, t, st, out, ind)
            return
        if isinstance(st, ast.AugAssign):
            if not isinstance(st.target, ast.Name):
                c, tv, eff = self.expr(st.target.value) if isinstance(st.target, (ast.Attribute, ast.Subscript)) else ("", UNK, False)
                if tv == OPAQUE:
                    return
                raise Unsupported("augmented assignment to something that is not a local name")
            e = ast.copy_location(ast.BinOp(left=ast.copy_location(ast.Name(id=st.target.id, ctx=ast.Load()), st.target),
                                            op=st.op, right=st.value), st)
            ast.fix_missing_locations(e)
            c, t, eff = self.expr(e)
            self.assign_to(st.target, c, t, st, out, ind)
            return
        if isinstance(st, ast.If):
            c, _ = self.cond(st.test)
            out.append(f"{ind}if {c} then")
            self.narrow.append(self.facts(st.test, True))
            out += self.block(st.body, ind + "  ", in_loop)
            self.narrow.pop()
            if st.orelse:
                self.narrow.append(self.facts(st.test, False))
                if len(st.orelse) == 1 and isinstance(st.orelse[0], ast.If):
                    sub = self.block(st.orelse, ind, in_loop)
                    sub[0] = f"{ind}else " + sub[0].lstrip()
                    out += sub
                else:
                    out.append(f"{ind}else")
                    out += self.block(st.orelse, ind + "  ", in_loop)
                self.narrow.pop()
            return
        if isinstance(st, ast.For):
            self.inner += 1
            try:
                return self.for_stmt(st, out, ind, False)
            finally:
                self.inner -= 1
        if isinstance(st, ast.Try):
            return self.try_stmt(st, out, ind, in_loop)
        if isinstance(st, ast.Raise):
            out.append(f"{ind}{self.raise_code(st)}")
            return
        if isinstance(st, ast.While):
            raise Unsupported("a `while` loop nested in the translated loop body")
        raise Unsupported(f"statement {type(st).__name__}")

    def for_stmt(self, st, out, ind, in_try):
        it, tel, _ = None, None, None
        try:
            it, tel, _ = self.iterable(st.iter)
        except Unsupported:
            c, t, eff = self.expr(st.iter)
            if t != OPAQUE:
                raise
            raise Unsupported("a `for` loop over an opaque value inside the translated loop body")
        names = self._targets(st.target)
        if any(n in self.vt for n in names if n != "_"):
            raise Unsupported("loop variable of an inner `for` is also assigned elsewhere in the loop")
        for n in names:
            if self.read_after_node(n, st):
                raise Unsupported("loop variable of an inner `for` is read after that loop")
        saved = {n: (self.vt.get(n), n in self.declared) for n in names}
        if isinstance(st.target, ast.Name):
            pat = ident(st.target.id)
            self.vt[st.target.id] = tel
            self.declared.add(st.target.id)
        elif isinstance(st.target, ast.Tuple) and tel[0] == "tuple" and len(tel[1]) == len(st.target.elts) \
                and all(isinstance(x, ast.Name) for x in st.target.elts):
            for x, tt in zip(st.target.elts, tel[1]):
                self.vt[x.id] = tt
                self.declared.add(x.id)
            pat = "(" + ", ".join("_" if x.id == "_" else ident(x.id) for x in st.target.elts) + ")"
        else:
            raise Unsupported("loop target shape")
        if st.orelse:
            raise Unsupported("for … else")
        out.append(f"{ind}for {pat} in {it} do")
        out += self.block(st.body, ind + "  ", True)
        for n, (t, d) in saved.items():
            if t is None:
                self.vt.pop(n, None)
            else:
                self.vt[n] = t
            if not d:
                self.declared.discard(n)

    def read_after_node(self, name, st):
        inside = {id(n) for n in ast.walk(st)}
        return any(isinstance(n, ast.Name) and n.id == name and isinstance(n.ctx, ast.Load) and id(n) not in inside
                   and n.lineno >= st.lineno for n in ast.walk(self.loop)) or (name in self.statevars)

    # ------------------------------------------------------------------ list aliasing
    def check_lists(self):
        """a tracked list mutated in place must be bound to fresh lists only, in the whole function, and must not escape"""
        for v in self.listmut:
            for n in ast.walk(self.node):
                if isinstance(n, (ast.Assign, ast.AnnAssign)) and n.value is not None:
                    for t in (n.targets if isinstance(n, ast.Assign) else [n.target]):
                        if isinstance(t, ast.Name) and t.id == v and not self.is_fresh(n.value):
                            self.note(n, f"in-place mutated list `{v}` is bound to `{ast.unparse(n.value)[:60]}`, which may alias another list")
                if isinstance(n, ast.Name) and n.id == v and isinstance(n.ctx, ast.Load):
                    p = self.par.get(n)
                    ok = (isinstance(p, ast.Subscript) and p.value is n) or isinstance(p, (ast.BoolOp, ast.Compare, ast.While, ast.If, ast.UnaryOp)) \
                        or (isinstance(p, ast.Attribute) and p.attr in ("append", "pop", "extend", "clear", "reverse", "sort") and isinstance(self.par.get(p), ast.Call)) \
                        or isinstance(p, ast.Return) or (isinstance(p, ast.Tuple) and isinstance(self.par.get(p), ast.Return)) \
                        or (isinstance(p, ast.Call) and isinstance(p.func, ast.Name) and p.func.id in ("len", "list", "tuple", "bool", "sum") and n in p.args) \
                        or (isinstance(p, (ast.For, ast.comprehension)) and p.iter is n)
                    if not ok:
                        self.note(n, f"in-place mutated list `{v}` escapes in `{ast.unparse(p)[:60]}` (aliasing is not modelled)")

    # ------------------------------------------------------------------ the loop
    def one_pass(self):
        self.pass_notes = []
        self.seen = {}
        self.ret_seen = BOT
        self.ora = 0
        self.oradoc = []
        self.tmp = 0
        self.narrow = [set()]
        self._cache = {}
        self.inner = 0
        self.try_depth = 0
        self.prebinding = False
        self.vars = self.vt
        self.declared = set(self.vt)
        self.hoist = []
        self.guarded = 0
        self.analyse_notes()
        test, teff = self.cond(self.loop.test)
        if self.hoist:
            self.note(self.loop.test, "a stream reader call inside the loop test")
            self.hoist = []
        body = self.block(list(self.loop.body), "  ", False)
        return test, body

    def analyse_notes(self):
        for n in self._an_notes:
            if n not in self.pass_notes:
                self.pass_notes.append(n)

    def translate_loop(self):
        self.stream_state = bool(self.stream) and any(
            isinstance(n, ast.Call) and isinstance(n.func, ast.Attribute) and isinstance(n.func.value, ast.Name)
            and n.func.value.id == "self" and n.func.attr in self.stream["readers"] for n in ast.walk(self.loop))
        if self.stream_state:
            cls = getattr(self.mod.pymod, self.stream["exc"][0], None)
            mro = [c.__name__ for c in getattr(cls, "__mro__", ()) if c is not object]
            if mro != self.stream["exc"][1]:
                self.mod.notes.append(f"{self.mod.cfg['src']}: {self.stream['exc'][0]}.__mro__ is {mro}, the prelude assumes {self.stream['exc'][1]}")
        self.listmut = set()
        self.prebinding = False
        self.pass_notes = []
        self.analyse_loop()
        self.prebind()
        self._an_notes = list(self.pass_notes)
        et = self.entry_types
        self.vt = {}
        for n in self.envvars:
            self.vt[n] = et.get(n, OPAQUE)
        for n in self.statevars:
            self.vt[n] = et.get(n, BOT) if n != "py_yield" else BOT
        for n in self.temps:
            self.vt[n] = BOT
        self.ret_t = BOT
        for _ in range(12):
            test, body = self.one_pass()
            if os.environ.get("PYLOOPS_DEBUG"):
                print("PASS", dict(self.vt), self.pass_notes)
            changed = False
            for n, t in self.seen.items():
                j = join(self.vt.get(n, BOT), t)
                if j != self.vt.get(n, BOT):
                    self.vt[n] = j
                    changed = True
            j = join(self.ret_t, self.ret_seen)
            if j != self.ret_t:
                self.ret_t = j
                changed = True
            if not changed:
                break
        else:
            self.pass_notes.append(f"{self.mod.cfg['src']}:{self.qual}: type inference of the loop's locals did not converge")
        for n, t in self.vt.items():
            if t == BOT and n != "py_yield":
                self.pass_notes.append(f"{self.mod.cfg['src']}:{self.qual}: no type could be inferred for the loop's local `{n}`")
        self.listmut = {v for v in self.listmut if self.vt.get(v, BOT)[0] == "list"}
        self.check_lists()
        notes = self.pass_notes
        tracked = lambda n: self.vt.get(n, BOT) not in (OPAQUE, BOT)
        env = [n for n in self.envvars if tracked(n)]
        state = [n for n in self.statevars if tracked(n)]
        temps = [n for n in self.temps if tracked(n)]
        name = self.spec["name"]
        L = [f"namespace {name}\n"]
        L.append(f"/-- the locals `while {ast.unparse(self.loop.test)[:100]}:` (loop {self.spec['nth']} of `{self.qual}`, "
                 f"{self.mod.cfg['src']}) only reads -/")
        L.append("structure Env where")
        for n in self.envvars:
            if tracked(n):
                L.append(f"  /-- `{n}` -/\n  v{self.envvars.index(n)} : {tlean(self.vt[n])}")
        if self.stream_state:
            L.append("  /-- the buffer of `self._stream` (the header `BytesIO`) -/\n  stream : (List Nat)")
        L.append("deriving DecidableEq, Repr")
        L.append("\n/-- the locals assigned in the loop body that are live at the loop head or read after the loop"
                 + ("".join(f"; `{n}`: opaque, not tracked" for n in self.statevars if not tracked(n))) + " -/")
        L.append("structure State where")
        for i, n in enumerate(state):
            L.append(f"  /-- `{n}` -/\n  v{i} : {tlean(self.vt[n])}")
        if self.stream_state:
            L.append("  /-- the position of `self._stream` -/\n  pos : Nat")
        L.append("deriving DecidableEq, Repr\n")
        ret = self.ret_t if self.ret_t != BOT else NONE
        L.append(f"/-- type of the values `return`ed inside the loop -/\nabbrev Ret := {tlean(ret)}\n")
        doc = [f"one iteration: the test, then the body, of the `while` statement at line {self.loop.lineno} of "
               f"{self.mod.cfg['src']} (`{self.qual}`)."]
        if temps:
            doc.append("temporaries (assigned before every read of the same iteration): " + ", ".join(f"`{n}`" for n in temps))
        if self.oradoc:
            doc.append("oracle bits (conditions on opaque values): " + "; ".join(self.oradoc))
        L.append("/-- " + "\n    ".join(doc) + " -/")
        L.append(f"def step (py_env : Env) (py_ora : State → Nat → Bool) (py_s : State) : S2T.Py.M ({P}Step State Ret) := do")
        for i, n in enumerate(state):
            L.append(f"  let mut {ident(n)} : {tlean(self.vt[n])} := py_s.v{i}")
        for n in temps:
            L.append(f"  let mut {ident(n)} : {tlean(self.vt[n])} := default")
        if self.stream_state:
            L.append("  let mut py_pos : Nat := py_s.pos")
        L.append(f"  if !({test}) then")
        L.append(f"    return {P}Step.stop")
        L += body
        L.append(f"  return ({P}Step.next {self.state_code()})\n")
        L.append("/-- `none` = the loop exits (test false / `break` / `return`), `some s'` = one more iteration -/")
        L.append("def stepO (py_env : Env) (py_ora : State → Nat → Bool) (py_s : State) : S2T.Py.M (Option State) :=")
        L.append(f"  (step py_env py_ora py_s).map {P}Step.toOption\n")
        # init
        need = []

        def want(n):
            if n in need:
                return
            if n in self.binding:
                for r in self.binding[n][2]:
                    if r in self.binding or r in et:
                        want(r)
            need.append(n)
        for n in env + state:
            if n != "py_yield":
                want(n)
        inputs = [n for n in need if n not in self.binding]
        bad_inputs = [n for n in inputs if et.get(n, OPAQUE) in (OPAQUE, BOT, UNK) and n in env + state]
        for n in bad_inputs:
            notes.append(f"{self.mod.cfg['src']}:{self.qual}: the loop's local `{n}` (type {tlean(self.vt[n])}) is bound before the loop "
                         "by code that is not translated and the whitelist gives it no type (`inputs`)")
        inputs = [n for n in inputs if et.get(n, OPAQUE) not in (OPAQUE, BOT, UNK)]
        for n in env + state:
            if n != "py_yield" and n not in self.binding and join(et.get(n, BOT), self.vt[n]) != self.vt[n]:
                notes.append(f"{self.mod.cfg['src']}:{self.qual}: `{n}` enters the loop as {tlean(et.get(n, BOT))} but is used as {tlean(self.vt[n])}")
        ps = "".join(f" ({ident(n)} : {tlean(et[n])})" for n in inputs)
        if self.stream_state:
            ps += " (py_stream : (List Nat)) (py_pos : Nat)"
        L.append("/-- the loop's locals at loop entry, from the straight-line assignments that precede the loop in the function"
                 + (" (inputs: " + ", ".join(f"`{n}`" for n in inputs) + " — bound by code that is not translated)" if inputs else "") + " -/")
        L.append(f"def init{ps} : Env × State :=")
        for n in need:
            if n in self.binding:
                c, t, _ = self.binding[n]
                L.append(f"  let {ident(n)} : {tlean(t)} := {c}")
        envc = "(Env.mk" + "".join(" " + self.coerce(ident(n), et_or(self, n), self.vt[n], self.loop) for n in env) \
            + (" py_stream" if self.stream_state else "") + ")"
        stc = "(State.mk" + "".join(" " + ("[]" if n == "py_yield" else self.coerce(ident(n), et_or(self, n), self.vt[n], self.loop))
                                    for n in state) + (" py_pos" if self.stream_state else "") + ")"
        L.append(f"  ({envc}, {stc})\n")
        L.append(f"end {name}\n")
        self.summary = (name, self.mod.cfg["src"], self.qual, ast.unparse(self.loop.test),
                        [n for n in env], [n for n in state])
        return "\n".join(L), notes


def et_or(tr, n):
    if n in tr.binding:
        return tr.binding[n][1]
    return tr.entry_types.get(n, BOT)


def translate_loops():
    notes = []
    mods = {}
    defs, summaries = [], []
    for spec in LOOPS:
        src = spec["src"]
        if src not in mods:
            mods[src] = LoopMod(src, SOURCES[src], notes)
        mod = mods[src]
        fn = find_func(mod.tree, spec["func"])
        if fn is None or not isinstance(fn, ast.FunctionDef):
            notes.append(f"{src}: function `{spec['func']}` not found")
            continue
        ws = own_whiles(fn)
        if len(ws) < spec["nth"]:
            notes.append(f"{src}:{spec['func']}: has {len(ws)} `while` statement(s), the whitelist names number {spec['nth']}")
            continue
        tr = LoopTr(mod, fn, spec["func"], ws[spec["nth"] - 1], spec)
        try:
            text, ns = tr.translate_loop()
        except Exception as exc:   # a crash of the translator on one loop must not hide the others
            import traceback
            notes.append(f"{src}:{spec['func']}: translator failure {exc!r} @ {traceback.format_exc().splitlines()[-3].strip()}")
            continue
        for n in ns:
            if n not in notes:
                notes.append(n)
        defs.append(text)
        summaries.append(tr.summary)
    L = [HEADER.format(src="the `while` statements whitelisted in tools/gen/pyfun_loops.py (AST of test + body)")]
    L.append("import S2T.Py.Loops")
    L.append("import S2T.Gen.C12Consts")
    L.append("set_option linter.unusedVariables false")
    L.append("namespace S2T.Gen.PyLoops\n")
    excs = {}
    for m in mods.values():
        excs.update(m.excs)
    for cn, mro in sorted(excs.items()):
        L.append(f"/-- `raise {cn}(…)` at the `site`-th raise statement of `func` (message dropped) -/")
        L.append(f"def exc_{cn} (func : String) (site : Nat) : S2T.Py.Exc :=\n  ⟨{lean_str(cn)}, ["
                 + ", ".join(lean_str(x) for x in mro) + "], func, site⟩\n")
    L += defs
    L.append("/-- the translated loops: (namespace, file, function, test, Env fields, State fields) -/")
    L.append("def translated : List (String × String × String × String) := " + lean_list(
        f"({lean_str(a)}, {lean_str(b)}, {lean_str(c)}, {lean_str(d)})" for a, b, c, d, _, _ in summaries) + "\n")
    L.append("/-- constructs the translator did not understand (must be empty) -/")
    L.append("def notes : List String := " + lean_list(lean_str(n) for n in notes) + "\n")
    L.append("end S2T.Gen.PyLoops\n")
    return "\n".join(L)


@generator("PyLoops")
def gen_PyLoops():
    return translate_loops()
