"""C15: inventory of process-global state the library can touch -> S2T/Gen/GlobalWrites.lean

* `sites`     every place in the package (tests excluded) where a function writes something that outlives
                the call: rebinding a module global (`global X`), mutating a module-level container
                (subscript store / del / mutating method), assigning an attribute of an imported module or of
                a class reached through one (`fb.CryptAES.decrypt = ...`), `setattr`/`delattr` calls,
                `functools` cache decorators, `tempfile` scopes, calls of well-known global mutators
                (`mimetypes.add_type`, `os.environ[...]`, `sys.setrecursionlimit`, ...).
                Granularity: (file, function, kind, cell) without line numbers or method names, so that
                a re-formatting does not change it while a new cell or a new writer does.
* `mutables`  module-level names whose *runtime* value is a mutable container (cross-checked with the AST:
                the name must be assigned at module level).
* `lruSites`, `roundKeyCacheMax`, `aesCells`, `patchTargets`  runtime values cross-checked with AST literals.
* `cacheAccesses`  every occurrence, inside a function, of a module-level container that some function writes
                (`_ROUND_KEY_CACHE`, `_FONT_CACHE`, `_TYPE_REGISTRY`, `_CHAR_MAP_PATCH_ORIGINALS`, ... and every
                future one): how it is accessed (subscript / `in` / method / bare name), the KEY expression of
                that access, the name of the lock of the innermost enclosing `with <Name>:` block ("" = none)
                and the parameters of the enclosing function that the function never rebinds.  The theorems
                `cache_keys_are_whole_inputs` / `cache_accesses_locked` are decided on it.
"""
import ast
import importlib
import os

from translate import HEADER, REPO, chars, generator, lean_list, lean_str

MUT_METHODS = {"append", "add", "update", "pop", "popitem", "clear", "move_to_end", "setdefault", "extend",
               "insert", "remove", "discard", "sort", "reverse", "appendleft", "popleft", "__setitem__", "__delitem__"}
GLOBAL_MUTATORS = ("mimetypes.add_type", "mimetypes.init", "os.environ", "os.chdir", "os.umask", "os.putenv",
                   "locale.setlocale", "sys.setrecursionlimit", "sys.setswitchinterval", "sys.set_int_max_str_digits",
                   "sys.path", "sys.modules", "warnings.filterwarnings", "warnings.simplefilter", "logging.basicConfig",
                   "logging.disable", "signal.signal", "atexit.register", "socket.setdefaulttimeout",
                   "ET.register_namespace", "ElementTree.register_namespace", "csv.field_size_limit",
                   "random.seed", "gc.disable", "gc.enable", "threading.setprofile", "sys.settrace", "sys.setprofile",
                   "builtins.", "importlib.reload",
                   # registries a module can extend at import time / first use, further interpreter-wide settings
                   "codecs.register", "codecs.unregister", "encodings.aliases", "email.charset.add_", "charset.add_charset",
                   "charset.add_alias", "charset.add_codec", "email.charset.CHARSETS", "email.charset.ALIASES", "email.charset.CODEC_MAP",
                   "mimetypes.types_map", "mimetypes.suffix_map", "mimetypes.encodings_map", "mimetypes.common_types",
                   "mimetypes.read_mime_types", "copyreg.", "atexit.unregister", "decimal.setcontext", "decimal.getcontext",
                   "decimal.DefaultContext", "warnings.catch_warnings", "warnings.resetwarnings", "warnings.filters",
                   "warnings.showwarning", "locale.resetlocale", "csv.register_dialect", "csv.unregister_dialect",
                   "shutil.register_", "shutil.unregister_", "sys.excepthook", "sys.meta_path", "sys.path_hooks", "sys.setdlopenflags",
                   "threading.excepthook", "threading.settrace", "threading.stack_size", "gc.set_threshold", "gc.freeze", "time.tzset",
                   "resource.setrlimit", "tempfile.tempdir", "logging.addLevelName", "logging.setLoggerClass",
                   "logging.setLogRecordFactory", "logging.captureWarnings", "etree.register_namespace",
                   "xml.etree.ElementTree.register_namespace", "signal.alarm", "signal.setitimer", "random.setstate",
                   "os.unsetenv", "os.fchdir")
TEMP_CALLS = ("TemporaryDirectory", "NamedTemporaryFile", "TemporaryFile", "SpooledTemporaryFile", "mkdtemp", "mkstemp", "mktemp")
MUTABLE_TYPES = ("dict", "list", "set", "OrderedDict", "defaultdict", "bytearray", "deque", "Counter", "ChainMap", "lock", "RLock")


def _package_files():
    root = os.path.join(REPO, "sharepoint2text")
    for dp, dns, fns in os.walk(root):
        dns[:] = sorted(d for d in dns if d not in ("tests", "__pycache__"))
        for fn in sorted(fns):
            if fn.endswith(".py"):
                yield os.path.relpath(os.path.join(dp, fn), REPO)


def _base_name(node):
    while isinstance(node, (ast.Attribute, ast.Subscript)):
        node = node.value
    return node.id if isinstance(node, ast.Name) else None


def _functions(tree):
    """(qualified name, node) of every outermost function / method; nested functions are covered by walking
    their enclosing function (that is where a reader looks for the write)."""
    out = []

    def visit(node, prefix):
        for ch in ast.iter_child_nodes(node):
            if isinstance(ch, (ast.FunctionDef, ast.AsyncFunctionDef)):
                out.append((prefix + ch.name, ch))
            elif isinstance(ch, ast.ClassDef):
                visit(ch, prefix + ch.name + ".")
            elif not isinstance(ch, (ast.expr, ast.Import, ast.ImportFrom)):
                visit(ch, prefix)

    visit(tree, "")
    return out


def _alias_map(tree):
    """local name -> dotted origin for `import x.y as z` / `from x import f [as g]` anywhere in the file, so that a setter
    reached through an alias (`from sys import setrecursionlimit as srl`; `import sys as _sys`) is still recognised"""
    al = {}
    for n in ast.walk(tree):
        if isinstance(n, ast.Import):
            for a in n.names:
                if a.asname and a.asname != a.name:
                    al[a.asname] = a.name
        elif isinstance(n, ast.ImportFrom) and n.module and not n.level:
            for a in n.names:
                al[a.asname or a.name] = n.module + "." + a.name
    return al


def _resolve(s, al):
    head, dot, rest = s.partition(".")
    name = head.split("(")[0]           # `getcontext().prec` -> head `getcontext()`
    return al[name] + head[len(name):] + dot + rest if name in al else s


def scan_file(rel):
    with open(os.path.join(REPO, rel), encoding="utf-8") as fh:
        tree = ast.parse(fh.read(), filename=rel)
    _al = _alias_map(tree)
    mod_imports, modlevel = set(), set()
    for n in tree.body:
        if isinstance(n, (ast.Import, ast.ImportFrom)):
            for a in n.names:
                mod_imports.add((a.asname or a.name).split(".")[0])
        tg = []
        if isinstance(n, ast.Assign):
            tg = [t for t in n.targets if isinstance(t, ast.Name)]
        elif isinstance(n, (ast.AnnAssign, ast.AugAssign)) and isinstance(n.target, ast.Name):
            tg = [n.target]
        modlevel |= {t.id for t in tg}
    sites = set()
    temps = set()
    lru = []
    for fname, f in _functions(tree):
        imods = set(mod_imports)
        globs = set()
        own = [n for n in ast.walk(f)]
        for n in own:
            if isinstance(n, (ast.Import, ast.ImportFrom)):
                for a in n.names:
                    imods.add((a.asname or a.name.split(".")[0]))
            if isinstance(n, ast.Global):
                globs |= set(n.names)
        params = {a.arg for a in ast.walk(f) if isinstance(a, ast.arg)}
        for g in own:
            if not isinstance(g, (ast.FunctionDef, ast.AsyncFunctionDef)):
                continue
            for dec in g.decorator_list:
                s = ast.unparse(dec)
                if "cache" in s:
                    ms = None
                    if isinstance(dec, ast.Call):
                        for kw in dec.keywords:
                            if kw.arg == "maxsize":
                                ms = ast.unparse(kw.value)
                        if dec.args:
                            ms = ast.unparse(dec.args[0])
                    lru.append((rel, g.name if g is f else fname + "." + g.name, s.split("(")[0], ms))
                    sites.add((rel, fname, "cache", g.name))
        for n in own:
            tgs = []
            if isinstance(n, ast.Assign):
                tgs = list(n.targets)
            elif isinstance(n, (ast.AugAssign, ast.AnnAssign)):
                tgs = [n.target]
            elif isinstance(n, ast.Delete):
                tgs = list(n.targets)
            elif isinstance(n, (ast.For, ast.AsyncFor)):
                tgs = [n.target]
            elif isinstance(n, (ast.With, ast.AsyncWith)):
                tgs = [i.optional_vars for i in n.items if i.optional_vars is not None]
            flat = []
            for t in tgs:
                flat += list(t.elts) if isinstance(t, (ast.Tuple, ast.List)) else [t]
            for t in flat:
                if isinstance(t, ast.Name) and t.id in globs:
                    sites.add((rel, fname, "global-rebind", t.id))
                elif isinstance(t, ast.Attribute):
                    b = _base_name(t)
                    if b in imods and b not in params and b != "self":
                        sites.add((rel, fname, "modattr", ast.unparse(t)))
                elif isinstance(t, ast.Subscript):
                    b = _base_name(t)
                    if isinstance(t.value, ast.Name) and (b in modlevel or b in globs) and b not in params:
                        sites.add((rel, fname, "mutate", b))
                    elif isinstance(t.value, ast.Attribute) and b in imods and b not in params:
                        sites.add((rel, fname, "modattr", ast.unparse(t.value) + "[]"))
            if isinstance(n, ast.Call):
                d = n.func
                s = ast.unparse(d)
                if isinstance(d, ast.Name) and d.id in ("setattr", "delattr") and n.args:
                    # the receiver's *name* is a local choice (renaming it is harmless): only self / not self is kept
                    recv = ast.unparse(n.args[0])
                    sites.add((rel, fname, "setattr", "self" if recv == "self" or recv.startswith("self.") else "<object>"))
                if isinstance(d, ast.Attribute) and d.attr in MUT_METHODS:
                    b = _base_name(d.value)
                    if isinstance(d.value, ast.Name) and b in modlevel and b not in params:
                        sites.add((rel, fname, "mutate", b))
                    elif isinstance(d.value, ast.Attribute) and b in imods and b not in params and b != "self":
                        sites.add((rel, fname, "modattr", ast.unparse(d.value) + "." + d.attr + "()"))
                if any(s == k or s.endswith("." + k) for k in TEMP_CALLS):
                    temps.add((rel, fname, s.split(".")[-1], _temp_scoped(f, n)))
                    sites.add((rel, fname, "temp", s.split(".")[-1]))
                if any(_resolve(s, _al).startswith(k) for k in GLOBAL_MUTATORS):
                    sites.add((rel, fname, "globalcall", _resolve(s, _al)))
            if isinstance(n, ast.Attribute) and isinstance(n.ctx, (ast.Store, ast.Del)):
                s = _resolve(ast.unparse(n), _al)      # decimal.getcontext().prec = 50 ; warnings.showwarning = f
                if any(s.startswith(k) for k in GLOBAL_MUTATORS):
                    sites.add((rel, fname, "globalcall", s))
            for_sub = n
            if isinstance(for_sub, ast.Subscript) and isinstance(for_sub.ctx, (ast.Store, ast.Del)):
                s = ast.unparse(for_sub.value)
                if any(s.startswith(k) for k in GLOBAL_MUTATORS):
                    sites.add((rel, fname, "globalcall", s))
    # module-level statements that call a global mutator at import time
    for n in tree.body:
        if isinstance(n, (ast.FunctionDef, ast.AsyncFunctionDef, ast.ClassDef)):
            continue
        for c in ast.walk(n):
            if isinstance(c, ast.Call):
                s = _resolve(ast.unparse(c.func), _al)
                if any(s.startswith(k) for k in GLOBAL_MUTATORS):
                    sites.add((rel, "<module>", "globalcall", s))
            elif isinstance(c, (ast.Attribute, ast.Subscript)) and isinstance(c.ctx, (ast.Store, ast.Del)):
                s = _resolve(ast.unparse(c.value if isinstance(c, ast.Subscript) else c), _al)
                if any(s.startswith(k) for k in GLOBAL_MUTATORS):
                    sites.add((rel, "<module>", "globalcall", s))
    return sites, temps, lru, modlevel


KEYED_METHODS = {"get", "pop", "move_to_end", "setdefault", "__contains__", "__getitem__", "__setitem__", "__delitem__"}


def cache_accesses(rel, cells):
    """[(rel, innermost function (qualified by its outermost function), cell, how, key, guard, stable params)]
    for every occurrence of one of the module-level names `cells` inside a function of the file."""
    with open(os.path.join(REPO, rel), encoding="utf-8") as fh:
        tree = ast.parse(fh.read(), filename=rel)
    parent = {}
    for n in ast.walk(tree):
        for ch in ast.iter_child_nodes(n):
            parent[ch] = n
    out = []
    for n in ast.walk(tree):
        if not (isinstance(n, ast.Name) and n.id in cells):
            continue
        # enclosing functions, innermost first; the locks of the `with` blocks in between
        funcs, guard = [], ""
        p = n
        while p in parent:
            q = parent[p]
            if isinstance(q, (ast.With, ast.AsyncWith)) and p in q.body and not guard and not funcs:
                for it in q.items:
                    if isinstance(it.context_expr, ast.Name):
                        guard = it.context_expr.id
            if isinstance(q, (ast.FunctionDef, ast.AsyncFunctionDef, ast.Lambda)):
                funcs.append(q)
            p = q
        if not funcs:
            continue            # module level (definition / import-time initialisation)
        inner = funcs[0]
        if any(isinstance(a, ast.arg) and a.arg == n.id for a in ast.walk(inner.args)):
            continue            # a parameter of the same name shadows the module-level cell
        rebound = {t.id for t in ast.walk(inner) if isinstance(t, ast.Name) and isinstance(t.ctx, (ast.Store, ast.Del))}
        params = sorted({a.arg for a in ast.walk(inner.args) if isinstance(a, ast.arg)} - rebound)
        fname = ".".join(getattr(f, "name", "<lambda>") for f in reversed(funcs))
        par = parent.get(n)
        how, key = "name", ""
        if isinstance(par, ast.Subscript) and par.value is n:
            how = {"Load": "getitem", "Store": "setitem", "Del": "delitem"}[type(par.ctx).__name__]
            key = ast.unparse(par.slice)
        elif isinstance(par, ast.Compare) and n in par.comparators and any(isinstance(o, (ast.In, ast.NotIn)) for o in par.ops):
            how, key = "contains", ast.unparse(par.left)
        elif isinstance(par, ast.Attribute) and par.value is n:
            how = "method:" + par.attr
            call = parent.get(par)
            if par.attr in KEYED_METHODS and isinstance(call, ast.Call) and call.func is par and call.args:
                key = ast.unparse(call.args[0])
        elif isinstance(par, ast.Global):
            continue
        out.append((rel, fname, n.id, how, key, guard, params))
    return sorted(set((a, b, c, d, e, f, tuple(g)) for a, b, c, d, e, f, g in out))


def _temp_scoped(f, call):
    """'with' when the temp object is the context expression of a `with` statement (cleanup on every exit)."""
    for n in ast.walk(f):
        if isinstance(n, (ast.With, ast.AsyncWith)):
            for it in n.items:
                if it.context_expr is call:
                    return "with"
    return "unscoped"


def callers_of(names):
    """(file, outermost function) of every call of one of `names` inside the package (tests excluded)."""
    out = set()
    for rel in _package_files():
        with open(os.path.join(REPO, rel), encoding="utf-8") as fh:
            tree = ast.parse(fh.read(), filename=rel)
        for fname, f in _functions(tree):
            for n in ast.walk(f):
                if isinstance(n, ast.Call) and ast.unparse(n.func).split(".")[-1] in names:
                    out.add((rel, fname))
        for n in tree.body:
            if not isinstance(n, (ast.FunctionDef, ast.AsyncFunctionDef, ast.ClassDef)):
                for c in ast.walk(n):
                    if isinstance(c, ast.Call) and ast.unparse(c.func).split(".")[-1] in names:
                        out.add((rel, "<module>"))
    return sorted(out)


def _modname(rel):
    m = rel[:-3].replace(os.sep, ".")
    return m[: -len(".__init__")] if m.endswith(".__init__") else m


def inventory():
    sites, temps, lrus, mutables, notes = set(), set(), [], [], []
    for rel in _package_files():
        s, t, l, modlevel = scan_file(rel)
        sites |= s
        temps |= t
        lrus += l
        try:
            mod = importlib.import_module(_modname(rel))
        except Exception as e:  # an unimportable module cannot be inspected: say so
            notes.append(f"import failed: {rel}: {type(e).__name__}")
            continue
        for name, val in sorted(vars(mod).items()):
            if name.startswith("__") or type(val).__name__ not in MUTABLE_TYPES:
                continue
            if name in modlevel:
                mutables.append((rel, name, type(val).__name__))
    return sorted(sites), sorted(temps), sorted(set(lrus)), sorted(mutables), notes


@generator("GlobalWrites")
def gen_globalwrites() -> str:
    sites, temps, lrus, mutables, notes = inventory()
    aes = importlib.import_module("sharepoint2text.parsing.extractors.pdf._pypdf_aes_fallback")
    pe = importlib.import_module("sharepoint2text.parsing.extractors.pdf.pdf_extractor")
    arch = importlib.import_module("sharepoint2text.parsing.extractors.archive_extractor")
    from translate import ast_literal_assign
    rk_max = aes._ROUND_KEY_CACHE_MAX
    lit = ast_literal_assign("sharepoint2text/parsing/extractors/pdf/_pypdf_aes_fallback.py", "_ROUND_KEY_CACHE_MAX")
    if lit != rk_max:
        notes.append("_ROUND_KEY_CACHE_MAX: runtime value differs from the source literal")
    # lru sites: runtime maxsize from cache_parameters()
    lru_rows = []
    for rel, fn, deco, ms in lrus:
        mod = importlib.import_module(_modname(rel))
        f = getattr(mod, fn, None)
        try:
            runtime = f.cache_parameters()["maxsize"]
        except Exception:
            runtime = None
            notes.append(f"{rel}:{fn}: decorated with {deco} but has no cache_parameters()")
        lru_rows.append((rel, fn, -1 if runtime is None else int(runtime)))
        if ms is not None and ms.isdigit() and runtime != int(ms):
            notes.append(f"{rel}:{fn}: runtime maxsize {runtime} differs from the literal {ms}")
    aes_cells = sorted({c for (rel, fn, kind, c) in sites if kind == "modattr" and fn == "patch_pypdf_fallback_aes"})
    targets, _mk = pe._get_pypdf_char_map_patcher()
    tgt_rows = [(m.__name__, n) for m, n in targets]
    import pypdf
    import pypdf._crypt_providers as providers
    L = [HEADER.format(src="every module of sharepoint2text (AST + runtime), pypdf " + pypdf.__version__)]
    L.append("import S2T.Model.Cells\nnamespace S2T.Gen.GlobalWrites\nopen S2T.Cells\n")
    L.append("def sites : List Site := " + lean_list(
        f"⟨{chars(os.path.basename(rel))}, {chars(fn)}, {chars(kind)}, {chars(cell)}⟩" for rel, fn, kind, cell in sites) + "\n")
    L.append("/-- module-level names bound to a mutable container at run time: (file, name, type) -/")
    L.append("def mutables : List (Str × Str × Str) := " + lean_list(
        f"({chars(os.path.basename(rel))}, {chars(n)}, {chars(t)})" for rel, n, t in mutables) + "\n")
    L.append("/-- functools cache decorators: (file, function, runtime maxsize; -1 = unbounded) -/")
    L.append("def lruSites : List (Str × Str × Int) := " + lean_list(
        f"({chars(os.path.basename(rel))}, {chars(fn)}, {ms})" for rel, fn, ms in lru_rows) + "\n")
    L.append("/-- tempfile uses: (file, function, call, 'with' = context expression of a with statement) -/")
    L.append("def tempSites : List (Str × Str × Str × Str) := " + lean_list(
        f"({chars(os.path.basename(rel))}, {chars(fn)}, {chars(c)}, {chars(sc)})" for rel, fn, c, sc in temps) + "\n")
    L.append(f"def roundKeyCacheMax : Nat := {int(rk_max)}\n")
    L.append("/-- attributes assigned by patch_pypdf_fallback_aes -/")
    L.append("def aesCells : List Str := " + lean_list(chars(c) for c in aes_cells) + "\n")
    L.append("/-- runtime patch targets of _get_pypdf_char_map_patcher() for the installed pypdf: (module, attribute) -/")
    L.append("def patchTargets : List (Str × Str) := " + lean_list(f"({chars(m)}, {chars(n)})" for m, n in tgt_rows) + "\n")
    rebinders = sorted({fn for (rel, fn, kind, c) in sites if kind == "global-rebind" and fn != "_patched_build_char_map"})
    L.append("/-- package functions that call a function which rebinds a module global (other than the patch section) -/")
    L.append("def configCallers : List (Str × Str) := " + lean_list(
        f"({chars(os.path.basename(rel))}, {chars(fn)})" for rel, fn in callers_of(set(rebinders))) + "\n")
    written = {}
    for rel, fn, kind, c in sites:
        if kind in ("mutate", "global-rebind") and any(r == rel and n == c for r, n, _t in mutables):
            written.setdefault(rel, set()).add(c)
    acc = []
    for rel in sorted(written):
        acc += cache_accesses(rel, written[rel])
    L.append("/-- every occurrence inside a function of a module-level container that some function writes -/")
    L.append("def cacheAccesses : List CacheAccess := " + lean_list(
        f"⟨{chars(os.path.basename(rel))}, {chars(fn)}, {chars(cell)}, {chars(how)}, {chars(key)}, {chars(guard)}, "
        + "[" + ", ".join(chars(p) for p in params) + "]⟩" for rel, fn, cell, how, key, guard, params in acc) + "\n")
    L.append(f"def cryptProvider : Str := {chars(str(providers.crypt_provider[0]))}\n")
    L.append("/-- translator cross-check notes; must be empty -/")
    L.append("def notes : List String := " + lean_list(lean_str(n) for n in notes) + "\n")
    L.append("end S2T.Gen.GlobalWrites\n")
    return "\n".join(L)
