"""C02 (part 'plain'): the size-/sampling-relevant facts of plain_extractor.py -> S2T/Gen/C02Plain.lean

The Lean model `S2T.Plain.detectAndDecode` hands the COMPLETE content to the detector and takes the detector's own
strict decoding of it; it has no size threshold.  This generator re-derives from the current source what that rests on
(names are normalised: the facts do not depend on how locals / parameters are called):

* detectCalls / detectArgWhole: every `from_bytes(...)` call gets one positional argument that is a bare name bound
  only to the function parameter or to an argument-less `.read()` result (no slice, no conditional, no call);
* textFromMatch: in `_detect_and_decode` some `return` gives `(str(<name bound to <results>.best()>), …)`, resp. a name
  assigned from that `str(...)`, and every other `return` is the empty guard `("", …)`, a `(<x>.decode(...), …)` fallback or a
  call of a module-level helper that only returns such a fallback;
* readSizeArgs: number of `.read(...)` calls WITH an argument;
* decodeCalls: every `<x>.decode(...)` call as (normalised receiver, codec literal, errors literal);
* lenCompares / slices / intLiterals: `len(...)` inside a comparison, subscript slices, integer literals > 1
  anywhere in the module's code (docstrings are not code);
* emptyGuard: the first statement of `_detect_and_decode` is `if not <param>: return "", "utf-8"`.
"""
import ast

from translate import HEADER, generator, lean_list, lean_str, parse

SRC = "sharepoint2text/parsing/extractors/plain_extractor.py"


def _func(tree, name):
    for n in tree.body:
        if isinstance(n, ast.FunctionDef) and n.name == name:
            return n
    return None


def _bindings(fn):
    """name -> list of value expressions assigned to it inside fn (parameters: the string 'param')"""
    b = {a.arg: ["param"] for a in fn.args.args + fn.args.kwonlyargs}
    for n in ast.walk(fn):
        if isinstance(n, ast.Assign):
            for t in n.targets:
                if isinstance(t, ast.Name):
                    b.setdefault(t.id, []).append(n.value)
                elif isinstance(t, ast.Tuple):
                    for e in t.elts:
                        if isinstance(e, ast.Name):
                            b.setdefault(e.id, []).append(("tuple", n.value))
        elif isinstance(n, (ast.AugAssign, ast.AnnAssign)) and isinstance(n.target, ast.Name):
            b.setdefault(n.target.id, []).append(("aug", n))
        elif isinstance(n, ast.NamedExpr):
            b.setdefault(n.target.id, []).append(n.value)
    return b


def _is_plain_read(e):
    return (isinstance(e, ast.Call) and isinstance(e.func, ast.Attribute) and e.func.attr == "read" and not e.args and not e.keywords)


def _whole(name, binds, depth=0):
    """`name` is only ever bound to the function parameter, to an argument-less `.read()` result, or to another such name"""
    vals = binds.get(name, [])
    return bool(vals) and depth < 8 and all(
        v == "param" or (not isinstance(v, (str, tuple)) and (_is_plain_read(v) or (isinstance(v, ast.Name) and v.id != name and _whole(v.id, binds, depth + 1))))
        for v in vals)


@generator("C02Plain")
def gen_c02_plain() -> str:
    notes = []
    tree = parse(SRC)
    dd = _func(tree, "_detect_and_decode")
    rp = _func(tree, "read_plain_text")
    if dd is None or rp is None:
        notes.append("plain_extractor.py: _detect_and_decode / read_plain_text not found")
    detect_calls, arg_whole = 0, True
    decode_calls, read_size_args, len_compares, slices, ints = [], 0, 0, 0, []
    for fn in [n for n in ast.walk(tree) if isinstance(n, (ast.FunctionDef, ast.AsyncFunctionDef))]:
        binds = _bindings(fn)
        params = [a.arg for a in fn.args.args]
        for n in ast.walk(fn):
            if isinstance(n, ast.Call):
                f = n.func
                if isinstance(f, ast.Name) and f.id == "from_bytes":
                    detect_calls += 1
                    if not (len(n.args) == 1 and not n.keywords and isinstance(n.args[0], ast.Name) and _whole(n.args[0].id, binds)):
                        arg_whole = False
                if isinstance(f, ast.Attribute) and f.attr == "read" and (n.args or n.keywords):
                    read_size_args += 1
                if isinstance(f, ast.Attribute) and f.attr == "decode":
                    recv = f.value
                    if isinstance(recv, ast.Name) and _whole(recv.id, binds):
                        r = "content"
                    else:
                        r = "other:" + ast.unparse(recv)
                    lits = [a.value if isinstance(a, ast.Constant) and isinstance(a.value, str) else "?" for a in n.args]
                    kw = {k.arg: (k.value.value if isinstance(k.value, ast.Constant) else "?") for k in n.keywords}
                    codec = lits[0] if lits else kw.get("encoding", "")
                    errors = lits[1] if len(lits) > 1 else kw.get("errors", "strict")
                    decode_calls.append((r, str(codec), str(errors)))
    for n in ast.walk(tree):
        if isinstance(n, ast.Compare) and any(isinstance(c, ast.Call) and isinstance(c.func, ast.Name) and c.func.id == "len" for c in ast.walk(n)):
            len_compares += 1
        if isinstance(n, ast.Slice):
            slices += 1
        if isinstance(n, ast.Constant) and isinstance(n.value, int) and not isinstance(n.value, bool) and n.value > 1:
            ints.append(n.value)
    text_from_match, empty_guard = False, False
    if dd is not None:
        binds = _bindings(dd)

        def from_best(e):
            """e is a name bound (only) to <x>.best()"""
            if not isinstance(e, ast.Name):
                return False
            vals = binds.get(e.id, [])
            return bool(vals) and all(isinstance(v, ast.Call) and isinstance(v.func, ast.Attribute) and v.func.attr == "best" and not v.args for v in vals)

        def is_str_of_match(e):
            if isinstance(e, ast.Call) and isinstance(e.func, ast.Name) and e.func.id == "str" and len(e.args) == 1:
                return from_best(e.args[0])
            if isinstance(e, ast.Name):
                vals = binds.get(e.id, [])
                return bool(vals) and all(not isinstance(v, (str, tuple)) and is_str_of_match(v) for v in vals)
            return False

        def is_fallback_fn(name, depth=0):
            """module-level helper all of whose returns are `(<x>.decode(...), <literal>)` (the decode calls are inventoried above)"""
            f = _func(tree, name)
            if f is None or depth > 3:
                return False
            rs = [n for n in ast.walk(f) if isinstance(n, ast.Return)]
            return bool(rs) and all(isinstance(r.value, ast.Tuple) and len(r.value.elts) == 2 and isinstance(r.value.elts[0], ast.Call)
                                    and isinstance(r.value.elts[0].func, ast.Attribute) and r.value.elts[0].func.attr == "decode" for r in rs)

        def classify(r):
            v = r.value
            if isinstance(v, ast.Call) and isinstance(v.func, ast.Name) and is_fallback_fn(v.func.id):
                return "fallback"
            if not (isinstance(v, ast.Tuple) and len(v.elts) == 2):
                return "other"
            e = v.elts[0]
            if is_str_of_match(e):
                return "match"
            if isinstance(e, ast.Constant) and e.value == "":
                return "empty"
            if isinstance(e, ast.Call) and isinstance(e.func, ast.Attribute) and e.func.attr == "decode":
                return "fallback"
            return "other"

        kinds = [classify(n) for n in ast.walk(dd) if isinstance(n, ast.Return)]
        text_from_match = "match" in kinds and "other" not in kinds
        body = [s for s in dd.body if not (isinstance(s, ast.Expr) and isinstance(s.value, ast.Constant))]
        if body and isinstance(body[0], ast.If):
            t = body[0].test
            p0 = dd.args.args[0].arg if dd.args.args else None
            if (isinstance(t, ast.UnaryOp) and isinstance(t.op, ast.Not) and isinstance(t.operand, ast.Name) and t.operand.id == p0
                    and len(body[0].body) == 1 and isinstance(body[0].body[0], ast.Return) and not body[0].orelse):
                try:
                    empty_guard = ast.literal_eval(body[0].body[0].value) == ("", "utf-8")
                except Exception:
                    empty_guard = False
    # runtime cross-check: the module really binds from_bytes to charset_normalizer's
    try:
        import charset_normalizer
        from translate import fresh_import
        mod = fresh_import("sharepoint2text.parsing.extractors.plain_extractor")
        if getattr(mod, "from_bytes", None) is not charset_normalizer.from_bytes:
            notes.append("plain_extractor.from_bytes is not charset_normalizer.from_bytes")
    except Exception as e:  # pragma: no cover
        notes.append(f"plain_extractor not importable: {e!r}")

    def b(x):
        return "true" if x else "false"

    L = [HEADER.format(src=SRC)]
    L.append("namespace S2T.Gen.C02Plain\n")
    L.append("structure Sites where\n  detectCalls : Nat\n  detectArgWhole : Bool\n  textFromMatch : Bool\n  readSizeArgs : Nat\n"
             "  decodeCalls : List (String × String × String)\n  lenCompares : Nat\n  slices : Nat\n  intLiterals : List Nat\n  emptyGuard : Bool\nderiving DecidableEq, Repr\n")
    L.append("def sites : Sites := {\n  detectCalls := %d,\n  detectArgWhole := %s,\n  textFromMatch := %s,\n  readSizeArgs := %d,\n  decodeCalls := %s,\n"
             "  lenCompares := %d,\n  slices := %d,\n  intLiterals := %s,\n  emptyGuard := %s\n}\n" % (
                 detect_calls, b(arg_whole), b(text_from_match), read_size_args,
                 "[" + ", ".join("(%s, %s, %s)" % tuple(lean_str(x) for x in d) for d in decode_calls) + "]",
                 len_compares, slices, "[" + ", ".join(str(i) for i in ints) + "]", b(empty_guard)))
    L.append("/-- translator cross-check notes; must be empty -/")
    L.append("def notes : List String := " + lean_list(lean_str(n) for n in notes) + "\n")
    L.append("end S2T.Gen.C02Plain\n")
    return "\n".join(L)
