"""C15: what a generator holds while it is suspended, which locks exist, what the caches hand out -> S2T/Gen/Isolation.lean

* `yieldScopes`   every `yield` / `yield from` of the package (tests excluded) that is NOT the yield of a
                  `@contextmanager` function (those are sections, stepped by S2T.Patch): the context expressions of the
                  enclosing `with` blocks, each classified from the current source + run time as
                    `lock`     the expression names a module-level / class-level lock-like object (Lock, RLock, Semaphore,
                               Condition, ...), or calls `.acquire` on / constructs one;
                    `section`  a call of a `@contextmanager` function of the package (patch / set / restore sections);
                    `local`    everything else (objects created by the call itself: files, archives, temp dirs);
                  `acquires` = the enclosing function calls `.acquire(` somewhere (a lock taken without `with`, released in
                  a `finally` after the yield, is held across the yield just the same);
                  `finallyReleases` = a `try` that encloses the yield has `.release(` in its `finally`.
* `locks`         every lock-like object reachable at run time as a module attribute or class attribute of the package,
                  cross-checked with the AST (constructor calls of threading.* at module / class level).
* `cacheReturns`  every functools cache decorator (function or method, any nesting): the return annotation — a cache that
                  hands out a MUTABLE object by reference is only transparent if nobody ever modifies it (S2T.CacheAlias).
"""
import ast
import importlib
import os

from translate import HEADER, REPO, chars, generator, lean_list, lean_str

LOCK_TYPES = ("lock", "RLock", "Semaphore", "BoundedSemaphore", "Condition", "Event", "Barrier")
LOCK_CTORS = ("Lock", "RLock", "Semaphore", "BoundedSemaphore", "Condition", "Event", "Barrier")


def _package_files():
    root = os.path.join(REPO, "sharepoint2text")
    for dp, dns, fns in os.walk(root):
        dns[:] = sorted(d for d in dns if d not in ("tests", "__pycache__"))
        for fn in sorted(fns):
            if fn.endswith(".py"):
                yield os.path.relpath(os.path.join(dp, fn), REPO)


def _modname(rel):
    m = rel[:-3].replace(os.sep, ".")
    return m[: -len(".__init__")] if m.endswith(".__init__") else m


def _is_ctxmgr(f):
    return any("contextmanager" in ast.unparse(d) for d in f.decorator_list)


def _lock_ctor(node):
    return isinstance(node, ast.Call) and ast.unparse(node.func).split(".")[-1] in LOCK_CTORS and (
        "threading" in ast.unparse(node.func) or "multiprocessing" in ast.unparse(node.func) or isinstance(node.func, ast.Name))


def scan():
    trees = {}
    ctxmgrs, ast_locks = set(), set()
    for rel in _package_files():
        with open(os.path.join(REPO, rel), encoding="utf-8") as fh:
            tree = ast.parse(fh.read(), filename=rel)
        trees[rel] = tree
        for n in ast.walk(tree):
            if isinstance(n, (ast.FunctionDef, ast.AsyncFunctionDef)) and _is_ctxmgr(n):
                ctxmgrs.add(n.name)
        # lock-like objects created at module level or class level (not inside functions)
        def visit(node, prefix):
            for ch in ast.iter_child_nodes(node):
                if isinstance(ch, (ast.FunctionDef, ast.AsyncFunctionDef, ast.Lambda)):
                    continue
                if isinstance(ch, ast.ClassDef):
                    visit(ch, prefix + ch.name + ".")
                    continue
                if isinstance(ch, (ast.Assign, ast.AnnAssign)) and ch.value is not None and any(_lock_ctor(c) for c in ast.walk(ch.value)):
                    tgs = ch.targets if isinstance(ch, ast.Assign) else [ch.target]
                    for t in tgs:
                        if isinstance(t, ast.Name):
                            ast_locks.add((rel, prefix + t.id))
                visit(ch, prefix)
        visit(tree, "")
    lock_names = {n.split(".")[-1] for _r, n in ast_locks}
    # run time: lock-like objects reachable as module / class attributes
    rt_locks, notes = set(), []
    for rel in trees:
        try:
            mod = importlib.import_module(_modname(rel))
        except Exception as e:  # noqa: BLE001
            notes.append(f"import failed: {rel}: {type(e).__name__}")
            continue
        for name, val in sorted(vars(mod).items()):
            if name.startswith("__"):
                continue
            if type(val).__name__ in LOCK_TYPES and type(val).__module__ in ("_thread", "threading", "multiprocessing.synchronize"):
                if any(r == rel and n == name for r, n in ast_locks) or not any(n == name for _r, n in ast_locks):
                    rt_locks.add((rel, name, type(val).__name__))
            elif isinstance(val, type) and val.__module__ == mod.__name__:
                for cn, cv in sorted(vars(val).items()):
                    if type(cv).__name__ in LOCK_TYPES and type(cv).__module__ in ("_thread", "threading", "multiprocessing.synchronize"):
                        rt_locks.add((rel, name + "." + cn, type(cv).__name__))
    for rel, n in sorted(ast_locks):
        if not any(r == rel and x == n for r, x, _t in rt_locks):
            rt_locks.add((rel, n, "ast-only"))
    lock_names |= {n.split(".")[-1] for _r, n, _t in rt_locks}

    def classify(expr):
        s = ast.unparse(expr)
        names = {x.id for x in ast.walk(expr) if isinstance(x, ast.Name)} | {x.attr for x in ast.walk(expr) if isinstance(x, ast.Attribute)}
        if names & lock_names or any(_lock_ctor(c) for c in ast.walk(expr)) or "acquire" in names or "lock" in s.lower():
            return "lock"
        if isinstance(expr, ast.Call) and ast.unparse(expr.func).split(".")[-1] in ctxmgrs:
            return "section"
        return "local"

    yields, caches = [], []
    for rel, tree in trees.items():
        parent = {}
        for n in ast.walk(tree):
            for ch in ast.iter_child_nodes(n):
                parent[ch] = n
        for n in ast.walk(tree):
            if isinstance(n, (ast.FunctionDef, ast.AsyncFunctionDef)):
                for dec in n.decorator_list:
                    if "cache" in ast.unparse(dec) and "contextmanager" not in ast.unparse(dec):
                        q, quals = n, [n.name]
                        while q in parent:
                            q = parent[q]
                            if isinstance(q, (ast.FunctionDef, ast.AsyncFunctionDef, ast.ClassDef)):
                                quals.append(q.name)
                        caches.append((rel, ".".join(reversed(quals)), ast.unparse(n.returns) if n.returns is not None else ""))
            if not isinstance(n, (ast.Yield, ast.YieldFrom)):
                continue
            withs, fin_rel, func = [], False, None
            q = n
            while q in parent:
                pq = parent[q]
                if isinstance(pq, (ast.With, ast.AsyncWith)) and q in pq.body:
                    withs += [(classify(i.context_expr), ast.unparse(i.context_expr)[:80]) for i in pq.items]
                if isinstance(pq, ast.Try) and (q in pq.body or q in pq.handlers or q in pq.orelse):
                    if any(isinstance(c, ast.Call) and ast.unparse(c.func).endswith(".release") for f in pq.finalbody for c in ast.walk(f)):
                        fin_rel = True
                if isinstance(pq, (ast.FunctionDef, ast.AsyncFunctionDef)):
                    func = pq
                    break
                q = pq
            if func is None or _is_ctxmgr(func):
                continue
            acquires = any(isinstance(c, ast.Call) and ast.unparse(c.func).endswith(".acquire") for c in ast.walk(func))
            yields.append((rel, func.name, tuple(withs), acquires, fin_rel))
    return sorted(set(yields)), sorted(rt_locks), sorted(set(caches)), notes


@generator("Isolation")
def gen_isolation() -> str:
    yields, locks, caches, notes = scan()
    L = [HEADER.format(src="every module of sharepoint2text (AST + runtime)")]
    L.append("import S2T.Model.Cells\nnamespace S2T.Gen.Isolation\nopen S2T.Cells\n")
    L.append("/-- an enclosing `with` context of a yield: (kind = lock | section | local, source text) -/")
    L.append("structure YieldScope where\n  file : Str\n  func : Str\n  withs : List (Str × Str)\n  acquires : Bool\n  finallyReleases : Bool\n  deriving DecidableEq, Repr\n")
    L.append("def yieldScopes : List YieldScope := " + lean_list(
        f"⟨{chars(os.path.basename(rel))}, {chars(fn)}, [" + ", ".join(f"({chars(k)}, {chars(s)})" for k, s in ws) + f"], {'true' if acq else 'false'}, {'true' if fr else 'false'}⟩"
        for rel, fn, ws, acq, fr in yields) + "\n")
    L.append("/-- lock-like objects reachable as module / class attributes: (file, name, type) -/")
    L.append("def locks : List (Str × Str × Str) := " + lean_list(
        f"({chars(os.path.basename(rel))}, {chars(n)}, {chars(t)})" for rel, n, t in locks) + "\n")
    L.append("/-- functools cache decorators: (file, qualified function, return annotation) -/")
    L.append("def cacheReturns : List (Str × Str × Str) := " + lean_list(
        f"({chars(os.path.basename(rel))}, {chars(fn)}, {chars(ann)})" for rel, fn, ann in caches) + "\n")
    L.append("def notes : List String := " + lean_list(lean_str(n) for n in notes) + "\n")
    L.append("end S2T.Gen.Isolation\n")
    return "\n".join(L)
