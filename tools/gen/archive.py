"""C09: archive skip tables, size limits and the inventory of file-system call sites
-> S2T/Gen/Archive.lean"""
import ast
import re

from translate import HEADER, ast_literal_assign, chars, fresh_import, generator, lean_list, lean_str, parse

AE = "sharepoint2text/parsing/extractors/archive_extractor.py"
SZ = "sharepoint2text/parsing/extractors/util/sevenzip.py"

# call targets that touch (or build paths for) the file system
_FS_ROOTS = ("os", "tempfile", "shutil", "pathlib", "glob", "subprocess", "io", "tarfile", "zipfile")
# method names that write to / read from the file system whatever object they are called on
_FS_METHODS = {"extract", "extractall", "makedirs", "mkdir", "write_bytes", "write_text", "read_bytes", "read_text",
               "unlink", "rmtree", "symlink", "symlink_to", "rename", "replace", "chmod", "touch", "mkdtemp", "mkstemp"}
_FS_BARE = {"open", "_safe_join", "_mkdirs", "Path", "exec", "eval", "__import__"}
# pure helpers of `os` that neither touch the file system nor build a path that is opened
_PURE = {"os.cpu_count", "io.BytesIO",
         # pure string helpers of os.path (os.path.join stays in: it is how a guard is by-passed; abspath only adds the cwd)
         "os.path.basename", "os.path.dirname", "os.path.isabs", "os.path.abspath", "os.path.splitdrive", "os.path.commonpath",
         "os.path.commonprefix", "os.path.normpath", "os.path.normcase", "os.path.relpath", "os.path.splitext", "os.path.split"}


def _dotted(node):
    parts = []
    while isinstance(node, ast.Attribute):
        parts.append(node.attr)
        node = node.value
    if isinstance(node, ast.Name):
        parts.append(node.id)
        return ".".join(reversed(parts))
    return None


def _fs_calls(rel):
    """sorted [(function qualname, dotted callee)] of file-system relevant calls in one source file."""
    out = set()

    def walk(node, fn):
        for ch in ast.iter_child_nodes(node):
            name = fn
            if isinstance(ch, (ast.FunctionDef, ast.AsyncFunctionDef)):
                name = ch.name if fn == "<module>" else fn + "." + ch.name
            elif isinstance(ch, ast.ClassDef):
                name = fn  # methods are listed by their own name
            if isinstance(ch, ast.Call):
                d = _dotted(ch.func)
                if d and d not in _PURE and (d in _FS_BARE or d.split(".")[0] in _FS_ROOTS or d.split(".")[-1] in _FS_METHODS):
                    out.add((fn, d))
            walk(ch, name)

    walk(parse(rel), "<module>")
    return sorted(out)


def _imports(rel):
    mods = set()
    for node in ast.walk(parse(rel)):
        if isinstance(node, ast.Import):
            mods |= {a.name for a in node.names}
        elif isinstance(node, ast.ImportFrom):
            mods.add(node.module or ".")
    return sorted(mods)


def _func(tree, name):
    for node in ast.walk(tree):
        if isinstance(node, (ast.FunctionDef, ast.AsyncFunctionDef)) and node.name == name:
            return node
    return None


def _tar_kind_preds():
    """sorted names of the `TarInfo.is…()` predicates called anywhere in `_extract_from_tar_optimized`
    (the member-kind guard of the TAR loop), on whatever object"""
    fn = _func(parse(AE), "_extract_from_tar_optimized")
    if fn is None:
        return None
    out = set()
    for node in ast.walk(fn):
        if isinstance(node, ast.Call) and isinstance(node.func, ast.Attribute) and re.fullmatch(r"is[a-z]+", node.func.attr):
            if node.func.attr not in ("isinstance", "isascii", "isdigit", "isalpha", "isspace", "isupper", "islower", "isalnum"):
                out.add(node.func.attr)
        # the type field compared directly (member.type == tarfile.LNKTYPE …) is a guard as well
        if isinstance(node, ast.Attribute) and node.attr in ("type", "linkname", "linkpath"):
            out.add("." + node.attr)
    return sorted(out)


def _wanted_keys():
    """how `extractall(members=…)` decides which entries are requested, in util/sevenzip.py:
    (keys, returns) — keys = source text of every expression that is put into / looked up in the set `wanted`
    (`{KEY for member in members}`, `KEY in wanted`, `KEY not in wanted`), returns = source text of every
    `return` expression of `SevenZipReader.list` / `SevenZipFile.list`"""
    tree = parse(SZ)
    keys, rets = set(), set()
    for node in ast.walk(tree):
        if isinstance(node, ast.Compare) and len(node.ops) == 1 and isinstance(node.ops[0], (ast.In, ast.NotIn)):
            c = node.comparators[0]
            if isinstance(c, ast.Name) and c.id == "wanted":
                keys.add(ast.unparse(node.left))
        if isinstance(node, (ast.Assign, ast.AnnAssign)):
            tgts = node.targets if isinstance(node, ast.Assign) else [node.target]
            if any(isinstance(t, ast.Name) and t.id == "wanted" for t in tgts) and node.value is not None:
                for sub in ast.walk(node.value):
                    if isinstance(sub, (ast.SetComp, ast.ListComp, ast.GeneratorExp)):
                        keys.add(ast.unparse(sub.elt))
                    elif isinstance(sub, ast.DictComp):
                        keys.add(ast.unparse(sub.key))
                    elif isinstance(sub, ast.Call) and not isinstance(sub.func, ast.Name):
                        keys.add("call:" + ast.unparse(sub.func))
                    elif isinstance(sub, ast.Call) and sub.func.id not in ("id", "set", "frozenset"):
                        keys.add("call:" + sub.func.id)
        if isinstance(node, ast.ClassDef):
            for fn in node.body:
                if isinstance(fn, ast.FunctionDef) and fn.name == "list":
                    for sub in ast.walk(fn):
                        if isinstance(sub, ast.Return) and sub.value is not None:
                            rets.add(f"{node.name}.list: " + ast.unparse(sub.value))
    return sorted(keys), sorted(rets)


@generator("Archive")
def gen_archive() -> str:
    ae = fresh_import("sharepoint2text.parsing.extractors.archive_extractor")
    notes = []
    nested = sorted(ae.NESTED_ARCHIVE_EXTENSIONS)
    lit = ast_literal_assign(AE, "NESTED_ARCHIVE_EXTENSIONS")
    if lit is None:
        notes.append("NESTED_ARCHIVE_EXTENSIONS: not a literal in the source")
    elif sorted(lit) != nested:
        notes.append("NESTED_ARCHIVE_EXTENSIONS: runtime value differs from the source literal")
    consts = {}
    for nm in ("MAX_MEMORY_SIZE", "MAX_ARCHIVE_FILE_SIZE", "MAX_7Z_FILE_SIZE"):
        val = getattr(ae, nm)
        # the literals are products such as 10 * 1024 * 1024: evaluate the AST expression
        src_val = None
        for node in parse(AE).body:
            if isinstance(node, ast.Assign) and len(node.targets) == 1 and isinstance(node.targets[0], ast.Name) and node.targets[0].id == nm:
                try:
                    src_val = eval(compile(ast.Expression(node.value), AE, "eval"), {"__builtins__": {}})
                except Exception:
                    src_val = None
        if src_val != val:
            notes.append(f"{nm}: runtime value {val!r} differs from the source expression {src_val!r}")
        consts[nm] = int(val)
    default_cfg = ae.ArchiveConfig()
    if default_cfg.max_memory_size != consts["MAX_MEMORY_SIZE"]:
        notes.append("ArchiveConfig.max_memory_size default is not MAX_MEMORY_SIZE")
    L = [HEADER.format(src=f"{AE}, {SZ}")]
    L.append("import S2T.Model.Archive\nnamespace S2T.Gen.Archive\nopen S2T.Router (Str)\n")
    L.append("/-- NESTED_ARCHIVE_EXTENSIONS (sorted) -/")
    L.append("def nested : List Str := " + lean_list((chars(e) for e in nested), per_line=5) + "\n")
    L.append(f"def maxMemory : Nat := {consts['MAX_MEMORY_SIZE']}")
    L.append(f"def maxEntry : Nat := {consts['MAX_ARCHIVE_FILE_SIZE']}")
    L.append(f"def max7z : Nat := {consts['MAX_7Z_FILE_SIZE']}")
    L.append("def limits : S2T.Archive.Limits := { maxMemory := maxMemory, maxEntry := maxEntry }\n")
    for tag, rel in (("Extractor", AE), ("SevenZip", SZ)):
        L.append(f"/-- file-system relevant call sites of {rel}: (enclosing function, callee) -/")
        L.append(f"def fsCalls{tag} : List (Str × Str) := "
                 + lean_list(f"({chars(f)}, {chars(c)})" for f, c in _fs_calls(rel)) + "\n")
        L.append(f"def imports{tag} : List String := " + lean_list((lean_str(m) for m in _imports(rel)), per_line=4) + "\n")
    preds = _tar_kind_preds()
    if preds is None:
        notes.append("_extract_from_tar_optimized: function not found")
        preds = []
    L.append("/-- `TarInfo.is…()` predicates (and direct uses of `.type` / `.linkname`) in `_extract_from_tar_optimized`: "
             "the member-kind guard of the TAR loop -/")
    L.append("def tarKindPreds : List String := " + lean_list(lean_str(x) for x in preds) + "\n")
    keys, rets = _wanted_keys()
    L.append("/-- util/sevenzip.py: every expression put into / looked up in the set `wanted` of `extractall(members=…)` -/")
    L.append("def wantedKeys : List String := " + lean_list(lean_str(x) for x in keys) + "\n")
    L.append("/-- util/sevenzip.py: what the `list()` methods return (the objects `members=` is built from) -/")
    L.append("def listReturns : List String := " + lean_list(lean_str(x) for x in rets) + "\n")
    L.append("/-- translator cross-check notes; must be empty -/")
    L.append("def notes : List String := " + lean_list(lean_str(n) for n in notes) + "\n")
    L.append("end S2T.Gen.Archive\n")
    return "\n".join(L)
