"""C14: numbered parts and PDF filter tables -> S2T/Gen/ImageParts.lean

* `FILTER_TO_FORMAT` / `FILTER_TO_CONTENT_TYPE` of the PDF extractor (runtime value cross-checked with the source literal),
* the shape of the worksheet-relationship probe of xlsx `_extract_images_from_zip` read off the CURRENT source:
  which loops of the function iterate over what (`range(len(sheet_names))`, `sheet_to_drawing.items()`, ...), the
  pieces of the f-string that names the relationships part of the sheet at index k, and every call in the image
  functions of the xlsx / pdf extractors that re-orders a collection (`sorted`, `.sort`, `reversed`, `.reverse`,
  `set(...)`, `heapq.*`) — the theorems of Props/C14_Parts.lean are about a visiting order, so a new ordering call
  in these functions has to be looked at.
"""
import ast

from translate import HEADER, ast_literal_assign, chars, fresh_import, generator, lean_list, lean_str, parse

XLSX = "sharepoint2text/parsing/extractors/ms_modern/xlsx_extractor.py"
PDF = "sharepoint2text/parsing/extractors/pdf/pdf_extractor.py"

ORDERING_CALLS = {"sorted", "sort", "reversed", "reverse", "set", "frozenset", "nlargest", "nsmallest", "heapify", "shuffle"}


def _func(rel, name):
    for node in ast.walk(parse(rel)):
        if isinstance(node, ast.FunctionDef) and node.name == name:
            return node
    return None


def _ordering_sites(fn):
    out = []
    for node in ast.walk(fn):
        if isinstance(node, ast.Call):
            f = node.func
            nm = f.id if isinstance(f, ast.Name) else f.attr if isinstance(f, ast.Attribute) else None
            if nm in ORDERING_CALLS:
                out.append(nm)
    return sorted(out)


def _fstring_pieces(node):
    """(literal prefix, expression source, literal suffix) of an f-string with exactly one placeholder"""
    if not isinstance(node, ast.JoinedStr):
        return None
    lits = [v for v in node.values if isinstance(v, ast.Constant)]
    exprs = [v for v in node.values if isinstance(v, ast.FormattedValue)]
    if len(exprs) != 1:
        return None
    i = node.values.index(exprs[0])
    pre = "".join(v.value for v in node.values[:i] if isinstance(v, ast.Constant))
    suf = "".join(v.value for v in node.values[i + 1:] if isinstance(v, ast.Constant))
    fv = exprs[0]
    if fv.format_spec is not None or fv.conversion != -1:
        return None
    return pre, ast.unparse(fv.value), suf


@generator("ImageParts")
def gen_image_parts() -> str:
    pdf = fresh_import("sharepoint2text.parsing.extractors.pdf.pdf_extractor")
    notes = []
    tables = {}
    for nm in ("FILTER_TO_FORMAT", "FILTER_TO_CONTENT_TYPE"):
        val = dict(getattr(pdf, nm))
        lit = ast_literal_assign(PDF, nm)
        if lit is None:
            notes.append(f"pdf.{nm}: not a literal in the source")
        elif lit != val:
            notes.append(f"pdf.{nm}: runtime value differs from the source literal")
        tables[nm] = val

    fn = _func(XLSX, "_extract_images_from_zip")
    loops, probe = [], []
    if fn is None:
        notes.append("xlsx._extract_images_from_zip: no such function")
    else:
        for node in ast.walk(fn):
            if isinstance(node, (ast.For, ast.comprehension)):
                loops.append(ast.unparse(node.iter))
            if isinstance(node, ast.Assign) and len(node.targets) == 1 and isinstance(node.targets[0], ast.Name) and node.targets[0].id == "rels_path":
                p = _fstring_pieces(node.value)
                probe.append(p if p is not None else ("?", ast.unparse(node.value), "?"))
    # the loop that assigns rels_path: `for <v> in range(len(<name>))` and the placeholder is `<v> + 1`
    by_index = False
    if fn is not None:
        for node in ast.walk(fn):
            if not isinstance(node, ast.For) or not isinstance(node.target, ast.Name):
                continue
            assigns = [a for a in ast.walk(node) if isinstance(a, ast.Assign) and len(a.targets) == 1
                       and isinstance(a.targets[0], ast.Name) and a.targets[0].id == "rels_path"]
            if not assigns:
                continue
            params = [a.arg for a in fn.args.args]
            it = ast.unparse(node.iter).replace(" ", "")
            v = node.target.id
            pcs = [_fstring_pieces(a.value) for a in assigns]
            ph = pcs[0][1].replace(" ", "") if (len(pcs) == 1 and pcs[0] is not None) else None
            # equivalent ways to say "for every sheet index k = 0 .. n-1 probe the name with k + 1"
            by_index = any((it, ph) in ((f"range(len({p_}))", f"{v}+1"), (f"range(1,len({p_})+1)", v), (f"range(1,1+len({p_}))", v))
                           for p_ in params)
            break
    sites = []
    for rel, mod, names in ((XLSX, "xlsx", ["_extract_images_from_zip"]), (PDF, "pdf", ["_extract_image_bytes", "_extract_image"])):
        for n in names:
            f = _func(rel, n)
            if f is None:
                notes.append(f"{mod}.{n}: no such function")
                continue
            for s in _ordering_sites(f):
                sites.append(f"{mod}.{n}:{s}")

    def table(d):
        return lean_list(f"({chars(k)}, {chars(v)})" for k, v in d.items())

    L = [HEADER.format(src=", ".join((XLSX, PDF)))]
    L.append("namespace S2T.Gen.ImageParts\n")
    L.append("def pdf_format : List (List Char × List Char) := " + table(tables["FILTER_TO_FORMAT"]) + "\n")
    L.append("def pdf_ctype : List (List Char × List Char) := " + table(tables["FILTER_TO_CONTENT_TYPE"]) + "\n")
    L.append("/-- the loop of xlsx `_extract_images_from_zip` that names the relationships part is `for v in range(len(<parameter>))`")
    L.append("    and the part name is the f-string below with the placeholder `v + 1` (or `range(1, len(<parameter>) + 1)` and `v`) -/")
    L.append(f"def xlsx_probe_by_index : Bool := {'true' if by_index else 'false'}\n")
    L.append("/-- iterables of the `for` loops of xlsx `_extract_images_from_zip` (for the reader; breadth-first AST order) -/")
    L.append("def xlsx_image_loops : List String := " + lean_list(lean_str(x) for x in loops) + "\n")
    L.append("/-- `rels_path = f\"<prefix>{<expr>}<suffix>\"` in xlsx `_extract_images_from_zip` -/")
    L.append("def xlsx_rels_probe : List (String × String × String) := " + lean_list(f"({lean_str(a)}, {lean_str(b)}, {lean_str(c)})" for a, b, c in probe) + "\n")
    L.append("/-- calls that re-order a collection inside the image functions (function:callee) -/")
    L.append("def ordering_sites : List String := " + lean_list(lean_str(s) for s in sites) + "\n")
    L.append("/-- translator cross-check notes; must be empty -/")
    L.append("def notes : List String := " + lean_list(lean_str(n) for n in notes) + "\n")
    L.append("end S2T.Gen.ImageParts\n")
    return "\n".join(L)
