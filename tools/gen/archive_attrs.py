"""C09: what the archive code does with entry ATTRIBUTES (7z attribute words, ZipInfo / TarInfo metadata fields,
FileInfo fields) -> S2T/Gen/ArchiveAttrs.lean

The Lean model keeps of a 7z entry's 32-bit attribute word exactly one bit (FILE_ATTRIBUTE_DIRECTORY, `attributes[i] & 0x10`
in `_build_file_list`), of a ZIP member `filename / is_dir() / flag_bits / file_size`, of a TAR member `name / isreg() / size`.
The inventories below are what the CURRENT source reads; the facts in Props/C09_Attrs.lean (re-decided by the kernel on every
run) say that it reads nothing else, so that no entry can be recreated as a link / device / fifo / reparse point and no
unix mode or Windows attribute can select another code path.
"""
import ast
import tarfile
import zipfile

from translate import HEADER, generator, lean_list, lean_str, parse

AE = "sharepoint2text/parsing/extractors/archive_extractor.py"
SZ = "sharepoint2text/parsing/extractors/util/sevenzip.py"

# metadata fields of zipfile.ZipInfo / tarfile.TarInfo that describe what KIND of node a member is or how it is to be
# recreated on disk (none of them is part of the model); generic names (name, size, filename, …) are handled per function
ZIP_META = {"external_attr", "internal_attr", "create_system", "create_version", "extract_version", "extra", "reserved", "volume"}
TAR_META = {"linkname", "linkpath", "devmajor", "devminor", "uid", "gid", "uname", "gname", "pax_headers", "chksum",
            "issym", "islnk", "ischr", "isblk", "isfifo", "isdev", "isdir", "isfile", "issparse", "type", "mode"}


def _parents(tree):
    par = {}
    for node in ast.walk(tree):
        for ch in ast.iter_child_nodes(node):
            par[ch] = node
    return par


def _enclosing(node, par):
    names = []
    while node in par:
        node = par[node]
        if isinstance(node, (ast.FunctionDef, ast.AsyncFunctionDef)):
            names.append(node.name)
    return ".".join(reversed(names)) or "<module>"


def _callee(call):
    try:
        return ast.unparse(call.func)
    except Exception:
        return "?"


def _attr_uses(rel):
    """what happens to a 7z attribute word in one file: sorted set of
       "store:<function>"              the word is written (list initialisation, `attributes[i] = …`, parameter, field)
       "pass:<function>:<callee>"      the list / a word is handed on unchanged as an argument
       "test:<function>:<expression>"  anything else: the smallest expression around the occurrence"""
    tree = parse(rel)
    par = _parents(tree)
    out = set()
    for node in ast.walk(tree):
        occ = None
        if isinstance(node, ast.Name) and node.id == "attributes":
            occ = node
        elif isinstance(node, ast.Attribute) and node.attr == "attributes":
            occ = node
        elif isinstance(node, ast.arg) and node.arg == "attributes":
            out.add(f"store:{_enclosing(node, par)}")
            continue
        elif isinstance(node, ast.keyword) and node.arg == "attributes":
            # FileInfo(attributes=…): the value is looked at below, as an occurrence of its own if it names `attributes`
            continue
        if occ is None:
            continue
        fn = _enclosing(occ, par)
        if isinstance(getattr(occ, "ctx", None), (ast.Store, ast.Del)):
            out.add(f"store:{fn}")
            continue
        top = occ
        while isinstance(par.get(top), ast.Subscript) and par[top].value is top:
            top = par[top]
        if isinstance(getattr(top, "ctx", None), (ast.Store, ast.Del)):
            out.add(f"store:{fn}")
            continue
        p = par.get(top)
        if isinstance(p, ast.AnnAssign) and p.target is top:
            out.add(f"store:{fn}")
        elif isinstance(p, ast.keyword) and isinstance(par.get(p), ast.Call):
            out.add(f"pass:{fn}:{_callee(par[p])}")
        elif isinstance(p, ast.Call) and top in p.args:
            out.add(f"pass:{fn}:{_callee(p)}")
        else:
            out.add(f"test:{fn}:{ast.unparse(p) if isinstance(p, ast.expr) else ast.unparse(top) + ' in ' + type(p).__name__}")
    return sorted(out)


def _fileinfo_members():
    """field and property names of the dataclass `FileInfo` in util/sevenzip.py"""
    for node in ast.walk(parse(SZ)):
        if isinstance(node, ast.ClassDef) and node.name == "FileInfo":
            fields = [s.target.id for s in node.body if isinstance(s, ast.AnnAssign) and isinstance(s.target, ast.Name)]
            props = [s.name for s in node.body if isinstance(s, (ast.FunctionDef, ast.AsyncFunctionDef))]
            return fields, props
    return None, None


def _attr_loads(tree, names, only_fn=None):
    """sorted attribute names out of `names` that are READ (on whatever object), optionally inside one function only"""
    out = set()
    roots = [tree]
    if only_fn is not None:
        roots = [n for n in ast.walk(tree) if isinstance(n, (ast.FunctionDef, ast.AsyncFunctionDef)) and n.name == only_fn]
    for root in roots:
        for node in ast.walk(root):
            if isinstance(node, ast.Attribute) and isinstance(node.ctx, ast.Load) and node.attr in names:
                if isinstance(node.value, ast.Name) and node.value.id in ("os", "posixpath", "ntpath"):
                    continue    # os.path, not TarInfo.path
                out.add(node.attr)
            # getattr(x, "external_attr") and friends
            if isinstance(node, ast.Call) and isinstance(node.func, ast.Name) and node.func.id in ("getattr", "hasattr") and len(node.args) >= 2:
                a = node.args[1]
                if not (isinstance(a, ast.Constant) and isinstance(a.value, str)):
                    out.add("<dynamic getattr>")
                elif a.value in names:
                    out.add(a.value)
    return sorted(out), bool(roots)


def _class_names(cls):
    names = set(getattr(cls, "__slots__", ()))
    names |= {n for n in dir(cls) if not n.startswith("__")}
    return names


@generator("ArchiveAttrs")
def gen_archive_attrs() -> str:
    notes = []
    ae, sz = parse(AE), parse(SZ)
    fields, props = _fileinfo_members()
    if fields is None:
        notes.append("class FileInfo not found in util/sevenzip.py")
        fields, props = [], []
    fi_names = set(fields) | set(props)
    fi_reads = sorted(set(_attr_loads(ae, fi_names)[0]) | set(_attr_loads(sz, fi_names)[0]))
    zi_names = _class_names(zipfile.ZipInfo)
    ti_names = _class_names(tarfile.TarInfo)
    zip_fn, ok1 = _attr_loads(ae, zi_names, "_extract_from_zip_optimized")
    tar_fn, ok2 = _attr_loads(ae, ti_names, "_extract_from_tar_optimized")
    if not ok1:
        notes.append("_extract_from_zip_optimized: function not found")
    if not ok2:
        notes.append("_extract_from_tar_optimized: function not found")
    meta_ae = sorted(set(_attr_loads(ae, ZIP_META | TAR_META)[0]))
    # in util/sevenzip.py `type` / `mode` … are not TarInfo fields; only the link / device / ownership vocabulary counts there
    meta_sz = sorted(set(_attr_loads(sz, ZIP_META | (TAR_META - {"type", "mode"}))[0]))
    L = [HEADER.format(src=f"{AE}, {SZ}")]
    L.append("namespace S2T.Gen.ArchiveAttrs\n")
    L.append("/-- util/sevenzip.py: every occurrence of a 7z attribute word (`attributes`, `.attributes`): stored, passed on, or tested -/")
    L.append("def attrUsesSevenZip : List String := " + lean_list(lean_str(x) for x in _attr_uses(SZ)) + "\n")
    L.append("/-- archive_extractor.py: the same -/")
    L.append("def attrUsesExtractor : List String := " + lean_list(lean_str(x) for x in _attr_uses(AE)) + "\n")
    L.append("/-- fields and properties of the dataclass `FileInfo` -/")
    L.append("def fileInfoFields : List String := " + lean_list(lean_str(x) for x in fields))
    L.append("def fileInfoProps : List String := " + lean_list(lean_str(x) for x in props) + "\n")
    L.append("/-- names of `FileInfo` fields / properties READ anywhere in the two files (on whatever object) -/")
    L.append("def fileInfoReads : List String := " + lean_list(lean_str(x) for x in fi_reads) + "\n")
    L.append("/-- ZipInfo attribute / method names read in `_extract_from_zip_optimized` -/")
    L.append("def zipInfoReads : List String := " + lean_list(lean_str(x) for x in zip_fn) + "\n")
    L.append("/-- TarInfo attribute / method names read in `_extract_from_tar_optimized` -/")
    L.append("def tarInfoReads : List String := " + lean_list(lean_str(x) for x in tar_fn) + "\n")
    L.append("/-- node-kind / recreation metadata (external_attr, create_system, linkname, devmajor, issym, …) read anywhere -/")
    L.append("def metaReadsExtractor : List String := " + lean_list(lean_str(x) for x in meta_ae))
    L.append("def metaReadsSevenZip : List String := " + lean_list(lean_str(x) for x in meta_sz) + "\n")
    L.append("/-- translator cross-check notes; must be empty -/")
    L.append("def notes : List String := " + lean_list(lean_str(n) for n in notes) + "\n")
    L.append("end S2T.Gen.ArchiveAttrs\n")
    return "\n".join(L)
