"""C06: process-global state that is NOT a builtin mutable container -> S2T/Gen/ModCells.lean

`tools/gen/modstate.py` inventories dict / list / set / deque … objects bound at module or class level.  State can
survive an extraction in any other object that is not immutable by construction as well: a ONE-SHOT ITERATOR
(`zip(...)`, `map(...)`, `filter(...)`, `iter(...)`, `reversed(...)`, `enumerate(...)`, a generator expression, an
`itertools` object, `csv.reader`, `re.finditer(...)`: the first consumer empties it), an open stream (its position), a
`random.Random` (its state), a lock, an instance of a class with writable attributes, a closure cell that a
module-level function made by a factory rebinds (`nonlocal n; n += 1`).  Emitted from the CURRENT tree,
by the runtime value of every name bound in every package module (defined there or imported into it), every class
attribute of package classes, every function default / keyword default, and — recursively — every value stored
INSIDE module-level tuples / frozensets / dicts / lists / sets (a tuple holding an iterator is as exhaustible as
the iterator):

  statefulCells  (file, name, runtime type, kind)   kind ∈ iterator | stream | rng | lock | instance | closure | opaque
                 (frozen dataclass instances are not listed themselves; their field values are walked)
  loadedKinds    the kinds the classifier knows (so that the Lean side decides over a closed alphabet)

"immutable by construction" (not listed): None / bool / int / float / complex / str / bytes / range / slice /
Ellipsis / NotImplemented, tuple / frozenset of such, re.Pattern, struct.Struct, modules, classes, functions,
builtins, methods, functools.partial of such, lru_cache wrappers (inventoried as memos by modstate), logging
loggers (not read back by extractors), typing / types.GenericAlias objects, `__future__` features, enum members,
Decimal / Fraction / datetime values, and the builtin mutable containers themselves (modstate's inventory).
"""
import dataclasses
import decimal
import datetime
import enum
import fractions
import functools
import importlib
import io
import logging
import random
import re
import struct
import types

from translate import HEADER, generator, lean_list, lean_str
from gen.modstate import MUTABLE_TYPES, _modname, _package_files, _short

KINDS = ["iterator", "stream", "rng", "lock", "instance", "closure", "opaque"]
_ATOM = (type(None), bool, int, float, complex, str, bytes, range, slice, type(Ellipsis), type(NotImplemented),
         re.Pattern, struct.Struct, types.ModuleType, type, types.FunctionType, types.BuiltinFunctionType,
         types.MethodType, types.MethodDescriptorType, types.WrapperDescriptorType, types.GenericAlias,
         logging.Logger, logging.LoggerAdapter, enum.Enum, decimal.Decimal, fractions.Fraction,
         datetime.date, datetime.time, datetime.timedelta, datetime.tzinfo, property, staticmethod, classmethod,
         types.MemberDescriptorType, types.GetSetDescriptorType, dataclasses.Field, types.MappingProxyType)
_LOCKS = {"lock", "RLock", "_RLock", "Condition", "Semaphore", "BoundedSemaphore", "Event"}


def kind_of(v):
    """None for values that are immutable by construction or builtin containers; else the kind of state they hold"""
    if isinstance(v, _ATOM):
        return None
    t = type(v)
    if t.__module__ in ("typing", "__future__", "typing_extensions", "abc"):
        return None
    if hasattr(v, "cache_info") and callable(v):
        return None
    if isinstance(v, functools.partial):
        return None
    if t.__name__ in MUTABLE_TYPES or isinstance(v, (tuple, frozenset)):
        return None                                   # the container itself; its elements are walked by the caller
    if hasattr(t, "__next__"):
        return "iterator"
    if isinstance(v, io.IOBase) or (hasattr(v, "read") and hasattr(v, "seek")):
        return "stream"
    if isinstance(v, random.Random):
        return "rng"
    if t.__name__ in _LOCKS and t.__module__ in ("_thread", "threading"):
        return "lock"
    if t.__name__ == "_tuplegetter":                  # field descriptors of namedtuple classes
        return None
    if dataclasses.is_dataclass(v):
        return "frozen-instance" if t.__dataclass_params__.frozen else "instance"
    if callable(v) and not hasattr(v, "__dict__"):
        return None
    if hasattr(v, "__dict__") or hasattr(t, "__slots__"):
        return "instance"
    return "opaque"


def walk(name, v, out, depth=0, seen=None):
    """(name, type, kind) of every stateful value reachable from v through containers / frozen instances"""
    seen = set() if seen is None else seen
    if id(v) in seen or depth > 4:
        return
    seen.add(id(v))
    k = kind_of(v)
    if k == "frozen-instance":                        # immutable itself: only what its fields hold can carry state
        for f in dataclasses.fields(v):
            walk(f"{name}.{f.name}", getattr(v, f.name, None), out, depth + 1, seen)
        return
    if k is not None:
        out.append((name, type(v).__name__, k))
        return
    try:
        if isinstance(v, dict) or type(v).__name__ in ("OrderedDict", "defaultdict", "Counter", "ChainMap"):
            items = list(v.items())[:400]
            for kk, x in items:
                walk(f"{name}[…]", kk, out, depth + 1, seen)
                walk(f"{name}[…]", x, out, depth + 1, seen)
        elif isinstance(v, (list, tuple, set, frozenset)) or type(v).__name__ == "deque":
            for x in list(v)[:400]:
                walk(f"{name}[…]", x, out, depth + 1, seen)
        elif isinstance(v, functools.partial):
            for x in tuple(v.args) + tuple((v.keywords or {}).values()):
                walk(f"{name}(…)", x, out, depth + 1, seen)
    except Exception:
        out.append((name, type(v).__name__, "opaque"))


def _closure(name, fn, out):
    """a module-level function made by a factory: the cells it closes over outlive every call; a cell the function
    REBINDS (`nonlocal n; n += 1`) is a counter / flag that survives extractions"""
    import dis
    cells = fn.__closure__ or ()
    if not cells:
        return
    stored = {i.argval for i in dis.get_instructions(fn.__code__) if i.opname in ("STORE_DEREF", "DELETE_DEREF")}
    for var, cell in zip(fn.__code__.co_freevars, cells):
        if var in stored:
            out.append((f"{name}.<closure>.{var}", "cell", "closure"))
        try:
            walk(f"{name}.<closure>.{var}", cell.cell_contents, out)
        except ValueError:
            pass


def scan_module(rel):
    mod = importlib.import_module(_modname(rel))
    out = []
    for name, val in sorted(vars(mod).items()):
        if name.startswith("__"):
            continue
        if isinstance(val, type):
            if getattr(val, "__module__", None) != mod.__name__:
                continue
            for an, av in sorted(vars(val).items()):
                if an.startswith("__") or an.startswith("_abc_"):
                    continue
                if isinstance(av, (staticmethod, classmethod)):
                    av = av.__func__
                if isinstance(av, types.FunctionType):
                    walk(f"{name}.{an}.<defaults>", (av.__defaults__, tuple((av.__kwdefaults__ or {}).values())), out)
                else:
                    walk(f"{name}.{an}", av, out)
            continue
        if isinstance(val, types.FunctionType):
            if str(getattr(val, "__module__", "")).startswith("sharepoint2text"):
                _closure(name, val, out)
            if getattr(val, "__module__", None) != mod.__name__:
                continue
            walk(f"{name}.<defaults>", (val.__defaults__, tuple((val.__kwdefaults__ or {}).values()), tuple(vars(val).values())), out)
            continue
        walk(name, val, out)
    return sorted(set((rel, n, t, k) for n, t, k in out))


@generator("ModCells")
def gen_modcells() -> str:
    cells, notes = [], []
    for rel in _package_files():
        try:
            cells += scan_module(rel)
        except ImportError as ex:
            notes.append(f"import failed: {rel}: {type(ex).__name__}")
    L = [HEADER.format(src="every module of sharepoint2text (runtime values of module / class attributes and defaults)")]
    L.append("namespace S2T.Gen.ModCells\n")
    L.append("/-- (file, name, runtime type, kind): values bound at module / class level (or inside a module-level container, or as a\n"
             "    default value) that are neither immutable by construction nor builtin containers -/")
    L.append("def statefulCells : List (String × String × String × String) := " + lean_list(
        f"({lean_str(_short(a))}, {lean_str(b)}, {lean_str(c)}, {lean_str(d)})" for a, b, c, d in sorted(cells)) + "\n")
    L.append("/-- the kinds the classifier distinguishes -/")
    L.append("def kinds : List String := " + lean_list(lean_str(k) for k in KINDS) + "\n")
    L.append("/-- translator notes; must be empty -/")
    L.append("def notes : List String := " + lean_list(lean_str(n) for n in notes) + "\n")
    L.append("end S2T.Gen.ModCells\n")
    return "\n".join(L)
