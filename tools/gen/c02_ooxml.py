"""C02 (part "ooxml"): tag constants, placeholder-type sets, HTML tag sets and the str.isspace code points
-> S2T/Gen/Ooxml.lean"""
import ast
import re
import sys

from translate import HEADER, chars, fresh_import, generator, lean_list, lean_str, parse

DOCX = "sharepoint2text/parsing/extractors/ms_modern/docx_extractor.py"
PPTX = "sharepoint2text/parsing/extractors/ms_modern/pptx_extractor.py"
HTML = "sharepoint2text/parsing/extractors/html_extractor.py"

# Lean constructor of S2T.C02.Ooxml.Tag  <-  module attribute
DOCX_TAGS = [("wP", "W_P"), ("wR", "W_R"), ("wT", "W_T"), ("wTab", "W_TAB"), ("wBr", "W_BR"), ("wCr", "W_CR"),
             ("wTbl", "W_TBL"), ("wTr", "W_TR"), ("wTc", "W_TC"), ("wSdt", "W_SDT"), ("wSdtContent", "W_SDTCONTENT"),
             ("wCustomXml", "W_CUSTOMXML"), ("wTxbxContent", "W_TXBXCONTENT"), ("choice", "MC_CHOICE"),
             ("oMath", "M_OMATH"), ("oMathPara", "M_OMATHPARA")]
PPTX_TAGS = [("aP", "A_P"), ("aR", "A_R"), ("aFld", "A_FLD"), ("aT", "A_T"), ("aBr", "A_BR")]


def _clist(s: str) -> str:
    """explicit `List Char` literal (the kernel evaluates `"…".toList` of a long literal very slowly)"""
    def ch(c):
        if c == "'":
            return "'\\''"
        if c == "\\":
            return "'\\\\'"
        if 32 <= ord(c) < 127:
            return "'%s'" % c
        return "(Char.ofNat %d)" % ord(c)
    return "[" + ", ".join(ch(c) for c in s) + "]"


@generator("Ooxml")
def gen_ooxml() -> str:
    notes = []
    dx = fresh_import("sharepoint2text.parsing.extractors.ms_modern.docx_extractor")
    px = fresh_import("sharepoint2text.parsing.extractors.ms_modern.pptx_extractor")
    hx = fresh_import("sharepoint2text.parsing.extractors.html_extractor")

    def names(mod, table, rel):
        out = []
        for ctor, attr in table:
            v = getattr(mod, attr, None)
            if not isinstance(v, str):
                notes.append(f"{rel}: {attr} does not exist")
                v = ""
            out.append((ctor, v))
        return out

    dtags = names(dx, DOCX_TAGS, DOCX)
    ptags = names(px, PPTX_TAGS, PPTX)

    def strset(mod, attr, rel):
        v = getattr(mod, attr, None)
        if not isinstance(v, (set, frozenset)) or not all(isinstance(x, str) for x in v):
            notes.append(f"{rel}: {attr} is not a set of str")
            return []
        return sorted(v)

    spaces = [c for c in range(sys.maxunicode + 1) if chr(c).isspace()]
    re_spaces = [c for c in range(sys.maxunicode + 1) if not (0xD800 <= c <= 0xDFFF) and re.fullmatch(r"\s", chr(c))]
    if re_spaces != [c for c in spaces if not (0xD800 <= c <= 0xDFFF)]:
        notes.append("regex \\s and str.isspace disagree")
    if sorted(set(" \t\n\r\x0b\x0c")) != sorted(chr(c) for c in spaces if c < 128 and c not in (0x1c, 0x1d, 0x1e, 0x1f)):
        notes.append("unexpected ASCII whitespace set")

    L = [HEADER.format(src=f"{DOCX}, {PPTX}, {HTML}")]
    L.append("import S2T.Model.OoxmlText\nimport S2T.Model.OoxmlHtml\nimport S2T.Model.OoxmlPptx\nnamespace S2T.Gen.Ooxml\nopen S2T.C02.Ooxml\n")
    L.append("/-- code points c with chr(c).isspace() (= regex \\s) -/")
    L.append("def pySpaces : List Nat := " + lean_list([str(c) for c in spaces], per_line=12) + "\n")
    L.append("def isPySpace (c : Char) : Bool := pySpaces.contains c.toNat\n")
    L.append("/-- Clark names of the tags the walkers compare with -/")
    L.append("def tagNames : List (Tag × Str) := " + lean_list(f"(.{c}, {_clist(v)})" for c, v in dtags + ptags) + "\n")
    L.append("def pptx : Pptx.Consts := {\n  titleTypes := " + lean_list((chars(x) for x in strset(px, "TITLE_TYPES", PPTX)), per_line=8)
             + ",\n  bodyTypes := " + lean_list((chars(x) for x in strset(px, "BODY_TYPES", PPTX)), per_line=8)
             + ",\n  footerTypes := " + lean_list((chars(x) for x in strset(px, "FOOTER_TYPES", PPTX)), per_line=8)
             + ",\n  skipTypes := " + lean_list((chars(x) for x in strset(px, "SKIP_TYPES", PPTX)), per_line=8) + " }\n")
    L.append("def html : Html.Tables := {\n  remove := " + lean_list((chars(x) for x in strset(hx, "REMOVE_TAGS", HTML)), per_line=8)
             + ",\n  block := " + lean_list((chars(x) for x in strset(hx, "BLOCK_TAGS", HTML)), per_line=8)
             + ",\n  breaks := " + lean_list((chars(x) for x in strset(hx, "_CELL_BREAK_TAGS", HTML)), per_line=8) + " }\n")
    L.append("/-- translator cross-check notes; must be empty -/")
    L.append("def notes : List String := " + lean_list(lean_str(n) for n in notes) + "\n")
    L.append("end S2T.Gen.Ooxml\n")
    return "\n".join(L)
