#!/bin/bash
# merge_agent.sh Cxx : copy a builder agent's property-owned files from /tmp/w/Cxx/verif into /verif
set -e
P=$1; SRC=/tmp/w/$P/verif; DST=/verif
cd $SRC
# files that differ from /verif or are new (excluding build output, evidence, replays, generated files)
rsync -rcn --out-format='%n' --exclude '.lake' --exclude 'replays' --exclude 'evidence' --exclude '__pycache__' \
  --exclude 'lean/S2T/Gen' --exclude 'lean/Driver.lean' --exclude 'lean/S2T.lean' --exclude 'MANIFEST.json' --exclude '.git' \
  $SRC/ $DST/ | grep -v '/$' || true
