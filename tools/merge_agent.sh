#!/bin/bash
# merge_agent.sh Cxx : copy a builder agent's NEW files (and its own property files) from /tmp/w/Cxx/verif into /verif
P=$1; SRC=/tmp/w/$P/verif; DST=/verif
cd $SRC
p=$(echo $P | tr A-Z a-z)
rsync -rcn --out-format='%n' --exclude '.lake' --exclude 'replays' --exclude 'evidence' --exclude '__pycache__' \
  --exclude 'lean/S2T/Gen' --exclude 'lean/Driver.lean' --exclude 'lean/S2T.lean' --exclude 'MANIFEST.json' --exclude '.git' \
  $SRC/ $DST/ | grep -v '/$' | while read f; do
  if [ ! -e "$DST/$f" ]; then mkdir -p "$(dirname "$DST/$f")"; cp "$SRC/$f" "$DST/$f"; echo "NEW   $f";
  elif echo "$f" | grep -qiE "(/|^)($P|$p)[._]|manifest.d/$P.json"; then cp "$SRC/$f" "$DST/$f"; echo "OWN   $f";
  else echo "SKIP  $f (differs, shared)"; fi
done
echo "--- known_findings lines of $P:"; grep "\"$P\"" $SRC/known_findings.jsonl 2>/dev/null
echo "--- patches:"; ls /tmp/w/$P/*.patch 2>/dev/null
