#!/usr/bin/env python3
"""validate MANIFEST.json and evidence/*.json against the schemas (run with python3-vt, which has jsonschema)"""
import json, glob, sys, os
import jsonschema
V = os.path.dirname(os.path.dirname(os.path.abspath(__file__)))
ok = True
m = json.load(open(os.path.join(V, "MANIFEST.json")))
jsonschema.validate(m, json.load(open("/root/.vp/MANIFEST.schema.json")))
es = json.load(open("/root/.vp/EVIDENCE.schema.json"))
for c in m["checks"]:
    p = os.path.join(V, c["evidence_file"])
    if not os.path.exists(p):
        print("MISSING", p); ok = False; continue
    e = json.load(open(p))
    try:
        jsonschema.validate(e, es)
        cov = e["coverage"]
        if e["level"] == "proof" and cov.get("obligations") != cov.get("discharged"):
            print("NOT-ALL-DISCHARGED", c["property_id"], cov.get("obligations"), cov.get("discharged")); ok = False
        print(c["property_id"], e["tier"], "obl", cov.get("obligations"), "cases", cov.get("evaluations"), "distinct", cov.get("distinct_nontrivial"), "wall", e["wall_s"], "viol", e.get("violations"))
    except jsonschema.ValidationError as ex:
        print("INVALID", p, ex.message[:200]); ok = False
props = [json.loads(l)["id"] for l in open(os.path.join(V, "properties.jsonl"))]
claimed = {c["property_id"] for c in m["checks"]}; na = {n["property_id"] for n in m.get("not_applicable", [])}
assert claimed | na == set(props) and not (claimed & na), (claimed, na)
print("claimed", len(claimed), "not claimed", sorted(na))
sys.exit(0 if ok else 1)
