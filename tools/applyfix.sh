#!/bin/bash
# applyfix.sh <patch> "<commit message>" : apply to /repo, require the unedited suite at baseline, commit; prints the short hash
cd /repo || exit 2
git apply "$1" 2>/dev/null || patch -p1 -s < "$1" || { echo "APPLY-FAILED $1"; git checkout -- .; exit 1; }
if git status --short | grep -q "tests/"; then echo "PATCH TOUCHES TESTS"; git checkout -- .; exit 1; fi
r=$(/venv/bin/python -m pytest -q -p no:cacheprovider --timeout=900 2>&1 | tail -1)
echo "$r" | grep -q "3 failed, 236 passed" || { echo "TESTS CHANGED: $r"; git checkout -- .; git clean -fdq; exit 1; }
git add -A; git commit -qm "$2"; git log --format=%h -n1
