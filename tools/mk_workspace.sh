#!/bin/bash
# mk_workspace.sh NAME [OLD]: private workspace /tmp/w/NAME = copy of /verif (warm .lake) + worktree of /repo HEAD.
# With OLD (= an earlier workspace dir), the files that exist only in OLD/verif are overlaid (a builder's own files).
set -e
N=$1; OLD=$2; W=/tmp/w/$N
mkdir -p $W
rsync -a --exclude .git --exclude evidence --exclude replays --exclude __pycache__ /verif/ $W/verif/
mkdir -p $W/verif/evidence $W/verif/replays
git -C /repo worktree add -q --detach $W/repo HEAD
if [ -n "$OLD" ]; then
  cd $OLD/verif
  rsync -rcn --out-format='%n' --exclude '.lake' --exclude replays --exclude evidence --exclude __pycache__ --exclude 'lean/S2T/Gen' \
    --exclude lean/Driver.lean --exclude lean/S2T.lean --exclude MANIFEST.json --exclude .git ./ $W/verif/ | grep -v '/$' | while read f; do
    if [ ! -e "/verif/$f" ]; then mkdir -p "$(dirname "$W/verif/$f")"; cp "$f" "$W/verif/$f"; echo "OVERLAY $f"; fi
  done
  cp $OLD/*.patch $OLD/*.diff $W/ 2>/dev/null || true
fi
# baseline commit inside the workspace copy, so the builder can deliver `git diff` / `git status` against it
(cd $W/verif && git init -q 2>/dev/null && git add -A >/dev/null 2>&1 && git -c user.name=ws -c user.email=ws@example.invalid commit -qm baseline >/dev/null 2>&1) || true
echo "workspace $W ready"
