#!/usr/bin/env python3
"""Regenerates /verif/MANIFEST.json from manifest.d/Cxx.json fragments (text, note, technique, design)."""
import json, os
HERE = os.path.dirname(os.path.abspath(__file__))
VERIF = os.path.dirname(HERE)

CHECKS = {}
for fn in sorted(os.listdir(os.path.join(VERIF, "manifest.d"))):
    if fn.endswith(".json"):
        CHECKS[fn[:-5]] = json.load(open(os.path.join(VERIF, "manifest.d", fn)))
NOT_YET = {}

def main():
    props = [json.loads(l) for l in open(os.path.join(VERIF, "properties.jsonl"))]
    checks = []
    for p in props:
        pid = p["id"]
        if pid not in CHECKS:
            continue
        c = CHECKS[pid]
        checks.append({
            "property_id": pid,
            "quick_cmd": f"./check {pid} --tier quick",
            "thorough_cmd": f"./check {pid} --tier thorough",
            "evidence_file": f"evidence/{pid}.json",
            "replay_cmd_template": f"./check {pid} --replay {{path}}",
            "engine": "lean4-model+correspondence",
            "level_claimed": {"category": "proof", "text": c["text"], "design_ref": c["design"]},
            "level_note": c["note"],
            "technique": c["technique"],
        })
    na = [{"property_id": p["id"], "reason": NOT_YET.get(p["id"], "check not built yet in this round (design in DESIGN.md §5); not claimed until its theorems and correspondence run")}
          for p in props if p["id"] not in CHECKS]
    m = {
        "version": 1,
        "setup_cmd": "cd /verif && ./setup.sh",
        "hooks": {"guard": "S2T_VERIF", "enable": "no source hooks: observation is done from inside the harness process (monkeypatching, audit hooks)",
                  "baseline_off_cmd": "cd /repo && /venv/bin/python -m pytest -ra -q -p no:cacheprovider --timeout=900 --continue-on-collection-errors",
                  "source_commits": [], "add_only": True},
        "engines": [{"name": "lean4-model+correspondence", "path": "lean/", "serves_properties": sorted(CHECKS),
                     "kind_free_text": "Lean 4.33 theorems about an executable model; tables/inventories regenerated from /repo by tools/translate.py; differential correspondence harness in harness/"}],
        "checks": checks,
        "notes": "Single entry point ./check <id>. Exit 2 = infrastructure trouble (timeout/tool crash), never a verdict.",
        "not_applicable": na,
    }
    with open(os.path.join(VERIF, "MANIFEST.json"), "w") as fh:
        json.dump(m, fh, indent=1); fh.write("\n")

if __name__ == "__main__":
    main()
