#!/bin/bash
# try_seeded_ws.sh <Dir>... : like try_seeded.sh but in the private workspace /tmp/w/regress (copy of /verif + worktree of /repo HEAD),
# so /repo and /verif stay untouched (background runs use /repo itself). Dir = name under /tmp/m with out/<n>/patch.diff
W=/tmp/w/${TRY_WS:-regress}
[ -d $W ] || /verif/tools/mk_workspace.sh ${TRY_WS:-regress} >/dev/null
rsync -a --exclude .git --exclude evidence --exclude replays --exclude __pycache__ --exclude .lake /verif/ $W/verif/
cd $W/verif; export S2T_REPO=$W/repo
git -C $W/repo checkout -q --detach $(git -C /repo rev-parse HEAD); git -C $W/repo checkout -- .; git -C $W/repo clean -fdq
./setup.sh >/dev/null 2>&1
for D in "$@"; do
  P=${D:0:3}
  for d in /tmp/m/$D/out/*/; do
    n=$(basename $d)
    if ! git -C $W/repo apply $d/patch.diff 2>/dev/null; then echo "== $D-$n APPLY-FAILED"; continue; fi
    out=$(timeout 1500 ./check $P 2>&1 | grep -E "^(VIOLATION|OK property|INFRA)" | head -3 | cut -c1-330)
    git -C $W/repo checkout -- . ; git -C $W/repo clean -fdq
    echo "== $D-$n :: $out"
  done
done
