#!/usr/bin/env python3
"""kf.py fixed <prop> <key> <commit> <what> [witness]   |   kf.py open <prop> <key> <what> [witness]  -> appends to known_findings.jsonl"""
import json, sys
mode, prop, key = sys.argv[1:4]
if mode == "fixed":
    commit, what = sys.argv[4:6]; wit = sys.argv[6] if len(sys.argv) > 6 else ""
    d = {"property": prop, "key": key, "status": "fixed", "commit": commit, "what": f"fixed: property={prop} {commit} {what}", "witness": wit}
else:
    what = sys.argv[4]; wit = sys.argv[5] if len(sys.argv) > 5 else ""
    d = {"property": prop, "key": key, "status": "open", "what": what, "witness": wit}
open("/verif/known_findings.jsonl", "a").write(json.dumps(d) + "\n")
