#!/usr/bin/env python3
"""mk_r2_prompt.py <Prop> <tag>: round-N prompt for a mutation sub-agent from /tmp/m/prompts/<Prop>.txt, listing the
summaries of the changes already kept in /verif/seeded/<Prop>-*/meta.json; creates /tmp/m/<Prop><tag>/ with a worktree"""
import glob, json, os, subprocess, sys
P, tag = sys.argv[1:3]
base = open(f"/tmp/m/prompts/{P}.txt").read()
D = f"{P}{tag}"
t = base.replace(f"/tmp/m/{P}/", f"/tmp/m/{D}/").replace(f"/tmp/m/{P}/repo", f"/tmp/m/{D}/repo")
sums = [json.load(open(f))["summary"] for f in sorted(glob.glob(f"/verif/seeded/{P}-*/meta.json"))]
extra = "Other engineers have already produced these changes for this property (yours must use DIFFERENT mechanisms and touch different code paths):\n" + "".join(f"  - {s}\n" for s in sums) + "\n"
key = "YOUR TASK:"
assert key in t
t = t.replace(key, extra + key, 1)
open(f"/tmp/m/prompts/{D}.txt", "w").write(t)
os.makedirs(f"/tmp/m/{D}/out", exist_ok=True)
if not os.path.exists(f"/tmp/m/{D}/repo"):
    subprocess.check_call(["git", "-C", "/repo", "worktree", "add", "-q", "--detach", f"/tmp/m/{D}/repo", "HEAD"])
print(f"/tmp/m/prompts/{D}.txt")
