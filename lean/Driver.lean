import S2T.Drv.C07
/-!
Line protocol: one JSON object per input line `{"op": "<prop>.<name>", ...}`;
one JSON object per output line.  Errors in the protocol itself are `{"drv_error": msg}`
(never a default answer).
-/
open Lean

def dispatch (op : String) (j : Json) : Except String Json :=
  match op with
  | "c07.route" => S2T.Drv.C07.handle j
  | _ => .error s!"unknown op {op}"

partial def loop (h : IO.FS.Stream) (out : IO.FS.Stream) : IO Unit := do
  let line ← h.getLine
  if line.isEmpty then return ()
  let res : Except String Json := do
    let j ← Json.parse line
    let op ← j.getObjValAs? String "op"
    dispatch op j
  match res with
  | .ok j => out.putStrLn j.compress
  | .error e => out.putStrLn (Json.mkObj [("drv_error", Json.str e)]).compress
  loop h out

def main : IO Unit := do
  let out ← IO.getStdout
  loop (← IO.getStdin) out
  out.flush
