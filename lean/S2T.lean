import S2T.Props.C07
