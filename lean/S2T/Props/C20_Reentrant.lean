import S2T.Lemmas.AesThreads
import S2T.Lemmas.AesKeys
import S2T.Lemmas.AesKatFips
import S2T.Gen.Aes
import S2T.Gen.PyAes
import S2T.Gen.AesState
/-!
# C20 (re-entrancy) — the built-in AES is FIPS-197 AES for every call, also when several threads are inside it

"For every key and block" is a statement about every call of `aes_ecb_* / aes_cbc_* / CryptAES`; the library is used
from thread pools, so calls overlap.  Every C20 theorem reads the block / mode / padding functions as functions of
their parameters (that is what `Gen.PyAes` translates and `Props/C20_Src.lean` proves equal to the model).  That
reading is only legitimate if no function on the way keeps or shares state between calls.  This file

1. decides, on the inventory `Gen.AesState` regenerated from the CURRENT source on every run, that
   * the only writes of module state are those of `_get_round_keys` to `_ROUND_KEY_CACHE`, all under
     `_ROUND_KEY_CACHE_LOCK` (modelled: `C20_cache`, concurrent histories in C15), and the attribute stores of
     `patch_pypdf_fallback_aes` on pypdf's modules (`state_writes_accounted`);
   * everything reachable from the ECB / CBC entry points, the PKCS#7 helpers and the `CryptAES` methods is a function
     translated by `Gen.PyAes` (or `_get_round_keys`, or the two wrapper methods) — `hot_path_is_translated` — and none
     of them writes a cell, lets a cell escape, declares a `global`, has a mutable default argument, mutates a
     parameter it did not get as a fresh object, or mutates a local that may be shared (`hot_path_keeps_no_state`,
     `mutated_parameters_are_fresh`);
2. proves what that buys: ANY number of threads, each running the step program of a block function on its own state,
   under ANY schedule, end with FIPS-197 Cipher / InvCipher of their own key and block (`C20_reentrant`);
3. shows the other reading fails: with one shared scratch state two threads computing FIPS-197 C.1 and C.3 under the
   schedule "A loads and runs up to its first MixColumns, B runs a whole block, A resumes" leave A with a block that
   is not the known answer (`shared_scratch_counterexample`) — the schedule the harness forces on the real code.
-/
namespace S2T.C20.Reentrant
open S2T.Aes S2T.AesL S2T.AesThreads S2T.AesThreadsL S2T.Spec S2T.Gen.AesState
set_option maxRecDepth 100000

/-! ## 1. the inventory of the current source -/

theorem gen_state_notes_empty : S2T.Gen.AesState.notes = [] := by decide

/-- the entry points the property statement is about -/
def roots : List String :=
  ["aes_ecb_encrypt", "aes_ecb_decrypt", "aes_cbc_encrypt", "aes_cbc_decrypt", "_pkcs7_pad", "_pkcs7_unpad",
   "patch_pypdf_fallback_aes._cryptaes_encrypt", "patch_pypdf_fallback_aes._cryptaes_decrypt"]

/-- one round of the reachability closure over the call graph -/
def grow (edges : List (String × String)) (s : List String) : List String :=
  edges.foldl (fun acc e => if acc.contains e.1 && !acc.contains e.2 then acc ++ [e.2] else acc) s

/-- the functions reachable from `rs` (`n` rounds; `n` = number of edges suffices) -/
def reach (edges : List (String × String)) : Nat → List String → List String
  | 0, s => s
  | n + 1, s => reach edges n (grow edges s)

/-- every function a call of the built-in AES can execute -/
def hot : List String := reach calls calls.length roots

/-- closure check: one more round adds nothing -/
theorem hot_closed : grow calls hot = hot := by decide +kernel

/-- a write that the model accounts for -/
def WriteOk (w : Write) : Bool :=
  (w.fn == "_get_round_keys" && w.cell == "_ROUND_KEY_CACHE" && w.lock == "_ROUND_KEY_CACHE_LOCK") ||
  (("patch_pypdf_fallback_aes" == w.fn || "patch_pypdf_fallback_aes._cryptaes_init" == w.fn) && w.cell.startsWith "<")

/-- the only state written by any function of the file: the round-key cache (by `_get_round_keys`, under its lock) and
    attributes of other modules / of the `CryptAES` instance (by `patch_pypdf_fallback_aes`, `__init__`) -/
theorem state_writes_accounted : writes.all WriteOk = true := by decide +kernel

/-- everything a call can execute is a translated function (a function of its parameters by construction, see
    `Props/C20_Src.lean`), the cache wrapper, or one of the two wrapper methods -/
theorem hot_path_is_translated :
    hot.all (fun f => S2T.Gen.PyAes.translated.contains f || f == "_get_round_keys" ||
      f == "patch_pypdf_fallback_aes._cryptaes_encrypt" || f == "patch_pypdf_fallback_aes._cryptaes_decrypt") = true := by
  decide +kernel

/-- every translated function exists in the file under that name -/
theorem translated_are_functions : S2T.Gen.PyAes.translated.all (fun f => functions.contains f) = true := by
  decide +kernel

/-- no function a call can execute keeps state: apart from `_get_round_keys` none writes a cell; none lets a cell
    object escape, declares a `global`, has a mutable default, or mutates a possibly shared local -/
theorem hot_path_keeps_no_state :
    hot.all (fun f =>
      writes.all (fun w => w.fn != f || f == "_get_round_keys") &&
      escapes.all (fun e => e.1 != f) && globalDecls.all (fun g => g.1 != f) &&
      mutableDefaults.all (fun d => d.1 != f) && unresolvedWrites.all (fun u => u.1 != f)) = true := by
  decide +kernel

/-- no translated function writes anything but its parameters / fresh locals -/
theorem translated_write_nothing :
    S2T.Gen.PyAes.translated.all (fun f => writes.all (fun w => w.fn != f) && escapes.all (fun e => e.1 != f) &&
      globalDecls.all (fun g => g.1 != f) && mutableDefaults.all (fun d => d.1 != f)) = true := by
  decide +kernel

/-- a function that mutates a parameter in place is only ever handed an object its caller has just built
    (`state = list(block)`): no two calls can reach the same state object -/
theorem mutated_parameters_are_fresh :
    mutatingCalls.all (fun c => !hot.contains c.1 || c.2.2.2 == "fresh") = true ∧
    paramWrites.all (fun p => !hot.contains p.1 ||
      mutatingCalls.any (fun c => c.2.1 == p.1 && c.2.2.1 == p.2.1)) = true := by
  constructor <;> decide +kernel

/-- the module-level mutable objects of the file: the two S-box lists (never written: `state_writes_accounted`),
    the round-key cache and its lock.  A new cell is not by itself a defect — a new WRITER is, and breaks the
    theorems above; this theorem pins that every cell is of a kind the reading above covers. -/
theorem cells_accounted :
    cells.all (fun c => c.1 == "_ROUND_KEY_CACHE" || c.1 == "_ROUND_KEY_CACHE_LOCK" ||
      writes.all (fun w => w.cell != c.1)) = true := by decide +kernel

/-! ## 2. what it buys: any threads, any schedule -/

/-- the thread that executes a block function on its own state -/
def blockThread (T : Tables) (job : Bool × List Nat × List Nat) : Thread (List Nat) :=
  ⟨(if job.1 then encProgram T else decProgram T) (specRoundKeys job.2.1), job.2.2⟩

/-- what FIPS-197 says the job returns -/
def fips (job : Bool × List Nat × List Nat) : List Nat :=
  if job.1 then Fips197.aesEnc job.2.1 job.2.2 else Fips197.aesDec job.2.1 job.2.2

theorem blockThread_alone {T : Tables} (hT : TablesOk T) (job : Bool × List Nat × List Nat) (hk : KeyOk job.2.1)
    (hb : Block job.2.2) : (blockThread T job).alone = fips job := by
  obtain ⟨enc, key, b⟩ := job
  cases enc
  · have h := decProgram_alone T (specRoundKeys key) hb.1
    rw [decryptBlock_eq hT hk hb] at h
    simpa [blockThread, fips] using (Except.ok.inj h).symm
  · have h := encProgram_alone T (specRoundKeys key) hb.1
    rw [encryptBlock_eq hT hk hb] at h
    simpa [blockThread, fips] using (Except.ok.inj h).symm

/-- **Re-entrancy.** Any number of threads, each encrypting or decrypting its own block under its own key (equal or
    different), preempted between round functions in ANY order: when all have finished, every thread holds exactly
    FIPS-197 Cipher / InvCipher of its own key and block. -/
theorem C20_reentrant {T : Tables} (hT : TablesOk T) (jobs : List (Bool × List Nat × List Nat))
    (hj : ∀ j ∈ jobs, KeyOk j.2.1 ∧ Block j.2.2) (sched : List Nat)
    (hfin : finished (run (jobs.map (blockThread T)) sched) = true) :
    (run (jobs.map (blockThread T)) sched).map (·.st) = jobs.map fips := by
  rw [run_private _ _ hfin, List.map_map]
  apply List.map_congr_left
  intro j hjm
  exact blockThread_alone hT j (hj j hjm).1 (hj j hjm).2

/-- … and at every moment before: what a thread is going to return never depends on what the others do -/
theorem C20_reentrant_invariant {T : Tables} (hT : TablesOk T) (jobs : List (Bool × List Nat × List Nat))
    (hj : ∀ j ∈ jobs, KeyOk j.2.1 ∧ Block j.2.2) (sched : List Nat) :
    (run (jobs.map (blockThread T)) sched).map Thread.alone = jobs.map fips := by
  rw [run_private_invariant, List.map_map]
  apply List.map_congr_left
  intro j hjm
  exact blockThread_alone hT j (hj j hjm).1 (hj j hjm).2

/-- the private-state reading is generic: any step programs, any state type -/
theorem private_state_any_schedule {σ : Type} (ts : List (Thread σ)) (sched : List Nat)
    (h : finished (run ts sched) = true) : (run ts sched).map (·.st) = ts.map Thread.alone := run_private ts sched h

/-! ## 3. the other reading: one scratch state shared by all calls -/

/-- FIPS-197 Appendix C plaintext -/
def katPt : List Nat := [0x00,0x11,0x22,0x33,0x44,0x55,0x66,0x77,0x88,0x99,0xaa,0xbb,0xcc,0xdd,0xee,0xff]

/-- `_expand_key(key)` of the current tables -/
def rksOf (key : List Nat) : List (List Nat) :=
  match expandKey S2T.Gen.Aes.tables key with
  | .ok r => r
  | .error _ => []

/-- thread A: FIPS-197 C.1 (AES-128), thread B: C.3 (AES-256), both working on ONE scratch state -/
def sharedA : SThread := { input := katPt, todo := encProgram S2T.Gen.Aes.tables (rksOf (List.range 16)) }
def sharedB : SThread := { input := katPt, todo := encProgram S2T.Gen.Aes.tables (rksOf (List.range 32)) }

/-- A loads its block and runs up to its first `_mix_columns` (4 steps), B runs a whole block (58 steps), A resumes -/
def pausedInMixColumns : List Nat := List.replicate 4 0 ++ List.replicate 58 1 ++ List.replicate 38 0

/-- one after the other the shared scratch state does no harm: both known answers come out
    (why no single-threaded test, known answer or table check sees such a change) -/
theorem shared_scratch_sequential :
    (srun [sharedA, sharedB] [] (List.replicate 42 0 ++ List.replicate 58 1)).1.map (·.out) =
      [some [0x69,0xc4,0xe0,0xd8,0x6a,0x7b,0x04,0x30,0xd8,0xcd,0xb7,0x80,0x70,0xb4,0xc5,0x5a],
       some [0x8e,0xa2,0xb7,0xca,0x51,0x67,0x45,0xbf,0xea,0xfc,0x49,0x90,0x4b,0x49,0x60,0x89]] := by decide +kernel

/-- **Counterexample of the shared reading.** Under `pausedInMixColumns` thread B still returns the C.3 answer, but
    thread A returns `9b6b09be…`, not the FIPS-197 C.1 answer `69c4e0d8…` (the block the real code returns under the
    same forced schedule when its block functions refill a module-level list) -/
theorem shared_scratch_counterexample :
    (srun [sharedA, sharedB] [] pausedInMixColumns).1.map (·.out) =
      [some [0x9b,0x6b,0x09,0xbe,0x44,0xe6,0xa2,0x7b,0x93,0xcd,0x99,0xc6,0xab,0x1b,0xfd,0xa4],
       some [0x8e,0xa2,0xb7,0xca,0x51,0x67,0x45,0xbf,0xea,0xfc,0x49,0x90,0x4b,0x49,0x60,0x89]] ∧
    [0x9b,0x6b,0x09,0xbe,0x44,0xe6,0xa2,0x7b,0x93,0xcd,0x99,0xc6,0xab,0x1b,0xfd,0xa4] ≠
      Fips197.aesEnc (List.range 16) katPt := by
  refine ⟨by decide +kernel, ?_⟩
  have h : Fips197.aesEnc (List.range 16) katPt =
      [0x69,0xc4,0xe0,0xd8,0x6a,0x7b,0x04,0x30,0xd8,0xcd,0xb7,0x80,0x70,0xb4,0xc5,0x5a] := S2T.AesL.Kat.c1_cipher
  rw [h]
  decide

/-! ## 4. the hypotheses are satisfiable, the inventories are not empty -/

example : hot.contains "_mix_columns" = true ∧ hot.contains "_get_round_keys" = true ∧ hot.contains "_expand_key" = true ∧
    hot.contains "_aes_decrypt_block" = true ∧ hot.contains "_chunks" = true ∧ 20 ≤ hot.length := by decide +kernel
example : writes.any (fun w => w.fn == "_get_round_keys") = true ∧ mutatingCalls.length ≥ 8 ∧ paramWrites.length ≥ 7 := by
  decide +kernel
/-- two threads that finish under an interleaved schedule -/
example : finished (run [(⟨[(· + 1), (· * 2)], 1⟩ : Thread Nat), ⟨[(· + 5)], 0⟩] [0, 1, 0]) = true := by decide
example : KeyOk (List.range 16) ∧ Block katPt := by decide

end S2T.C20.Reentrant
