import S2T.Lemmas.XmlEntities
import S2T.Gen.C12Xml
/-!
# C12 (fourth part) — "irrespective of … entity tricks": XML parts with internal entities, behind any leading bytes

Every XML part of an OOXML / ODF / EPUB package goes through a *chain* of parser calls (normally one).  The chains
are generated from the CURRENT source (`Gen.C12Xml.xmlParseChains`: every call of an XML parser entry point, the
`forbid_*` keywords it is given against the defaults of the installed defusedxml, whether it sits inside an `except`
handler and what that handler catches, whether it is fed transformed — e.g. stripped — data).

* `refusing_chain_text_le_part_size`: for EVERY chain all of whose stages refuse `<!ENTITY` declarations and EVERY part
  (any BOM / leading whitespace, with or without XML declaration / DOCTYPE / entities), an accepted part yields at most
  as many characters as it has bytes.
* `gen_chains_refuse_entities`: every stage of every chain of the current source refuses entity declarations
  (re-decided on every run); `gen_text_le_part_size` composes the two.
* a chain with ONE stage that does not refuse — wherever it sits, e.g. the "parse the stripped bytes again" fallback
  behind `except ParseError` — is unbounded: `lenient_fallback_unbounded` (for every multiple K a part behind one
  blank line whose text exceeds K × its size), with the kernel-evaluated bounded witnesses the harness replays on
  the real parser (`laughs_witness_*`: 16× per extra level of ~110 bytes).
-/
namespace S2T.C12.Xml
open S2T.XmlEnt S2T.Gen.C12Xml

/-- a chain all of whose parser calls refuse entity declarations never yields more characters than the part has
    bytes — whatever the leading bytes, the fallback structure and the handlers are -/
theorem refusing_chain_text_le_part_size (sz : Sizes) (c : List Stage) (hc : ∀ s ∈ c, s.forbidEntities = true)
    (p : Part) (n : Nat) (h : runChain c p = .ok n) : n ≤ p.bytes sz :=
  Nat.le_trans (runChain_refusing_le c p hc n h) (body_le_bytes sz p)

/-- (hypotheses satisfiable, conclusion not vacuous: a part behind BOM + blank line WITHOUT an XML declaration is accepted) -/
example : runChain [defusedStage] ⟨true, 2, false, true, [], [.lit 7, .amp]⟩ = .ok 8 := by decide

/-- the parse chains of the current source, as stages -/
def genChains : List (List Stage) := xmlParseChains.map (fun c => c.2.2.map Stage.ofTuple)

/-- every parser call of the current source refuses `<!ENTITY` declarations: it is defusedxml's, `forbid_entities` is
    neither switched off by a keyword nor decided at run time, and no caller-supplied parser replaces it -/
theorem gen_chains_refuse_entities : ∀ c ∈ genChains, ∀ s ∈ c, s.forbidEntities = true := by decide +kernel

/-- the chain reader understood every construct it met -/
theorem gen_chain_notes_empty : xmlChainNotes = [] := by decide

/-- (not vacuous) `read_zip_xml_root`, the function all package extractors parse their parts with, has a chain -/
theorem gen_chains_cover_read_zip_xml_root :
    (xmlParseChains.any (fun c => c.2.1 == "read_zip_xml_root" && !c.2.2.isEmpty)) = true := by decide +kernel

/-- on the current source: every part any of the package's parser chains accepts yields at most its own size in text -/
theorem gen_text_le_part_size (sz : Sizes) (p : Part) (n : Nat) :
    ∀ c ∈ genChains, runChain c p = .ok n → n ≤ p.bytes sz :=
  fun c hc h => refusing_chain_text_le_part_size sz c (gen_chains_refuse_entities c hc) p n h

/-- a chain of refusing parsers REFUSES every part that declares an entity — referenced or not, whatever the leading
    bytes (a leading blank line only changes WHICH stage answers and with which exception) -/
theorem refusing_chain_refuses_declarations (c : List Stage) (hc : ∀ s ∈ c, s.forbidEntities = true) (p : Part)
    (hd : p.doctype = true) (he : p.ents ≠ []) : ∀ n, runChain c p ≠ .ok n :=
  fun n => runChain_refusing_declared c p hc (by simpa [Part.declared, hd] using he) n

example : runChain [defusedStage] (quadPart 1 5 3) = .parseError ∧ runChain [defusedStage] (quadPart 0 5 3) = .forbidden := by decide

/-! ## a single non-refusing stage anywhere in the chain: unbounded -/

/-- the shape of the missed change: defused first, then the stripped bytes through a plain parser on ParseError -/
def lenientChain : List Stage := [defusedStage, lenientFallback]

theorem quad_text (ws a m : Nat) : runChain lenientChain (quadPart (ws + 1) a m) = .ok (m * a) := by
  have h := itemsLen_replicate_ref [a] 0 a (by simp) m
  simp [lenientChain, runChain, runStage, defusedStage, lenientFallback, quadPart, Part.declared, tableLens, itemsLen,
        Item.len, h]

theorem quad_bytes (sz : Sizes) (ws a m : Nat) :
    (quadPart ws a m).bytes sz = ws + sz.decl + sz.dtd + sz.ent + 2 + a + sz.root + 4 * m := by
  simp [Part.bytes, quadPart, entsBytes, itemsBytes, Item.bytes, digits_zero]
  omega

/-- FULL STATEMENT for a lenient chain (false): ∃ K, ∀ p n, runChain lenientChain p = .ok n → n ≤ K * p.bytes sz.
    For every candidate multiple K there is a part behind one blank line whose text exceeds K × its size. -/
theorem lenient_fallback_unbounded (sz : Sizes) (K : Nat) :
    ∃ p n, p.ws = 1 ∧ runChain lenientChain p = .ok n ∧ K * p.bytes sz < n := by
  let C := 1 + sz.decl + sz.dtd + sz.ent + 2 + sz.root
  let m := K * (C + 5) + 1
  refine ⟨quadPart (0 + 1) m m, m * m, rfl, quad_text 0 m m, ?_⟩
  rw [quad_bytes]
  have := square_beats_linear K C
  have e : 0 + 1 + sz.decl + sz.dtd + sz.ent + 2 + m + sz.root + 4 * m = C + 5 * m := by omega
  rw [e]
  exact this

/-- … and without the leading blank line the same chain still refuses the same part (the defused stage answers) -/
theorem lenient_chain_needs_leading_bytes (a m : Nat) : runChain lenientChain (quadPart 0 a m) = .forbidden := by
  simp [lenientChain, runChain, runStage, defusedStage, lenientFallback, quadPart, Part.declared]

/-- the writer's byte counts (`harness/builders/c12_xmlparts.py:SIZES`) -/
def writerSizes : Sizes := ⟨38, 15, 13, 7⟩

/-- bounded witnesses replayed on the real parser: nested entities, fan-out 16, e0 = 32 characters, one blank line -/
theorem laughs_witness_2 : runChain lenientChain (laughsPart 1 32 16 2) = .ok 8192 := by decide +kernel
theorem laughs_witness_3 : runChain lenientChain (laughsPart 1 32 16 3) = .ok 131072 := by decide +kernel
theorem laughs_witness_4 : runChain lenientChain (laughsPart 1 32 16 4) = .ok 2097152 := by decide +kernel

/-- … each level costs 79 more bytes: 16 references of 4 bytes + the declaration -/
theorem laughs_witness_bytes :
    (laughsPart 1 32 16 2).bytes writerSizes = 270 ∧ (laughsPart 1 32 16 3).bytes writerSizes = 349 ∧
    (laughsPart 1 32 16 4).bytes writerSizes = 428 := by
  simp [Part.bytes, laughsPart, laughsEnts, entsBytes, itemsBytes, Item.bytes, writerSizes, digits_of_lt]

/-- the same parts — any leading whitespace, any sizes, any depth — under the chains of the current source: refused -/
theorem gen_chains_refuse_laughs (ws a fan lv : Nat) : ∀ c ∈ genChains, ∀ n, runChain c (laughsPart ws a fan lv) ≠ .ok n :=
  fun c hc n => refusing_chain_refuses_declarations c (gen_chains_refuse_entities c hc) _ rfl (laughsEnts_ne_nil a fan lv) n

end S2T.C12.Xml
