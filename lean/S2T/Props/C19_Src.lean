import S2T.Lemmas.PyOmml
import S2T.Gen.PyOmml
/-!
# C19 (source tie) — the translated OMML → LaTeX converter IS the hand model `S2T/Model/Omml.lean`

`S2T.Gen.PyOmml` is regenerated from the current text of `util/omml_to_latex.py` on every run
(`tools/gen/pyfun_omml.py`, construct by construct): `convert_greek_and_symbols`, and `omml_to_latex` with its nested,
recursive `process_element` — a closure over the list `pending_sqrt_close`, emitted as the state-passing definition
`omml_to_latex.process_element : Option Xml → List Str → M (Str × List Str)` by WELL-FOUNDED recursion on the size of the
element (no fuel; Lean accepts the generated file only with the termination proofs `py_omml_decreasing` finds), and the
`while pending and pending[-1] in converted` loop as `omml_to_latex.process_element.while_1`, well-founded on the length
of the list it pops.

For EVERY ElementTree element `x` (`S2T.Py.Omml.Xml`: tag, attrib, text, tail, children — any tags, any attributes,
any depth / width):

* `convert_greek_and_symbols s = convert tables s`                                         (`convert_greek_and_symbols_eq`)
* `process_element(x)` run from the list representing a model stack `s` returns the rendered output of the model's
  `proc tables (abs x) s` and the list representing its new stack                           (`process_element_eq`)
* `omml_to_latex(x) = omml tables (abs x)`, `omml_to_latex(None) = ""`, nothing is raised  (`omml_to_latex_eq`, `…_none`,
  `omml_to_latex_total`)

where `abs` (`S2T/Lemmas/PyOmml.lean`) is what the hand model looks at in an element — is the tag `M_NS + local name`,
the local name `tag.split("}")[-1]`, the attribute `M_NS + "val"`, `text or ""`, the children — i.e. the encoding the
C19 harness sends to the driver, and the model's run-origin flags are erased by `render` exactly as the correspondence
does.  Conversely every model tree with `}`-free names is `abs` of an element (`omml_model_eq`), so every C19 theorem
about `omml tables` is a theorem about code regenerated from the source.

The raising operations the translation keeps (`tag.split("}")[-1]`: `IndexError`; `GREEK_TO_LATEX[char]`: `KeyError`;
`pending[-1]`, `pending.pop()`: `IndexError`; `partition`: `ValueError`; `unwrap` of the `None`-able `find` results) are
proved unreachable.  The local literal tables of the source (`op_map`, `func_map`, `accent_map`, `bracket_map`, the tuple
of opening brackets) are auxiliary definitions of the generated file and are identified with the tables
`tools/gen/omml.py` emits by `decide`, whatever the locals are called (`py_omml_tables`).

The proof scripts never mention a local variable of the source; the dispatch is selected from the model's `kindOf`
(`kindOf_spec`) by deciding the tag tests, each block is closed by `simp` with the bridge lemmas of `Lemmas/PyOmml.lean`,
loops by `forIn_seq` / `forIn_seq_flat_bind` (any body that threads the state and collects the results; both orders of
the two loop-carried locals are accepted).
-/
set_option linter.unusedSimpArgs false
set_option linter.unusedVariables false
namespace S2T.C19.Src
open S2T.Py S2T.Py.Omml S2T.Gen.PyOmml

/-- the generated tables of the current source (`tools/gen/omml.py`) -/
abbrev T := S2T.Gen.Omml.tables

/-- the translator understood every construct of the whitelisted functions -/
theorem gen_py_notes_empty : S2T.Gen.PyOmml.notes = [] := by decide

/-- the functions this file ties (a renamed / removed function breaks this) -/
theorem gen_py_translated : S2T.Gen.PyOmml.translated = ["convert_greek_and_symbols", "omml_to_latex"]
    ∧ S2T.Gen.PyOmml.closures = ["omml_to_latex.process_element"] := by decide

/-- `M_NS` is `{uri}` -/
theorem ns_ok : NsOk M_NS := by decide

/-! ## `convert_greek_and_symbols` -/

/-- **`convert_greek_and_symbols` is the model's `convert`** (every string; the `KeyError` of `GREEK_TO_LATEX[char]`
    is unreachable) -/
theorem convert_greek_and_symbols_eq (s : Py.Str) :
    convert_greek_and_symbols s = pure (S2T.Omml.convert T s) := by
  unfold convert_greek_and_symbols
  simp +instances only [M.pure_def, bind_pure_comp, pure_bind]
  rw [forIn_conv T]
  · simp [convert_eq, strJoin_nil]
  · intro c acc
    simp only [cdictContains_one, cdictGetItem_one, S2T.Omml.conv1]
    show _ = _
    rcases h : S2T.Omml.lookup c T.greek with _ | v <;>
      simp [h, show S2T.Gen.Omml.greek = T.greek from rfl]

/-! ## `process_element` -/

/-- `process_element(None)` is `""` and leaves the pending brackets alone -/
theorem process_element_none (p : List Py.Str) : omml_to_latex.process_element none p = Except.ok ([], p) := by
  unfold omml_to_latex.process_element
  simp

/-- **the `while pending_sqrt_close and pending_sqrt_close[-1] in converted` loop is the model's `closeLoop`**
    (every stack, every text; `pending[-1]`, `pop()` and `partition` never raise) -/
theorem while_1_eq (st : S2T.Omml.Stack) (o : S2T.Omml.Out) (ps : List Py.Str) :
    omml_to_latex.process_element.while_1 (unstack st) (S2T.Omml.render o) ps
      = Except.ok (unstack (S2T.Omml.closeLoop st o).2, (loopRes st o ps).1, (loopRes st o ps).2) := by
  induction st generalizing o ps with
  | nil =>
    rw [omml_to_latex.process_element.while_1]
    simp [S2T.Omml.closeLoop, loopRes]
  | cons c st ih =>
    rw [omml_to_latex.process_element.while_1]
    simp only [truthy_unstack, getItem_unstack, strContains_render, listPop_unstack, partition_render,
      dropLast_unstack, S2T.Omml.closeLoop, loopRes, M.ok_bind, M.pure_def, bind_pure_comp, pure_bind,
      List.isEmpty_cons, Bool.not_false, dite_true, dif_pos]
    rcases h : S2T.Omml.splitFirst c o with _ | ⟨a, b⟩
    · simp
    · simp [ih]

theorem tag_tests {n k : Py.Str} (h : n = k) (m : Py.Str) : (n == m) = (k == m) := by subst h; rfl
theorem tag_tests' {n k : Py.Str} (h : n = k) (m : Py.Str) : (m == n) = (m == k) := by subst h; rfl
theorem tag_tests_ne (n : Py.Str) (names : List Py.Str) (h : ∀ k ∈ names, n ≠ k) (m : Py.Str) (hm : m ∈ names) :
    (n == m) = false := by
  simpa using h m hm
theorem tag_tests_ne' (n : Py.Str) (names : List Py.Str) (h : ∀ k ∈ names, n ≠ k) (m : Py.Str) (hm : m ∈ names) :
    (m == n) = false := by
  simpa using fun e : m = n => h m hm e.symm

/-- select the block of the dispatch: the skip test from `h0` (while the tag is still a variable), then the tag tests
    (decided on the model's tag name) -/
macro "py_omml_dispatch " hk:ident h0:ident hn:ident : tactic => `(tactic| (
  rw [$hk:ident]
  simp +instances only [show ∀ k, setContains S2T.Gen.Omml.skip k = T.skip.contains k from fun _ => rfl, $h0:ident,
    Bool.false_eq_true, if_false]
  simp +instances only [tag_tests $hn, tag_tests' $hn]
  simp +instances +decide only [Bool.false_eq_true, if_false, if_true, Bool.and_eq_true, false_and, true_and]))

/-- the local literal tables of the source are the generated tables (decided, whatever the locals are called) -/
macro "py_omml_tables" : tactic => `(tactic|
  simp +instances (disch := decide) only [setContains_table _ T.opens, dictGetD_chars _ T.brackets,
    dictGetD_table _ T.naryOps, dictGetD_table _ T.funcs, dictGetD_table _ T.accents])

/-- a loop that collects one result per element (either order of the two loop-carried locals) -/
macro "py_omml_loop " g:term : tactic => `(tactic| first | rw [forIn_seq _ $g] | rw [forIn_seq' _ $g])

/-- a loop of which only the concatenation of the collected results is used: `body` proves that one iteration threads
    the state and extends the concatenation by the model's output, `after` finishes with the concatenation known
    (either order of the two loop-carried locals: the wrong one fails in `body` and is backtracked) -/
syntax "py_omml_loop_flat " term ", " term ", " term " body " tacticSeq " after " tacticSeq : tactic
macro_rules
  | `(tactic| py_omml_loop_flat $cs, $g, $s body $th after $tk) => `(tactic| first
    | (refine forIn_seq_flat_bind $cs $g _ $s [] _ _ ?h ?hk
       (case h => $th)
       (case hk => $tk))
    | (refine forIn_seq_flat_bind' $cs $g _ $s [] _ _ ?h ?hk
       (case h => $th)
       (case hk => $tk)))

/-- body obligation of such a loop: the result is appended, or dropped when it is empty -/
macro "py_omml_flat_body " r:term : tactic => `(tactic|
  (rcases hr : $r with _ | ⟨a, r⟩ <;> simp [hr]))

set_option maxHeartbeats 400000 in
/-- **`process_element` is the model's `proc`**: for every element `x` and every model stack `s`, run from the list
    representing `s` it returns the rendered output of `proc tables (abs x) s` and the list representing the new stack;
    it never raises.  (Every tree: strong induction on the size of the element, as the generated definition recurses.) -/
theorem process_element_eq (x : Xml) : Sim T M_NS omml_to_latex.process_element x := by
  induction x using Xml.strongInd with
  | _ x ih =>
  intro s
  have opd := sim_find T M_NS omml_to_latex.process_element ns_ok process_element_none x ih
  have ihf : ∀ (p : Path) (c : Xml), c ∈ x.findall p → ∀ s, omml_to_latex.process_element (some c) (unstack s)
      = Except.ok (S2T.Omml.render (S2T.Omml.proc T (abs M_NS c) s).1, unstack (S2T.Omml.proc T (abs M_NS c) s).2) :=
    fun p c hc => ih c (Xml.sizeOf_lt_of_mem_findall hc)
  rw [abs_eq, S2T.Omml.proc_node, S2T.Omml.procNode, hasMr_abs T M_NS _ ns_ok (by decide)]
  simp only [S2T.Omml.opnd_infos, map_run_children]
  unfold omml_to_latex.process_element
  simp +instances only [M.pure_def, M.ok_bind, bind_pure_comp, pure_bind, getItem_split]
  generalize localName x.tag = name
  rcases kindOf_spec T name (x.find ⟨M_NS ++ S2T.Omml.n_mr, []⟩).isSome with ⟨hk, h0⟩ | ⟨h0, hk⟩
  · -- a skipped property element
    rw [hk]
    simp +instances only [show ∀ k, setContains S2T.Gen.Omml.skip k = T.skip.contains k from fun _ => rfl, h0, if_true,
      S2T.Omml.ret, render_nil]
    rfl
  rcases hk with ⟨hk, hn⟩ | ⟨hk, hn⟩ | ⟨hk, hn⟩ | ⟨hk, hn⟩ | ⟨hk, hn⟩ | ⟨hk, hn⟩ | ⟨hk, hn⟩ | ⟨hk, hn⟩
    | ⟨hk, hn, hb⟩ | ⟨hk, hn⟩ | ⟨hk, hn⟩ | ⟨hk, hn⟩ | ⟨hk, hne⟩
  · -- t: run text, closing the pending radicals whose bracket shows up
    py_omml_dispatch hk h0 hn
    simp only [convert_greek_and_symbols_eq, M.pure_def, M.ok_bind]
    rw [← render_run (S2T.Omml.convert T _), while_1_eq]
    have hj := loopRes_join s (S2T.Omml.run (S2T.Omml.convert T (orOpt x.text []))) []
    simp [strJoin_nil, S2T.Omml.tText] at hj ⊢
    exact hj
  · -- f
    py_omml_dispatch hk h0 hn
    simp [opd, S2T.Omml.tFrac, S2T.Omml.n_num, S2T.Omml.n_den, S2T.Omml.s_frac, S2T.Omml.s_mid, S2T.Omml.s_close]
  · -- sSup
    py_omml_dispatch hk h0 hn
    simp [opd, S2T.Omml.tSup, S2T.Omml.n_e, S2T.Omml.n_sup, S2T.Omml.s_supO, S2T.Omml.s_close]
  · -- sSub
    py_omml_dispatch hk h0 hn
    simp [opd, S2T.Omml.tSub, S2T.Omml.n_e, S2T.Omml.n_sub, S2T.Omml.s_subO, S2T.Omml.s_close]
  · -- sSubSup
    py_omml_dispatch hk h0 hn
    simp [opd, S2T.Omml.tSubSup, S2T.Omml.n_e, S2T.Omml.n_sub, S2T.Omml.n_sup, S2T.Omml.s_subO, S2T.Omml.s_subsup,
      S2T.Omml.s_close]
  · -- rad (degree first; a bracket-only radicand opens a pending radical)
    py_omml_dispatch hk h0 hn
    py_omml_tables
    simp (disch := decide) [opd, S2T.Omml.n_e, S2T.Omml.n_deg, S2T.Omml.tRad, show S2T.Gen.Omml.spaces = T.spaces from rfl,
      strip_render, render_eq_nil, render_radHead, unstack_cons, S2T.Omml.d_closer, S2T.Omml.s_close,
      dictGetD_chars _ T.brackets]
    repeat' split
    all_goals (simp_all [render_radHead, unstack_cons, S2T.Omml.d_closer, S2T.Omml.s_close])
  · -- nary
    py_omml_dispatch hk h0 hn
    py_omml_tables
    rw [pathFind_abs M_NS _ _ ns_ok (by decide) (by decide), attrOr_abs]
    rcases h : x.find ⟨M_NS ++ S2T.Omml.n_naryPr, [M_NS ++ S2T.Omml.n_chr]⟩ with _ | c <;>
      simp only [S2T.Omml.n_naryPr, S2T.Omml.n_chr] at h <;>
      simp (disch := decide) [h, opd, convert_greek_and_symbols_eq, S2T.Omml.tNary, S2T.Omml.naryOp, render_limit,
        show S2T.Gen.Omml.spaces = T.spaces from rfl, strip_render, render_eq_nil, S2T.Omml.n_e, S2T.Omml.n_sub,
        S2T.Omml.n_sup, S2T.Omml.d_nary, S2T.Omml.s_subO, S2T.Omml.s_supO, S2T.Omml.s_space, S2T.Omml.s_close] <;>
      (repeat' split) <;> simp_all
  · -- d
    py_omml_dispatch hk h0 hn
    rw [pathFind_abs M_NS _ _ ns_ok (by decide) (by decide), pathFind_abs M_NS _ _ ns_ok (by decide) (by decide),
      attrOr_abs, attrOr_abs, map_proc_findall T M_NS _ ns_ok (by decide)]
    rcases h1 : x.find ⟨M_NS ++ S2T.Omml.n_dPr, [M_NS ++ S2T.Omml.n_begChr]⟩ with _ | c1 <;>
    rcases h2 : x.find ⟨M_NS ++ S2T.Omml.n_dPr, [M_NS ++ S2T.Omml.n_endChr]⟩ with _ | c2 <;>
      simp only [S2T.Omml.n_dPr, S2T.Omml.n_begChr, S2T.Omml.n_endChr] at h1 h2 <;>
      simp [h1, h2, S2T.Omml.n_e] <;>
      py_omml_loop (fun c => S2T.Omml.proc T (abs M_NS c))
    all_goals first
      | (intro c hc s acc; simp [ihf _ c hc s]; done)
      | simp [S2T.Omml.tDelim, strJoin_render, S2T.Omml.d_beg, S2T.Omml.d_end, S2T.Omml.s_comma]
  · -- m with rows
    py_omml_dispatch hk h0 hn
    rw [map_cells_findall T M_NS _ ns_ok (by decide)]
    simp only [S2T.Omml.n_mr] at hb
    simp [hb, S2T.Omml.n_mr, S2T.Omml.n_e]
    py_omml_loop (fun mr => S2T.Omml.rowM
      ((mr.findall ⟨M_NS ++ S2T.Omml.n_e, []⟩).map (fun c => S2T.Omml.proc T (abs M_NS c))))
    · simp [S2T.Omml.tMatrix, strJoin_render, List.map_map, Function.comp_def, S2T.Omml.s_begin, S2T.Omml.s_end,
        S2T.Omml.s_rowsep, S2T.Omml.n_e]
    · intro mr hmr s acc
      simp only []
      py_omml_loop (fun c => S2T.Omml.proc T (abs M_NS c))
      · simp [S2T.Omml.rowM, strJoin_render, S2T.Omml.s_amp, S2T.Omml.n_e]
      · intro c hc s acc
        have hlt : sizeOf c < sizeOf x :=
          Nat.lt_trans (Xml.sizeOf_lt_of_mem_findall hc) (Xml.sizeOf_lt_of_mem_findall hmr)
        simp [ih c hlt s]
  · -- func
    py_omml_dispatch hk h0 hn
    py_omml_tables
    simp [opd, S2T.Omml.tFunc, render_funcName, show S2T.Gen.Omml.spaces = T.spaces from rfl, strip_render,
      S2T.Omml.n_e, S2T.Omml.n_fName, S2T.Omml.s_open, S2T.Omml.s_close]
  · -- bar
    py_omml_dispatch hk h0 hn
    simp [opd, S2T.Omml.tBar, S2T.Omml.n_e, S2T.Omml.s_overline, S2T.Omml.s_close]
  · -- acc
    py_omml_dispatch hk h0 hn
    py_omml_tables
    rw [pathFind_abs M_NS _ _ ns_ok (by decide) (by decide), attrOr_abs]
    rcases h : x.find ⟨M_NS ++ S2T.Omml.n_accPr, [M_NS ++ S2T.Omml.n_chr]⟩ with _ | c <;>
      simp only [S2T.Omml.n_accPr, S2T.Omml.n_chr] at h <;>
      simp [h, opd, S2T.Omml.tAcc, S2T.Omml.accentCmd, S2T.Omml.n_e, S2T.Omml.d_acc, S2T.Omml.s_hat, S2T.Omml.s_open,
        S2T.Omml.s_close]
  · -- any other element (or an `m` without rows): its children, concatenated
    obtain ⟨e1, e2, e3, e4, e5, e6, e7, e8, e9, e10, e11, e12⟩ := hne
    rw [hk]
    simp +instances only [show ∀ k, setContains S2T.Gen.Omml.skip k = T.skip.contains k from fun _ => rfl, h0,
      Bool.false_eq_true, if_false]
    by_cases hm : name = S2T.Omml.n_m
    · -- tag `m`: every other tag test is decided, and there is no row
      have e9' := e9 hm
      simp +instances only [tag_tests hm, tag_tests' hm]
      simp +instances +decide only [Bool.false_eq_true, if_false, if_true, Bool.and_eq_true, false_and, true_and]
      rw [if_neg]
      · py_omml_loop_flat x.iter, (fun c => S2T.Omml.proc T (abs M_NS c)), s
          body
            intro c hc s acc
            simp only [ih c (Xml.sizeOf_lt_of_mem_iter hc) s, M.ok_bind]
            py_omml_flat_body S2T.Omml.render (S2T.Omml.proc T (abs M_NS c) s).1
          after
            intro acc' hacc
            simp [strJoin_nil, hacc, S2T.Omml.tDefault]
      · -- `elem.find(M_NS + "mr") is not None` is false (the literal is the model's `n_mr`: checked by unification)
        intro hc
        exact absurd (hc.symm.trans e9') (by decide)
    · have hall : ∀ k ∈ [S2T.Omml.n_t, S2T.Omml.n_f, S2T.Omml.n_sSup, S2T.Omml.n_sSub, S2T.Omml.n_sSubSup,
          S2T.Omml.n_rad, S2T.Omml.n_nary, S2T.Omml.n_d, S2T.Omml.n_m, S2T.Omml.n_func, S2T.Omml.n_bar, S2T.Omml.n_acc],
          name ≠ k := by
        intro k hk
        simp only [List.mem_cons, List.not_mem_nil, or_false] at hk
        rcases hk with rfl | rfl | rfl | rfl | rfl | rfl | rfl | rfl | rfl | rfl | rfl | rfl <;> assumption
      simp +instances (disch := decide) only [tag_tests_ne name _ hall, tag_tests_ne' name _ hall, Bool.false_eq_true,
        if_false, Bool.false_and, Bool.and_false]
      py_omml_loop_flat x.iter, (fun c => S2T.Omml.proc T (abs M_NS c)), s
        body
          intro c hc s acc
          simp only [ih c (Xml.sizeOf_lt_of_mem_iter hc) s, M.ok_bind]
          py_omml_flat_body S2T.Omml.render (S2T.Omml.proc T (abs M_NS c) s).1
        after
          intro acc' hacc
          simp [strJoin_nil, hacc, S2T.Omml.tDefault]

/-! ## `omml_to_latex` -/

/-- `omml_to_latex(None)` is `""` -/
theorem omml_to_latex_none : omml_to_latex none = pure [] := by
  unfold omml_to_latex
  simp

/-- **`omml_to_latex` is the model's `omml`** on every element (the root's own tag is not looked at; every radical
    still pending is closed at the end) -/
theorem omml_to_latex_eq (x : Xml) : omml_to_latex (some x) = pure (S2T.Omml.omml T (abs M_NS x)) := by
  unfold omml_to_latex S2T.Omml.omml S2T.Omml.ommlOut
  simp +instances only [M.pure_def, M.ok_bind, bind_pure_comp, pure_bind]
  rw [S2T.Omml.infos_eq_map, abs_kids, map_run_children]
  py_omml_loop_flat x.iter, (fun c => S2T.Omml.proc T (abs M_NS c)), []
    body
      intro c hc s acc
      simp only [process_element_eq c s, M.ok_bind]
      py_omml_flat_body S2T.Omml.render (S2T.Omml.proc T (abs M_NS c) s).1
    after
      intro acc' hacc
      simp [strJoin_nil, hacc, len_unstack, strRepeat_one]

/-- the translated converter never raises (none of the `IndexError` / `KeyError` / `ValueError` sites it keeps fires) -/
theorem omml_to_latex_total (o : Option Xml) : ∃ r, omml_to_latex o = Except.ok r := by
  cases o with
  | none => exact ⟨_, omml_to_latex_none⟩
  | some x => exact ⟨_, omml_to_latex_eq x⟩

/-! ## the converse direction: every model tree is reached -/

/-- **every model tree whose local names contain no `}`** (all trees the harness can send: a local name is
    `tag.split("}")[-1]`) is the abstraction of an element, so `omml tables m` is what the translated source computes -/
theorem omml_model_eq (m : S2T.Omml.Xml) (h : namesOk m = true) :
    omml_to_latex (some (conc M_NS m)) = pure (S2T.Omml.omml T m) := by
  rw [omml_to_latex_eq, abs_conc M_NS ns_ok m h]

example : namesOk (.node true ['f'] none [] [.node true ['n', 'u', 'm'] none [] [.node false ['t'] none ['a'] []]])
    = true := by decide

/-! ## the namespace flag: `tag == M_NS + local name`, not `tag.startswith(M_NS)`

`abs` computes the model's namespace flag as "the tag is `M_NS` followed by the local name".  The C19 harness sends
`tag.startswith(M_NS)`.  On every tag an XML parser can produce (no `}` after the namespace) the two agree
(`S2T.Py.Omml.mns_eq_startswith`); on a hand-built element whose tag has a second `}` they do not, and there the source
(`elem.find(M_NS + "num")` compares whole tags) follows `abs`: -/

/-- `<m:oMath><m:f><{M_NS}x}num><m:t>a</m:t></…></m:f></m:oMath>` built by hand -/
def swWitness : Xml :=
  ⟨M_NS ++ "oMath".toList, [], none, none,
    [⟨M_NS ++ "f".toList, [], none, none,
      [⟨M_NS ++ "x}num".toList, [], none, none, [⟨M_NS ++ "t".toList, [], some "a".toList, none, []⟩]⟩]⟩]⟩

/-- with the flag computed by `startswith` the model would print the run of the mis-tagged child as the numerator;
    the source (and the model under `abs`) prints an empty fraction -/
theorem startswith_flag_counterexample :
    omml_to_latex (some swWitness) = pure "\\frac{}{}".toList
    ∧ S2T.Omml.omml T (absSW M_NS swWitness) = "\\frac{a}{}".toList := by
  rw [omml_to_latex_eq]
  constructor
  · exact congrArg pure (by decide)
  · decide

end S2T.C19.Src
