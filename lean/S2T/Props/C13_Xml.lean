import S2T.Lemmas.TablesEpubXml
import S2T.Gen.HtmlSkip
/-!
# C13, EPUB chapters in XML form (empty elements written as `<t/>`)

EPUB content documents are XHTML: every XML serializer writes an element without content as the empty-element
tag (`<td/>`, `<th/>`, `<p/>`), and `HTMLParser` then makes ONE call `handle_startendtag` instead of
`handle_starttag` + `handle_endtag`.  `Props/C13.lean : C13_grid_epub_gen` is about chapters in which every
element has a start and an end tag; here the same statement is proved for EVERY XML form of the chapter
(`XmlForm`: any choice of the adjacent pairs `<t></t>` written as `<t/>`), through the modelled
`handle_startendtag` of `_XhtmlTextExtractor` (`S2T.HtmlSkip.handleStartendtag`, compared with the real method on
every run: the harness writes these forms and records the real handler calls).
-/
namespace S2T.C13.Xml
open S2T.Tables S2T.Tables.Epub
open S2T.HtmlSkip (Str Item Ev events)

def epubTablesOf (evs : List Ev) : List Grid :=
  (S2T.HtmlSkip.run S2T.Gen.HtmlSkip.epubTables (S2T.HtmlSkip.Epub.down S2T.Gen.HtmlSkip.epubBlock)
    (S2T.HtmlSkip.init S2T.HtmlSkip.Epub.initState) evs).down.tables

theorem gen_epub_ok : usedTags.all (fun t => !S2T.Gen.HtmlSkip.epubTables.remove.contains t) = true := by decide

/-- every XML form of a written chapter (any of its empty cells / rows / paragraphs written as `<t/>`): the tables
    come back r × c in order, an empty cell as "" at its place -/
theorem C13_epub_xml_form (doc : List EBlk) (hp : doc.all EBlk.proper = true) (written : List Item)
    (hw : XmlForm (chapterItems doc) written) :
    epubTablesOf (events written) = doc.flatMap EBlk.tables :=
  tables_chapter_xml _ _ gen_epub_ok doc hp written hw

/-- what the harness writes (`collapse mask`) is such a form, for every mask -/
theorem C13_epub_xml_writer (mask : List Bool) (items : List Item) : XmlForm items (collapse mask items) :=
  xmlForm_collapse mask items

theorem C13_epub_xml_gen (doc : List EBlk) (hp : doc.all EBlk.proper = true) (mask : List Bool) :
    epubTablesOf (events (collapse mask (chapterItems doc))) = doc.flatMap EBlk.tables :=
  C13_epub_xml_form doc hp _ (xmlForm_collapse mask _)

/-- the form with no `<t/>` is the chapter of `C13_grid_epub_gen` -/
theorem C13_epub_xml_none (doc : List EBlk) : events (collapse [] (chapterItems doc)) = chapterEvents doc := by
  rw [collapse_nil]; rfl

/-- the hypotheses are satisfiable and the forms are not vacuous: a 2 × 2 table with two empty cells, both written `<td/>`:
    the handler calls contain `handle_startendtag("td")` and the grid keeps "" at (0,1) and (1,0) -/
theorem C13_epub_xml_witness :
    let doc : List EBlk := [.tbl (0, [[["a".toList], []], [[], ["b".toList]]])]
    doc.all EBlk.proper = true ∧
    (events (collapse [true, true] (chapterItems doc))).contains (.startend "td".toList []) = true ∧
    epubTablesOf (events (collapse [true, true] (chapterItems doc)))
      = [[["a".toList, []], [[], "b".toList]]] := by decide +kernel

/-- what the property loses if `<t/>` does not reach the cell logic (a `handle_startendtag` that leaves the table state
    alone): the empty cells vanish and the later cells shift left -/
theorem C13_epub_xml_skipped_startend_counterexample :
    let doc : List EBlk := [.tbl (0, [[["a".toList], []], [[], ["b".toList]]])]
    epubTablesOf ((events (collapse [true, true] (chapterItems doc))).filter
      (fun e => match e with | .startend _ _ => false | _ => true)) = [[["a".toList], ["b".toList]]] := by decide +kernel

end S2T.C13.Xml
