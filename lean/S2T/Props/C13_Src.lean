import S2T.Lemmas.PySheetsOds
import S2T.Lemmas.TablesSheet
import S2T.Gen.PyOdsSheet
import S2T.Gen.PyXlsxSheet
/-!
# C13 (source tie) — the translated sheet shaping code IS the hand model `S2T.Tables.Ods` / `S2T.Tables.Xlsx`

`S2T.Gen.PyOdsSheet` / `S2T.Gen.PyXlsxSheet` are regenerated from the current text of `ods_extractor.py` /
`xlsx_extractor.py` on every run (`tools/gen/pyfun_sheets.py`, construct by construct: the whole body of
`_extract_sheet` with its four loop nests, the `while … pop()` trimming loop as well-founded recursion, in-place list
building, record updates; the XLSX helpers with `isinstance` narrowing, backwards `range` scans with `break` /
early `return`, comprehensions over `enumerate`).

ODS.  For every table element, every `int()`, every behaviour of `_extract_cell_value` / `_extract_annotations` /
`_extract_images` (parameters `OdsEnv`, each may raise):

* `extract_sheet_eq`: `_extract_sheet` = parse the repeat counts and cell values in document order (`odsParse`: the
  first exception is the function's exception), then `_extract_images`, then the sheet whose `data` is
  **`Ods.sheetData Gen.Tables.odsCaps`** of the parsed rows (repeat counts enter as `n.toNat`: `[x] * n` is empty for
  `n ≤ 0`, and `n > 100` is false there) — so every `C13_ods_*` theorem and C12's amplification bound speak about code
  regenerated from the source.  The two literals `100` of the translation are compared with `odsCaps` in the proof.
* the guarded index / pop operations (`raw_rows[-1]`, `row[i]`, `row_values[i]`, `raw_rows.pop()`) never raise, and
  the `while` loop's measure decreases (`whileNoProgress` never fires): all inside the equation.

XLSX.  `_is_cell_non_empty`, `_is_meaningful_value`, `_get_cell_value`, `_find_last_data_row`,
`_find_last_data_column`, `_is_table_name_row`, `_read_sheet_data` equal `Xlsx.isCellNonEmpty`, `isMeaningful`,
`getCellValue`, `findLastDataRow`, `findLastDataColumn`, `isTableNameRow`, `readSheetData` and never raise;
`_read_content_from_workbook` (workbook = mapping name ↦ worksheet) builds every `XlsxSheet.data` as `Xlsx.sheetData`.
Hypothesis `StrOfOk` (what `str()` answers for a `str` and for the model's `Val.other`) where `str(x)` is used.
-/
set_option linter.unusedSimpArgs false
namespace S2T.C13.Src
open S2T.Py S2T.Py.Sheets S2T.Py.Sheets.OdsSpec S2T.Tables S2T.Gen.PyOdsSheet S2T.Gen.PyXlsxSheet

/-- the translator understood every construct of the whitelisted functions -/
theorem gen_py_notes_empty : S2T.Gen.PyOdsSheet.notes = [] ∧ S2T.Gen.PyXlsxSheet.notes = [] := by decide

/-- the functions this file ties (a renamed / removed function breaks this) -/
theorem gen_py_translated : S2T.Gen.PyOdsSheet.translated = ["_extract_sheet"] ∧
    S2T.Gen.PyXlsxSheet.translated = ["_get_cell_value", "_is_cell_non_empty", "_is_meaningful_value",
      "_find_last_data_column", "_find_last_data_row", "_is_table_name_row", "_read_sheet_data",
      "_format_sheet_as_text", "_read_content_from_workbook"] := by decide

/-! ## ODS `_extract_sheet` -/

abbrev caps := S2T.Gen.Tables.odsCaps
/-- `raw_rows` -/
abbrev RawRows := List (List (Val × Py.Str))

/-- everything `_extract_sheet` reads off the table element (generated tag / attribute names) -/
def odsParse (env : OdsEnv) (table : Node) : M (List PRow) :=
  parseRows env S2T.Gen.Tables.ods.row S2T.Gen.C02Sheets.ods.repRows S2T.Gen.Tables.ods.cell
    S2T.Gen.C02Sheets.ods.repCols table

/-- **`_extract_sheet` is its specification over the parsed rows** (all inputs, all behaviours of the call-outs) -/
theorem extract_sheet_spec (env : OdsEnv) (ctx : OdsCtx) (table : Node) (n ic : Int) :
    _extract_sheet env ctx table n ic = (do
      let rows ← odsParse env table
      let im ← env.extractImages ctx table ic
      pure ({ name := elemGetD table S2T.Gen.C02Sheets.ods.nameAttr [], data := dataOf caps rows,
              text := textOf caps rows, annotations := annOf rows, images := im.1 }, im.2)) := by
  unfold _extract_sheet
  simp +instances only [M.pure_def, bind_pure_comp, pure_bind, bind_assoc]
  -- first pass: the row loop and, inside it, the cell loop
  -- (the loop state in the model's order `(raw_rows, all_annotations, max_cols)`, or any other declaration order)
  first
    | rw [forIn_mapM_fold (parseRow env S2T.Gen.C02Sheets.ods.repRows S2T.Gen.Tables.ods.cell S2T.Gen.C02Sheets.ods.repCols)
        (rowStep caps)]
    | (rw [forIn_conj (fun (s : RawRows × Int × List Annot) => (s.1, s.2.2, s.2.1)) (fun t => (t.1, t.2.2, t.2.1)) (fun _ => rfl)]
       rw [forIn_mapM_fold (parseRow env S2T.Gen.C02Sheets.ods.repRows S2T.Gen.Tables.ods.cell S2T.Gen.C02Sheets.ods.repCols)
        (rowStep caps)])
    | (rw [forIn_conj (fun (s : List Annot × RawRows × Int) => (s.2.1, s.1, s.2.2)) (fun t => (t.2.1, t.1, t.2.2)) (fun _ => rfl)]
       rw [forIn_mapM_fold (parseRow env S2T.Gen.C02Sheets.ods.repRows S2T.Gen.Tables.ods.cell S2T.Gen.C02Sheets.ods.repCols)
        (rowStep caps)])
    | (rw [forIn_conj (fun (s : List Annot × Int × RawRows) => (s.2.2, s.1, s.2.1)) (fun t => (t.2.1, t.2.2, t.1)) (fun _ => rfl)]
       rw [forIn_mapM_fold (parseRow env S2T.Gen.C02Sheets.ods.repRows S2T.Gen.Tables.ods.cell S2T.Gen.C02Sheets.ods.repCols)
        (rowStep caps)])
    | (rw [forIn_conj (fun (s : Int × RawRows × List Annot) => (s.2.1, s.2.2, s.1)) (fun t => (t.2.2, t.1, t.2.1)) (fun _ => rfl)]
       rw [forIn_mapM_fold (parseRow env S2T.Gen.C02Sheets.ods.repRows S2T.Gen.Tables.ods.cell S2T.Gen.C02Sheets.ods.repCols)
        (rowStep caps)])
    | (rw [forIn_conj (fun (s : Int × List Annot × RawRows) => (s.2.2, s.2.1, s.1)) (fun t => (t.2.2, t.2.1, t.1)) (fun _ => rfl)]
       rw [forIn_mapM_fold (parseRow env S2T.Gen.C02Sheets.ods.repRows S2T.Gen.Tables.ods.cell S2T.Gen.C02Sheets.ods.repCols)
        (rowStep caps)])
  rotate_left
  · intro row s
    first
      | rw [forIn_mapM_fold (parseCell env S2T.Gen.C02Sheets.ods.repCols) (cellStep caps)]
      | (rw [forIn_conj (fun (s : List (Val × Py.Str) × List Annot) => (s.2, s.1)) (fun (t : List Annot × List (Val × Py.Str)) => (t.2, t.1)) (fun _ => rfl)]
         rw [forIn_mapM_fold (parseCell env S2T.Gen.C02Sheets.ods.repCols) (cellStep caps)])
    rotate_left
    · intro cell s
      simp +instances only [parseCell, bind_assoc, M.pure_def, M.ok_bind, pure_bind, listAppend_def, repeatList]
      refine bind_congr (fun rep => ?_)
      refine bind_congr (fun tv => ?_)
      refine bind_congr (fun ann => ?_)
      simp +instances only [cellStep_cond, caps, S2T.Gen.Tables.odsCaps, Int.cast_ofNat_Int,
        List.flatten_replicate_singleton, gt_iff_lt]
      generalize decide (_ < rep) = a
      generalize (tv.1 == Val.none) = b
      cases a <;> cases b <;> rfl
    simp +instances only [parseRow, bind_assoc, M.pure_def, M.ok_bind, pure_bind, listAppend_def, repeatList]
    refine bind_congr (fun rep => ?_)
    refine bind_congr (fun cells => ?_)
    simp +instances only [rowStep_cond, foldl_cellStep, caps, S2T.Gen.Tables.odsCaps, Int.cast_ofNat_Int, List.nil_append,
      truthy_list, List.flatten_replicate_singleton, gt_iff_lt]
    generalize decide (_ < rep) = a
    generalize (rowVals2 _ cells).all _ = b
    generalize (rowVals2 _ cells).isEmpty = c
    cases a <;> cases b <;> cases c <;> rfl
  simp only [bind_assoc, M.ok_bind, M.pure_def, odsParse, parseRows, pure_bind]
  refine bind_congr (fun rows => ?_)
  obtain ⟨m', hfold⟩ := foldl_rowStep caps rows [] [] 0
  simp only [hfold, List.nil_append]
  -- trailing rows without data: the `while` loop
  rw [whileM_trim emptyRow2]
  rotate_left
  · simp
  · intro ys a; simp [listGetItem_append_last, emptyRow2]
  · intro ys a; simp [listPop_append_last]
  simp only [M.ok_bind]
  rw [show (List.dropWhile emptyRow2 (rawOf caps rows).reverse).reverse = trim2 (rawOf caps rows) from rfl]
  simp only [dataOf, textOf]
  generalize trim2 (rawOf caps rows) = T
  by_cases hT : T = []
  · subst hT
    simp [textLines, strJoin]
  · have htr : truthy T = true := by simp [truthy_list, hT]
    simp only [htr, if_true]
    -- last column with data: the two backwards scans
    rw [forIn_scan_rows (fun v => v.1 != Val.none) T]
    rotate_left
    · intro row _ acc hacc
      rw [forIn_scan_lastIdx (fun v => v.1 != Val.none) row _ _ acc hacc]
      · rfl
      · intro i hi acc'
        rw [listGetItem_natCast _ _ hi]
        py_scan_leaf
    simp only [M.ok_bind]
    rw [show (List.foldl (fun m row => max m (Xlsx.lastIdx (fun v => v.1 != Val.none) row)) 0 T) = lastCol2 T from rfl]
    -- padding
    first
      | rw [pad_outer (lastCol2 T) T]
      | (rw [forIn_conj (fun (s : List Py.Str × List (List Val)) => (s.2, s.1)) (fun (t : List (List Val) × List Py.Str) => (t.2, t.1)) (fun _ => rfl)]
         rw [pad_outer (lastCol2 T) T])
    rotate_left
    · intro row _ s
      first
        | rw [pad_inner row (lastCol2 T : Int)]
        | (rw [forIn_conj (fun (s : List Py.Str × List Val) => (s.2, s.1)) (fun (t : List Val × List Py.Str) => (t.2, t.1)) (fun _ => rfl)]
           rw [pad_inner row (lastCol2 T : Int)])
      rotate_left
      · intro i _ s
        by_cases hi : i < row.length
        · have h1 : ((i : Int) < len row) := by simp only [len]; omega
          simp only [h1, decide_true, if_true, listGetItem_natCast _ _ hi, M.ok_bind, padStep, List.getElem?_eq_getElem hi,
            listAppend_def, truthy_list]
          by_cases h : List.isEmpty (row[i]).2 = true <;> simp +instances [h]
        · have h1 : ¬ ((i : Int) < len row) := by simp only [len]; omega
          simp [h1, padStep, List.getElem?_eq_none (Nat.le_of_not_lt hi)]
      simp +instances only [M.ok_bind, padRowStep_cond, Int.toNat_natCast, listAppend_def, truthy_list]
      generalize (rowTexts (lastCol2 T) row).isEmpty = b
      cases b <;> rfl
    simp [Int.toNat_natCast]

/-- **C13 source tie (ODS).**  `OdsSheet.data` of the translated `_extract_sheet` is the hand model
    `Ods.sheetData` at the generated caps, applied to the parsed rows -/
theorem extract_sheet_eq (env : OdsEnv) (ctx : OdsCtx) (table : Node) (n ic : Int) :
    _extract_sheet env ctx table n ic = (do
      let rows ← odsParse env table
      let im ← env.extractImages ctx table ic
      pure ({ name := elemGetD table S2T.Gen.C02Sheets.ods.nameAttr [],
              data := Ods.sheetData S2T.Gen.Tables.odsCaps (toRRows rows),
              text := textOf caps rows, annotations := annOf rows, images := im.1 }, im.2)) := by
  rw [extract_sheet_spec]
  simp only [dataOf_eq]

/-- which exception: the first one of the parse phase in document order … -/
theorem extract_sheet_parse_error (env : OdsEnv) (ctx : OdsCtx) (table : Node) (n ic : Int) (e : Exc)
    (h : odsParse env table = .error e) : _extract_sheet env ctx table n ic = .error e := by
  rw [extract_sheet_eq, h]; rfl

/-- … otherwise the one of `_extract_images`; nothing else raises (no `IndexError` from the guarded `[...]` / `pop()`,
    no non-terminating `while`) -/
theorem extract_sheet_images_error (env : OdsEnv) (ctx : OdsCtx) (table : Node) (n ic : Int) (rows : List PRow) (e : Exc)
    (h : odsParse env table = .ok rows) (hi : env.extractImages ctx table ic = .error e) :
    _extract_sheet env ctx table n ic = .error e := by
  rw [extract_sheet_eq, h]; simp [hi]

/-- a returned sheet's table is the hand model's table of the parsed rows -/
theorem extract_sheet_data (env : OdsEnv) (ctx : OdsCtx) (table : Node) (n ic : Int) (sheet : OdsSheet) (k : Int)
    (h : _extract_sheet env ctx table n ic = .ok (sheet, k)) :
    ∃ rows, odsParse env table = .ok rows ∧ sheet.data = Ods.sheetData S2T.Gen.Tables.odsCaps (toRRows rows)
      ∧ sheet.annotations = annOf rows := by
  rw [extract_sheet_eq] at h
  cases hp : odsParse env table with
  | error e => rw [hp] at h; cases h
  | ok rows =>
    rw [hp] at h
    cases hi : env.extractImages ctx table ic with
    | error e => simp [hi] at h
    | ok im =>
      simp [hi] at h
      exact ⟨rows, rfl, by rw [← h.1], by rw [← h.1]⟩

/-- **`C13_ods_cells_partial` on the regenerated code**: without a collapsed run of empty cells in front of data, every
    cell of the returned table is the cell of the plain expansion of the parsed sheet at that position -/
theorem extract_sheet_cells (env : OdsEnv) (ctx : OdsCtx) (table : Node) (n ic : Int) (sheet : OdsSheet) (k : Int)
    (h : _extract_sheet env ctx table n ic = .ok (sheet, k)) :
    ∃ rows, odsParse env table = .ok rows ∧
      (Ods.noGapRows S2T.Gen.Tables.odsCaps (toRRows rows) = true →
        ∀ i j, Ods.cellAt sheet.data i j = Ods.cellAt (Ods.expand (toRRows rows)) i j) := by
  obtain ⟨rows, hp, hd, _⟩ := extract_sheet_data env ctx table n ic sheet k h
  exact ⟨rows, hp, fun hg i j => by rw [hd]; exact Ods.sheetData_cells _ _ hg i j⟩

/-- the returned table is rectangular (`C13_ods_shape_partial` on the regenerated code) -/
theorem extract_sheet_rect (env : OdsEnv) (ctx : OdsCtx) (table : Node) (n ic : Int) (sheet : OdsSheet) (k : Int)
    (h : _extract_sheet env ctx table n ic = .ok (sheet, k)) : ∃ w, ∀ row ∈ sheet.data, row.length = w := by
  obtain ⟨rows, _, hd, _⟩ := extract_sheet_data env ctx table n ic sheet k h
  rw [hd, Ods.sheetData_eq]
  exact Ods.sheetOf_rect _

/-- the hypotheses are satisfiable: an environment, a table with a repeated row; the function returns -/
def exEnv : OdsEnv :=
  { intOfStr := fun s => if s = "1".toList then pure 1 else if s = "3".toList then pure 3 else throw emptySeqError,
    extractCellValue := fun c => pure (Val.str c.text, c.text),
    extractAnnotations := fun _ => pure [], extractImages := fun _ _ k => pure ([], k) }
def exTable : Node :=
  .mk [] [] [] [.mk S2T.Gen.Tables.ods.row [(S2T.Gen.C02Sheets.ods.repRows, "3".toList)] []
    [.mk S2T.Gen.Tables.ods.cell [] "x".toList [] []] []] []
example : (odsParse exEnv exTable).toOption.map toRRows = some [(3, [(1, Val.str "x".toList)])] := by decide +kernel

/-! ## XLSX -/

theorem is_cell_non_empty_eq (v : Val) : _is_cell_non_empty v = pure (Xlsx.isCellNonEmpty v) := by
  cases v <;> simp +instances [_is_cell_non_empty, isInstance, isInst, asStr, Xlsx.isCellNonEmpty, Xlsx.isBlankStr, bne_nil]

theorem is_meaningful_value_eq (v : Val) : _is_meaningful_value v = pure (Xlsx.isMeaningful v) := by
  cases v <;> simp +instances [_is_meaningful_value, isInstance, isInst, asStr, Xlsx.isMeaningful, Xlsx.isBlankStr, Xlsx.startsWith, startswith]
  rename_i s
  cases h : pyStrip s <;> simp

def StrOfOk (env : XlsxEnv) : Prop := (∀ s, env.strOf (.str s) = s) ∧ (∀ s, env.strOf (.other s) = s)

theorem get_cell_value_eq (env : XlsxEnv) (h : StrOfOk env) (v : Val) : _get_cell_value env v = pure (Xlsx.getCellValue v) := by
  cases v <;> simp +instances [_get_cell_value, isInstance, isInst, dtIso, Xlsx.getCellValue, h.2]

theorem find_last_data_row_eq (rows : VGrid) : _find_last_data_row rows = pure (Xlsx.findLastDataRow rows : Int) := by
  unfold _find_last_data_row
  simp +instances only [M.pure_def, bind_pure_comp, pure_bind, bind_assoc, is_cell_non_empty_eq, anyM_ok]
  by_cases hr : rows = []
  · subst hr; rfl
  · have htr : (!truthy rows) = false := by simp [truthy_list, hr]
    simp only [htr, Bool.false_eq_true, if_false]
    rw [forIn_scan_return (fun row => row.any Xlsx.isCellNonEmpty) rows]
    · simp only [M.ok_bind, Xlsx.findLastDataRow]
      split <;> simp_all
    · intro i hi s
      rw [listGetItem_natCast _ _ hi]
      py_scan_leaf

theorem find_last_data_column_eq (rows : VGrid) : _find_last_data_column rows = pure (Xlsx.findLastDataColumn rows : Int) := by
  unfold _find_last_data_column
  simp +instances only [M.pure_def, bind_pure_comp, pure_bind, bind_assoc, is_cell_non_empty_eq]
  by_cases hr : rows = []
  · subst hr; rfl
  · have htr : (!truthy rows) = false := by simp [truthy_list, hr]
    simp only [htr, Bool.false_eq_true, if_false]
    rw [forIn_scan_rows Xlsx.isCellNonEmpty rows]
    · rfl
    · intro row _ acc hacc
      rw [forIn_scan_lastIdx Xlsx.isCellNonEmpty row _ _ acc hacc]
      · rfl
      · intro i hi acc'
        rw [listGetItem_natCast _ _ hi]
        py_scan_leaf

theorem sumInt_ones (l : List Int) (h : ∀ x ∈ l, x = 1) : sumInt l = (l.length : Int) := by
  have key : ∀ (l : List Int) (a : Int), (∀ x ∈ l, x = 1) → l.foldl (· + ·) a = a + (l.length : Int) := by
    intro l
    induction l with
    | nil => intro a _; simp
    | cons x r ih =>
      intro a h
      rw [List.foldl_cons, ih _ (fun y hy => h y (List.mem_cons_of_mem _ hy)), h x (List.mem_cons_self ..)]
      simp; omega
  rw [sumInt, key l 0 h]; simp

theorem filterMap_one_eq {α} (p : α → Bool) (l : List α) :
    l.filterMap (fun v => if p v = true then some (1 : Int) else none) = (l.filter p).map (fun _ => (1 : Int)) := by
  induction l with
  | nil => rfl
  | cons a r ih => by_cases h : p a = true <;> simp [List.filterMap_cons, List.filter_cons, h, ih]

theorem is_table_name_row_eq (row : List Val) : _is_table_name_row row = pure (Xlsx.isTableNameRow row) := by
  unfold _is_table_name_row
  simp +instances only [M.pure_def, bind_pure_comp, pure_bind, bind_assoc, is_meaningful_value_eq, M.ok_bind]
  rw [filterMapM_ok (fun v => if Xlsx.isMeaningful v then some (1 : Int) else none)]
  · simp only [M.ok_bind, M.map_ok, Xlsx.isTableNameRow]
    rw [filterMap_one_eq, sumInt_ones _ (by intro x hx; simp at hx; exact hx.2.symm)]
    simp +instances only [List.length_map, gt_iff_lt]
    generalize (List.filter Xlsx.isMeaningful row).length = k
    have e1 : ((k : Int) == 1) = (k == 1) := by
      by_cases h : k = 1
      · subst h; rfl
      · have h' : ¬ ((k : Int) = 1) := by omega
        rw [(beq_eq_false_iff_ne (a := (k : Int)) (b := 1)).mpr h', (beq_eq_false_iff_ne (a := k) (b := 1)).mpr h]
    have e2 : decide ((1 : Int) < len row) = decide (1 < row.length) := by
      apply decide_eq_decide.mpr; simp only [len]; omega
    simp only [e1, e2]
    -- (closed already when the conjuncts stand in the model's order)
    try (generalize (k == 1) = a; generalize decide (1 < row.length) = b; cases a <;> cases b <;> rfl)
  · intro v _
    split <;> simp_all


/-- `str()` of the first-row value of column `i`, as the hand model's `strOf` parameter -/
def strOfFirst (env : XlsxEnv) (rows : VGrid) : Nat → Py.Str := fun i => env.strOf ((rows.headD []).getD i Val.none)

/-- the first-row values that get a generated header name -/
def unnamedCell : Val → Bool
  | .none => true
  | .str s => Xlsx.isBlankStr s
  | _ => false

/-- the header string of column `i` for the first-row value `v` -/
def hdrOf (env : XlsxEnv) (i : Int) (v : Val) : Py.Str :=
  if unnamedCell v then "Unnamed: ".toList ++ intStr i else env.strOf v

theorem hdrOf_eq (env : XlsxEnv) (h : StrOfOk env) (i : Nat) (v : Val) :
    Val.str (hdrOf env (i : Int) v) = Xlsx.headerName i v (env.strOf v) := by
  have e : intStr (i : Int) = (toString i).toList := rfl
  unfold hdrOf Xlsx.headerName
  rw [e]
  cases v <;> simp only [unnamedCell, if_true, if_false, Bool.false_eq_true]
  rename_i s
  by_cases hb : Xlsx.isBlankStr s = true <;> simp only [hb, if_true, if_false, Bool.false_eq_true, h.1]

/-- the record dict of one data row (not part of the hand model's table) -/
def recordOf (hdrs : List Py.Str) (row : List Val) : List (Py.Str × Val) :=
  dictOfPairs ((enumerate row).filterMap (fun x => match hdrs[x.1.toNat]? with
    | some hd => some (hd, Xlsx.getCellValue x.2)
    | none => none))

theorem foldl_records (hdrs : List Py.Str) (rest : VGrid) (s : List (List (Py.Str × Val)) × VGrid) :
    rest.foldl (fun s row => (s.1 ++ [recordOf hdrs row], s.2 ++ [row.map Xlsx.getCellValue])) s
      = (s.1 ++ rest.map (recordOf hdrs), s.2 ++ rest.map (·.map Xlsx.getCellValue)) := by
  induction rest generalizing s with
  | nil => simp
  | cons r rs ih => simp [ih, List.append_assoc]

/-- `tuple(row[:n]) + (None,) * (n - len(row))` is the hand model's `padTake` -/
theorem padTake_src (c : Nat) (row : List Val) :
    row.take c ++ repeatList [Val.none] ((c : Int) - len row) = Xlsx.padTake c row := by
  have e : ((c : Int) - len row).toNat = c - row.length := by simp only [len]; omega
  simp only [repeatList, e, List.flatten_replicate_singleton, Xlsx.padTake]

theorem read_sheet_data_eq (env : XlsxEnv) (h : StrOfOk env) (ws : Worksheet) :
    ∃ recs, _read_sheet_data env ws = Except.ok (recs, Xlsx.readSheetData ws.rows (strOfFirst env ws.rows)) := by
  obtain ⟨rows0⟩ := ws
  unfold _read_sheet_data
  simp +instances only [M.pure_def, bind_pure_comp, pure_bind, bind_assoc, find_last_data_row_eq, find_last_data_column_eq,
    get_cell_value_eq env h, M.ok_bind, pSlice_take, pSlice_drop, padTake_src]
  by_cases h0 : rows0 = []
  · subst h0; exact ⟨[], rfl⟩
  have ht0 : (!truthy rows0) = false := by simp [truthy_list, h0]
  have he0 : rows0.isEmpty = false := by cases rows0 <;> simp_all
  simp only [ht0, Bool.false_eq_true, if_false, Xlsx.readSheetData, he0]
  rcases h1 : rows0.take (Xlsx.findLastDataRow rows0) with _ | ⟨first, rest⟩
  · exact ⟨[], by simp⟩
  · simp only [truthy_list, List.isEmpty_cons, Bool.not_false, Bool.not_true, Bool.false_eq_true, if_false, List.map_cons,
      listGetItem_cons_zero, M.ok_bind, List.drop_succ_cons, List.drop_zero]
    generalize Xlsx.findLastDataColumn (first :: rest) = c
    generalize hfp : Xlsx.padTake c first = fp
    rw [mapM_ok (fun x => hdrOf env x.1 x.2)]
    rotate_left
    · intro x hx
      obtain ⟨i, v⟩ := x
      simp only [hdrOf]
      generalize "Unnamed: ".toList ++ intStr i = u
      cases v <;> simp +instances [isInstance, isInst, asStr, Xlsx.isBlankStr, unnamedCell]
    simp only [M.ok_bind]
    generalize hh : (enumerate fp).map (fun x => hdrOf env x.1 x.2) = hdrs
    first
      | rw [forIn_ok_fold (fun s row => (s.1 ++ [recordOf hdrs row], s.2 ++ [row.map Xlsx.getCellValue]))]
      | (rw [forIn_conj (fun (s : VGrid × List (List (Py.Str × Val))) => (s.2, s.1)) (fun (t : List (List (Py.Str × Val)) × VGrid) => (t.2, t.1)) (fun _ => rfl)]
         rw [forIn_ok_fold (fun s row => (s.1 ++ [recordOf hdrs row], s.2 ++ [row.map Xlsx.getCellValue]))])
    rotate_left
    · intro row _ s
      rw [filterMapM_ok (fun x => match hdrs[x.1.toNat]? with
        | some hd => some (hd, Xlsx.getCellValue x.2)
        | none => none)]
      · rw [mapM_ok Xlsx.getCellValue _ _ (fun _ _ => rfl)]
        rfl
      · intro x hx
        obtain ⟨j, hj, _⟩ := mem_enumerate hx
        obtain ⟨i, v⟩ := x
        simp only at hj
        subst hj
        simp only [Int.toNat_natCast, len]
        by_cases hlt : j < hdrs.length
        · have : ((j : Int) < ((hdrs.length : Nat) : Int)) := by omega
          have h' : ¬ (((hdrs.length : Nat) : Int) ≤ (j : Int)) := by omega
          simp [this, h', listGetItem_natCast _ _ hlt, List.getElem?_eq_getElem hlt]
        · have : ¬ ((j : Int) < ((hdrs.length : Nat) : Int)) := by omega
          have h' : (((hdrs.length : Nat) : Int) ≤ (j : Int)) := by omega
          simp [this, h', List.getElem?_eq_none (Nat.le_of_not_lt hlt)]
    rw [mapM_ok Xlsx.getCellValue _ _ (fun _ _ => rfl), foldl_records]
    simp only [M.ok_bind, List.nil_append, List.singleton_append]
    refine ⟨rest.map (fun row => recordOf hdrs (Xlsx.padTake c row)), ?_⟩
    have hd : rows0.headD [] = first := by
      cases rows0 with
      | nil => simp at h1
      | cons a r =>
        cases hn : Xlsx.findLastDataRow (a :: r) with
        | zero => rw [hn] at h1; simp at h1
        | succ n => rw [hn] at h1; simp only [List.take_succ_cons, List.cons.injEq] at h1; simp [h1.1]
    have hhead : List.map Val.str hdrs
        = List.zipWith (fun i v => Xlsx.headerName i v (strOfFirst env rows0 i)) (List.range fp.length) fp := by
      rw [← hh, List.map_map, map_enumerate, List.range_eq_range']
      apply zipWith_range'_congr
      intro j hj
      simp only [Function.comp, Nat.zero_add, hdrOf_eq env h, strOfFirst, hd]
      have hjc : j < c := by rw [← hfp, Xlsx.padTake_length] at hj; exact hj
      have hget : fp[j] = (first[j]?).getD Val.none := by
        have := Xlsx.padTake_get c first j hjc
        rw [hfp, List.getElem?_eq_getElem hj] at this
        exact Option.some.inj this
      rw [hget, List.getD_eq_getElem?_getD]
    rw [show (1 : Int) = ((1 : Nat) : Int) from rfl, pSlice_drop]
    simp only [List.drop_succ_cons, List.drop_zero, hhead, List.map_map, Function.comp_def]

/-- `StrOfOk` is satisfiable -/
example : StrOfOk ⟨fun v => match v with | .str s => s | .other s => s | _ => [], fun _ => pure []⟩ :=
  ⟨fun _ => rfl, fun _ => rfl⟩

/-- `all_rows` / `first_row` of the translated `_read_sheet_data` are the hand model's (what `XlsxSheet.data` is built from) -/
theorem read_sheet_data_table (env : XlsxEnv) (h : StrOfOk env) (ws : Worksheet) (r) (hr : _read_sheet_data env ws = .ok r) :
    (r.2.1, r.2.2) = Xlsx.readSheetData ws.rows (strOfFirst env ws.rows) := by
  obtain ⟨recs, he⟩ := read_sheet_data_eq env h ws
  rw [he] at hr
  cases hr
  rfl

/-! ## XLSX `_read_content_from_workbook`: which rows become `XlsxSheet.data` -/

/-- one sheet of `_read_content_from_workbook` -/
def readSheet (env : XlsxEnv) (wb : List (Py.Str × Worksheet)) (name : Py.Str) : M XlsxSheet := do
  let ws ← dictGetItem wb name
  let text ← _format_sheet_as_text env (Xlsx.readSheetData ws.rows (strOfFirst env ws.rows)).1
  pure { name := name, data := Xlsx.sheetData ws.rows (strOfFirst env ws.rows), text := text, images := [] }

theorem foldl_snoc {α} (ys : List α) (acc : List α) : ys.foldl (fun s y => s ++ [y]) acc = acc ++ ys := by
  induction ys generalizing acc with
  | nil => simp
  | cons y r ih => simp [ih]

/-- **C13 source tie (XLSX).**  `XlsxSheet.data` of every sheet the translated `_read_content_from_workbook` builds is the hand
    model `Xlsx.sheetData` of the worksheet's rows (the table-name-row test included); a missing sheet name is the
    `KeyError` of `wb[name]`, an exception of `_format_value_for_display` propagates -/
theorem read_content_from_workbook_eq (env : XlsxEnv) (h : StrOfOk env) (wb : List (Py.Str × Worksheet)) (names : List Py.Str) :
    _read_content_from_workbook env wb names = names.mapM (readSheet env wb) := by
  unfold _read_content_from_workbook
  simp +instances only [M.pure_def, bind_pure_comp, pure_bind, bind_assoc, M.ok_bind, is_table_name_row_eq, listAppend_def]
  rw [forIn_mapM_fold (readSheet env wb) (fun s y => s ++ [y])]
  · simp only [foldl_snoc, List.nil_append]
    cases List.mapM (readSheet env wb) names <;> rfl
  · intro name s
    simp only [readSheet, bind_assoc, M.pure_def, M.ok_bind]
    refine bind_congr (fun ws => ?_)
    obtain ⟨recs, he⟩ := read_sheet_data_eq env h ws
    rw [he]
    simp only [M.ok_bind]
    refine bind_congr (fun text => ?_)
    simp only [Xlsx.sheetData]
    generalize Xlsx.readSheetData ws.rows (strOfFirst env ws.rows) = r
    obtain ⟨allRows, firstRow⟩ := r
    cases allRows with
    | nil => simp
    | cons hd rest =>
      simp only [truthy_list, List.isEmpty_cons, Bool.not_false, if_true, listGetItem_cons_zero, M.ok_bind,
        show (1 : Int) = ((1 : Nat) : Int) from rfl, pSlice_drop, List.drop_succ_cons, List.drop_zero]
      cases Xlsx.isTableNameRow hd <;> simp

/-- the data of the sheets that come back -/
theorem read_content_data (env : XlsxEnv) (h : StrOfOk env) (wb : List (Py.Str × Worksheet)) (names : List Py.Str)
    (sheets : List XlsxSheet) (hr : _read_content_from_workbook env wb names = .ok sheets) :
    ∀ sh ∈ sheets, ∃ name ∈ names, ∃ ws, dictGetItem wb name = .ok ws ∧ sh.name = name ∧
      sh.data = Xlsx.sheetData ws.rows (strOfFirst env ws.rows) := by
  rw [read_content_from_workbook_eq env h] at hr
  intro sh hsh
  obtain ⟨name, hname, hs⟩ := mapM_ok_mem _ _ _ hr sh hsh
  refine ⟨name, hname, ?_⟩
  simp only [readSheet] at hs
  cases hw : dictGetItem wb name with
  | error e => rw [hw] at hs; cases hs
  | ok ws =>
    rw [hw] at hs
    refine ⟨ws, rfl, ?_⟩
    simp only [M.ok_bind] at hs
    cases ht : _format_sheet_as_text env (Xlsx.readSheetData ws.rows (strOfFirst env ws.rows)).1 with
    | error e => rw [ht] at hs; cases hs
    | ok text =>
      rw [ht] at hs
      cases hs
      exact ⟨rfl, rfl⟩

end S2T.C13.Src
