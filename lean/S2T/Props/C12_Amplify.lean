import S2T.Lemmas.Amplify
/-!
# C12 (third part) — output governed by a number written in the input

Two mechanisms of the CURRENT library for which the statement "cost stays within a fixed multiple of the input
size, irrespective of repeat counts / declared dimensions" is FALSE, proved false on the models for every
candidate multiple `K`, with kernel-evaluated concrete inputs; the same (bounded) inputs are replayed on the real
code on every run by `harness/props/c12.py:known_witnesses`.

* `odf.text-s-count-amplification`: `<text:s text:c="N"/>` yields `N` characters from `19 + digits(N)` bytes.
* `xlsx.sparse-far-cell-amplification`: two used cells A1 and (r, c) yield `r·c` cells from `a + 2·digits(r) + letters(c)` bytes.

FULL STATEMENTS (false, kept visible):
  theorem textS_linear : ∃ K, ∀ p, (paraText p).length ≤ K * paraMarkupLen p
  theorem xlsx_linear  : ∃ K, ∀ cs, rectCells cs ≤ K * sheetLen env tags cs
-/
namespace S2T.C12.Amplify
open S2T.Amplify
open S2T.Limits (digits)

/-! ## ODF `text:s` -/

/-- `<text:s text:c="10…0"/>` (d zeros) contributes exactly 10^d characters … -/
theorem textS_out_length (d : Nat) : (Inline.space (pow10Digits d)).out.length = 10 ^ d := by
  have hpos : (0 : Int) < ((10 ^ d : Nat) : Int) := by
    have : 0 < 10 ^ d := Nat.pow_pos (by decide)
    omega
  simp only [Inline.out, digitsVal_pow10, spaceRun]
  rw [if_pos hpos, List.length_replicate, Int.toNat_natCast]

/-- … from 20 + d bytes of markup -/
theorem textS_markup_length (d : Nat) : (Inline.space (pow10Digits d)).markupLen = 20 + d := by
  simp [Inline.markupLen, pow10Digits]; omega

/-- UNBOUNDEDNESS: for every multiple K there is a paragraph whose extracted text is longer than K times its markup -/
theorem textS_unbounded : ∀ K : Nat, ∃ p : List Inline, (paraText p).length > K * paraMarkupLen p := by
  intro K
  refine ⟨[.space (pow10Digits (K + 37 + 2))], ?_⟩
  have hout := textS_out_length (K + 37 + 2)
  have hlen := textS_markup_length (K + 37 + 2)
  have hb := pow10_beats_linear K 37
  simp only [paraText, paraMarkupLen, List.flatMap_cons, List.flatMap_nil, List.append_nil, List.map_cons, List.map_nil,
    List.sum_cons, List.sum_nil, hout, hlen]
  have hle : K * (17 + (20 + (K + 37 + 2) + 0)) ≤ K * (37 + 4 * (K + 37 + 2)) := Nat.mul_le_mul_left K (by omega)
  omega

/-- hence no fixed multiple bounds the text by the markup -/
theorem textS_no_linear_bound : ¬ ∃ K : Nat, ∀ p : List Inline, (paraText p).length ≤ K * paraMarkupLen p := by
  rintro ⟨K, h⟩
  obtain ⟨p, hp⟩ := textS_unbounded K
  have := h p
  omega

/-- what holds (exact excluding hypothesis: no `text:c` value above R): the text is at most R times the markup -/
theorem textS_partial (R : Nat) (hR : 1 ≤ R) (p : List Inline)
    (h : ∀ ds, Inline.space ds ∈ p → digitsVal ds ≤ R) : (paraText p).length ≤ R * paraMarkupLen p := by
  have key : ∀ q : List Inline, (∀ ds, Inline.space ds ∈ q → digitsVal ds ≤ R) →
      (paraText q).length ≤ R * (q.map (·.markupLen)).sum := by
    intro q
    induction q with
    | nil => intro _; simp [paraText]
    | cons i rest ih =>
      intro hq
      have ih' := ih (fun ds hds => hq ds (by simp [hds]))
      simp only [paraText, List.flatMap_cons, List.length_append, List.map_cons, List.sum_cons] at ih' ⊢
      have hi : i.out.length ≤ R * i.markupLen := by
        cases i with
        | text cs =>
          simp only [Inline.out, Inline.markupLen]
          calc cs.length = 1 * cs.length := (Nat.one_mul _).symm
            _ ≤ R * cs.length := Nat.mul_le_mul_right _ hR
        | space ds =>
          have hv := hq ds (by simp)
          simp only [Inline.out, Inline.markupLen, spaceRun]
          split
          · simp only [List.length_replicate, Int.toNat_natCast]
            calc digitsVal ds ≤ R := hv
              _ = R * 1 := (Nat.mul_one R).symm
              _ ≤ R * (19 + ds.length) := Nat.mul_le_mul_left R (by omega)
          · simp
      rw [Nat.mul_add]; omega
  have := key p h
  simp only [paraMarkupLen]
  rw [Nat.mul_add]; omega
example : ∀ ds, Inline.space ds ∈ [Inline.text ['a'], .space [1, 2], .text ['b']] → digitsVal ds ≤ 12 := by
  intro ds h
  simp at h
  subst h
  decide

/-- the bounded witness replayed on the real code: `<text:p>a<text:s text:c="20000"/>b</text:p>` is 43 bytes of markup
    and 20 002 characters of text (ratio 465; with one more digit 4 650) -/
theorem textS_witness :
    paraMarkupLen [.text ['a'], .space [2, 0, 0, 0, 0], .text ['b']] = 43 ∧
    (paraText [.text ['a'], .space [2, 0, 0, 0, 0], .text ['b']]).length = 20002 := by decide +kernel

/-! ## XLSX: the rectangle spanned by the used cells -/

/-- A1 and one far cell (r, c): r·c cells … -/
theorem xlsx_sparse_cells (r c : Nat) (hr : 1 ≤ r) (hc : 1 ≤ c) : rectCells (sparseSheet r c) = r * c := by
  simp [rectCells, sparseSheet, maxRow, maxCol, Nat.max_eq_right hr, Nat.max_eq_right hc]

theorem xlsx_sparse_corner (r c : Nat) (hr : 1 ≤ r) (hc : 1 ≤ c) :
    maxRow (sparseSheet r c) = r ∧ maxCol (sparseSheet r c) = c := by
  simp [sparseSheet, maxRow, maxCol, Nat.max_eq_right hr, Nat.max_eq_right hc]

/-- … from an input that grows with the DIGITS of r and the LETTERS of c only -/
theorem xlsx_sparse_len (env tags r c : Nat) (hr : 1 ≤ r) (hc : 1 ≤ c) :
    sheetLen env tags (sparseSheet r c) =
      env + colLetters c + digits r + (tags + 2 * digits 1 + colLetters 1 + 1 + (tags + 2 * digits r + colLetters c + 1 + 0)) := by
  have h := xlsx_sparse_corner r c hr hc
  rw [sheetLen, h.1, h.2]
  simp [sparseSheet]

/-- UNBOUNDEDNESS: for every multiple K (whatever the fixed parts of the file weigh, for every far column) there is a
    row number for which the materialised rectangle has more than K times as many cells as the sheet has bytes -/
theorem xlsx_sparse_unbounded : ∀ K env tags c : Nat, 1 ≤ c →
    ∃ r : Nat, rectCells (sparseSheet r c) > K * sheetLen env tags (sparseSheet r c) := by
  intro K env tags c hc
  generalize ha : env + 2 * tags + 2 * digits 1 + colLetters 1 + 2 * colLetters c + 5 = a
  refine ⟨10 ^ (K + a + 2), ?_⟩
  have hpos : 1 ≤ 10 ^ (K + a + 2) := Nat.pow_pos (by decide)
  rw [xlsx_sparse_cells _ _ hpos hc, xlsx_sparse_len _ _ _ _ hpos hc, digits_pow10]
  have hb := pow10_beats_linear K a
  have hle : K * (env + colLetters c + (K + a + 2 + 1) + (tags + 2 * digits 1 + colLetters 1 + 1 + (tags + 2 * (K + a + 2 + 1) + colLetters c + 1 + 0)))
      ≤ K * (a + 4 * (K + a + 2)) := Nat.mul_le_mul_left K (by omega)
  have hc' : 10 ^ (K + a + 2) * 1 ≤ 10 ^ (K + a + 2) * c := Nat.mul_le_mul_left _ hc
  omega

theorem xlsx_no_linear_bound (env tags : Nat) :
    ¬ ∃ K : Nat, ∀ cs : List UsedCell, rectCells cs ≤ K * sheetLen env tags cs := by
  rintro ⟨K, h⟩
  obtain ⟨r, hr⟩ := xlsx_sparse_unbounded K env tags 1 (Nat.le_refl 1)
  have := h (sparseSheet r 1)
  omega

/-- doubling both coordinates of the far cell quadruples the cells (the file grows by at most a few digits) -/
theorem xlsx_sparse_growth (r c : Nat) (hr : 1 ≤ r) (hc : 1 ≤ c) :
    rectCells (sparseSheet (2 * r) (2 * c)) = 4 * rectCells (sparseSheet r c) := by
  rw [xlsx_sparse_cells _ _ (by omega) (by omega), xlsx_sparse_cells _ _ hr hc]
  rw [Nat.mul_mul_mul_comm]
example : (1 : Nat) ≤ 100 := by decide

/-- the bounded witnesses replayed on the real code: 100² / 200² / 400² cells (×4 per step) from a 268-byte worksheet part
    (envelope 134 bytes, 58 bytes of tags per cell: the harness's constants, `xlsx_sparse_witness_len`); ZZ1000 = 702 000 cells -/
theorem xlsx_sparse_witness :
    rectCells (sparseSheet 100 100) = 10000 ∧ rectCells (sparseSheet 200 200) = 40000 ∧
    rectCells (sparseSheet 400 400) = 160000 ∧ rectCells (sparseSheet 1000 702) = 702000 ∧
    colLetters 100 = 2 ∧ colLetters 400 = 2 ∧ colLetters 702 = 2 ∧ colLetters 703 = 3 := by decide +kernel

theorem xlsx_sparse_witness_len : sheetLen 134 58 (sparseSheet 400 400) = 268 := by
  have h1 : digits 1 = 1 := by rw [digits]; simp
  have h4 : digits 4 = 1 := by rw [digits]; simp
  have h40 : digits 40 = 2 := by rw [digits]; simp [h4]
  have h400 : digits 400 = 3 := by rw [digits]; simp [h40]
  rw [xlsx_sparse_len _ _ _ _ (by decide) (by decide), h1, h400]
  decide

end S2T.C12.Amplify
