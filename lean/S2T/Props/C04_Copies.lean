import S2T.Model.IfaceCopies
/-!
# C04 (copies built on demand: operation sequences on one result)

For EVERY history of consumer operations on the result's own image stream and every number of walks over the units,
the copy a unit carries delivers exactly `size_bytes` = the length of the payload — if and only if the copy site takes
the bytes position-independently (`getvalue()`).  The `read()` form is correct on a fresh result only
(`copy_read_fresh_ok`) and wrong after any history that leaves the source behind position 0
(`copy_read_after_read_empty`, `copy_read_second_walk_empty`).  Tie to the source: `Gen.Iface.streamSites` classifies
`io.BytesIO(<x>.read())` with a stored stream `<x>` as `other` (C04_StreamSites.stream_sites_own_object).
-/
namespace S2T.C04.Copies
open S2T.Iface

private theorem applyOp_content (c : Cell) (o : StreamOp) : (applyOp c o).content = c.content := by
  cases o <;> rfl

theorem applyOps_content (c : Cell) (ops : List StreamOp) : (applyOps c ops).content = c.content := by
  induction ops generalizing c with
  | nil => rfl
  | cons o os ih => simp [applyOps, List.foldl] at *; rw [ih]; exact applyOp_content c o

/-- `getvalue()`: after ANY history the copy holds the whole payload, and building it does not touch the source -/
theorem copy_getvalue_any_history (c : Cell) (ops : List StreamOp) :
    (copyOf .getvalue (applyOps c ops)).1 = c.content ∧ (copyOf .getvalue (applyOps c ops)).2 = applyOps c ops := by
  simp [copyOf, applyOps_content]

/-- … so an image whose size is the payload length is honoured by the copy after any history -/
theorem copy_getvalue_size (c : Cell) (ops : List StreamOp) (size : Nat) (h : size = c.content.length) :
    ((copyOf .getvalue (applyOps c ops)).1).length = size := by
  simp [copyOf, applyOps_content, h]

/-- … and in every one of any number of walks -/
theorem walks_getvalue_all_full (c : Cell) (k : Nat) : ∀ x ∈ walks .getvalue k c, x = c.content := by
  induction k generalizing c with
  | zero => simp [walks]
  | succ k ih =>
    intro x hx
    simp only [walks, copyOf, List.mem_cons] at hx
    rcases hx with rfl | hx
    · rfl
    · exact ih c x hx

/-- `read()` on a FRESH result (source at 0): the copy is complete — the single first walk is correct -/
theorem copy_read_fresh_ok (c : Cell) (h : c.pos = 0) : (copyOf .read c).1 = c.content := by
  simp [copyOf, h]

/-- `read()` after the consumer read the result's image (history ending in a full read): the copy is EMPTY -/
theorem copy_read_after_read_empty (c : Cell) (ops : List StreamOp) :
    (copyOf .read (applyOps c (ops ++ [StreamOp.read]))).1 = [] := by
  simp only [applyOps, List.foldl_append, List.foldl_cons, List.foldl_nil, copyOf, applyOp]
  apply List.drop_eq_nil_of_le
  exact Nat.le_max_right _ _

/-- `read()`: the second walk over the units finds the source at its end: every later copy is empty -/
theorem copy_read_second_walk_empty (c : Cell) (k : Nat) :
    ∀ x ∈ (walks .read (k + 1) c).tail, x = [] := by
  have hend : ∀ (k : Nat) (d : Cell), d.content.length ≤ d.pos → ∀ x ∈ walks .read k d, x = [] := by
    intro k
    induction k with
    | zero => intro d _ x hx; simp [walks] at hx
    | succ k ih =>
      intro d hd x hx
      simp only [walks, copyOf, List.mem_cons] at hx
      rcases hx with rfl | hx
      · exact List.drop_eq_nil_of_le hd
      · exact ih _ (by simp; omega) x hx
  intro x hx
  simp only [walks, copyOf, List.tail_cons] at hx
  exact hend k _ (by simp; omega) x hx

/-- counterexample (the property fails for the `read()` form): payload of 3 bytes, the consumer reads the result's
image, then walks the units: the copy reports size 3 and delivers 0 bytes -/
theorem copy_read_counterexample :
    let src : Cell := ⟨[1, 2, 3], 0, false⟩
    ((copyOf .read (applyOps src [.rewind, .read])).1).length ≠ src.content.length ∧
    ((copyOf .getvalue (applyOps src [.rewind, .read])).1).length = src.content.length := by decide

/-- the `read()` form is right exactly when the history left the source at 0 (`_partial` form of the statement) -/
theorem copy_read_partial (c : Cell) (ops : List StreamOp) (h : (applyOps c ops).pos = 0) :
    (copyOf .read (applyOps c ops)).1 = c.content := by
  simp [copyOf, h, applyOps_content]

example : (copyOf .getvalue (applyOps ⟨[7, 8], 0, false⟩ [.readN 1, .read])).1 = [7, 8] := by decide

end S2T.C04.Copies
