import S2T.Lemmas.Units
import S2T.Gen.Units
import S2T.Props.C03_Bound
import S2T.Props.C03_Src
import S2T.Props.C03_Carrier
import S2T.Props.C03_Walk
/-!
# C03 — Units mirror pages / slides / sheets / chapters / messages

Statement (fixed): `iterate_units()` yields exactly one unit per page, slide, sheet, EPUB chapter, mailbox
message or explicit RTF page (one unit, or one per heading section, for flowing-text formats), in source
order, each carrying its 1-based source position as unit number so that numbers are strictly increasing and
never repeat.  Together the units cover the body exactly: every piece of body text is returned in the unit it
belongs to and in no other (heading text counts as covered by the heading path of its section unit).  For
every format whose documentation derives the full text from the units (pdf, pptx, odp, xlsx, ods, epub, html,
plain text, e-mail, odg, odf) `get_full_text()` equals the trimmed newline-join of the unit texts.

All theorems quantify over every `Tables` value `T` (any whitespace set, any line-boundary set, any PPT type
sets) unless they mention `S2T.Gen.Units`, and over inputs of any size.  The model is
`S2T/Model/Units.lean`; it describes the tree with the three C03 fix patches applied (docx page-break
text, ppt fallback slide number, rtf blank pages).

Open findings (full statement false on the current tree, see `known_findings.jsonl`):
* DOCX: while the heading path is empty — before the first heading, or under blank headings only — body
  paragraphs are in no unit when the document has a heading (`docx.text-before-first-heading-dropped`;
  the library's own test pins the resulting unit count for thesis-template.docx).
  FULL STATEMENT (false): `cover_docx`, see the comment there.
  Proved instead: `cover_docx_exact`, `cover_docx_partial`, `docx_preamble_dropped_counterexample`.
* DOC / ODT: a heading whose own section is empty and which is followed by a heading of the same or a
  higher level gets no unit; a document of headings only gets no unit at all.
  FULL STATEMENT (false): every heading text occurs in the heading path of some unit; `units ≠ []`.
  Proved instead: `cover_doc`, `cover_odt` (all body pieces, exactly once, in order) + counterexamples.
* PPT: `_parse_slide_list_container` drops text-less slides once any text was seen.
  FULL STATEMENT (false): `(parseSlideList T recs [] none false false).length = #SlidePersistAtoms`.
  Proved instead: `ppt_slide_list_count_partial` + `ppt_slide_list_drops_empty_counterexample`.
-/
namespace S2T.C03
open S2T.Units

abbrev G : Tables := S2T.Gen.Units.tables

/-! ## A. What the translator found in the current source -/

/-- the result classes of the eleven formats whose full text the statement derives from the units -/
def joinClasses : List String :=
  ["PdfContent", "PptxContent", "OdpContent", "XlsxContent", "OdsContent", "EpubContent", "HtmlContent",
   "PlainTextContent", "EmailContent", "OdgContent", "OdfContent"]

/-- every one of them has a `get_full_text` that returns what `_join_unit_text` makes of `iterate_units()`
(found by the translator by running the current code with `_join_unit_text` replaced by a recorder) -/
theorem join_inventory : ∀ c ∈ joinClasses, S2T.Gen.Units.fullTextKinds.lookup c = some "join" := by decide

/-- every `enumerate(...)` that numbers units (five `iterate_units`, `read_pptx`,
`_build_slides_from_text_blocks`, `read_odp`) starts at 1 -/
theorem enum_starts_one : ∀ e ∈ S2T.Gen.Units.enumStarts, e.2 = 1 := by decide

/-- runtime values agree with the source literals; str.isspace / strip / split agree on the whitespace set -/
theorem gen_notes_empty : S2T.Gen.Units.notes = [] := by decide

/-- the order-affecting calls (sorted / reversed / .sort / set / dict re-keying / unordered executors …) that the
model accounts for inside the functions that build the unit sequence (`_compute_slide_order`, `read_pptx`, the PPT
slide-list functions, `_parse_spine`, `read_epub`, `_split_mbox_messages`, `read_mbox_format_mail`,
`_strip_rtf_full_with_pages`, `read_odp`, `read_ods`, `read_xlsx`, every `iterate_units`): image / table look-ups
(`reversed(units)` searches the last level-1 unit for an attachment, `set`/`setdefault` index anchors and notes) —
none of them touches the sequence of units -/
def allowedReorderCalls : List (String × String) :=
  [("DocContent.iterate_units", "reversed"), ("OdtContent.iterate_units", "reversed"),
   ("DocxContent.iterate_units", "set"), ("DocxContent.iterate_units", "setdefault"), ("_parse_ppt_document", "set")]

/-- closed world: no other call that can change or lose an order occurs in those functions of the current source —
the slide / chapter / page / message / sheet order of the model (`slideOrder`, `epubSpine`, `rtfPieces`, `mboxGo`,
`enumUnits`) is the document order because nothing re-sorts, de-duplicates or re-keys the sequence -/
theorem unit_builders_do_not_reorder : ∀ c ∈ S2T.Gen.Units.reorderCalls, c ∈ allowedReorderCalls := by decide

/-! ## B. Unit numbers: 1-based source position, strictly increasing, never repeated -/

theorem numbers_pdf (ps : List Page) :
    (pdfUnits ps).map (·.number) = List.range' 1 ps.length ∧ StrictPos ((pdfUnits ps).map (·.number)) := by
  have h : (pdfUnits ps).map (·.number) = List.range' 1 ps.length := enumUnits_numbers _ (fun _ _ => rfl) 1 ps
  exact ⟨h, h ▸ strictPos_range' 1 _ (by omega)⟩

theorem numbers_xls (T : Tables) (ss : List Sheet) :
    (xlsUnits T ss).map (·.number) = List.range' 1 ss.length ∧ StrictPos ((xlsUnits T ss).map (·.number)) := by
  have h : (xlsUnits T ss).map (·.number) = List.range' 1 ss.length := enumUnits_numbers _ (fun _ _ => rfl) 1 ss
  exact ⟨h, h ▸ strictPos_range' 1 _ (by omega)⟩

theorem numbers_xlsx (T : Tables) (ss : List Sheet) :
    (xlsxUnits T ss).map (·.number) = List.range' 1 ss.length ∧ StrictPos ((xlsxUnits T ss).map (·.number)) := by
  have h : (xlsxUnits T ss).map (·.number) = List.range' 1 ss.length := enumUnits_numbers _ (fun _ _ => rfl) 1 ss
  exact ⟨h, h ▸ strictPos_range' 1 _ (by omega)⟩

theorem numbers_ods (T : Tables) (ss : List Sheet) :
    (odsUnits T ss).map (·.number) = List.range' 1 ss.length ∧ StrictPos ((odsUnits T ss).map (·.number)) := by
  have h : (odsUnits T ss).map (·.number) = List.range' 1 ss.length := enumUnits_numbers _ (fun _ _ => rfl) 1 ss
  exact ⟨h, h ▸ strictPos_range' 1 _ (by omega)⟩

/-- plain text, HTML, ODG, ODF: exactly one unit, numbered 1 -/
theorem numbers_single (T : Tables) (c : Str) : (singleUnits T c).map (·.number) = [1] := rfl

/-- e-mail: exactly one unit (plain body, else HTML body, else empty), numbered 1 -/
theorem numbers_email (e : Email) : (emailUnits e).map (·.number) = [1] := by
  unfold emailUnits
  split
  · rfl
  · split <;> rfl

/-- RTF: one unit per entry of `pages`, blank or not, numbered by position; without pages at most one unit, numbered 1 -/
theorem numbers_rtf (T : Tables) (r : Rtf) :
    (r.pages ≠ [] → (rtfUnits T r).map (·.number) = List.range' 1 r.pages.length)
    ∧ StrictPos ((rtfUnits T r).map (·.number)) := by
  have h1 : r.pages ≠ [] → (rtfUnits T r).map (·.number) = List.range' 1 r.pages.length := by
    intro hp
    unfold rtfUnits
    rw [if_pos hp]
    exact enumUnits_numbers _ (fun _ _ => rfl) 1 r.pages
  refine ⟨h1, ?_⟩
  by_cases hp : r.pages ≠ []
  · rw [h1 hp]; exact strictPos_range' 1 _ (by omega)
  · unfold rtfUnits
    rw [if_neg hp]
    split
    · exact ⟨by simp, by simp⟩
    · simp only
      split
      · exact ⟨by simp, by simp⟩
      · exact ⟨by simp, by simp⟩

/-- slide / chapter formats: the unit number is the number the extractor stored, one unit per stored slide -/
theorem numbers_ppt_field (ss : List PptSlide) : (pptUnits ss).map (·.number) = ss.map (·.number) := by
  simp [pptUnits, Function.comp_def]
theorem numbers_odp_field (ss : List PptSlide) : (odpUnits ss).map (·.number) = ss.map (·.number) := by
  simp [odpUnits, Function.comp_def]
theorem numbers_pptx_field (T : Tables) (ss : List PptxSlide) (cap : Bool) :
    (pptxUnits T ss cap).map (·.number) = ss.map (·.number) := by
  simp [pptxUnits, Function.comp_def]
theorem numbers_epub_field (cs : List Chapter) : (epubUnits cs).map (·.number) = cs.map (·.number) := by
  simp [epubUnits, Function.comp_def]

/-- PPTX end to end: `read_pptx` numbers the slides of `_compute_slide_order` 1..n, whatever
`_process_slide_from_context` (`mk`) extracts -/
theorem numbers_pptx (T : Tables) (mk : Str → PptxSlide) (rels : List Rel) (ids : List (Option Str)) (cap : Bool) :
    (pptxUnits T (pptxExtract mk (slideOrder rels ids)) cap).map (·.number) = List.range' 1 (slideOrder rels ids).length
    ∧ StrictPos ((pptxUnits T (pptxExtract mk (slideOrder rels ids)) cap).map (·.number)) := by
  have h : (pptxUnits T (pptxExtract mk (slideOrder rels ids)) cap).map (·.number) = List.range' 1 (slideOrder rels ids).length := by
    rw [numbers_pptx_field]
    unfold pptxExtract
    rw [List.map_map]
    have := enumUnits_numbers (fun k (p : Str) => ({ number := k, text := p } : DUnit)) (fun _ _ => rfl) 1 (slideOrder rels ids)
    simpa [Function.comp_def] using this
  exact ⟨h, h ▸ strictPos_range' 1 _ (by omega)⟩

/-- ODP end to end: `read_odp` numbers the `draw:page` elements 1..n -/
theorem numbers_odp (mk : Str → PptSlide) (pages : List Str) :
    (odpUnits (odpExtract mk pages)).map (·.number) = List.range' 1 pages.length
    ∧ StrictPos ((odpUnits (odpExtract mk pages)).map (·.number)) := by
  have h : (odpUnits (odpExtract mk pages)).map (·.number) = List.range' 1 pages.length := by
    rw [numbers_odp_field]
    unfold odpExtract
    rw [List.map_map]
    have := enumUnits_numbers (fun k (p : Str) => ({ number := k, text := p } : DUnit)) (fun _ _ => rfl) 1 pages
    simpa [Function.comp_def] using this
  exact ⟨h, h ▸ strictPos_range' 1 _ (by omega)⟩

private theorem addBlock_number (T : Tables) (s : PptSlide) (b : Block) : (addBlock T s b).number = s.number := by
  unfold addBlock
  simp only
  repeat' split
  all_goals rfl

private theorem foldl_addBlock_number (T : Tables) (bs : List Block) (s : PptSlide) :
    (bs.foldl (addBlock T) s).number = s.number := by
  induction bs generalizing s with
  | nil => rfl
  | cons b r ih => simp [ih, addBlock_number]

private theorem buildSlides_numbers (T : Tables) (k : Nat) (l : List (List Block)) :
    (buildSlides T k l).1.map (·.number) = List.range' k l.length := by
  induction l generalizing k with
  | nil => rfl
  | cons bs r ih => simp [buildSlides, foldl_addBlock_number, ih, List.range'_succ]

private theorem buildSlides_length (T : Tables) (k : Nat) (l : List (List Block)) :
    (buildSlides T k l).1.length = l.length := by
  have := congrArg List.length (buildSlides_numbers T k l)
  simpa using this

/-- PPT end to end (`_parse_ppt_document`): slides are numbered 1..n, including the raw-text fallback slide -/
theorem numbers_ppt (T : Tables) (lst cont : List (List Block)) (raw : List Str) :
    (pptUnits (pptParseDocument T lst cont raw)).map (·.number) = List.range' 1 (pptParseDocument T lst cont raw).length
    ∧ StrictPos ((pptUnits (pptParseDocument T lst cont raw)).map (·.number)) := by
  have hsrc : (pptSources T lst cont).1.map (·.number) = List.range' 1 (pptSources T lst cont).1.length := by
    unfold pptSources
    split
    · rw [buildSlides_numbers, buildSlides_length]
    · split
      · rw [buildSlides_numbers, buildSlides_length]
      · rfl
  have h : (pptUnits (pptParseDocument T lst cont raw)).map (·.number) = List.range' 1 (pptParseDocument T lst cont raw).length := by
    rw [numbers_ppt_field]
    unfold pptParseDocument
    simp only
    generalize pptSources T lst cont = r at hsrc
    split
    · simp only [List.map_append, List.map_cons, List.map_nil, List.length_append, List.length_cons, List.length_nil]
      rw [hsrc, List.range'_1_concat]
      congr 2; omega
    · exact hsrc
  exact ⟨h, h ▸ strictPos_range' 1 _ (by omega)⟩

/-- EPUB spine loop: kept chapters carry their spine position; skipped items leave gaps, never a repeat -/
theorem epubSpine_spec (k : Nat) (items : List (Option Str)) :
    (∀ c ∈ epubSpine k items, k ≤ c.number ∧ c.number < k + items.length ∧ items[c.number - k]? = some (some c.text))
    ∧ ((epubSpine k items).map (·.number)).Pairwise (· < ·)
    ∧ (epubSpine k items).length = (items.filter Option.isSome).length := by
  induction items generalizing k with
  | nil => simp [epubSpine]
  | cons it r ih =>
    obtain ⟨h1, h2, h3⟩ := ih (k + 1)
    cases it with
    | none =>
      refine ⟨?_, by simpa [epubSpine] using h2, by simpa [epubSpine] using h3⟩
      intro c hc
      obtain ⟨a, b, d⟩ := h1 c (by simpa [epubSpine] using hc)
      refine ⟨by omega, by simp only [List.length_cons]; omega, ?_⟩
      have : c.number - k = (c.number - (k + 1)) + 1 := by omega
      rw [this, List.getElem?_cons_succ]; exact d
    | some t =>
      refine ⟨?_, ?_, by simp [epubSpine, h3]⟩
      · intro c hc
        simp only [epubSpine, List.mem_cons] at hc
        rcases hc with hc | hc
        · subst hc; simp
        · obtain ⟨a, b, d⟩ := h1 c hc
          refine ⟨by omega, by simp only [List.length_cons]; omega, ?_⟩
          have : c.number - k = (c.number - (k + 1)) + 1 := by omega
          rw [this, List.getElem?_cons_succ]; exact d
      · simp only [epubSpine, List.map_cons, List.pairwise_cons]
        refine ⟨?_, h2⟩
        intro n hn
        obtain ⟨c, hc, rfl⟩ := List.mem_map.mp hn
        have := (h1 c hc).1
        omega

theorem numbers_epub (items : List (Option Str)) :
    StrictPos ((epubUnits (epubChapters items)).map (·.number))
    ∧ (∀ c ∈ epubChapters items, items[c.number - 1]? = some (some c.text)) := by
  obtain ⟨h1, h2, _⟩ := epubSpine_spec 1 items
  rw [numbers_epub_field]
  refine ⟨⟨h2, ?_⟩, fun c hc => (h1 c hc).2.2⟩
  intro n hn
  obtain ⟨c, hc, rfl⟩ := List.mem_map.mp hn
  have := (h1 c hc).1
  omega

/-! ## C. Full text = trimmed newline-join of the unit texts (the eleven formats of the statement).
The model mirrors `return _join_unit_text(self.iterate_units())`; that the source has this shape for
these classes is `join_inventory`, re-decided on every run; `_join_unit_text`'s own body
(`("\n".join(...)).strip()`) is tied to `joinUnitText` by the correspondence. -/

theorem join_pdf (T : Tables) (ps : List Page) : pdfFullText T ps = strip T (joinNl ((pdfUnits ps).map (·.text))) := rfl
theorem join_pptx (T : Tables) (ss : List PptxSlide) (cap : Bool) :
    pptxFullText T ss cap = strip T (joinNl ((pptxUnits T ss cap).map (·.text))) := rfl
theorem join_odp (T : Tables) (ss : List PptSlide) : odpFullText T ss = strip T (joinNl ((odpUnits ss).map (·.text))) := rfl
theorem join_xlsx (T : Tables) (ss : List Sheet) : xlsxFullText T ss = strip T (joinNl ((xlsxUnits T ss).map (·.text))) := rfl
theorem join_ods (T : Tables) (ss : List Sheet) : odsFullText T ss = strip T (joinNl ((odsUnits T ss).map (·.text))) := rfl
theorem join_epub (T : Tables) (cs : List Chapter) : epubFullText T cs = strip T (joinNl ((epubUnits cs).map (·.text))) := rfl
theorem join_email (T : Tables) (e : Email) : emailFullText T e = strip T (joinNl ((emailUnits e).map (·.text))) := rfl
/-- html, plain text, odg, odf -/
theorem join_single (T : Tables) (c : Str) : singleFullText T c = strip T (joinNl ((singleUnits T c).map (·.text))) := rfl
/-- … which for the single-unit formats is the trimmed content itself, trimmed once more -/
theorem full_text_single (T : Tables) (c : Str) : singleFullText T c = strip T (strip T c) := by
  simp [singleFullText, joinUnitText, singleUnits, joinNl, List.intercalate]

/-! ## D. One unit per page / slide / sheet / chapter -/

theorem count_pdf (ps : List Page) : (pdfUnits ps).length = ps.length := enumUnits_length _ _ _
theorem count_xls (T : Tables) (ss : List Sheet) : (xlsUnits T ss).length = ss.length := enumUnits_length _ _ _
theorem count_xlsx (T : Tables) (ss : List Sheet) : (xlsxUnits T ss).length = ss.length := enumUnits_length _ _ _
theorem count_ods (T : Tables) (ss : List Sheet) : (odsUnits T ss).length = ss.length := enumUnits_length _ _ _
theorem count_ppt (ss : List PptSlide) : (pptUnits ss).length = ss.length := by simp [pptUnits]
theorem count_odp (ss : List PptSlide) : (odpUnits ss).length = ss.length := by simp [odpUnits]
theorem count_pptx (T : Tables) (ss : List PptxSlide) (cap : Bool) : (pptxUnits T ss cap).length = ss.length := by simp [pptxUnits]
theorem count_epub (cs : List Chapter) : (epubUnits cs).length = cs.length := by simp [epubUnits]
/-- every explicit RTF page, blank or not, is a unit; page k's unit holds page k's text and the images / tables
whose page number is k -/
theorem count_rtf (T : Tables) (r : Rtf) (hp : r.pages ≠ []) :
    (rtfUnits T r).length = r.pages.length
    ∧ ∀ i (h : i < r.pages.length), (rtfUnits T r)[i]? =
        some { number := 1 + i, text := r.pages[i], nImages := countOnPage r.imagePages (1 + i), nTables := countOnPage r.tablePages (1 + i) } := by
  unfold rtfUnits
  rw [if_pos hp]
  exact ⟨enumUnits_length _ _ _, fun i h => enumUnits_get _ 1 r.pages i h⟩

/-- PDF / sheets: unit k is page k (text and attachments), for every k -/
theorem mirror_pdf (ps : List Page) (i : Nat) (h : i < ps.length) :
    (pdfUnits ps)[i]? = some { number := 1 + i, text := ps[i].text, nImages := ps[i].nImages, nTables := ps[i].nTables } :=
  enumUnits_get _ 1 ps i h

/-- PPTX: one slide per `p:sldId` whose relationship resolves; none invented -/
theorem count_pptx_order (rels : List Rel) (ids : List (Option Str)) : (slideOrder rels ids).length ≤ ids.length := by
  unfold slideOrder; exact List.length_filterMap_le _ _

/-- EPUB: one chapter per spine item that yields a content document -/
theorem count_epub_spine (items : List (Option Str)) : (epubChapters items).length = (items.filter Option.isSome).length :=
  (epubSpine_spec 1 items).2.2

/-- RTF page flush: with at least one explicit `\page` (two or more pieces) every piece is a page -/
theorem count_rtf_flush (T : Tables) (pieces : List Str) (h : 2 ≤ pieces.length) :
    (rtfFlushPages T pieces).length = pieces.length := by
  match pieces, h with
  | p :: q :: r, _ => simp [rtfFlushPages]

/-! ### PPT slide list (open finding `ppt.empty-slide-dropped`) -/

def persistCount : List PRec → Nat
  | [] => 0
  | .persist :: r => persistCount r + 1
  | _ :: r => persistCount r

def noText : List PRec → Bool
  | [] => true
  | .text s :: r => s.isEmpty && noText r
  | _ :: r => noText r

/-- PARTIAL: one slide per SlidePersistAtom *when the container holds no text at all*.
(With text, text-less slides after the first text block are dropped — see the counterexample.) -/
theorem ppt_slide_list_count_partial (T : Tables) (recs : List PRec) (cur : List Block) (tt : Option Nat) (started : Bool)
    (h : noText recs = true) :
    (parseSlideList T recs cur tt started false).length = persistCount recs + (if started then 1 else 0) := by
  induction recs generalizing cur tt started with
  | nil => cases started <;> simp [parseSlideList, slideListEmit, persistCount]
  | cons r rs ih =>
    cases r with
    | persist =>
      simp only [parseSlideList, persistCount, List.length_append]
      rw [ih [] tt true (by simpa [noText] using h)]
      cases started <;> simp [slideListEmit] <;> omega
    | header t =>
      simp only [parseSlideList, persistCount]
      exact ih cur (some t) started (by simpa [noText] using h)
    | text s =>
      simp only [noText, Bool.and_eq_true, List.isEmpty_iff] at h
      simp only [parseSlideList, persistCount, h.1, ne_eq, not_true_eq_false, if_false]
      exact ih cur tt started h.2

example : noText [.persist, .header 0, .text [], .persist] = true := by decide

/-- COUNTEREXAMPLE (model of the current code): three slides "A", (empty), "C" come out as two -/
theorem ppt_slide_list_drops_empty_counterexample :
    (parseSlideList G [.persist, .text ['A'], .persist, .persist, .text ['C']] [] none false false).map (fun bs => bs.map (·.text))
      = [[['A']], [['C']]] := by decide

/-! ## E. Cover: the units partition the body (heading-section formats) -/

/-- the events of a DOC body: heading lines, body lines (stripped, non-blank), matched table lines -/
def docEvs (T : Tables) (d : Doc) : List Ev := docEvents T ((splitlines T d.mainText).map (rstrip T)) d.tables
/-- the events of an ODT body -/
def odtEvs (T : Tables) (o : Odt) : List Ev := odtEvents T o.paragraphs false o.nTables

/-- DOC with at least one heading line: the units' body pieces are exactly the body lines, each once, in
order; numbers are 1..n; each unit's text is the trimmed newline-join of its pieces. -/
theorem cover_doc (T : Tables) (d : Doc) (hh : (docEvs T d).any Ev.isHeading = true) :
    (docUnits T d).flatMap (·.lines) = evBodies (docEvs T d)
    ∧ (docUnits T d).map (·.number) = List.range' 1 (docUnits T d).length
    ∧ ∀ u ∈ docUnits T d, u.text = textOfLines T u.lines := by
  have hne : (splitlines T d.mainText).map (rstrip T) ≠ [] := by
    intro hc; unfold docEvs at hh; rw [hc] at hh; simp [docEvents] at hh
  obtain ⟨h1, h2, h3⟩ := secRun_spec T id (docEvs T d) (docEvents_ok T _ _)
  have ha := secRun_any T id (docEvs T d)
  unfold docUnits
  simp only [hne, if_false]
  have : (secRun T id (docEvents T ((splitlines T d.mainText).map (rstrip T)) d.tables)).any = true := by
    rw [← hh]; exact ha
  simp only [this, Bool.not_true, Bool.false_eq_true, if_false]
  exact ⟨h3, h1, h2⟩

/-- ODT with at least one non-blank heading: same statement (here the paragraphs before the first heading
are a unit of their own). -/
theorem cover_odt (T : Tables) (o : Odt) (hh : (odtEvs T o).any Ev.isHeading = true) :
    (odtUnits T o).flatMap (·.lines) = evBodies (odtEvs T o)
    ∧ (odtUnits T o).map (·.number) = List.range' 1 (odtUnits T o).length
    ∧ ∀ u ∈ odtUnits T o, u.text = textOfLines T u.lines := by
  have hne : o.paragraphs ≠ [] := by
    intro hc; unfold odtEvs at hh; rw [hc] at hh; simp [odtEvents] at hh
  let base : List Str := if o.title ≠ [] then [o.title] else []
  obtain ⟨h1, h2, h3⟩ := secRun_spec T (odtMkPath base) (odtEvs T o) (odtEvents_ok T _ _ _)
  have ha := secRun_any T (odtMkPath base) (odtEvs T o)
  unfold odtUnits
  simp only [hne, if_false]
  have : (secRun T (odtMkPath base) (odtEvents T o.paragraphs false o.nTables)).any = true := by
    rw [← hh]; exact ha
  simp only [base] at this
  simp only [this, Bool.not_true, Bool.false_eq_true, if_false]
  exact ⟨h3, h1, h2⟩

/- FULL-STRENGTH STATEMENT — FALSE on the current tree (open finding `docx.text-before-first-heading-dropped`):

    theorem cover_docx (T : Tables) (d : Docx) (hh : d.paragraphs.any (·.level.isSome) = true) :
        (docxUnits T d).flatMap (·.lines) = docxBodies T d.paragraphs

It fails exactly for the body paragraphs that occur while the heading path is empty (`docxLost`): the code's
`flush_current` starts with `if not current_heading_path: return`. -/

/-- DOCX with at least one heading paragraph, EXACT: the units' body pieces are the stripped non-blank
non-heading paragraphs that occur under a non-empty heading path (`docxKept`) — each once, in order,
including page-break paragraphs that carry text; numbers 1..n; text = trimmed join of the pieces. -/
theorem cover_docx_exact (T : Tables) (d : Docx) (hh : d.paragraphs.any (·.level.isSome) = true) :
    (docxUnits T d).flatMap (·.lines) = docxKept T [] d.paragraphs
    ∧ (docxUnits T d).map (·.number) = List.range' 1 (docxUnits T d).length
    ∧ ∀ u ∈ docxUnits T d, u.text = textOfLines' T u.lines := by
  have hne : d.paragraphs ≠ [] := by intro hc; rw [hc] at hh; simp at hh
  obtain ⟨hi, hc, ha⟩ := docxLoop_spec T d.paragraphs {} (docxInv_init T)
  have ha' : (docxLoop T {} d.paragraphs).any = true := by rw [ha, hh]; rfl
  obtain ⟨hn, ht, hcv, hany, _⟩ := docxFlush_spec T none _ hi
  unfold docxUnits
  simp only [hne, ne_eq, not_false_eq_true, if_true, hany, ha']
  refine ⟨?_, hn, ht⟩
  rw [hcv, hc]; simp [docxCov]

/-- PARTIAL: the full cover statement holds when no non-blank body paragraph occurs while the heading path is
empty (`docxLost T [] ps = []`: nothing before the first heading, nothing under blank headings only). -/
theorem cover_docx_partial (T : Tables) (d : Docx) (hh : d.paragraphs.any (·.level.isSome) = true)
    (hlost : docxLost T [] d.paragraphs = []) :
    (docxUnits T d).flatMap (·.lines) = docxBodies T d.paragraphs := by
  rw [(cover_docx_exact T d hh).1, docxKept_eq_bodies T _ _ hlost]

/-- COUNTEREXAMPLE (model of the current code): "pre" stands before the first heading and is in no unit -/
theorem docx_preamble_dropped_counterexample :
    (docxUnits G { paragraphs := [⟨"pre".toList, none, false, 0, 0⟩, ⟨['H'], some 1, false, 0, 0⟩, ⟨"body".toList, none, false, 0, 0⟩],
                   fullText := [], title := [], nImages := 0, nTables := 0 }).map (fun u => (u.number, u.text, u.path))
      = [(1, "body".toList, [['H']])]
    ∧ docxLost G [] [⟨"pre".toList, none, false, 0, 0⟩, ⟨['H'], some 1, false, 0, 0⟩, ⟨"body".toList, none, false, 0, 0⟩] = ["pre".toList] := by
  decide

/-- DOCX: every non-blank heading text is in the heading path of some unit ("heading text counts as covered by
the heading path of its section unit") — an empty section is dropped only when a deeper heading follows, and
then the heading stays on the stack and shows up in that heading's path. -/
theorem heading_cover_docx (T : Tables) (d : Docx) :
    ∀ h ∈ docxHeads T d.paragraphs, ∃ u ∈ docxUnits T d, h ∈ u.path := by
  intro x hx
  have hi := docxLoop_heads T d.paragraphs {} [] hinv_init
  simp only [List.nil_append] at hi
  have hne : d.paragraphs ≠ [] := by intro hc; rw [hc] at hx; simp [docxHeads] at hx
  have hany : d.paragraphs.any (·.level.isSome) = true := docxHeads_any T d.paragraphs x hx
  obtain ⟨_, _, ha⟩ := docxLoop_spec T d.paragraphs {} (docxInv_init T)
  have ha' : (docxLoop T {} d.paragraphs).any = true := by rw [ha, hany]; rfl
  unfold docxUnits
  simp only [hne, ne_eq, not_false_eq_true, if_true]
  rcases docxFlush_cases T none (docxLoop T {} d.paragraphs) with ⟨he, hcase⟩ | ⟨u, hu, he⟩
  · rw [he]; simp only [ha', if_true]
    rcases hi.cov x hx with hp | hu
    · rcases hcase with hnil | hdeep
      · rw [hnil] at hp; cases hp
      · simp [deeper] at hdeep
    · exact hu
  · rw [he]; simp only [ha', if_true]
    rcases hi.cov x hx with hp | ⟨w, hw, hxw⟩
    · exact ⟨u, by simp, by rw [hu]; exact hp⟩
    · exact ⟨w, by simp [hw], hxw⟩


/-- without any heading the document is one unit, numbered 1, holding the stored full text -/
theorem single_docx (T : Tables) (d : Docx) (hh : d.paragraphs.any (·.level.isSome) = false) :
    docxUnits T d = [{ number := 1, text := d.fullText, nImages := d.nImages, nTables := d.nTables }] := by
  obtain ⟨hi, hc, ha⟩ := docxLoop_spec T d.paragraphs {} (docxInv_init T)
  have ha' : (docxLoop T {} d.paragraphs).any = false := by rw [ha, hh]; rfl
  unfold docxUnits
  have hf : (docxFlush T none (docxLoop T {} d.paragraphs)).any = false := by
    rw [(docxFlush_spec T none _ hi).2.2.2.1]; exact ha'
  by_cases hne : d.paragraphs = []
  · simp [hne, docxLoop]
  · simp [hne, hf]

/-- numbers of DOC / ODT / DOCX units are 1..n in every case (heading sections or the single unit) -/
theorem numbers_docx (T : Tables) (d : Docx) : (docxUnits T d).map (·.number) = List.range' 1 (docxUnits T d).length := by
  by_cases hh : d.paragraphs.any (·.level.isSome) = true
  · exact (cover_docx_exact T d hh).2.1
  · rw [single_docx T d (by simpa using hh)]; rfl

theorem numbers_doc (T : Tables) (d : Doc) : (docUnits T d).map (·.number) = List.range' 1 (docUnits T d).length := by
  by_cases hh : (docEvs T d).any Ev.isHeading = true
  · exact (cover_doc T d hh).2.1
  · have hh' : (docEvs T d).any Ev.isHeading = false := by simpa using hh
    unfold docUnits
    simp only
    split
    · rfl
    · have : (secRun T id (docEvents T ((splitlines T d.mainText).map (rstrip T)) d.tables)).any = false := by
        have h := secRun_any T id (docEvs T d)
        rw [hh'] at h; exact h
      simp only [this, Bool.not_false, if_true]; rfl

theorem numbers_odt (T : Tables) (o : Odt) : (odtUnits T o).map (·.number) = List.range' 1 (odtUnits T o).length := by
  by_cases hh : (odtEvs T o).any Ev.isHeading = true
  · exact (cover_odt T o hh).2.1
  · have hh' : (odtEvs T o).any Ev.isHeading = false := by simpa using hh
    unfold odtUnits
    simp only
    split
    · rfl
    · have : (secRun T (odtMkPath (if o.title ≠ [] then [o.title] else [])) (odtEvents T o.paragraphs false o.nTables)).any = false := by
        have h := secRun_any T (odtMkPath (if o.title ≠ [] then [o.title] else [])) (odtEvs T o)
        rw [hh'] at h; exact h
      simp only [this, Bool.not_false, if_true]; rfl

/-! ### hypotheses are satisfiable by non-trivial values -/

/-- heading "One" has an empty section followed by a deeper heading: no unit of its own, but covered -/
def exDocxH : Docx :=
  { paragraphs := [⟨"One".toList, some 1, false, 0, 0⟩, ⟨"Sub".toList, some 2, false, 0, 0⟩, ⟨"text".toList, none, false, 0, 0⟩],
    fullText := [], title := [], nImages := 0, nTables := 0 }
example : (docxUnits G exDocxH).map (fun u => (u.number, u.text, u.path)) = [(1, "text".toList, ["One".toList, "Sub".toList])] := by decide
example : docxHeads G exDocxH.paragraphs = ["One".toList, "Sub".toList] := by decide


def exDocx : Docx :=
  { paragraphs := [⟨"title page".toList, none, false, 0, 0⟩, ⟨"One".toList, some 1, false, 0, 0⟩,
                   ⟨"text".toList, none, true, 0, 0⟩, ⟨"Two".toList, some 1, false, 0, 0⟩, ⟨"more".toList, none, false, 0, 0⟩],
    fullText := [], title := [], nImages := 0, nTables := 0 }

example : exDocx.paragraphs.any (·.level.isSome) = true := by decide
/-- the page-break paragraph "text" is kept (fix-docx-pagebreak-text); the title page is not (open finding) -/
example : (docxUnits G exDocx).map (fun u => (u.number, u.text, u.path))
    = [(1, "text".toList, ["One".toList]), (2, "more".toList, ["Two".toList])] := by decide
example : docxLost G [] exDocxH.paragraphs = [] ∧ exDocxH.paragraphs.any (·.level.isSome) = true := by decide

def exOdt : Odt :=
  { paragraphs := [⟨"pre".toList, none, []⟩, ⟨"A".toList, some 1, []⟩, ⟨" body ".toList, none, []⟩], title := [], fullText := [],
    nTables := 0, nImages := 0 }
example : (odtEvs G exOdt).any Ev.isHeading = true := by decide
example : (odtUnits G exOdt).map (fun u => (u.number, u.text, u.path)) = [(1, "pre".toList, []), (2, "body".toList, ["A".toList])] := by decide

def exDoc : Doc := { mainText := "Chapter 1\nfirst\n\nSubsection a\nsecond".toList, title := [], tables := [] }
example : (docEvs G exDoc).any Ev.isHeading = true := by decide
example : (docUnits G exDoc).map (fun u => (u.number, u.text, u.path))
    = [(1, "first".toList, ["Chapter 1".toList]), (2, "second".toList, ["Chapter 1".toList, "Subsection a".toList])] := by decide

example : (rtfFlushPages G ["a".toList, " ".toList, "c".toList]) = ["a".toList, [], "c".toList] := by decide
example : ({ pages := ["a".toList, []], fullText := [], paragraphs := [], imagePages := [some 2], tablePages := [] } : Rtf).pages ≠ [] := by decide

/-! ### counterexamples for the open DOC / ODT findings (model of the current code) -/

/-- heading "A" has an empty section and a sibling follows: "A" is in no unit -/
theorem odt_heading_dropped_counterexample :
    (odtUnits G { paragraphs := [⟨['A'], some 1, []⟩, ⟨['B'], some 1, []⟩, ⟨"bar".toList, none, []⟩], title := [], fullText := [],
                  nTables := 0, nImages := 0 }).map (fun u => (u.number, u.text, u.path)) = [(1, "bar".toList, [['B']])] := by decide

/-- a document of headings only has no unit at all -/
theorem odt_only_headings_no_unit :
    odtUnits G { paragraphs := [⟨['A'], some 1, []⟩], title := [], fullText := ['A'], nTables := 0, nImages := 0 } = [] := by decide

theorem doc_heading_dropped_counterexample :
    (docUnits G { mainText := "Chapter 1\nChapter 2\nbody".toList, title := [], tables := [] }).map (fun u => (u.number, u.text, u.path))
      = [(1, "body".toList, ["Chapter 2".toList])] := by decide

theorem doc_only_headings_no_unit :
    docUnits G { mainText := "Chapter 1".toList, title := [], tables := [] } = [] := by decide

/-! ## F. mbox: one message per separator line that is followed by content -/

theorem mbox_messages_nonempty (data : Str) : ∀ m ∈ mboxSplit data, m ≠ [] := by
  intro m hm
  unfold mboxSplit at hm
  have := (List.mem_filter.mp hm).2
  simpa using this

example : mboxSplit "From a@b Mon Jan 1 2024\nS: 1\n\nx\n\nFrom c@d Tue Jan 2 2024\nS: 2\n\ny\n".toList
    = ["S: 1\n\nx".toList, "S: 2\n\ny".toList] := by decide

/-! ## G. Source order on the extraction side (PPTX / ODP slides, RTF pages)

`numbers_pptx` fixes the *numbers*; the theorems here fix *which* slide / page stands at each number. -/

/-- PPTX: the show order is exactly the document order of the `p:sldId` entries whose `r:id` resolves to a slide
relationship — one path per such entry, nothing else decides the order -/
theorem slide_order_is_document_order (rels : List Rel) (es : List SldId) :
    slideOrderE rels es = es.filterMap (fun e => sldResolve rels e.rid) := by
  unfold slideOrderE
  rw [slideOrder_eq_filterMap, List.filterMap_map]
  rfl

/-- … in particular it is a homomorphism of the entry list: entries listed later come later (a deck whose last
slide was dragged to the front, or with a slide inserted in the middle, is read in *that* order) -/
theorem slide_order_append (rels : List Rel) (a b : List SldId) :
    slideOrderE rels (a ++ b) = slideOrderE rels a ++ slideOrderE rels b := by
  simp [slide_order_is_document_order]

/-- … and the numeric `id` attributes (slide-creation ids, not ascending once slides were moved or inserted,
possibly missing / non-numeric / repeated) have no influence at all -/
theorem slide_order_ignores_numeric_ids (rels : List Rel) (es es' : List SldId)
    (h : es.map (·.rid) = es'.map (·.rid)) : slideOrderE rels es = slideOrderE rels es' := by
  unfold slideOrderE; rw [h]

/-- PPTX: unit k is made from the k-th path of the slide order (text, images … come from `mk` of *that* part) -/
theorem mirror_pptx (T : Tables) (mk : Str → PptxSlide) (order : List Str) (cap : Bool) (i : Nat) (h : i < order.length) :
    (pptxUnits T (pptxExtract mk order) cap)[i]? =
      some { number := 1 + i, text := strip T (pptxSlideText { mk order[i] with number := 1 + i } cap),
             nImages := (mk order[i]).imageDescs.length } := by
  unfold pptxUnits pptxExtract
  rw [List.map_map, List.getElem?_map,
      enumUnits_get (fun k (p : Str) => ({ number := k, text := p } : DUnit)) 1 order i h]
  rfl

/-- ODP: unit k is made from the k-th `draw:page` -/
theorem mirror_odp (mk : Str → PptSlide) (pages : List Str) (i : Nat) (h : i < pages.length) :
    ((odpExtract mk pages)[i]?).map (·.number) = some (1 + i)
    ∧ (odpExtract mk pages)[i]? = some { mk pages[i] with number := 1 + i } := by
  unfold odpExtract
  rw [List.getElem?_map, enumUnits_get (fun k (p : Str) => ({ number := k, text := p } : DUnit)) 1 pages i h]
  exact ⟨rfl, rfl⟩

example : slideOrderE [⟨"rId7".toList, "slides/slide1.xml".toList, "x/slide".toList⟩, ⟨"rId8".toList, "slides/slide2.xml".toList, "x/slide".toList⟩]
      [⟨some "258".toList, some "rId8".toList⟩, ⟨some "256".toList, some "rId7".toList⟩, ⟨none, some "nope".toList⟩]
    = ["ppt/slides/slide2.xml".toList, "ppt/slides/slide1.xml".toList] := by decide

/-! ### RTF: page buffers, surrogate pairs and explicit breaks (`_strip_rtf_full_with_pages`)

The scanner appends UTF-16 code units (`\uN` twice for a character beyond U+FFFF); pairs are combined per page
buffer.  Every offset the code keeps is an offset into a buffer of its own page, so no character can move
across a break. -/

/-- k explicit breaks cut the body into k + 1 page buffers -/
theorem rtf_piece_count (evs : List RtfEv) : (rtfPieces evs).length = rtfBreaks evs + 1 :=
  rtfPiecesAux_length evs []

/-- with at least one explicit break every buffer is a page: pages = breaks + 1, blank ones included -/
theorem rtf_page_count (T : Tables) (evs : List RtfEv) (h : 1 ≤ rtfBreaks evs) :
    (rtfExtractPages T evs).length = rtfBreaks evs + 1 := by
  unfold rtfExtractPages
  rw [count_rtf_flush T _ (by rw [List.length_map, rtf_piece_count]; omega), List.length_map, rtf_piece_count]

/-- page k is a function of the characters between break k-1 and break k alone (combined, trimmed, blank runs
collapsed): text before a break never shows up after it and vice versa -/
theorem rtf_page_local (T : Tables) (evs : List RtfEv) (h : 1 ≤ rtfBreaks evs) (k : Nat) (hk : k < (rtfPieces evs).length) :
    (rtfExtractPages T evs)[k]? = some (rtfPageText T (codesToStr (combineSur (rtfPieces evs)[k]))) := by
  unfold rtfExtractPages
  have hl : 2 ≤ ((rtfPieces evs).map (fun p => codesToStr (combineSur p))).length := by
    rw [List.length_map, rtf_piece_count]; omega
  match hm : (rtfPieces evs).map (fun p => codesToStr (combineSur p)), hl with
  | p :: q :: r, _ =>
    simp only [rtfFlushPages]
    rw [← hm, List.map_map, List.getElem?_map, List.getElem?_eq_getElem hk]
    rfl

/-- the pages partition the body: when no buffer ends in the first half of a pair (no character is cut in two by
a break), concatenating the combined buffers gives exactly the combined body text that the function returns —
every character is in one page and in no other, whatever the number of characters beyond U+FFFF before a break -/
theorem rtf_pages_partition (evs : List RtfEv) (h : ∀ p ∈ rtfPieces evs, endsHigh p = false) :
    ((rtfPieces evs).map combineSur).flatten = rtfExtractText evs := by
  rw [combineSur_flatten _ h]
  unfold rtfExtractText rtfPieces
  rw [rtfPiecesAux_flatten]
  rfl

/-- combining leaves no surrogate in any page ("the text stays encodable") -/
theorem rtf_pages_encodable (evs : List RtfEv) : ∀ p ∈ rtfPieces evs, ∀ x ∈ combineSur p, isSur x = false :=
  fun p _ => combineSur_no_sur p

/-- a body without surrogate code units is cut as it stands -/
theorem rtf_bmp_unchanged (l : List Nat) (h : ∀ x ∈ l, isSur x = false) : combineSur l = l := combineSur_id l h

/-- "😀 " on page 1 (two `\uN`), "b" on page 2: the page boundary does not shift -/
example : rtfExtractPages G [.ch 0xD83D, .ch 0xDE00, .ch 97, .brk, .ch 98, .ch 99]
    = [[Char.ofNat 0x1F600, 'a'], ['b', 'c']] := by decide
example : (∀ p ∈ rtfPieces [.ch 0xD83D, .ch 0xDE00, .ch 97, .brk, .ch 98, .ch 99], endsHigh p = false)
    ∧ 1 ≤ rtfBreaks [.ch 0xD83D, .ch 0xDE00, .ch 97, .brk, .ch 98, .ch 99] := by decide

end S2T.C03
