import S2T.Gen.UnitsWalk
/-!
# C03, part "Walk" — every walk over the units sees the same units; no part of the source is skipped

The property speaks about `iterate_units()` — a generator a caller may abandon after the first unit, run twice at the
same time, or run again after `get_full_text()`.  "One unit per sheet, numbered by position" has to hold for EVERY such
walk, not only for the first complete one.

* Model (`run`): a result with unit list `us`; a schedule is any sequence of `next` calls on any number of walks (walk
  ids are arbitrary numbers, a walk starts with its first `next`).  For a result whose walks read nothing but the
  fields (`cursor` per walk, no shared state) walk `w` receives exactly the first `count w sched` entries of `us`
  whatever the other walks did (`walk_schedule_independent`), so a walk that is run to its end receives all of `us`
  (`complete_walk_yields_all`) — in particular after any number of abandoned walks.
* Why the tie is needed (`lazy_memo_partial_walk_counterexample`, `lazy_memo_interleaved_counterexample`): with a
  per-object list that is published before it is complete and filled by the first walk, a walk that follows an
  abandoned one ends after the units built so far.
* Tie (`walk_methods_keep_no_state`): in the CURRENT data_types.py no method of any class other than a constructor
  stores into / deletes from / calls a mutator on the object it is called on or an alias of part of it, except the
  accounted-for setters of `FileMetadataInterface` / `ImageMetadata`, which no walk calls.
* Tie (`unit_loops_skip_nothing_unaccounted`): the loops that build one unit per page / sheet / slide / chapter /
  message (extraction side and `iterate_units`) contain no filter on their iterable, no `continue` / `break` / early
  `return` and no guarded append other than the two accounted-for ones (a spine entry without content document, an
  empty mailbox slice).
-/
namespace S2T.C03.Walk

/-! ## A. Generated facts about the current source -/

/-- state-changing methods of data_types.py the model accounts for: path bookkeeping of the file metadata (called by the
router, not by a walk) and the dict/attribute mirror + legacy setters of `ImageMetadata` -/
def allowedSelfWrites : List (String × String) :=
  [("FileMetadataInterface", "populate_from_path"), ("ImageMetadata", "__setattr__"), ("ImageMetadata", "__setitem__"),
   ("ImageMetadata", "image_index"), ("ImageMetadata", "unit_index")]

/-- closed world: no other method of data_types.py (no `iterate_units`, `get_full_text`, `get_text`, `get_metadata`,
`get_images`, `get_tables`, `_join_unit_text` …) changes the object it is called on or handed — no per-instance memo,
no cursor kept on the result, no list that a walk drains -/
theorem walk_methods_keep_no_state :
    ∀ w ∈ S2T.Gen.UnitsWalk.selfWrites, (w.1, w.2.1) ∈ allowedSelfWrites := by decide

/-- skips the model accounts for: a spine entry whose content document is missing gives no chapter (the model's
`epubUnits` keeps the spine position as number), and an empty slice between two separator lines is no message -/
def allowedLoopFilters : List (String × String × String) :=
  [("read_epub#0", "guarded-append", "chapter is not None"),
   ("_split_mbox_messages#0", "guarded-append", "p0[ITEM.end():msg_end].rstrip(b'\\r\\n')")]

/-- closed world: no other unit-building loop (read_pdf, read_xlsx / _read_content_from_workbook, read_ods, read_odp,
read_pptx, read_epub, read_mbox_format_mail, _split_mbox_messages, _build_slides_from_text_blocks, and the loop of every
page / sheet / slide / chapter `iterate_units`) filters its iterable, skips an iteration, stops early or appends under a
condition — every page / sheet / slide the container lists reaches the result -/
theorem unit_loops_skip_nothing_unaccounted :
    ∀ f ∈ S2T.Gen.UnitsWalk.loopFilters, f ∈ allowedLoopFilters := by decide

/-! ## B. Walk schedules over a result without walk state -/

variable {U : Type}

/-- cursors of the walks: walk `w` has received `cur w` units so far -/
abbrev Cursors := Nat → Nat

def bump (cur : Cursors) (w : Nat) : Cursors := fun v => if v = w then cur v + 1 else cur v

/-- a schedule is a list of `next(walk w)` calls; the trace records what each call returned (`none` = StopIteration) -/
def run (us : List U) : Cursors → List Nat → List (Nat × Option U)
  | _, [] => []
  | cur, w :: ws => (w, us[cur w]?) :: run us (bump cur w) ws

/-- what walk `w` received, in order -/
def received (w : Nat) (tr : List (Nat × Option U)) : List (Option U) :=
  tr.filterMap (fun p => if p.1 = w then some p.2 else none)

/-- whatever the schedule — other walks started, abandoned or running in between — walk `w` receives the units from
its own position on, one per call -/
theorem walk_schedule_independent (us : List U) (w : Nat) (sched : List Nat) (cur : Cursors) :
    received w (run us cur sched) = (List.range (sched.count w)).map (fun i => us[cur w + i]?) := by
  induction sched generalizing cur with
  | nil => simp [run, received]
  | cons v vs ih =>
    by_cases h : v = w
    · subst h
      have := ih (bump cur v)
      simp only [received] at this ⊢
      simp only [run, List.filterMap_cons, if_true, List.count_cons_self]
      rw [this, List.range_succ_eq_map]
      simp [bump, Nat.add_assoc, Nat.add_comm 1]
    · have := ih (bump cur v)
      simp only [received] at this ⊢
      simp only [run, List.filterMap_cons, h, if_false]
      rw [this]
      have hc : (v :: vs).count w = vs.count w := by simp [h]
      have hb : bump cur v w = cur w := by simp [bump, Ne.symm h]
      rw [hc, hb]

/-- a fresh walk that is called `us.length` times receives exactly the units, in order, whatever else ran -/
theorem complete_walk_yields_all (us : List U) (w : Nat) (sched : List Nat) (cur : Cursors)
    (hfresh : cur w = 0) (hn : sched.count w = us.length) :
    received w (run us cur sched) = us.map some := by
  rw [walk_schedule_independent, hfresh, hn]
  apply List.ext_getElem?
  intro i
  by_cases hi : i < us.length
  · simp [hi]
  · simp [hi]

/-- the hypotheses are satisfiable: peek at the first unit with walk 7, abandon it, then walk 1 completely -/
example : received 1 (run ["A", "B", "C"] (fun _ => 0) [7, 1, 1, 1]) = ["A", "B", "C"].map some := by decide

/-! ## C. What a published-before-complete memo does (the reason for tie A) -/

/-- a result that memoises its units in a per-object list: the first walk publishes the (empty) list and appends to
it as it goes; every later walk replays the list as it is. `memo = none`: nothing published yet. A walk is a builder
(`true`) or a replayer. -/
structure MemoSt where
  memo : Option Nat            -- number of units published so far
  kind : Nat → Option Bool     -- none: walk not started
  cur : Nat → Nat

def memoStep (n : Nat) (s : MemoSt) (w : Nat) : MemoSt × Option Nat :=
  let k : Bool := match s.kind w with
    | some b => b
    | none => s.memo.isNone          -- started now: builder iff nothing is published yet
  let memo0 := match s.memo with | none => 0 | some m => m
  let kind' := fun v => if v = w then some k else s.kind v
  let i := s.cur w
  if k then
    if i < n then ({ memo := some (memo0 + 1), kind := kind', cur := bump s.cur w }, some i)
    else ({ memo := some memo0, kind := kind', cur := s.cur }, none)
  else
    if i < memo0 then ({ memo := some memo0, kind := kind', cur := bump s.cur w }, some i)
    else ({ memo := some memo0, kind := kind', cur := s.cur }, none)

def memoRun (n : Nat) : MemoSt → List Nat → List (Nat × Option Nat)
  | _, [] => []
  | s, w :: ws => let r := memoStep n s w; (w, r.2) :: memoRun n r.1 ws

def memoInit : MemoSt := { memo := none, kind := fun _ => none, cur := fun _ => 0 }

/-- three sheets; walk 7 peeks at the first unit and is abandoned; the complete walk 1 that follows ends after ONE
unit — with the stateless result it receives all three (`complete_walk_yields_all`) -/
theorem lazy_memo_partial_walk_counterexample :
    received 1 (memoRun 3 memoInit [7, 1, 1, 1, 1]) = [some 0, none, none, none]
    ∧ received 1 (run [0, 1, 2] (fun _ => 0) [7, 1, 1, 1, 1]) = [some 0, some 1, some 2, none] := by decide

/-- two walks at the same time: the inner walk (2), started after the outer (1) took one unit and run to its end,
sees one unit only -/
theorem lazy_memo_interleaved_counterexample :
    received 2 (memoRun 3 memoInit [1, 2, 2, 1, 1, 1]) = [some 0, none] := by decide

end S2T.C03.Walk
