import S2T.Model.Observe
import S2T.Gen.Effects
import S2T.Props.C06_History
import S2T.Props.C06_Input
import S2T.Props.C06_Ambient
import S2T.Props.C06_Observers
import S2T.Props.C06_Cells
import S2T.Props.C06_Sched
/-!
# C06 — determinism, purity, idempotent observation

The library's results are plain dataclass trees; observation can only interfere through
(a) hash-seed dependent iteration order, (b) writes to shared state inside observer methods,
(c) stream positions of binary payloads, (d) writes to the caller's input buffer, (e) process-global state left behind by earlier extractions
(part `C06_History`: containers bound at module or class level, their aliases and escapes, caches, rebinds).
For each channel the translator emits a closed-world inventory from the current source
(`S2T.Gen.Effects`); the kernel re-decides that every inventoried site is one the theorems below
account for, and the theorems show the accounted-for sites are unobservable.
-/
namespace S2T.C06
open S2T.Observe S2T.Gen.Effects

/-! ## (a) iteration order of sets -/

/-- `sorted(a_set)`: the result does not depend on the iteration order of the set
    (two iteration orders of one set are permutations of each other). -/
theorem sorted_order_free {α} (le : α → α → Bool)
    (trans : ∀ a b c, le a b → le b c → le a c) (total : ∀ a b, le a b || le b a)
    (antisymm : ∀ a b, le a b → le b a → a = b)
    (l₁ l₂ : List α) (h : l₁.Perm l₂) : l₁.mergeSort le = l₂.mergeSort le := by
  apply List.Perm.eq_of_pairwise (le := fun a b => le a b = true)
  · intro a b _ _ hab hba; exact antisymm a b hab hba
  · exact List.pairwise_mergeSort trans total l₁
  · exact List.pairwise_mergeSort trans total l₂
  · exact ((List.mergeSort_perm l₁ le).trans h).trans (List.mergeSort_perm l₂ le).symm

/-- `list(a_set)` is NOT order free: the defect fixed by 628fbaf (DOCX / ODT `styles`). -/
theorem list_of_set_order_dependent : ∃ l₁ l₂ : List Nat, l₁.Perm l₂ ∧ l₁ ≠ l₂ :=
  ⟨[1, 2], [2, 1], by decide, by decide⟩

/-- `any(p(x) for x in a_set)` / early-return loops over a set are order free -/
theorem any_order_free {α} (p : α → Bool) (l₁ l₂ : List α) (h : l₁.Perm l₂) : l₁.any p = l₂.any p := by
  apply Bool.eq_iff_iff.mpr
  simp only [List.any_eq_true]
  constructor
  · rintro ⟨x, hx, hp⟩; exact ⟨x, h.mem_iff.mp hx, hp⟩
  · rintro ⟨x, hx, hp⟩; exact ⟨x, h.mem_iff.mpr hx, hp⟩

/-- building keyword arguments from a set of distinct field names: the resulting lookup function
    does not depend on the order -/
theorem kwargs_order_free {κ β} [DecidableEq κ] (f : κ → Option β) (l₁ l₂ : List κ) (h : l₁.Perm l₂) (k : κ) :
    ((l₁.filterMap (fun x => (f x).map (fun v => (x, v)))).lookup k).isSome
      = ((l₂.filterMap (fun x => (f x).map (fun v => (x, v)))).lookup k).isSome := by
  have key : ∀ l : List κ, ((l.filterMap (fun x => (f x).map (fun v => (x, v)))).lookup k).isSome
      = (decide (k ∈ l) && (f k).isSome) := by
    intro l
    induction l with
    | nil => simp
    | cons x xs ih =>
      cases hfx : f x with
      | none =>
        simp only [List.filterMap_cons, hfx, Option.map_none, ih, List.mem_cons]
        by_cases hk : k = x
        · subst hk; simp [hfx]
        · simp [hk]
      | some v =>
        simp only [List.filterMap_cons, hfx, Option.map_some, List.lookup_cons]
        by_cases hk : k = x
        · subst hk; simp [hfx]
        · have : (k == x) = false := by simpa using hk
          simp [this, ih, hk]
  rw [key, key]
  have : decide (k ∈ l₁) = decide (k ∈ l₂) := by
    apply Bool.eq_iff_iff.mpr; simp [h.mem_iff]
  rw [this]

/-- reviewed order-consuming sites: (function, kind, expression, why it is order free) -/
def reviewedOrderSites : List (String × String × String) := [
  ("_should_skip_file", "for", "NESTED_ARCHIVE_EXTENSIONS"),   -- early `return True` on first match = any(...)  (any_order_free)
  ("_deserialize_dataclass", "for", "field_names")             -- fills **kwargs by field name                   (kwargs_order_free)
]

/-- **C06 (order), decided on the current source**: every place where a set is consumed in
    iteration order is one of the reviewed, provably order-free sites. (`sorted(set)` is not listed
    by the translator: `sorted_order_free`.) -/
theorem order_sites_reviewed :
    setToOrdered.all (fun s => reviewedOrderSites.contains (s.2.1, s.2.2.1, s.2.2.2)) = true := by decide

/-! ## (b) writes inside observer methods -/

/-- effects the model accounts for: rewinding a payload stream before handing it out, and the two
    legacy property *setters* of ImageMetadata (setters are not observers) -/
def allowedObserverEffects : List (String × String × String) := [
  ("get_bytes", "call", "self.data.seek"),
  ("iterate_supported_attachments", "call", "attachment.data.seek"),
  ("image_index", "store", "self.image_number"),
  ("unit_index", "store", "self.unit_number")
]

/-- **C06 (read-only observers), decided on the current source**: no observer method of any result,
    unit, image or table class stores into, or calls a mutator on, state reachable from `self`,
    other than rewinding a payload stream.  (Before 9cece04 `OdtContent.iterate_units` stored
    `image.unit_name`, and this fails.) -/
theorem observer_effects_allowed :
    observerEffects.all (fun e => allowedObserverEffects.contains (e.2.1, e.2.2.1, e.2.2.2)) = true := by decide

/-! ## (c) stream positions are unobservable through the interface -/

theorem step_content (s : Stream) (op : Op) : (step s op).2.content = s.content := by
  cases op <;> simp [step, readK]

theorem run_content (s : Stream) (ops : List Op) : (run s ops).2.content = s.content := by
  induction ops generalizing s with
  | nil => rfl
  | cons op ops ih => simp only [run]; rw [ih]; exact step_content s op

/-- **C06 (idempotent observation)**: after ANY sequence of observer calls and caller reads/seeks,
    `to_json()` returns what it returned at the beginning, and `get_bytes()` hands out the complete
    payload positioned at 0 — whatever positions the history left behind. -/
theorem C06_payload_history_free (s : Stream) (ops : List Op) :
    (step (run s ops).2 .toJson).1 = (step s .toJson).1 ∧
    (step (run s ops).2 .getBytes).1 = .bytes s.content ∧
    (step (run s ops).2 .getBytes).2.pos = 0 := by
  simp [step, run_content]

/-- observing twice in a row gives the same answer (for the position-independent observers) -/
theorem C06_observers_idempotent (s : Stream) (op : Op) (h : op = .getBytes ∨ op = .toJson ∨ op = .getvalue) :
    (step (step s op).2 op).1 = (step s op).1 := by
  rcases h with rfl | rfl | rfl <;> simp [step]

/-! ## (d) the caller's input buffer -/

def readOnlyStreamMethods : List String :=
  ["file_like.getbuffer", "file_like.getvalue", "file_like.read", "file_like.seek", "file_like.tell",
   "file_like.readinto", "file_like.readline", "file_like.seekable", "file_like.readable"]

/-- **C06 (input untouched), decided on the current source**: the only methods ever called on the
    caller's stream are read-only ones -/
theorem input_methods_readonly : inputMethods.all readOnlyStreamMethods.contains = true := by decide

/-- consumers the stream is handed to: the package's own readers (the inventory follows the stream INTO them:
    parameters, local aliases and `self.<attr>` holding it are scanned for method calls as well) and
    third-party openers, all in read mode -/
def reviewedConsumers : List String := [
  "OOXMLZipContext", "PdfReader", "SevenZipFile", "ZipContext", "_DocReader", "_DocxContext", "_EpubContext",
  "_OdpContext", "_OdsContext", "_OdtContext", "_PptxContext", "_detect_archive_type_optimized",
  "_extract_from_7z_optimized", "_extract_from_tar_optimized", "_extract_from_zip_optimized",
  "_extract_ppt_content_structured", "_open_pdf_reader", "_read_doc", "_read_docx", "_read_eml_format_mail",
  "_read_epub", "_read_html", "_read_mbox_format_mail", "_read_mhtml", "_read_msg_format_mail", "_read_odf",
  "_read_odg", "_read_odp", "_read_ods", "_read_odt", "_read_pdf", "_read_plain_text", "_read_ppt", "_read_pptx",
  "_read_rtf", "_read_xls", "_read_xlsx", "_should_skip_images", "is_odf_encrypted", "is_ooxml_encrypted",
  "is_ppt_encrypted", "is_xls_encrypted", "load_workbook", "olefile.OleFileIO", "olefile.isOleFile", "open_zipfile",
  "super().__init__", "tarfile.open", "zipfile.ZipFile", "zipfile.is_zipfile",
  -- reached since the inventory follows aliases (`self._file`, `source_file`) into the 7z reader:
  "SevenZipReader", "hasattr", "self._decompress_folder", "self._reader.extractall"]

theorem input_consumers_reviewed : inputPassedTo.all reviewedConsumers.contains = true := by decide

/-- the read-only alphabet leaves the content of the caller's buffer unchanged, for every call sequence -/
theorem C06_input_untouched (s : Stream) (ops : List Op) : (run s ops).2.content = s.content :=
  run_content s ops

/-! ## (e) address / hash dependent values -/

def reviewedIdUses : List String := ["id(node)", "id(omath)", "id(member)", "id(file_info)", "id(self._files[file_idx])"]   -- keys of per-call caches / identity sets over objects that stay alive (tree nodes, the 7z reader's FileInfo list: membership only)
theorem id_uses_reviewed : idHashUses.all (fun u => reviewedIdUses.contains u.2) = true := by decide

/-! ## Non-vacuity -/
example : (run ⟨[1, 2, 3, 4], 0⟩ [.getBytes, .read 3, .toJson, .seek 9, .readAll]).2.pos = 9 := by decide
example : (run ⟨[1, 2, 3, 4], 0⟩ [.getBytes, .read 3]).1 = [.bytes [1, 2, 3, 4], .bytes [1, 2, 3]] := by decide
example : [3, 1, 2].mergeSort (fun a b => decide (a ≤ b)) = [2, 3, 1].mergeSort (fun a b => decide (a ≤ b)) :=
  sorted_order_free _ (by intro a b c; simp; omega) (by intro a b; simp; omega) (by intro a b; simp; omega) _ _ (by decide)
example : setToOrdered.length ≥ 1 ∧ observerEffects.length ≥ 1 ∧ inputMethods.length ≥ 3 := by decide

end S2T.C06
