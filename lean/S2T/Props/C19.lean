import S2T.Lemmas.OmmlMain
import S2T.Lemmas.OmmlRuns
import S2T.Gen.Omml
import S2T.Props.C19_Src
import S2T.Props.C19_Hist
/-!
# C19 — OMML → LaTeX conversion is total, order-preserving and balanced

Statement (fixed): *Converting any OMML formula tree terminates without raising and is deterministic;
it emits every run's text (Greek and symbol characters mapped to their commands) exactly once and in
source order, and for trees without literal braces it produces balanced braces.  Each structural
element (fraction, sub/superscript, radical, n-ary operator, delimiter, matrix, function, bar, accent)
is rendered in its documented LaTeX form with its operands in place.*

The model (`S2T.Omml.omml`, file `Model/Omml.lean`) is of the code **with the three C19 fixes applied**
(`m:val` defaults, direct-child property lookup, pending radicals as a stack + degree processed first);
on the unfixed source model and code disagree and the harness finds the failing trees.

* Termination / no exception / determinism: `omml` is a total Lean function defined by structural
  recursion on the tree (no `partial`, no fuel); there is no raising operation left in the fixed code.
  The tie to the code is the correspondence (any exception of the real function is a disagreement).
* Theorems are generic in the tables (`TablesOk`, decidable) and instantiated at the tables generated
  from the current source, for which the kernel re-decides `TablesOk` on every run.
* Quantifiers: every tree (`Xml`, any depth/width), every tag name, every text.
* Determinism along HISTORIES on one mutable element object (convert, edit in place, convert again) and the generated
  fact that `omml_to_latex.py` keeps no inter-call state: part file `Props/C19_Hist.lean`.
-/
namespace S2T.C19
open S2T.Omml

/-- the table conditions hold for the tables of the current source -/
theorem gen_tables_ok : TablesOk S2T.Gen.Omml.tables = true := by decide +kernel

/-- the translator found every table to be the literal the source shows -/
theorem gen_notes_empty : S2T.Gen.Omml.notes = [] := by decide

/-! ## Documented tables (module docstring): the generated tables contain them -/

def docOps : List (Str × Str) :=
  [(['∑'], "\\sum".toList), (['∏'], "\\prod".toList), (['∫'], "\\int".toList),
   (['∬'], "\\iint".toList), (['∭'], "\\iiint".toList)]
def docFuncs : List Str :=
  ["sin".toList, "cos".toList, "tan".toList, "log".toList, "ln".toList, "lim".toList,
   "exp".toList, "max".toList, "min".toList]
def docAccents : List (Str × Str) :=
  [([Char.ofNat 0x302], "\\hat".toList), ([Char.ofNat 0x303], "\\tilde".toList),
   ([Char.ofNat 0x304], "\\bar".toList), ([Char.ofNat 0x20d7], "\\vec".toList),
   ([Char.ofNat 0x307], "\\dot".toList)]
def docSkip : List Str :=
  ["rPr".toList, "fPr".toList, "radPr".toList, "ctrlPr".toList, "oMathParaPr".toList]
def structuralNames : List Str :=
  [n_t, n_f, n_sSup, n_sSub, n_sSubSup, n_rad, n_nary, n_d, n_m, n_func, n_bar, n_acc,
   n_num, n_den, n_e, n_sub, n_sup, n_deg, n_fName, n_mr]

/-- `\sum \prod \int \iint \iiint`, the nine function names, the five accents are mapped as documented;
    run property elements are skipped; no structural or operand element is skipped -/
theorem gen_documented_tables :
    (docOps.all (fun kv => lookup kv.1 S2T.Gen.Omml.naryOps == some kv.2)
    && docFuncs.all (fun k => lookup k S2T.Gen.Omml.funcs == some ('\\' :: k))
    && docAccents.all (fun kv => lookup kv.1 S2T.Gen.Omml.accents == some kv.2)
    && docSkip.all (fun k => S2T.Gen.Omml.skip.contains k)
    && structuralNames.all (fun k => !S2T.Gen.Omml.skip.contains k)
    && S2T.Gen.Omml.opens == [['('], ['['], ['{']]
    && [['('], ['['], ['{']].map (closerOf S2T.Gen.Omml.tables) == [')', ']', '}']) = true := by
  decide +kernel

/-- every symbol replacement is a backslash command or a single Latin letter, and no key is a blank,
    a brace, a bracket or a backslash -/
theorem gen_symbols_wellformed :
    S2T.Gen.Omml.greek.all (fun kv =>
      (match kv.2 with
        | '\\' :: c :: _ => c.isAlpha
        | [c] => c.isAlpha
        | _ => false)
      && !S2T.Gen.Omml.spaces.contains kv.1.toNat
      && !['{', '}', '(', ')', '[', ']', '\\'].contains kv.1
      && (lookup kv.1 S2T.Gen.Omml.greek == some kv.2)) = true := by decide +kernel

/-! ## Balanced braces -/

/-- **C19 (balanced), generic.** For every table set with `TablesOk` and every tree whose run texts and
    `m:val` attributes contain no `{`/`}`: in `omml_to_latex(root)` every prefix has at least as many `{`
    as `}` and the totals agree — whatever the nesting, order, multiplicity or namespace of the elements,
    including any number of bracket-only ("malformed") radicals, closed or not. -/
theorem balanced_of_tablesOk {T : Tables} (h : TablesOk T = true) (root : Xml)
    (hnb : noBracesL root.kids = true) : balanced (omml T root) = true :=
  omml_balanced (TOk_of h) root hnb

/-- **C19 (balanced) on the current source.** -/
theorem C19_balanced (root : Xml) (hnb : noBracesL root.kids = true) :
    balanced (omml S2T.Gen.Omml.tables root) = true :=
  balanced_of_tablesOk gen_tables_ok root hnb

/-- every element on its own: `process_element(x)` started with `k` pending radicals reads as balanced
    above depth `k` and ends at the new number of pending radicals -/
theorem C19_balanced_element (x : Xml) (hnb : noBraces x = true) (s : Stack)
    (hs : ∀ c ∈ s, closerOk S2T.Gen.Omml.tables c = true) :
    Bal (proc S2T.Gen.Omml.tables x s).1 s.length (proc S2T.Gen.Omml.tables x s).2.length :=
  ((proc_good (TOk_of gen_tables_ok) x hnb).1 s hs).2.1

/-! ## Every run once, in source order -/

/-- **C19 (runs), generic.** For a schema-ordered tree (`shapeOkL`) without bracket-only radicals
    (`quietL`): the output characters that come from run text are, in output order and blanks aside,
    exactly the converted texts of all `t` elements in document order — nothing lost, nothing twice,
    nothing reordered.  (Blanks: the code strips the degree of a radical and a recognised function name
    and omits an all-blank limit of an n-ary operator.) -/
theorem runs_of_tablesOk {T : Tables} (h : TablesOk T = true) (root : Xml)
    (hs : shapeOkL T root.kids = true) (hq : quietL T root.kids = true) :
    nonWs T (runsOf (ommlOut T root)) = nonWs T (sourceText T root) :=
  omml_runs (TOk_of h) root hs hq

/-- **C19 (runs) on the current source.** -/
theorem C19_runs (root : Xml) (hs : shapeOkL S2T.Gen.Omml.tables root.kids = true)
    (hq : quietL S2T.Gen.Omml.tables root.kids = true) :
    nonWs S2T.Gen.Omml.tables (runsOf (ommlOut S2T.Gen.Omml.tables root))
      = nonWs S2T.Gen.Omml.tables (sourceText S2T.Gen.Omml.tables root) :=
  runs_of_tablesOk gen_tables_ok root hs hq

theorem runsOf_sublist (o : Out) : (runsOf o).Sublist (render o) := by
  unfold runsOf render
  exact (List.filter_sublist).map _

/-- flag-free consequence: the converted runs (blanks aside) occur, in document order, inside the
    returned string -/
theorem C19_runs_sublist (root : Xml) (hs : shapeOkL S2T.Gen.Omml.tables root.kids = true)
    (hq : quietL S2T.Gen.Omml.tables root.kids = true) :
    (nonWs S2T.Gen.Omml.tables (sourceText S2T.Gen.Omml.tables root)).Sublist
      (nonWs S2T.Gen.Omml.tables (omml S2T.Gen.Omml.tables root)) := by
  rw [← C19_runs root hs hq]
  exact (runsOf_sublist _).filter _

/-- with nothing pending, a run is its converted text -/
theorem C19_form_text (m : Bool) (v : Option Str) (t : Str) (ks : List Xml) :
    proc S2T.Gen.Omml.tables (.node m n_t v t ks) [] = (run (convert S2T.Gen.Omml.tables t), []) := by
  rw [proc_node]
  have : ∀ b, kindOf S2T.Gen.Omml.tables n_t b = .text := by decide +kernel
  simp only [procNode, this]
  rfl

/-! ## Documented forms, operands in place
`opndX T n ks` is `process_element(elem.find(M_NS+n))` (`""` when absent); states thread left to right. -/
section forms
open S2T.Gen.Omml

private theorem kinds : ∀ b,
    kindOf tables n_f b = .frac ∧ kindOf tables n_sSup b = .sup ∧ kindOf tables n_sSub b = .sub
    ∧ kindOf tables n_sSubSup b = .subsup ∧ kindOf tables n_rad b = .rad ∧ kindOf tables n_nary b = .nary
    ∧ kindOf tables n_d b = .delim ∧ kindOf tables n_func b = .func ∧ kindOf tables n_bar b = .bar
    ∧ kindOf tables n_acc b = .acc ∧ kindOf tables n_m true = .matrix ∧ kindOf tables n_m false = .other := by
  decide +kernel

variable (m : Bool) (v : Option Str) (t : Str) (ks : List Xml)

/-- `m:f` → `\frac{num}{den}` -/
theorem C19_form_frac (s : Stack) :
    let a := opndX tables n_num ks s
    let b := opndX tables n_den ks a.2
    proc tables (.node m n_f v t ks) s = (lit s_frac ++ a.1 ++ lit s_mid ++ b.1 ++ lit s_close, b.2) := by
  rw [proc_node]; simp only [procNode, (kinds _).1, opnd_infos]; rfl

/-- `m:sSup` → `base^{sup}` -/
theorem C19_form_sup (s : Stack) :
    let a := opndX tables n_e ks s
    let b := opndX tables n_sup ks a.2
    proc tables (.node m n_sSup v t ks) s = (a.1 ++ lit s_supO ++ b.1 ++ lit s_close, b.2) := by
  rw [proc_node]; simp only [procNode, (kinds _).2.1, opnd_infos]; rfl

/-- `m:sSub` → `base_{sub}` -/
theorem C19_form_sub (s : Stack) :
    let a := opndX tables n_e ks s
    let b := opndX tables n_sub ks a.2
    proc tables (.node m n_sSub v t ks) s = (a.1 ++ lit s_subO ++ b.1 ++ lit s_close, b.2) := by
  rw [proc_node]; simp only [procNode, (kinds _).2.2.1, opnd_infos]; rfl

/-- `m:sSubSup` → `base_{sub}^{sup}` -/
theorem C19_form_subsup (s : Stack) :
    let a := opndX tables n_e ks s
    let b := opndX tables n_sub ks a.2
    let c := opndX tables n_sup ks b.2
    proc tables (.node m n_sSubSup v t ks) s
      = (a.1 ++ lit s_subO ++ b.1 ++ lit s_subsup ++ c.1 ++ lit s_close, c.2) := by
  rw [proc_node]; simp only [procNode, (kinds _).2.2.2.1, opnd_infos]; rfl

/-- `m:rad` whose content is not a lone opening bracket → `\sqrt{e}` / `\sqrt[deg]{e}` (degree stripped) -/
theorem C19_form_rad (s : Stack) :
    let d := opndX tables n_deg ks s
    let c := opndX tables n_e ks d.2
    tables.opens.contains (render (strip tables c.1)) = false →
    proc tables (.node m n_rad v t ks) s = (radHead (strip tables d.1) ++ c.1 ++ lit s_close, c.2) := by
  intro d c hq
  rw [proc_node]; simp only [procNode, (kinds _).2.2.2.2.1, opnd_infos]
  simp only [tRad]
  rw [if_neg (by simpa using hq)]

/-- `m:rad` whose content is a lone opening bracket → `\sqrt{` / `\sqrt[deg]{`, the closer is pushed -/
theorem C19_form_rad_open (s : Stack) :
    let d := opndX tables n_deg ks s
    let c := opndX tables n_e ks d.2
    tables.opens.contains (render (strip tables c.1)) = true →
    proc tables (.node m n_rad v t ks) s
      = (radHead (strip tables d.1), closerOf tables (render (strip tables c.1)) :: c.2) := by
  intro d c hq
  rw [proc_node]; simp only [procNode, (kinds _).2.2.2.2.1, opnd_infos]
  simp only [tRad]
  rw [if_pos (by simpa using hq)]
  rfl

theorem radHead_forms (dg : Out) :
    render (radHead dg) = (if dg = [] then s_sqrt else s_sqrtB ++ render dg ++ s_sqrtBmid) := by
  unfold radHead; split <;> simp

/-- `m:nary` → `op_{sub}^{sup} e`; the operator is `m:naryPr/m:chr/@m:val` (default `∑`), blank limits omitted -/
theorem C19_form_nary (s : Stack) :
    let a := opndX tables n_sub ks s
    let b := opndX tables n_sup ks a.2
    let c := opndX tables n_e ks b.2
    proc tables (.node m n_nary v t ks) s
      = (lit (naryOp tables (attrOr d_nary (pathFind n_naryPr n_chr ks))) ++ limit tables s_subO a.1
          ++ limit tables s_supO b.1 ++ lit s_space ++ c.1, c.2) := by
  rw [proc_node]; simp only [procNode, (kinds _).2.2.2.2.2.1, opnd_infos]; rfl

/-- `m:d` → `left e₁, e₂, … right` with `m:dPr/m:begChr`, `m:dPr/m:endChr` (defaults `(`, `)`) -/
theorem C19_form_delim (s : Stack) :
    let r := seqAll ((ks.filter (isTag n_e)).map (proc tables)) s
    proc tables (.node m n_d v t ks) s
      = (lit (attrOr d_beg (pathFind n_dPr n_begChr ks)) ++ joinWith (lit s_comma) r.1
          ++ lit (attrOr d_end (pathFind n_dPr n_endChr ks)), r.2) := by
  rw [proc_node]
  simp only [procNode, (kinds _).2.2.2.2.2.2.1, filter_infos, List.map_map]
  rfl

/-- `m:m` with rows → `\begin{matrix} a & b \\ c & d \end{matrix}` -/
theorem C19_form_matrix (s : Stack) (hmr : (ks.find? (isTag n_mr)).isSome = true) :
    let rows := (ks.filter (isTag n_mr)).map (fun r => (r.kids.filter (isTag n_e)).map (proc tables))
    let r := seqAll (rows.map rowM) s
    proc tables (.node m n_m v t ks) s
      = (lit s_begin ++ joinWith (lit s_rowsep) r.1 ++ lit s_end, r.2) := by
  rw [proc_node]
  simp only [procNode, hasMr_infos, hmr, (kinds true).2.2.2.2.2.2.2.2.2.2.1, filter_infos, List.map_map]
  simp only [tMatrix, Function.comp_def, info_cells, List.map_map]

/-- `m:func` → `\name{e}` for the documented names (name stripped), otherwise `name{e}` -/
theorem C19_form_func (s : Stack) :
    let a := opndX tables n_fName ks s
    let c := opndX tables n_e ks a.2
    proc tables (.node m n_func v t ks) s
      = (funcName tables a.1 ++ lit s_open ++ c.1 ++ lit s_close, c.2) := by
  rw [proc_node]; simp only [procNode, (kinds _).2.2.2.2.2.2.2.1, opnd_infos]; rfl

/-- `m:bar` → `\overline{e}` -/
theorem C19_form_bar (s : Stack) :
    let c := opndX tables n_e ks s
    proc tables (.node m n_bar v t ks) s = (lit s_overline ++ c.1 ++ lit s_close, c.2) := by
  rw [proc_node]; simp only [procNode, (kinds _).2.2.2.2.2.2.2.2.1, opnd_infos]; rfl

/-- `m:acc` → `\hat{e}`, `\tilde{e}`, … by `m:accPr/m:chr/@m:val` (unknown or absent: `\hat`) -/
theorem C19_form_acc (s : Stack) :
    let c := opndX tables n_e ks s
    proc tables (.node m n_acc v t ks) s
      = (lit (accentCmd tables (attrOr d_acc (pathFind n_accPr n_chr ks))) ++ lit s_open ++ c.1
          ++ lit s_close, c.2) := by
  rw [proc_node]; simp only [procNode, (kinds _).2.2.2.2.2.2.2.2.2.1, opnd_infos]; rfl

/-- the rendered name of a function: documented names get a backslash -/
theorem C19_funcName_documented (x : Out) (k : Str) (hk : k ∈ docFuncs)
    (hx : render (strip tables x) = k) : render (funcName tables x) = '\\' :: k := by
  have hl : lookup k funcs = some ('\\' :: k) := by
    have := gen_documented_tables
    simp only [Bool.and_eq_true, List.all_eq_true, beq_iff_eq] at this
    exact this.1.1.1.1.1.2 k hk
  unfold funcName
  simp only [hx]
  show render (match lookup k funcs with | some v => _ | none => _) = _
  rw [hl]
  simp [hx]

end forms

/-! ## Non-vacuity: the hypotheses are satisfied by non-trivial trees; what they exclude -/
section examples
open S2T.Gen.Omml

def R (s : String) : Xml := .node true "r".toList none [] [.node true "rPr".toList none [] [], .node true n_t none s.toList []]
def E (n : Str) (ks : List Xml) : Xml := .node true n none [] ks

/-- `<m:oMath><m:f><m:fPr/><m:num>aα</m:num><m:den>b</m:den></m:f><m:rad><m:deg> 3 </m:deg><m:e>x</m:e></m:rad></m:oMath>` -/
def ex1 : Xml := E "oMath".toList
  [E n_f [E "fPr".toList [], E n_num [R "aα"], E n_den [R "b"]], E n_rad [E n_deg [R " 3 "], E n_e [R "x"]]]

example : shapeOkL tables ex1.kids = true ∧ quietL tables ex1.kids = true ∧ noBracesL ex1.kids = true := by
  decide +kernel
example : omml tables ex1 = "\\frac{a\\alpha}{b}\\sqrt[3]{x}".toList := by decide +kernel
example : runsOf (ommlOut tables ex1) = "a\\alphab3x".toList := by decide +kernel

/-- two bracket-only radicals, one closed later, one never: `√( √[ y ] z` -/
def ex2 : Xml := E "oMath".toList [E n_rad [E n_e [R "("]], E n_rad [E n_e [R "["]], R "y] z"]
example : noBracesL ex2.kids = true ∧ quietL tables ex2.kids = false := by decide +kernel
example : omml tables ex2 = "\\sqrt{\\sqrt{y} z}".toList := by decide +kernel

/-- a stack satisfying the hypothesis of `C19_balanced_element` -/
example : ∀ c ∈ [')', ']'], closerOk tables c = true := by decide +kernel

/-- `noBraces` is needed: a literal `{` in a run is copied and unbalances the output -/
theorem literal_brace_unbalances :
    balanced (omml tables (E "oMath".toList [R "{"])) = false := by decide +kernel

/-- `quiet` is needed: a bracket-only radical swallows its bracket and the matching closer (documented
    malformed-input handling), so those run characters are not emitted -/
theorem bracket_only_radical_swallows :
    let x := E "oMath".toList [E n_rad [E n_e [R "("]], R "y)"]
    shapeOkL tables x.kids = true ∧ runsOf (ommlOut tables x) = "y".toList
      ∧ sourceText tables x = "(y)".toList := by decide +kernel

/-- `shapeOk` is needed: operands out of schema order are emitted in template order, and a second
    operand of the same kind is not emitted at all -/
theorem out_of_schema_order_reorders :
    let x := E "oMath".toList [E n_f [E n_den [R "b"], E n_num [R "a"], E n_num [R "c"]]]
    shapeOkL tables x.kids = false ∧ omml tables x = "\\frac{a}{b}".toList
      ∧ sourceText tables x = "bac".toList := by decide +kernel

end examples

/-! ## Function of the tree (histories: `Props/C19_Hist.lean`) -/

/-- **the translated source is a function of the tree**: two ElementTree elements with the same abstraction (same
    namespace flags, local names, `m:val`, texts, children — whatever their identity, tails, other attributes) are
    converted to the same string; neither raises -/
theorem C19_function_of_tree (x y : S2T.Py.Omml.Xml)
    (h : S2T.Py.Omml.abs S2T.Gen.PyOmml.M_NS x = S2T.Py.Omml.abs S2T.Gen.PyOmml.M_NS y) :
    S2T.Gen.PyOmml.omml_to_latex (some x) = S2T.Gen.PyOmml.omml_to_latex (some y)
    ∧ ∃ r, S2T.Gen.PyOmml.omml_to_latex (some x) = Except.ok r := by
  rw [S2T.C19.Src.omml_to_latex_eq, S2T.C19.Src.omml_to_latex_eq, h]
  exact ⟨rfl, _, rfl⟩

/-- … and along a history: the translated function applied to any element representing the edited tree gives the
    demanded output -/
theorem C19_history_translated (t : Xml) (steps : List S2T.OmmlHist.Step) (x : S2T.Py.Omml.Xml) (p : List Nat) (sub : Xml)
    (hsub : S2T.OmmlHist.subAt p (steps.foldl (fun t s => match s with | .edit q e => S2T.OmmlHist.editAt q e t | .conv _ => t) t) = some sub)
    (hx : S2T.Py.Omml.abs S2T.Gen.PyOmml.M_NS x = sub) :
    S2T.Gen.PyOmml.omml_to_latex (some x) = pure (omml S2T.Gen.Omml.tables sub) := by
  rw [S2T.C19.Src.omml_to_latex_eq, hx]

/-! ## The translated `omml_to_latex` itself (end to end)

`Props/C19_Src.lean` proves the `omml_to_latex` re-translated from `omml_to_latex.py` on every run equal to the
model's `omml` on every ElementTree element; composed with `C19_balanced` / `C19_runs_sublist`, brace balance
and "every run of the formula reaches the output in order" are statements about the converter **as the source
has it now**, for every element tree (`abs` = what the converter can see of it). -/

/-- **C19 at the source level (balanced braces).** -/
theorem C19_src_balanced (x : S2T.Py.Omml.Xml)
    (hnb : noBracesL (S2T.Py.Omml.abs S2T.Gen.PyOmml.M_NS x).kids = true) :
    ∃ r, S2T.Gen.PyOmml.omml_to_latex (some x) = Except.ok r ∧ balanced r = true := by
  refine ⟨_, S2T.C19.Src.omml_to_latex_eq x, ?_⟩
  exact C19_balanced _ hnb

/-- **C19 at the source level (every run of the formula reaches the output, in order).** -/
theorem C19_src_runs (x : S2T.Py.Omml.Xml)
    (hs : shapeOkL S2T.Gen.Omml.tables (S2T.Py.Omml.abs S2T.Gen.PyOmml.M_NS x).kids = true)
    (hq : quietL S2T.Gen.Omml.tables (S2T.Py.Omml.abs S2T.Gen.PyOmml.M_NS x).kids = true) :
    ∃ r, S2T.Gen.PyOmml.omml_to_latex (some x) = Except.ok r ∧
      (nonWs S2T.Gen.Omml.tables (sourceText S2T.Gen.Omml.tables (S2T.Py.Omml.abs S2T.Gen.PyOmml.M_NS x))).Sublist
        (nonWs S2T.Gen.Omml.tables r) := by
  refine ⟨_, S2T.C19.Src.omml_to_latex_eq x, ?_⟩
  exact C19_runs_sublist _ hs hq

/-! ### Non-vacuity: a hand-built ElementTree fraction meets the hypotheses -/
/-- `<m:oMath><m:f><m:num><m:r><m:t>a</m:t></m:r></m:num><m:den><m:r><m:t>b</m:t></m:r></m:den></m:f></m:oMath>` -/
def srcFrac : S2T.Py.Omml.Xml :=
  let ns := S2T.Gen.PyOmml.M_NS
  let run (s : String) : S2T.Py.Omml.Xml := ⟨ns ++ "r".toList, [], none, none, [⟨ns ++ "t".toList, [], some s.toList, none, []⟩]⟩
  ⟨ns ++ "oMath".toList, [], none, none,
    [⟨ns ++ "f".toList, [], none, none,
      [⟨ns ++ "num".toList, [], none, none, [run "a"]⟩, ⟨ns ++ "den".toList, [], none, none, [run "b"]⟩]⟩]⟩
example : noBracesL (S2T.Py.Omml.abs S2T.Gen.PyOmml.M_NS srcFrac).kids = true := by decide +kernel
example : shapeOkL S2T.Gen.Omml.tables (S2T.Py.Omml.abs S2T.Gen.PyOmml.M_NS srcFrac).kids = true
    ∧ quietL S2T.Gen.Omml.tables (S2T.Py.Omml.abs S2T.Gen.PyOmml.M_NS srcFrac).kids = true := by decide +kernel
example : S2T.Gen.PyOmml.omml_to_latex (some srcFrac) = pure "\\frac{a}{b}".toList := by
  rw [S2T.C19.Src.omml_to_latex_eq]; exact congrArg pure (by decide +kernel)

end S2T.C19
