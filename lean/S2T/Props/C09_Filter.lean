import S2T.Lemmas.ArchiveGuard
import S2T.Gen.Router
import S2T.Gen.Archive
/-!
# C09 (filters cannot be by-passed) — part of `Props/C09.lean`

"Hidden members, macOS resource forks, nested archives, unsupported types and oversize members never
produce results" — judged by CONTENT, not only by the name a result carries:

* TAR: whatever `tarfile.extractfile` hands out for a member without bytes of its own (it follows hard and
  symbolic links to ANOTHER member's bytes) is irrelevant to the run, for every guard built from `TarInfo`
  predicates that only lets regular members through; the guard found in the current source is such a guard
  (`tar_kind_guard_regular_only`, re-decided on the generated inventory on every run).  If links were let
  through, a link with an innocent name would deliver a hidden member's bytes (`tar_link_guard_counterexample`).
* 7z: every regular file the private directory ever holds was written for an entry that passed the three
  filters of `_extract_from_7z_optimized` (not a directory, not skipped by name, declared size within
  `max_memory_size`), under the path `_safe_join` gives for THAT entry's name, and holds at most the declared
  number of bytes; hence every result is computed from at most `max_memory_size` bytes of an accepted entry —
  also when several entries share a name or a path.  This rests on `extractall(members=…)` selecting entries by
  identity (= position in the file list), never by name: `wanted_by_identity` re-decides that on the generated
  inventory of the `wanted` set's keys and of what `list()` returns.
-/
namespace S2T.C09.Filter
open S2T.Archive S2T.Router

/-! ## TAR: the member-kind guard -/

/-- the source's guard lets regular members through … -/
theorem tar_kind_guard_present : kindAccepted S2T.Gen.Archive.tarKindPreds .reg = true := by decide

/-- … and nothing else: no predicate named in `_extract_from_tar_optimized` answers True for a hard link, a
    symbolic link, a directory, a device or a fifo (a new `member.islnk()`, `issym()`, `.type ==`, `.linkname`
    in that function breaks this) -/
theorem tar_kind_guard_regular_only :
    (TarKind.all.all (fun k => !kindAccepted S2T.Gen.Archive.tarKindPreds k || k == .reg)) = true := by decide

theorem TarKind.mem_all (k : TarKind) : k ∈ TarKind.all := by cases k <;> decide

/-- a guard that only lets regular members through -/
def RegularOnly (accept : TarKind → Bool) : Prop := ∀ k, accept k = true → k = .reg

theorem tar_guard_of_source : RegularOnly (kindAccepted S2T.Gen.Archive.tarKindPreds) := by
  intro k hk
  have h := List.all_eq_true.mp tar_kind_guard_regular_only k (TarKind.mem_all k)
  simpa [hk] using h

example : RegularOnly (kindAccepted ["isreg"]) := by intro k; cases k <;> decide
example : ¬ RegularOnly (kindAccepted ["isreg", "islnk"]) := by
  intro h; exact absurd (h .lnk (by decide)) (by decide)

/-- Links, devices, fifos, directories cannot redirect reads: under a regular-only guard the run does not
    depend on what `extractfile` would hand out for a member without bytes of its own (the link target's
    bytes, a device, a host file …) — for every member list, skip rule, limit. -/
theorem C09_tar_links_irrelevant (accept : TarKind → Bool) (hacc : RegularOnly accept)
    (follow follow' : TarEntry → Option (List Nat)) (skip : Str → Str → Bool) (env : Env) (lim : Limits) (es : List TarEntry) :
    tarRunK accept follow skip env lim es = tarRunK accept follow' skip env lim es := by
  induction es with
  | nil => rfl
  | cons e r ih =>
    unfold tarRunK
    by_cases hk : accept e.kind = true
    · have := hacc _ hk
      simp only [TarEntry.toMember, this, ih, beq_self_eq_true, if_true]
    · have hk' : accept e.kind = false := by simpa using hk
      simp only [hk', ih, Bool.not_false, if_true]

/-- TAR, by content: under a regular-only guard every result is computed from the OWN bytes of a regular
    member that passed the skip rule and the size limit, and carries that member's name. -/
theorem C09_tar_results_own (accept : TarKind → Bool) (hacc : RegularOnly accept) (follow : TarEntry → Option (List Nat))
    (skip : Str → Str → Bool) (env : Env) (lim : Limits) (es : List TarEntry) :
    ∀ r ∈ tarRunK accept follow skip env lim es, ∃ e ∈ es, r.1 = e.name ∧ e.kind = .reg ∧ e.own = some r.2 ∧
      skip e.name (basename e.name) = false ∧ e.size ≤ lim.maxMemory ∧ r.2.length ≤ lim.maxEntry := by
  induction es with
  | nil => simp [tarRunK]
  | cons e rest ih =>
    have lift : ∀ r ∈ tarRunK accept follow skip env lim rest, ∃ e' ∈ e :: rest, r.1 = e'.name ∧ e'.kind = .reg ∧
        e'.own = some r.2 ∧ skip e'.name (basename e'.name) = false ∧ e'.size ≤ lim.maxMemory ∧ r.2.length ≤ lim.maxEntry := by
      intro r hr; obtain ⟨e', he', h'⟩ := ih r hr; exact ⟨e', List.mem_cons_of_mem _ he', h'⟩
    unfold tarRunK
    split
    · exact lift
    · rename_i hk
      have hreg : e.kind = .reg := hacc _ (by simpa using hk)
      split
      · exact lift
      · rename_i hskip
        split
        · exact lift
        · rename_i hsz
          split
          · exact lift
          · rename_i d hd
            intro r hr
            rcases List.mem_append.mp hr with h1 | h1
            · unfold processEntry at h1
              split at h1
              · cases h1
              · have hre := List.eq_of_mem_replicate h1
                subst hre
                simp only [TarEntry.toMember, hreg, beq_self_eq_true, if_true] at hd
                exact ⟨e, by simp, rfl, hreg, hd, by simpa using hskip, by omega, by simp only; omega⟩
            · exact lift r h1

/-- the member loop of the source (`if not member.isreg(): continue`) is the guarded loop with the regular-only
    guard, member by member -/
theorem tarRunK_reg_eq_tarRun (follow : TarEntry → Option (List Nat)) (skip : Str → Str → Bool) (env : Env) (lim : Limits)
    (es : List TarEntry) :
    tarRunK (· == .reg) follow skip env lim es = tarRun skip env lim (es.map (TarEntry.toMember follow)) := by
  induction es with
  | nil => rfl
  | cons e r ih =>
    unfold tarRunK
    simp only [List.map_cons, tarRun, ih]
    rfl

/-- interpreter stand-in for the closed examples -/
def demoEnv : Env := { lower := id, mime := fun _ => none, nres := fun _ _ => 1, host := fun _ => none }

/-- a visible file, a hidden file, and a hard link with an innocent name; `tarfile.extractfile` follows the link -/
def linkArchive : List TarEntry :=
  [⟨"report.txt".toList, .reg, 2, some [111, 107]⟩, ⟨".credentials.txt".toList, .reg, 3, some [83, 69, 67]⟩,
   ⟨"notes.txt".toList, .lnk, 0, none⟩]
def followHidden : TarEntry → Option (List Nat) := fun e => if e.name = "notes.txt".toList then some [83, 69, 67] else none

/-- why the guard matters: a guard that also lets hard links through (`member.isreg() or member.islnk()`)
    delivers the bytes of the hidden member `.credentials.txt` as the result `notes.txt` — the filters saw only
    the link's own name and size 0. -/
theorem tar_link_guard_counterexample :
    ("notes.txt".toList, [83, 69, 67]) ∈
      tarRunK (kindAccepted ["isreg", "islnk"]) followHidden
        (shouldSkip S2T.Gen.Router.tables S2T.Gen.Archive.nested demoEnv) demoEnv S2T.Gen.Archive.limits linkArchive := by
  decide +kernel

/-- the source's guard on the same archive: one result, the visible file's own bytes -/
example : tarRunK (kindAccepted S2T.Gen.Archive.tarKindPreds) followHidden
    (shouldSkip S2T.Gen.Router.tables S2T.Gen.Archive.nested demoEnv) demoEnv S2T.Gen.Archive.limits linkArchive
    = [("report.txt".toList, [111, 107])] := by
  decide +kernel

/-! ## 7z: entries are requested by identity; only accepted entries are ever decoded into the private directory -/

/-- forms of `list()`'s return value that hand out the reader's OWN `FileInfo` objects (a new list of the same
    objects), so that `id(member)` identifies a position of the file list -/
def identityPreservingReturns : List String :=
  ["SevenZipFile.list: self._reader.list()", "SevenZipReader.list: self._files.copy()",
   "SevenZipReader.list: list(self._files)", "SevenZipReader.list: self._files[:]", "SevenZipReader.list: self._files"]

/-- `extractall(members=…)` decides by object identity: every key put into / looked up in `wanted` is an `id(…)`,
    and `list()` returns the reader's own entry objects (copies of the entries, or a selection by
    `member.filename`, break this: two entries may share a name, an accepted and a rejected one) -/
theorem wanted_by_identity :
    (S2T.Gen.Archive.wantedKeys.length ≥ 3
      && S2T.Gen.Archive.wantedKeys.all (fun s => "id(".toList.isPrefixOf s.toList)
      && S2T.Gen.Archive.listReturns.all identityPreservingReturns.contains
      && decide (S2T.Gen.Archive.listReturns.length = 2)) = true := by decide +kernel

/-- 7z, the private directory by content: whenever `extractall` returns (or raises), every regular file below the
    private directory was written for an entry of the archive that is not a directory, passed the skip rule and
    declares at most `max_memory_size` bytes; it lies at the path `_safe_join` gives for that entry's name and
    holds at most the declared number of bytes.  A rejected (hidden, unsupported, nested, oversize) entry is
    never decoded into the directory, whatever names the entries share. -/
theorem C09_7z_tempdir_only_accepted (skip : Str → Str → Bool) (env : Env) (lim : Limits) (cwd base : Str) (a : SevenZ)
    (p : Str) (d : List Nat) (h : (p, Node.file d) ∈ (run7zTemp skip env lim cwd base a).fs) :
    ∃ f ∈ buildFiles a.entries a.fileSizes a.emptyFiles, f.isDirectory = false ∧
      skip f.filename (basename f.filename) = false ∧ f.uncompressed ≤ lim.maxMemory ∧
      safeJoin cwd base f.filename = .ok p ∧ d.length ≤ f.uncompressed := by
  unfold run7zTemp at h
  have hinv := extractAllFull_inv (cwd := cwd) (base := base) env (buildFiles a.entries a.fileSizes a.emptyFiles)
    (mapFiles a.folders (buildFiles a.entries a.fileSizes a.emptyFiles) 0 0 0) a.folderData a.folders
    (some ((select7z skip lim (buildFiles a.entries a.fileSizes a.emptyFiles)).map (·.1))) ⟨[], [], none⟩
    (by intro p d hm; cases hm)
  obtain ⟨i, f, hf, hw, hp, hl⟩ := hinv p d h
  obtain ⟨h1, h2, h3⟩ := wanted_selected skip lim _ i f hf hw
  exact ⟨f, List.mem_of_getElem? hf, h1, h2, h3, hp, hl⟩

/-- `liveFiles` lists overlay files only -/
theorem liveFiles_mem (fs : Overlay) (p : Str) (d : List Nat) (h : (p, d) ∈ liveFiles fs) : (p, Node.file d) ∈ fs := by
  unfold liveFiles at h
  have h := List.mem_eraseDups.mp h
  obtain ⟨pn, hm, hpn⟩ := List.mem_filterMap.mp h
  obtain ⟨q, n⟩ := pn
  cases n with
  | dir => simp at hpn
  | file e =>
    simp only at hpn
    split at hpn
    · cases hpn; exact hm
    · cases hpn

/-- the same for the snapshot the harness compares with the real directory (`tempFiles`, driver op `c09.7z`) -/
theorem C09_7z_tempfiles_only_accepted (T : Tables) (nested : List Str) (env : Env) (lim : Limits) (cwd base : Str) (a : SevenZ)
    (c : Consumer) : ∀ pd ∈ tempFiles T nested env lim cwd base a c,
      pd.2.length ≤ lim.maxMemory ∧ ∃ f ∈ buildFiles a.entries a.fileSizes a.emptyFiles, f.isDirectory = false ∧
        shouldSkip T nested env f.filename (basename f.filename) = false ∧ f.uncompressed ≤ lim.maxMemory ∧
        safeJoin cwd base f.filename = .ok pd.1 := by
  intro pd hpd
  unfold tempFiles at hpd
  split at hpd
  · cases hpd
  · obtain ⟨f, hf, h1, h2, h3, h4, h5⟩ :=
      C09_7z_tempdir_only_accepted _ env lim cwd base a pd.1 pd.2 (liveFiles_mem _ _ _ hpd)
    exact ⟨by omega, f, hf, h1, h2, h3, h4⟩

/-- the run of the 7z path reads back from exactly that directory state -/
theorem run7z_reads_temp (T : Tables) (nested : List Str) (env : Env) (lim : Limits) (cwd base : Str) (a : SevenZ) (c : Consumer) :
    ∀ r ∈ (run7z T nested env lim cwd base a c).res, ∃ f : FileInfo,
      r ∈ (readBack env lim cwd base (run7zTemp (shouldSkip T nested env) env lim cwd base a).fs f).res := by
  unfold run7z run7zWith
  split
  · simp
  · simp only
    split
    · simp
    · intro r hr
      obtain ⟨s, hs, hrs⟩ := consume_res _ _ r hr
      obtain ⟨nf, _, hfs⟩ := List.mem_map.mp hs
      subst hfs
      exact ⟨nf.2, hrs⟩

/-- 7z, results by content: every result is computed from bytes that were written for an ACCEPTED entry `g` (not a
    directory, not skipped, declared size within the limit) whose name resolves to the same path as the name the
    result carries; the result holds at most `g.uncompressed ≤ max_memory_size` bytes.  So the content of an
    oversize / hidden / unsupported / nested entry never appears in a result, under any name. -/
theorem C09_7z_results_content (T : Tables) (nested : List Str) (env : Env) (lim : Limits) (cwd base : Str) (a : SevenZ)
    (c : Consumer) (habs : isAbs base = true) (hnorm : normpath base = base) :
    ∀ r ∈ (run7z T nested env lim cwd base a c).res, r.2.length ≤ lim.maxMemory ∧
      ∃ g ∈ buildFiles a.entries a.fileSizes a.emptyFiles, g.isDirectory = false ∧
        shouldSkip T nested env g.filename (basename g.filename) = false ∧ g.uncompressed ≤ lim.maxMemory ∧
        safeJoin cwd base g.filename = safeJoin cwd base r.1 ∧ r.2.length ≤ g.uncompressed := by
  intro r hr
  obtain ⟨f, hrs⟩ := run7z_reads_temp T nested env lim cwd base a c r hr
  unfold readBack at hrs
  split at hrs
  · cases hrs
  · rename_i p hp
    split at hrs
    · cases hrs
    · cases hrs
    · rename_i d hd
      unfold processEntry at hrs
      split at hrs
      · cases hrs
      · have hre := List.eq_of_mem_replicate hrs
        subst hre
        have hin := safeJoin_inside cwd base f.filename p habs hnorm hp
        have hm := nodeAt_file_mem env base _ p d hin.2 hd
        obtain ⟨g, hg, h1, h2, h3, h4, h5⟩ := C09_7z_tempdir_only_accepted _ env lim cwd base a p d hm
        exact ⟨by simp only; omega, g, hg, h1, h2, h3, by simp only; rw [h4, hp], h5⟩

/-- two entries with the SAME name, the first within the limit, the second above it (limit 4): only the first is
    written and reported — the oversize entry's bytes `[9,9,9,9,9]` never reach the directory or a result -/
example :
    let a : SevenZ := { entries := [⟨"n.txt".toList, false, false⟩, ⟨"n.txt".toList, false, false⟩], fileSizes := [2, 5],
                        emptyFiles := [], folders := [2], folderData := [some [104, 105, 9, 9, 9, 9, 9]] }
    let lim : Limits := { maxMemory := 4, maxEntry := 100 }
    tempFiles S2T.Gen.Router.tables S2T.Gen.Archive.nested demoEnv lim "/work".toList "/tmp/tmpk3v9x2ab".toList a .exhaust
      = [("/tmp/tmpk3v9x2ab/n.txt".toList, [104, 105])] ∧
    (run7z S2T.Gen.Router.tables S2T.Gen.Archive.nested demoEnv lim "/work".toList "/tmp/tmpk3v9x2ab".toList a .exhaust).res
      = [("n.txt".toList, [104, 105])] := by
  decide +kernel

end S2T.C09.Filter
