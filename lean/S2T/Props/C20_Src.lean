import S2T.Lemmas.PyAes
import S2T.Gen.Aes
import S2T.Gen.PyAes
/-!
# C20 (source tie) — the translated functions of `_pypdf_aes_fallback.py` ARE the hand model `S2T.Aes`

`S2T.Gen.PyAes` is regenerated from the current text of `_pypdf_aes_fallback.py` on every run
(`tools/gen/pyfun_aes.py`, construct by construct; primitives: `S2T/Py/Bytes.lean`).  The theorems below say that every
translated function equals the function of `S2T/Model/Aes.lean` that all C20 theorems are about, at the tables
`S2T.Gen.Aes.tables` generated from the same source.

What the statements make explicit
* ints are `Nat` (the model's hypothesis, declared in the translator's whitelist); `bytes` parameters carry `IsBytes`;
* a list mutated in place is returned (`_add_round_key(state, rk)` ↦ the new state);
* Python raises `IndexError` / `ValueError` (from `bytes(...)`, unpacking, `range` step 0) / `ZeroDivisionError` where
  the model indexes with a default (`getD`) or uses truncated arithmetic.  The raise is KEPT in the translation; each
  equivalence is stated under the side condition under which it cannot fire (16-byte blocks, byte tables, round keys of
  16 bytes), and `*_outside` theorems exhibit the difference outside it (findings about the MODEL, none reachable from
  the ECB/CBC entry points, whose own length checks establish the side conditions);
* errors: the `k`-th `raise ValueError` of function `f` is `exc_ValueError "f" k`; the model has the single `valueError`.
  The theorems say WHICH raise statement fires (`liftV e`: the model's rejection is the exception `e`; `ecbExc` / `cbcExc`:
  own length check(s) first, then the key-length check of `_expand_key`).  Only `_pkcs7_unpad`, whose two `raise`
  statements are the same exception to every caller, is stated up to the statement number (`unsited`).
* `_get_round_keys` (OrderedDict cache) is not translated: its calls are translated as calls of `_expand_key`
  (`aliases` in the whitelist), which is what `S2T.Aes.aesEcbEncrypt` … do as well (`C20_cache` justifies both).
Theorems (all inputs; hypotheses in brackets): `xtime_eq`, `gf_mul_eq`, `build_mul_table_eq`, `build_rcon_eq` [n ≥ 1],
`add_round_key_eq` [16-element state, ≥ 16 key bytes], `sub_bytes_eq`, `inv_sub_bytes_eq`, `mix_columns_eq`,
`inv_mix_columns_eq` [16-byte state], `shift_rows_eq`, `inv_shift_rows_eq` [16 elements], `rot_word_eq`, `sub_word_eq`
[bytes], `expand_key_eq` [bytes; any length], `aes_encrypt_block_eq`, `aes_decrypt_block_eq` [bytes; ≥ 1 round key,
round keys 16 bytes; any block length], `pkcs7_pad_eq` [block_size > 0, padding < 256], `pkcs7_unpad_eq` [bytes],
`chunks_eq` [size > 0], `aes_ecb_encrypt_eq`, `aes_ecb_decrypt_eq`, `aes_cbc_encrypt_eq`, `aes_cbc_decrypt_eq`
[bytes; ANY lengths].
The only facts about the tables used here are their SHAPE (`TabShape`: 256 entries < 256, 15 round constants < 256),
re-decided on the generated tables; that they are the FIPS-197 tables is `C20_tables` in `Props/C20.lean`.
-/
set_option linter.unusedSimpArgs false
set_option linter.unusedVariables false
set_option maxRecDepth 100000
namespace S2T.C20.Src
open S2T.Py S2T.Aes S2T.AesL S2T.Gen.PyAes

/-- the translator understood every construct of the whitelisted functions -/
theorem gen_py_notes_empty : S2T.Gen.PyAes.notes = [] := by decide

/-- the functions this file ties (a renamed / removed function breaks this) -/
theorem gen_py_translated : S2T.Gen.PyAes.translated =
    ["_xtime", "_gf_mul", "_build_mul_table", "_build_rcon", "_add_round_key", "_sub_bytes", "_inv_sub_bytes",
     "_shift_rows", "_inv_shift_rows", "_mix_columns", "_inv_mix_columns", "_rot_word", "_sub_word", "_expand_key",
     "_aes_encrypt_block", "_aes_decrypt_block", "_pkcs7_pad", "_pkcs7_unpad", "_chunks", "aes_ecb_encrypt",
     "aes_ecb_decrypt", "aes_cbc_encrypt", "aes_cbc_decrypt"] := by decide

/-- the tables of the current source -/
abbrev GT : Tables := S2T.Gen.Aes.tables

/-! ## shape of the tables -/

structure TabShape (T : Tables) : Prop where
  sbox : Tab T.sbox
  invSbox : Tab T.invSbox
  mul2 : Tab T.mul2
  mul3 : Tab T.mul3
  mul9 : Tab T.mul9
  mul11 : Tab T.mul11
  mul13 : Tab T.mul13
  mul14 : Tab T.mul14
  rcon : T.rcon.length = 15 ∧ IsBytes T.rcon

/-- the generated tables have the shape the code relies on (no index leaves a table, no entry leaves a byte) -/
theorem tables_shape : TabShape GT := by
  constructor <;> decide +kernel

/-! the same facts about the definitions the translated code mentions (`GT.sbox` is `S2T.Gen.Aes.sbox` by `rfl`) -/
theorem sbox_tab : Tab S2T.Gen.Aes.sbox := tables_shape.sbox
theorem invSbox_tab : Tab S2T.Gen.Aes.invSbox := tables_shape.invSbox
theorem mul2_tab : Tab S2T.Gen.Aes.mul2 := tables_shape.mul2
theorem mul3_tab : Tab S2T.Gen.Aes.mul3 := tables_shape.mul3
theorem mul9_tab : Tab S2T.Gen.Aes.mul9 := tables_shape.mul9
theorem mul11_tab : Tab S2T.Gen.Aes.mul11 := tables_shape.mul11
theorem mul13_tab : Tab S2T.Gen.Aes.mul13 := tables_shape.mul13
theorem mul14_tab : Tab S2T.Gen.Aes.mul14 := tables_shape.mul14
theorem rcon_shape : S2T.Gen.Aes.rcon.length = 15 ∧ IsBytes S2T.Gen.Aes.rcon := tables_shape.rcon

/-! ## GF(2⁸) helpers -/

/-- `_xtime` -/
theorem xtime_eq (a : Nat) : _xtime a = xtime a := by
  simp [_xtime, xtime, truthy_nat] <;> (split <;> first | rfl | (simp_all; done) | omega)

/-- the `while b:` loop of `_gf_mul` (well-founded recursion on `b`, generated from the loop) computes what the
    model's 8-step loop computes, for every `b` below `2^fuel` -/
theorem gf_mul_while (fuel : Nat) : ∀ (a b r : Nat), b < 2 ^ fuel →
    (_gf_mul.while_1 a b r).2.2 = gfMulLoop fuel r a b := by
  induction fuel with
  | zero =>
    intro a b r hb
    have : b = 0 := by omega
    subst this
    rw [_gf_mul.while_1]
    simp [gfMulLoop, truthy_nat]
  | succ n ih =>
    intro a b r hb
    rw [_gf_mul.while_1]
    by_cases h0 : b = 0
    · simp [gfMulLoop, truthy_nat, h0]
    · have hb' : b >>> 1 < 2 ^ n := by
        rw [Nat.shiftRight_eq_div_pow]; omega
      simp +instances only [truthy_nat, bne_iff_ne, ne_eq, h0, not_false_eq_true, dite_true, gfMulLoop, if_false]
      simp only [Id.run, pure, bind]
      split <;> simp_all [xtime_eq, truthy_nat]

/-- `_gf_mul`, every pair of non-negative ints -/
theorem gf_mul_eq (a b : Nat) : _gf_mul a b = gfMul a b := by
  have hb : b &&& 255 < 2 ^ 8 := Nat.lt_of_le_of_lt Nat.and_le_right (by decide)
  simp [_gf_mul, gfMul, gf_mul_while 8 _ _ _ hb]

/-- `_build_mul_table` -/
theorem build_mul_table_eq (m : Nat) : _build_mul_table m = buildMulTable m := by
  simp [_build_mul_table, buildMulTable, rangeN_zero, gf_mul_eq]

/-! ## round functions on the 16-byte state

Each theorem: under the side condition, the translated function returns (never raises) the model's new state; the
second component is the closure fact the callers need. -/

/-- `_add_round_key(state, round_key)`: a 16-element state, at least 16 key bytes -/
theorem add_round_key_eq {s k : List Nat} (hs : s.length = 16) (hk : 16 ≤ k.length) :
    _add_round_key s k = Except.ok (addRoundKey s k) := by
  unfold _add_round_key addRoundKey
  py_loop_nf
  refine (forIn_fold (fun st => st.length = 16) _ _ _ ?_ s hs).1
  intro i hi st hst
  rw [List.mem_range] at hi
  constructor
  · simp (disch := py_side) only [getItem_natCast, setItem_natCast, M.ok_bind, M.map_ok]
  · simp [hst]

theorem addRoundKey_block {s k : List Nat} (hs : Block s) (hk : Block k) : Block (addRoundKey s k) := by
  rw [addRoundKey_eq hs.1 hk.1]; exact S2T.AesL.addRoundKey_block hs hk

/-- loop `for i in range(16): state[i] = TABLE[state[i]]` -/
theorem sub_bytes_eq {s : List Nat} (hs : Block s) :
    _sub_bytes s = Except.ok (subBytes GT s) ∧ Block (subBytes GT s) := by
  unfold _sub_bytes subBytes
  py_loop_nf
  refine forIn_fold Block _ _ _ ?_ s hs
  intro i hi st hst
  rw [List.mem_range] at hi
  obtain ⟨hl, hb⟩ := id hst
  have t := sbox_tab.2
  constructor
  · simp (disch := py_side) only [getItem_natCast, getItem_tab sbox_tab, setItem_natCast, M.ok_bind, M.map_ok]
    rfl
  · exact block_set hst (by py_lt256)

theorem inv_sub_bytes_eq {s : List Nat} (hs : Block s) :
    _inv_sub_bytes s = Except.ok (invSubBytes GT s) ∧ Block (invSubBytes GT s) := by
  unfold _inv_sub_bytes invSubBytes
  py_loop_nf
  refine forIn_fold Block _ _ _ ?_ s hs
  intro i hi st hst
  rw [List.mem_range] at hi
  obtain ⟨hl, hb⟩ := id hst
  have t := invSbox_tab.2
  constructor
  · simp (disch := py_side) only [getItem_natCast, getItem_tab invSbox_tab, setItem_natCast, M.ok_bind,
      M.map_ok]
    rfl
  · exact block_set hst (by py_lt256)

/-- `_shift_rows`: no table, no data-dependent branch — on a 16-element state both sides evaluate to the same
    permutation of the 16 variables (whatever way the source computes it) -/
theorem shift_rows_eq {s : List Nat} (hs : s.length = 16) : _shift_rows s = Except.ok (shiftRows s) := by
  obtain ⟨a0, a1, a2, a3, a4, a5, a6, a7, a8, a9, a10, a11, a12, a13, a14, a15, rfl⟩ := list16 s hs
  rfl

theorem inv_shift_rows_eq {s : List Nat} (hs : s.length = 16) : _inv_shift_rows s = Except.ok (invShiftRows s) := by
  obtain ⟨a0, a1, a2, a3, a4, a5, a6, a7, a8, a9, a10, a11, a12, a13, a14, a15, rfl⟩ := list16 s hs
  rfl

theorem shiftRows_block {s : List Nat} (hs : Block s) : Block (shiftRows s) := by
  rw [S2T.AesL.shiftRows_eq hs.1]; exact S2T.AesL.shiftRows_block hs
theorem invShiftRows_block {s : List Nat} (hs : Block s) : Block (invShiftRows s) := by
  rw [S2T.AesL.invShiftRows_eq hs.1]; exact S2T.AesL.invShiftRows_block hs

/-- `_mix_columns` -/
theorem mix_columns_eq {s : List Nat} (hs : Block s) :
    _mix_columns s = Except.ok (mixColumns GT s) ∧ Block (mixColumns GT s) := by
  unfold _mix_columns mixColumns
  py_loop_nf
  refine forIn_fold Block _ _ _ ?_ s hs
  intro col hc st hst
  rw [List.mem_range] at hc
  obtain ⟨hl, hb⟩ := id hst
  have t2 := mul2_tab.2
  have t3 := mul3_tab.2
  constructor
  · simp (disch := py_side) only [slice_nat, Nat.add_sub_cancel_left, take4_drop, getItem_tab mul2_tab,
      getItem_tab mul3_tab, setItem_natCast, M.ok_bind, M.map_ok, Nat.add_zero, List.length_set]
    rfl
  · repeat' (first | exact hst | apply block_set | py_lt256)

/-- `_inv_mix_columns` -/
theorem inv_mix_columns_eq {s : List Nat} (hs : Block s) :
    _inv_mix_columns s = Except.ok (invMixColumns GT s) ∧ Block (invMixColumns GT s) := by
  unfold _inv_mix_columns invMixColumns
  py_loop_nf
  refine forIn_fold Block _ _ _ ?_ s hs
  intro col hc st hst
  rw [List.mem_range] at hc
  obtain ⟨hl, hb⟩ := id hst
  have t9 := mul9_tab.2
  have t11 := mul11_tab.2
  have t13 := mul13_tab.2
  have t14 := mul14_tab.2
  constructor
  · simp (disch := py_side) only [slice_nat, Nat.add_sub_cancel_left, take4_drop, getItem_tab mul9_tab,
      getItem_tab mul11_tab, getItem_tab mul13_tab, getItem_tab mul14_tab,
      setItem_natCast, M.ok_bind, M.map_ok, Nat.add_zero, List.length_set]
    rfl
  · repeat' (first | exact hst | apply block_set | py_lt256)


theorem sub_bytes_ok {s : List Nat} (hs : Block s) : _sub_bytes s = Except.ok (subBytes GT s) := (sub_bytes_eq hs).1
theorem inv_sub_bytes_ok {s : List Nat} (hs : Block s) : _inv_sub_bytes s = Except.ok (invSubBytes GT s) :=
  (inv_sub_bytes_eq hs).1
theorem mix_columns_ok {s : List Nat} (hs : Block s) : _mix_columns s = Except.ok (mixColumns GT s) :=
  (mix_columns_eq hs).1
theorem inv_mix_columns_ok {s : List Nat} (hs : Block s) : _inv_mix_columns s = Except.ok (invMixColumns GT s) :=
  (inv_mix_columns_eq hs).1
theorem shift_rows_ok {s : List Nat} (hs : Block s) : _shift_rows s = Except.ok (shiftRows s) := shift_rows_eq hs.1
theorem inv_shift_rows_ok {s : List Nat} (hs : Block s) : _inv_shift_rows s = Except.ok (invShiftRows s) :=
  inv_shift_rows_eq hs.1
theorem add_round_key_ok {s k : List Nat} (hs : Block s) (hk : Block k) :
    _add_round_key s k = Except.ok (addRoundKey s k) :=
  add_round_key_eq hs.1 (by rw [hk.1]; exact Nat.le_refl _)
theorem subBytes_block {s : List Nat} (hs : Block s) : Block (subBytes GT s) := (sub_bytes_eq hs).2
theorem invSubBytes_block {s : List Nat} (hs : Block s) : Block (invSubBytes GT s) := (inv_sub_bytes_eq hs).2
theorem mixColumns_block {s : List Nat} (hs : Block s) : Block (mixColumns GT s) := (mix_columns_eq hs).2
theorem invMixColumns_block {s : List Nat} (hs : Block s) : Block (invMixColumns GT s) := (inv_mix_columns_eq hs).2

/-- `Block _` goals: closure of the round functions (`with_reducible`: never unfold a round function to compare) -/
macro "py_block" : tactic =>
  `(tactic| (repeat' (with_reducible (first
    | assumption
    | apply addRoundKey_block
    | apply subBytes_block
    | apply invSubBytes_block
    | apply shiftRows_block
    | apply invShiftRows_block
    | apply mixColumns_block
    | apply invMixColumns_block
    | (apply getD_block <;> first | assumption | omega)))))

macro "py_block_side" : tactic => `(tactic| first | omega | (py_block; all_goals fail) | fail)

/-! ## key expansion -/

/-- `_rot_word`, every list -/
theorem rot_word_eq (w : List Nat) : _rot_word w = rotWord w := by
  simp only [_rot_word, rotWord, slice_from_nat, slice_to_nat, Id.run, pure]

/-- `_sub_word` on bytes (a list element ≥ 256 raises `IndexError`: `sub_word_outside`) -/
theorem sub_word_eq {w : List Nat} (hw : IsBytes w) : _sub_word w = Except.ok (subWord GT w) := by
  unfold _sub_word subWord
  rw [mapM_ok (fun b => S2T.Gen.Aes.sbox.getD b 0)]
  · rfl
  · intro a ha
    have h : a < 256 := hw a ha
    simp (disch := py_side) only [getItem_tab sbox_tab]

/-- `_build_rcon(n)` for `n ≥ 1` (`_build_rcon(0)` raises `IndexError` at `rcon[1] = 1`: `build_rcon_outside`) -/
theorem build_rcon_eq {n : Nat} (hn : 1 ≤ n) : _build_rcon n = Except.ok (buildRcon n) := by
  unfold _build_rcon buildRcon
  py_loop_nf
  simp (disch := (simp; omega)) only [repeat_zero, setItem_natCast, M.ok_bind, rangeN]
  rw [show n + 1 - 2 = n - 1 by omega]
  refine (forIn_fold (fun st => st.length = n + 1) _ _ _ ?_ _ (by simp)).1
  intro i hi st hst
  rw [List.mem_range'_1] at hi
  have e : ((i : Int) - ((1 : Nat) : Int)) = ((i - 1 : Nat) : Int) := by omega
  constructor
  · simp (disch := py_side) only [e, getItem_natCast, setItem_natCast, M.ok_bind, M.map_ok, xtime_eq]
  · simp [hst]

/-! model-side closure facts (4-byte words), from the SHAPE of the tables only -/
theorem subWord_word {x : List Nat} (h : Word x) : Word (subWord GT x) := by
  refine ⟨by simp [subWord, h.1], ?_⟩
  intro b hb
  simp only [subWord, List.mem_map] at hb
  obtain ⟨a, _, rfl⟩ := hb
  exact getD_lt256 sbox_tab.2 a

/-- the invariant of the first loop of `_expand_key`: `i` words of 4 bytes -/
def WordsUpTo (i : Nat) (w : List (List Nat)) : Prop := w.length = i ∧ ∀ x ∈ w, Word x

theorem expandStep_words {nk i : Nat} {w : List (List Nat)} (h0 : 0 < nk) (h1 : nk ≤ i) (hw : WordsUpTo i w) :
    WordsUpTo (i + 1) (expandStep GT S2T.Gen.Aes.rcon nk w i) := by
  obtain ⟨hwl, hW⟩ := hw
  have hT : Word (w.getD (i - 1) []) := getD_word hW (by omega)
  have hU : Word (w.getD (i - nk) []) := getD_word hW (by omega)
  refine ⟨by simp [expandStep, hwl], ?_⟩
  intro x hx
  simp only [expandStep, List.mem_append, List.mem_singleton] at hx
  rcases hx with hx | rfl
  · exact hW x hx
  · apply zipXor_word hU
    split
    · exact xorHead_word (subWord_word (rotWord_word hT)) (getD_lt256 rcon_shape.2 _)
    · split
      · exact subWord_word hT
      · exact hT

theorem initial_words {key : List Nat} (hk : IsBytes key) {nk : Nat} (hkl : key.length = 4 * nk) :
    WordsUpTo nk (List.map (fun i => List.take 4 (List.drop (4 * i) key)) (List.range nk)) := by
  refine ⟨by simp, ?_⟩
  intro x hx
  simp only [List.mem_map, List.mem_range] at hx
  obtain ⟨i, hi, rfl⟩ := hx
  exact ⟨by simp; omega, isBytes_take_drop hk _ _⟩

/-- the model's round keys are 16-byte blocks, `nk + 7` of them (from the shape of the tables only) -/
theorem expandKey_blocks {key : List Nat} (hk : IsBytes key)
    (hlen : key.length = 16 ∨ key.length = 24 ∨ key.length = 32) :
    ∃ rks, expandKey GT key = .ok rks ∧ rks ≠ [] ∧ ∀ rk ∈ rks, Block rk := by
  have hm : ¬ (key.length ≠ 16 ∧ key.length ≠ 24 ∧ key.length ≠ 32) := by omega
  obtain ⟨nk, hkl, hnk⟩ : ∃ nk, key.length = 4 * nk ∧ (nk = 4 ∨ nk = 6 ∨ nk = 8) := by
    rcases hlen with h | h | h
    · exact ⟨4, h, Or.inl rfl⟩
    · exact ⟨6, h, Or.inr (Or.inl rfl)⟩
    · exact ⟨8, h, Or.inr (Or.inr rfl)⟩
  have hdiv : key.length / 4 = nk := by omega
  have hrl : nk + 6 < S2T.Gen.Aes.rcon.length := by rw [rcon_shape.1]; omega
  have hrl' : nk + 6 < GT.rcon.length := hrl
  unfold expandKey
  simp only [hm, hdiv, hrl, hrl', if_true, if_false, show GT.rcon = S2T.Gen.Aes.rcon from rfl]
  refine ⟨_, rfl, ?_, ?_⟩
  · intro h
    have := congrArg List.length h
    simp at this
  · obtain ⟨_, hwl, hW⟩ := forIn_range'_fold WordsUpTo (expandStep GT S2T.Gen.Aes.rcon nk)
      (fun i s => Except.ok (ForInStep.yield (expandStep GT S2T.Gen.Aes.rcon nk s i))) (4 * (nk + 6 + 1) - nk) nk _
      (initial_words hk hkl) (fun i s h1 h2 hp => ⟨rfl, expandStep_words (by omega) h1 hp⟩)
    intro rk hrk
    simp only [List.mem_map, List.mem_range] at hrk
    obtain ⟨r, hr, rfl⟩ := hrk
    exact roundKey_block (n := nk + 6) (by rw [hwl]; omega) hW (by omega)

/-- **`_expand_key` on a key of 16 / 24 / 32 bytes is the model's `expandKey`** (never raises) -/
theorem expand_key_ok {key : List Nat} (hk : IsBytes key)
    (hlen : key.length = 16 ∨ key.length = 24 ∨ key.length = 32) :
    _expand_key key = liftV (exc_ValueError "_expand_key" 0) (expandKey GT key) := by
  have hr := rcon_shape
  have hc : ([16, 24, 32].contains key.length) = true := by rcases hlen with h | h | h <;> simp [h]
  have hm : ¬ (key.length ≠ 16 ∧ key.length ≠ 24 ∧ key.length ≠ 32) := by omega
  obtain ⟨nk, hkl, hnk⟩ : ∃ nk, key.length = 4 * nk ∧ (nk = 4 ∨ nk = 6 ∨ nk = 8) := by
    rcases hlen with h | h | h
    · exact ⟨4, h, Or.inl rfl⟩
    · exact ⟨6, h, Or.inr (Or.inl rfl)⟩
    · exact ⟨8, h, Or.inr (Or.inr rfl)⟩
  have hdiv : key.length / 4 = nk := by omega
  have hrl : nk + 6 < S2T.Gen.Aes.rcon.length := by rw [hr.1]; omega
  have hrl' : nk + 6 < GT.rcon.length := hrl
  unfold _expand_key expandKey
  py_loop_nf
  simp +instances only [hc, hm, hdiv, hrl, hrl', decide_true, ite_true, ite_false, if_true, if_false, Bool.not_true,
    Bool.false_eq_true, M.pure_def, M.ok_bind, liftV, rangeN, show GT.rcon = S2T.Gen.Aes.rcon from rfl,
    slice_nat, Nat.add_sub_cancel_left]
  refine forIn_range'_bind WordsUpTo (expandStep GT S2T.Gen.Aes.rcon nk) (initial_words hk hkl) ?_ ?_
  · -- one iteration = the model's `expandStep`
    intro i w h1 h2 hw
    refine ⟨?_, expandStep_words (by omega) h1 hw⟩
    obtain ⟨hwl, hW⟩ := hw
    have hpos : 0 < nk := by omega
    have e1 : ((i : Int) - ((1 : Nat) : Int)) = ((i - 1 : Nat) : Int) := by omega
    have e2 : ((i : Int) - ((nk : Nat) : Int)) = ((i - nk : Nat) : Int) := by omega
    have hT : Word (w.getD (i - 1) []) := getD_word hW (by omega)
    have hS : Word (subWord GT (rotWord (w.getD (i - 1) []))) := subWord_word (rotWord_word hT)
    have hq : i / nk < S2T.Gen.Aes.rcon.length := by rw [hr.1]; rcases hnk with rfl | rfl | rfl <;> omega
    have l1 := hT.1
    have l2 := hS.1
    simp (disch := py_side) only [e1, e2, getItem_list_natCast, natMod_pos, natFloorDiv_pos, slice_all, rot_word_eq,
      sub_word_eq (rotWord_word hT).2, sub_word_eq hT.2, getItem_natCast, setItem_natCast, M.ok_bind, M.map_ok,
      set0_xorHead, map_zip_xor', expandStep]
    by_cases c1 : i % nk = 0 <;> by_cases c2 : nk > 6 <;> by_cases c3 : i % nk = 4 <;> simp [c1, c2, c3] <;>
      (intros; omega)
  · -- the round keys: 4 words each
    intro ⟨hwl, hW⟩
    generalize List.foldl (expandStep GT S2T.Gen.Aes.rcon nk) _ _ = W at hW ⊢
    have hflat : ∀ r, ∀ b ∈ ((W.drop (4 * r)).take 4).flatten, b < 256 := by
      intro r b hb
      obtain ⟨x, hx, hbx⟩ := List.mem_flatten.mp hb
      exact (hW x (List.mem_of_mem_drop (List.mem_of_mem_take hx))).2 b hbx
    refine (forIn_fold (fun _ => True) (fun acc r => acc ++ [((W.drop (4 * r)).take 4).flatten]) _ _ ?_ []
      trivial).1.trans ?_
    · intro r _ acc _
      refine ⟨?_, trivial⟩
      rw [forIn_pure_fold (fun s (w : List Nat) => s ++ w)]
      simp only [M.ok_bind, foldl_append_flatten, List.nil_append, bytesOfList_ok (hflat r), M.map_ok]
    · rw [foldl_append_map]; rfl

/-- a key of any other length: the first `raise ValueError` of `_expand_key`, as in the model -/
theorem expand_key_bad (key : List Nat) (hlen : ¬ (key.length = 16 ∨ key.length = 24 ∨ key.length = 32)) :
    _expand_key key = Except.error (exc_ValueError "_expand_key" 0) ∧ expandKey GT key = .error .valueError := by
  have hc : ([16, 24, 32].contains key.length) = false := by
    simp only [List.contains_cons, List.contains_nil, Bool.or_false, Bool.or_eq_false_iff, beq_eq_false_iff_ne, ne_eq]
    omega
  have hm : key.length ≠ 16 ∧ key.length ≠ 24 ∧ key.length ≠ 32 := by omega
  constructor
  · unfold _expand_key
    simp +instances only [hc, Bool.not_false, if_true, ite_true, M.throw_def, M.error_bind]
  · unfold expandKey
    rw [if_pos hm]

/-- **`_expand_key` is the model's `expandKey`** for every byte string `key` -/
theorem expand_key_eq {key : List Nat} (hk : IsBytes key) :
    _expand_key key = liftV (exc_ValueError "_expand_key" 0) (expandKey GT key) := by
  by_cases hlen : key.length = 16 ∨ key.length = 24 ∨ key.length = 32
  · exact expand_key_ok hk hlen
  · obtain ⟨h1, h2⟩ := expand_key_bad key hlen
    rw [h1, h2]; rfl

/-! ## block functions

Side conditions: `block` is a byte string, there is at least one round key and every round key is a 16-byte block
(what `_expand_key` returns: `expandKey_blocks`).  Then `_aes_encrypt_block` / `_aes_decrypt_block` raise exactly
when the model does (`len(block) != 16`, their only `raise`) and otherwise return the model's block.
Outside: `block_functions_outside`. -/

/-- **`_aes_encrypt_block` is the model's `encryptBlock`** -/
theorem aes_encrypt_block_eq {block : List Nat} {rks : List (List Nat)} (hb : IsBytes block) (hne : rks ≠ [])
    (hr : ∀ rk ∈ rks, Block rk) :
    _aes_encrypt_block block rks = liftV (exc_ValueError "_aes_encrypt_block" 0) (encryptBlock GT block rks) ∧
      ∀ c, encryptBlock GT block rks = .ok c → Block c := by
  have hn : 0 < rks.length := List.length_pos_iff.mpr hne
  unfold _aes_encrypt_block encryptBlock
  py_loop_nf
  by_cases hl : block.length = 16
  · have hB : Block block := ⟨hl, hb⟩
    have e : ((rks.length : Int) - ((1 : Nat) : Int)) = ((rks.length - 1 : Nat) : Int) := by omega
    simp +instances (disch := py_block_side) only [hl, bne_self_eq_false, Bool.false_eq_true, if_false, ne_eq, not_true_eq_false, e,
      rangeI_natCast, List.forIn_map, getItem_list_natCast, add_round_key_ok, M.ok_bind, liftV]
    have h0 : Block (addRoundKey block (rks.getD 0 [])) := by py_block
    have hfold : Block (List.foldl (fun s r => addRoundKey (mixColumns GT (shiftRows (subBytes GT s))) (rks.getD r []))
        (addRoundKey block (rks.getD 0 [])) (List.range' 1 (rks.length - 1 - 1))) := by
      refine foldl_inv Block _ _ ?_ _ h0
      intro st r hr' hst
      rw [List.mem_range'_1] at hr'
      py_block
    have hfin : Block (addRoundKey (shiftRows (subBytes GT
        (List.foldl (fun s r => addRoundKey (mixColumns GT (shiftRows (subBytes GT s))) (rks.getD r []))
          (addRoundKey block (rks.getD 0 [])) (List.range' 1 (rks.length - 1 - 1)))))
        (rks.getD (rks.length - 1) [])) := by py_block
    refine ⟨?_, fun c hc => Except.ok.inj hc ▸ hfin⟩
    refine forIn_bind Block (fun s r => addRoundKey (mixColumns GT (shiftRows (subBytes GT s))) (rks.getD r [])) h0 ?_ ?_
    · intro r hr' st hst
      rw [List.mem_range'_1] at hr'
      refine ⟨?_, by py_block⟩
      simp (disch := py_block_side) only [sub_bytes_ok, shift_rows_ok, mix_columns_ok, add_round_key_ok,
        getItem_list_natCast, M.ok_bind, M.map_ok]
    · intro hst
      simp (disch := py_block_side) only [sub_bytes_ok, shift_rows_ok, add_round_key_ok,
        getItem_list_natCast, M.ok_bind, M.map_ok, bytesOfList_ok hfin.2]
  · refine ⟨?_, ?_⟩
    · simp [hl, liftV]
    · intro c hc
      simp [hl] at hc
/-- **`_aes_decrypt_block` is the model's `decryptBlock`** -/
theorem aes_decrypt_block_eq {block : List Nat} {rks : List (List Nat)} (hb : IsBytes block) (hne : rks ≠ [])
    (hr : ∀ rk ∈ rks, Block rk) :
    _aes_decrypt_block block rks = liftV (exc_ValueError "_aes_decrypt_block" 0) (decryptBlock GT block rks) ∧
      ∀ c, decryptBlock GT block rks = .ok c → Block c := by
  have hn : 0 < rks.length := List.length_pos_iff.mpr hne
  unfold _aes_decrypt_block decryptBlock
  py_loop_nf
  by_cases hl : block.length = 16
  · have hB : Block block := ⟨hl, hb⟩
    have e : ((rks.length : Int) - ((1 : Nat) : Int)) = ((rks.length - 1 : Nat) : Int) := by omega
    have ez : (((rks.length - 1 : Nat) : Int) - ((1 : Nat) : Int)).toNat = rks.length - 1 - 1 := by omega
    simp +instances (disch := py_block_side) only [hl, bne_self_eq_false, Bool.false_eq_true, if_false, ne_eq, not_true_eq_false, e, ez,
      rangeStep_down', List.forIn_map, getItem_list_natCast, add_round_key_ok, M.ok_bind, liftV]
    have h0 : Block (addRoundKey block (rks.getD (rks.length - 1) [])) := by py_block
    have hfold : Block (List.foldl
        (fun s r => invMixColumns GT (addRoundKey (invSubBytes GT (invShiftRows s)) (rks.getD r [])))
        (addRoundKey block (rks.getD (rks.length - 1) [])) (List.range' 1 (rks.length - 1 - 1)).reverse) := by
      refine foldl_inv Block _ _ ?_ _ h0
      intro st r hr' hst
      rw [List.mem_reverse, List.mem_range'_1] at hr'
      py_block
    have hfin : Block (addRoundKey (invSubBytes GT (invShiftRows (List.foldl
        (fun s r => invMixColumns GT (addRoundKey (invSubBytes GT (invShiftRows s)) (rks.getD r [])))
        (addRoundKey block (rks.getD (rks.length - 1) [])) (List.range' 1 (rks.length - 1 - 1)).reverse)))
        (rks.getD 0 [])) := by py_block
    refine ⟨?_, fun c hc => Except.ok.inj hc ▸ hfin⟩
    refine forIn_bind Block
      (fun s r => invMixColumns GT (addRoundKey (invSubBytes GT (invShiftRows s)) (rks.getD r []))) h0 ?_ ?_
    · intro r hr' st hst
      rw [List.mem_reverse, List.mem_range'_1] at hr'
      refine ⟨?_, by py_block⟩
      simp (disch := py_block_side) only [inv_sub_bytes_ok, inv_shift_rows_ok, inv_mix_columns_ok, add_round_key_ok,
        getItem_list_natCast, M.ok_bind, M.map_ok]
    · intro hst
      simp (disch := py_block_side) only [inv_sub_bytes_ok, inv_shift_rows_ok, add_round_key_ok,
        getItem_list_natCast, M.ok_bind, M.map_ok, bytesOfList_ok hfin.2]
  · refine ⟨?_, ?_⟩
    · simp [hl, liftV]
    · intro c hc
      simp [hl] at hc
/-! ## PKCS#7 helpers and `_chunks` -/

/-- `_pkcs7_pad(data, block_size)` for `block_size > 0` and a padding byte that fits a byte (always so for
    `block_size ≤ 255`; the code calls it with 16) -/
theorem pkcs7_pad_eq (data : List Nat) {bs : Nat} (h0 : 0 < bs) (h : bs - data.length % bs < 256) :
    _pkcs7_pad data bs = Except.ok (pkcs7Pad data bs) := by
  unfold _pkcs7_pad pkcs7Pad
  have hm : data.length % bs < bs := Nat.mod_lt _ h0
  have e : ((bs : Int) - ((data.length % bs : Nat) : Int)) = ((bs - data.length % bs : Nat) : Int) := by omega
  simp only [natMod_pos _ h0, M.ok_bind, e, bytesOfInts_single h, repeat_singleton, M.pure_def]

/-- **`_pkcs7_unpad` is the model's `pkcs7Unpad`** on every byte string and every block size: same result, and a
    `ValueError` raised by one of its own `raise` statements exactly when the model rejects -/
theorem pkcs7_unpad_eq {data : List Nat} (hd : IsBytes data) (bs : Nat) :
    unsited (_pkcs7_unpad data bs) = liftV (exc_ValueError "_pkcs7_unpad" 0) (pkcs7Unpad data bs) := by
  unfold _pkcs7_unpad pkcs7Unpad
  py_loop_nf
  rw [getItem_last]
  cases hl : data.getLast? with
  | none =>
    have : data = [] := List.getLast?_eq_none_iff.mp hl
    subst this
    simp
  | some p =>
    have hne : data ≠ [] := by intro h; subst h; simp at hl
    have hp : p < 256 := hd p (List.mem_of_getLast? hl)
    have ht : truthy data = true := by
      cases data with
      | nil => exact absurd rfl hne
      | cons a t => rfl
    have hb : bytesOfList [p] = Except.ok [p] := bytesOfList_ok (by simpa using hp)
    simp +instances only [ht, Bool.not_true, Bool.false_eq_true, if_false, M.ok_bind, hb, repeat_singleton, M.throw_def,
      M.error_bind, M.map_error, M.pure_def]
    -- the model's three conditions, in the model's order; whatever way the source tests them
    by_cases c0 : p < 1
    · have : ¬ (0 < p) := by omega
      simp [c0, exc_ValueError] <;> (intros; first | omega | simp_all)
    · have hp1 : 0 < p := by omega
      simp +instances only [slice_from_neg _ hp1, slice_to_neg _ hp1]
      by_cases c1 : p > bs <;>
      by_cases c2 : List.drop (data.length - p) data = List.replicate p p <;>
      simp [c0, c1, c2, exc_ValueError] <;> (intros; first | omega | simp_all)

/-- `_chunks(data, size)` (the list of the yielded views) for `size > 0` -/
theorem chunks_eq (data : List Nat) {size : Nat} (h0 : 0 < size) :
    _chunks data size = Except.ok (chunks data size) := by
  unfold _chunks chunks
  py_loop_nf
  have hr : rangeStepN 0 data.length size = Except.ok (List.range' 0 ((data.length + size - 1) / size) size) := by
    simp [rangeStepN, Nat.ne_of_gt h0]
  simp only [hr, M.ok_bind, M.pure_def]
  rw [forIn_pure_fold (fun acc i => acc ++ [slice data (some ((i : Nat) : Int)) (some ((i + size : Nat) : Int))]),
    foldl_append_map, range'_step]
  simp only [List.nil_append, List.map_map, slice_nat, Nat.add_sub_cancel_left, Function.comp_def]
/-! ## ECB / CBC drivers -/

/-- the two mutable locals `out`, `offset` of the ECB loops form the loop state, in the order of their first
    assignment in the source: try both -/
macro "py_ecb_loop" f:term "," g:term "," e:term "," bs:term "," n:term : tactic => `(tactic| first
  | refine Eq.trans (ecb_forIn (fun o n => (o, n)) Prod.fst (fun _ _ => rfl) $f $g $e _ (fun _ _ _ => rfl) $bs ?_ ?_ []
      (List.replicate $n 0) ?_) ?_
  | refine Eq.trans (ecb_forIn (fun o n => (n, o)) Prod.snd (fun _ _ => rfl) $f $g $e _ (fun _ _ _ => rfl) $bs ?_ ?_ []
      (List.replicate $n 0) ?_) ?_)

/-- which `raise ValueError` fires when `aes_ecb_*` rejects: its own length check, the key length check of
    `_expand_key`, (never) the block length check -/
def ecbExc (fn blockfn : String) (key data : List Nat) : Py.Exc :=
  if data.length % 16 ≠ 0 then exc_ValueError fn 0
  else if ¬ (key.length = 16 ∨ key.length = 24 ∨ key.length = 32) then exc_ValueError "_expand_key" 0
  else exc_ValueError blockfn 0

/-- **`aes_ecb_encrypt` is the model's `aesEcbEncrypt`**, every byte string `key` and `data` -/
theorem aes_ecb_encrypt_eq {key data : List Nat} (hk : IsBytes key) (hd : IsBytes data) :
    aes_ecb_encrypt key data
      = liftV (ecbExc "aes_ecb_encrypt" "_aes_encrypt_block" key data) (aesEcbEncrypt GT key data) := by
  unfold aes_ecb_encrypt aesEcbEncrypt ecbExc
  py_loop_nf
  by_cases hdl : data.length % 16 = 0
  · by_cases hkl : key.length = 16 ∨ key.length = 24 ∨ key.length = 32
    · obtain ⟨rks, hrk, hne, hB⟩ := expandKey_blocks hk hkl
      have hek := expand_key_ok hk hkl
      rw [hrk] at hek
      simp +instances only [hdl, hkl, hek, hrk, truthy_nat, bne_self_eq_false, Bool.false_eq_true, if_false, ne_eq, not_true_eq_false,
        liftV_ok, M.ok_bind, chunks_eq data (by decide : 0 < 16)]
      py_ecb_loop (fun b => _aes_encrypt_block b rks), (fun b => encryptBlock GT b rks),
        (exc_ValueError "_aes_encrypt_block" 0), (chunks data 16), data.length
      · intro b hb
        exact (aes_encrypt_block_eq (chunks16_mem hd hdl hb).2 hne hB).1
      · intro b hb c hc
        exact ((aes_encrypt_block_eq (chunks16_mem hd hdl hb).2 hne hB).2 c hc).1
      · simp only [List.length_replicate]; exact chunks16_length hdl
      · simp
    · obtain ⟨h1, h2⟩ := expand_key_bad key hkl
      simp +instances [hdl, hkl, h1, h2, truthy_nat]
  · simp +instances [hdl, truthy_nat]
/-- **`aes_ecb_decrypt` is the model's `aesEcbDecrypt`**, every byte string `key` and `data` -/
theorem aes_ecb_decrypt_eq {key data : List Nat} (hk : IsBytes key) (hd : IsBytes data) :
    aes_ecb_decrypt key data
      = liftV (ecbExc "aes_ecb_decrypt" "_aes_decrypt_block" key data) (aesEcbDecrypt GT key data) := by
  unfold aes_ecb_decrypt aesEcbDecrypt ecbExc
  py_loop_nf
  by_cases hdl : data.length % 16 = 0
  · by_cases hkl : key.length = 16 ∨ key.length = 24 ∨ key.length = 32
    · obtain ⟨rks, hrk, hne, hB⟩ := expandKey_blocks hk hkl
      have hek := expand_key_ok hk hkl
      rw [hrk] at hek
      simp +instances only [hdl, hkl, hek, hrk, truthy_nat, bne_self_eq_false, Bool.false_eq_true, if_false, ne_eq, not_true_eq_false,
        liftV_ok, M.ok_bind, chunks_eq data (by decide : 0 < 16)]
      py_ecb_loop (fun b => _aes_decrypt_block b rks), (fun b => decryptBlock GT b rks),
        (exc_ValueError "_aes_decrypt_block" 0), (chunks data 16), data.length
      · intro b hb
        exact (aes_decrypt_block_eq (chunks16_mem hd hdl hb).2 hne hB).1
      · intro b hb c hc
        exact ((aes_decrypt_block_eq (chunks16_mem hd hdl hb).2 hne hB).2 c hc).1
      · simp only [List.length_replicate]; exact chunks16_length hdl
      · simp
    · obtain ⟨h1, h2⟩ := expand_key_bad key hkl
      simp +instances [hdl, hkl, h1, h2, truthy_nat]
  · simp +instances [hdl, truthy_nat]

/-- the loop of `aes_cbc_encrypt` is the model's `cbcEncLoop` -/
theorem cbc_enc_forIn (rks : List (List Nat)) (hne : rks ≠ []) (hB : ∀ rk ∈ rks, Block rk)
    (F : List Nat → (List Nat × List Nat × Nat) → M (ForInStep (List Nat × List Nat × Nat)))
    (hF : ∀ b out prev off, F b (out, prev, off) = (do
      let x ← bytesOfList (List.map (fun x => x.fst ^^^ x.snd) (b.zip prev))
      (fun a => ForInStep.yield (setSlice out (some ((off : Nat) : Int)) (some ((off + 16 : Nat) : Int)) a, a, off + 16))
        <$> _aes_encrypt_block x rks)) :
    ∀ (bs : List (List Nat)), (∀ b ∈ bs, Block b) → ∀ (prev : List Nat), Block prev →
    ∀ (pre post : List Nat), post.length = 16 * bs.length →
      Prod.fst <$> forIn bs (pre ++ post, prev, pre.length) F
        = (fun t => pre ++ t) <$> liftV (exc_ValueError "_aes_encrypt_block" 0) (cbcEncLoop GT rks prev bs) := by
  intro bs
  induction bs with
  | nil =>
    intro _ prev _ pre post hp
    have : post = [] := List.eq_nil_of_length_eq_zero (by simpa using hp)
    subst this
    simp [cbcEncLoop]
  | cons b rest ih =>
    intro hbs prev hprev pre post hp
    have hb : Block b := hbs b (List.mem_cons_self ..)
    have hx : IsBytes (List.zipWith (· ^^^ ·) b prev) := isBytes_zipWith_xor hb.2 hprev.2
    obtain ⟨he, hc⟩ := aes_encrypt_block_eq hx hne hB
    simp only [List.forIn_cons, hF, map_zip_xor', bytesOfList_ok hx, M.ok_bind, he, cbcEncLoop]
    cases hg : encryptBlock GT (List.zipWith (· ^^^ ·) b prev) rks with
    | error x => simp
    | ok x =>
      have hxb : Block x := hc x hg
      have hp' : 16 ≤ post.length := by simp at hp; omega
      simp only [liftV_ok, M.map_ok, M.ok_bind, setSlice_block pre post x hp']
      have := ih (fun b' hb' => hbs b' (List.mem_cons_of_mem _ hb')) x hxb
        (pre ++ x) (post.drop 16) (by simp at hp ⊢; omega)
      rw [show pre.length + 16 = (pre ++ x).length by simp [hxb.1]]
      rw [this]
      cases cbcEncLoop GT rks x rest with
      | error y => simp
      | ok t => simp [List.append_assoc]

/-- which `raise ValueError` fires when `aes_cbc_*` rejects -/
def cbcExc (fn blockfn : String) (key iv data : List Nat) : Py.Exc :=
  if iv.length ≠ 16 then exc_ValueError fn 0
  else if data.length % 16 ≠ 0 then exc_ValueError fn 1
  else if ¬ (key.length = 16 ∨ key.length = 24 ∨ key.length = 32) then exc_ValueError "_expand_key" 0
  else exc_ValueError blockfn 0

/-- **`aes_cbc_encrypt` is the model's `aesCbcEncrypt`**, every byte string `key`, `iv`, `data` -/
theorem aes_cbc_encrypt_eq {key iv data : List Nat} (hk : IsBytes key) (hiv : IsBytes iv) (hd : IsBytes data) :
    aes_cbc_encrypt key iv data
      = liftV (cbcExc "aes_cbc_encrypt" "_aes_encrypt_block" key iv data) (aesCbcEncrypt GT key iv data) := by
  unfold aes_cbc_encrypt aesCbcEncrypt cbcExc
  py_loop_nf
  by_cases hil : iv.length = 16
  · by_cases hdl : data.length % 16 = 0
    · by_cases hkl : key.length = 16 ∨ key.length = 24 ∨ key.length = 32
      · obtain ⟨rks, hrk, hne, hB⟩ := expandKey_blocks hk hkl
        have hek := expand_key_ok hk hkl
        rw [hrk] at hek
        simp +instances only [hil, hdl, hkl, hek, hrk, truthy_nat, bne_self_eq_false, Bool.false_eq_true, if_false, ne_eq,
          not_true_eq_false, liftV_ok, M.ok_bind, chunks_eq data (by decide : 0 < 16)]
        refine Eq.trans (cbc_enc_forIn rks hne hB _ (fun _ _ _ _ => rfl) (chunks data 16)
          (fun b hb => chunks16_mem hd hdl hb) iv ⟨hil, hiv⟩ [] (List.replicate data.length 0) ?_) ?_
        · simp only [List.length_replicate]; exact chunks16_length hdl
        · simp
      · obtain ⟨h1, h2⟩ := expand_key_bad key hkl
        simp +instances [hil, hdl, hkl, h1, h2, truthy_nat]
    · simp +instances [hil, hdl, truthy_nat]
  · simp +instances [hil, truthy_nat]
/-- `for idx in range(16): out[offset + idx] = dec[idx] ^ prev[idx]` on a bytearray whose next 16 bytes exist -/
theorem cbc_xor_forIn {dec prev pre post : List Nat} (hdec : Block dec) (hprev : Block prev) (hp : 16 ≤ post.length)
    (G : Nat → List Nat → M (ForInStep (List Nat)))
    (hG : ∀ idx o, G idx o = (do
      let x ← getItem dec ((idx : Nat) : Int)
      let y ← getItem prev ((idx : Nat) : Int)
      ForInStep.yield <$> bytearraySetItem o ((pre.length + idx : Nat) : Int) (x ^^^ y))) :
    forIn (List.range 16) (pre ++ post) G
      = Except.ok (pre ++ (List.range 16).map (fun idx => dec.getD idx 0 ^^^ prev.getD idx 0) ++ post.drop 16) := by
  rw [← foldl_set_range (fun idx => dec.getD idx 0 ^^^ prev.getD idx 0) pre 16 post hp]
  refine (forIn_fold (fun o => o.length = pre.length + post.length) _ _ _ ?_ _ (by simp)).1
  intro idx hi o ho
  rw [List.mem_range] at hi
  have h1 := hdec.1
  have h2 := hprev.1
  have hv : dec.getD idx 0 ^^^ prev.getD idx 0 < 256 := xor_lt (getD_lt256 hdec.2 _) (getD_lt256 hprev.2 _)
  have hnv : ¬ (256 ≤ dec.getD idx 0 ^^^ prev.getD idx 0) := by omega
  constructor
  · simp (disch := py_side) only [hG, getItem_natCast, M.ok_bind, bytearraySetItem, hnv, if_false, setItem_natCast,
      M.map_ok]
  · simp [ho]

/-- the loop of `aes_cbc_decrypt` is the model's `cbcDecLoop` -/
theorem cbc_dec_forIn (rks : List (List Nat)) (hne : rks ≠ []) (hB : ∀ rk ∈ rks, Block rk)
    (F : List Nat → (List Nat × List Nat × Nat) → M (ForInStep (List Nat × List Nat × Nat)))
    (hF : ∀ b out prev off, F b (out, prev, off) = (do
      let dec ← _aes_decrypt_block b rks
      (fun a => ForInStep.yield (a, b, off + 16)) <$>
        forIn (List.range 16) out (fun idx o => do
          let x ← getItem dec ((idx : Nat) : Int)
          let y ← getItem prev ((idx : Nat) : Int)
          ForInStep.yield <$> bytearraySetItem o ((off + idx : Nat) : Int) (x ^^^ y)))) :
    ∀ (bs : List (List Nat)), (∀ b ∈ bs, Block b) → ∀ (prev : List Nat), Block prev →
    ∀ (pre post : List Nat), post.length = 16 * bs.length →
      Prod.fst <$> forIn bs (pre ++ post, prev, pre.length) F
        = (fun t => pre ++ t) <$> liftV (exc_ValueError "_aes_decrypt_block" 0) (cbcDecLoop GT rks prev bs) := by
  intro bs
  induction bs with
  | nil =>
    intro _ prev _ pre post hp
    have : post = [] := List.eq_nil_of_length_eq_zero (by simpa using hp)
    subst this
    simp [cbcDecLoop]
  | cons b rest ih =>
    intro hbs prev hprev pre post hp
    have hb : Block b := hbs b (List.mem_cons_self ..)
    obtain ⟨he, hc⟩ := aes_decrypt_block_eq hb.2 hne hB
    simp only [List.forIn_cons, hF, he, cbcDecLoop]
    cases hg : decryptBlock GT b rks with
    | error x => simp
    | ok dec =>
      have hdb : Block dec := hc dec hg
      have hp' : 16 ≤ post.length := by simp at hp; omega
      simp only [liftV_ok, M.ok_bind]
      rw [cbc_xor_forIn hdb hprev hp' _ (fun _ _ => rfl)]
      simp only [M.map_ok, M.ok_bind]
      have hxl : ((List.range 16).map (fun idx => dec.getD idx 0 ^^^ prev.getD idx 0)).length = 16 := by simp
      have := ih (fun b' hb' => hbs b' (List.mem_cons_of_mem _ hb')) b hb
        (pre ++ (List.range 16).map (fun idx => dec.getD idx 0 ^^^ prev.getD idx 0)) (post.drop 16)
        (by simp at hp ⊢; omega)
      rw [show pre.length + 16 = (pre ++ (List.range 16).map (fun idx => dec.getD idx 0 ^^^ prev.getD idx 0)).length
        by simp]
      rw [this]
      cases cbcDecLoop GT rks b rest with
      | error y => simp
      | ok t => simp [List.append_assoc]

/-- **`aes_cbc_decrypt` is the model's `aesCbcDecrypt`**, every byte string `key`, `iv`, `data` -/
theorem aes_cbc_decrypt_eq {key iv data : List Nat} (hk : IsBytes key) (hiv : IsBytes iv) (hd : IsBytes data) :
    aes_cbc_decrypt key iv data
      = liftV (cbcExc "aes_cbc_decrypt" "_aes_decrypt_block" key iv data) (aesCbcDecrypt GT key iv data) := by
  unfold aes_cbc_decrypt aesCbcDecrypt cbcExc
  py_loop_nf
  by_cases hil : iv.length = 16
  · by_cases hdl : data.length % 16 = 0
    · by_cases hkl : key.length = 16 ∨ key.length = 24 ∨ key.length = 32
      · obtain ⟨rks, hrk, hne, hB⟩ := expandKey_blocks hk hkl
        have hek := expand_key_ok hk hkl
        rw [hrk] at hek
        simp +instances only [hil, hdl, hkl, hek, hrk, truthy_nat, bne_self_eq_false, Bool.false_eq_true, if_false, ne_eq,
          not_true_eq_false, liftV_ok, M.ok_bind, chunks_eq data (by decide : 0 < 16)]
        refine Eq.trans (cbc_dec_forIn rks hne hB _ (fun _ _ _ _ => rfl) (chunks data 16)
          (fun b hb => chunks16_mem hd hdl hb) iv ⟨hil, hiv⟩ [] (List.replicate data.length 0) ?_) ?_
        · simp only [List.length_replicate]; exact chunks16_length hdl
        · simp
      · obtain ⟨h1, h2⟩ := expand_key_bad key hkl
        simp +instances [hil, hdl, hkl, h1, h2, truthy_nat]
    · simp +instances [hil, hdl, truthy_nat]
  · simp +instances [hil, truthy_nat]

/-! ## outside the side conditions: where the hand model and the source differ

The model indexes with a default (`getD`) and uses truncated `Nat` arithmetic; the source raises.  None of these inputs
is reachable from `aes_ecb_*` / `aes_cbc_*` / `CryptAES` (their length checks and `_expand_key` establish the side
conditions — that is what the entry-point theorems above prove), so these are findings about the MODEL's totalisation,
not about the library.  Each is decided by evaluating both sides. -/

/-- a state shorter than 16, or holding a non-byte: `IndexError` in the source, a default in the model -/
theorem round_functions_outside :
    (_sub_bytes [] = Except.error indexError ∧ subBytes GT [] = []) ∧
    (_add_round_key [] [] = Except.error indexError ∧ addRoundKey [] [] = []) ∧
    (_sub_bytes (List.replicate 16 256) = Except.error indexError ∧
      subBytes GT (List.replicate 16 256) = List.replicate 16 0) ∧
    (_shift_rows [1, 2, 3] = Except.error indexError ∧ shiftRows [1, 2, 3] = [1, 0, 0]) := by
  decide +kernel

theorem sub_word_outside : _sub_word [256] = Except.error indexError ∧ subWord GT [256] = [0] := by
  decide +kernel

/-- `_build_rcon(0)`: `rcon[1] = 0x01` on a one-element list -/
theorem build_rcon_outside : _build_rcon 0 = Except.error indexError ∧ buildRcon 0 = [0] := by
  decide +kernel

/-- no round keys: `round_keys[0]` raises `IndexError`, the model goes on with empty round keys -/
theorem block_functions_outside :
    _aes_encrypt_block (List.replicate 16 0) [] = Except.error indexError ∧
    (∃ c, encryptBlock GT (List.replicate 16 0) [] = .ok c) ∧
    _aes_decrypt_block (List.replicate 16 0) [] = Except.error indexError ∧
    (∃ c, decryptBlock GT (List.replicate 16 0) [] = .ok c) := by
  refine ⟨by decide +kernel, ⟨_, rfl⟩, by decide +kernel, ⟨_, rfl⟩⟩

/-- `_pkcs7_pad(data, 0)`: `ZeroDivisionError`; a padding value ≥ 256 (`block_size` ≥ 256): `ValueError` from `bytes([padding])` -/
theorem pkcs7_pad_outside :
    (_pkcs7_pad [] 0 = Except.error zeroDivisionError ∧ pkcs7Pad [] 0 = []) ∧
    (_pkcs7_pad [] 300 = Except.error valueError ∧ pkcs7Pad [] 300 = List.replicate 300 300) := by
  decide +kernel

/-- `_chunks(data, 0)`: `range(0, n, 0)` raises `ValueError`, the model yields nothing -/
theorem chunks_outside : _chunks [1] 0 = Except.error valueError ∧ chunks [1] 0 = [] := by
  decide +kernel

/-! ## the side conditions are satisfiable by non-trivial values -/
example : Block (List.range 16) ∧ IsBytes (List.range 32) := by decide
example : ∃ rks, expandKey GT (List.range 16) = .ok rks ∧ rks ≠ [] ∧ ∀ rk ∈ rks, Block rk :=
  expandKey_blocks (by decide) (Or.inl rfl)
example : (0 : Nat) < 16 ∧ 16 - [1, 2, 3].length % 16 < 256 := by decide

end S2T.C20.Src
