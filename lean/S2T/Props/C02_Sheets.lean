import S2T.Lemmas.C02SheetsOdpDeck
import S2T.Lemmas.C02SheetsOds
import S2T.Lemmas.C02SheetsXlsx
import S2T.Lemmas.C02SheetsEpub
import S2T.Gen.HtmlSkip
import S2T.Gen.Ooxml
import S2T.Gen.C02Sheets
/-!
# C02 (part 'sheets') — main-text fidelity of the slide / sheet assemblers: ODP, ODS, XLSX

Shape of every fidelity theorem (as in the 'odf' part): for **all** abstract documents `d` rendered by the renderer of
`S2T.Spec.C02SheetsDoc`,

    tokens (fullText (render d)) = <the document's tokens, in documented order>

`tokens` is Python's `str.split()`.  Equality of the two lists is the property: same multiplicity, same order, nothing
merged across a paragraph / cell boundary, nothing from notes / comments, nothing invented except the documented
decoration (sheet names).  The theorems hold for every constants record satisfying a decidable `…TablesOk`; the
`gen_*_tables_ok` theorems re-decide it for the constants read from the current source on every run.
-/
namespace S2T.C02.Sheets
open S2T.Tok S2T.OdfText S2T.OdfDoc S2T.C02.Sheets.Odp

/-- the generator found every construct where the models expect it -/
theorem gen_notes_empty : S2T.Gen.C02Sheets.notes = [] := by decide

/-! ## ODP -/

/-- what the ODP theorems need from odp_extractor.py / data_types.py (all decidable) -/
def OdpTablesOk (T : OdpT) : Bool :=
  decide (T.fmt = stdFmt [tAnnot]) && decide (T.pTag = tP) && decide (T.frameTag = q nsDraw "frame")
    && decide (T.textBoxTag = q nsDraw "text-box") && decide (T.pageTag = q nsDraw "page")
    && decide (T.styleName = q nsText "style-name") && decide (T.svgX = q nsSvg "x") && decide (T.svgY = q nsSvg "y")
    && titleStyles.all (fun st => isTitle T st && !isBody T st)
    && bodyStyles.all (fun st => !isTitle T st && isBody T st)
    && otherStyles.all (fun st => !isTitle T st && !isBody T st)
    && (!T.slideSep.isEmpty && T.slideSep.all T.isWs) && (!T.joinSep.isEmpty && T.joinSep.all T.isWs)
    && (List.range 10).all (fun d => !T.ws.contains (48 + d))
    && "cminptx".toList.all (fun c => !T.ws.contains c.toNat)

theorem gen_odp_tables_ok : OdpTablesOk S2T.Gen.C02Sheets.odp = true := by decide +kernel

theorem noDigit_of {ws : List Nat} (hdig : (List.range 10).all (fun d => !ws.contains (48 + d)) = true) :
    NoDigitWs (isWsTab ws) := by
  intro d hd
  have := List.all_eq_true.mp hdig d (by simpa using hd)
  simp only [Bool.not_eq_true'] at this
  have hc : (digitChar d).toNat = 48 + d := by
    have : ∀ d < 10, (digitChar d).toNat = 48 + d := by decide
    exact this d hd
  have hm : 48 + d ∉ ws := by
    intro hmem
    have : ws.contains (48 + d) = true := by simpa using hmem
    simp_all
  simp [isWsTab, hc, hm]

theorem odpOk_of {T : OdpT} (h : OdpTablesOk T = true) : OdpOk T := by
  simp only [OdpTablesOk, Bool.and_eq_true, decide_eq_true_eq] at h
  obtain ⟨⟨⟨⟨⟨⟨⟨⟨⟨⟨⟨⟨⟨⟨h1, h2⟩, h3⟩, h4⟩, h5⟩, h6⟩, h7⟩, h8⟩, h9⟩, h10⟩, h11⟩, h12⟩, h13⟩, h14⟩, h15⟩ := h
  refine ⟨h1, h2, h3, h4, h5, h6, h7, h8, ?_, ?_, ?_, ?_, ?_, noDigit_of h14, ?_⟩
  · intro st hst; simpa using List.all_eq_true.mp h9 st hst
  · intro st hst; simpa using List.all_eq_true.mp h10 st hst
  · intro st hst; simpa using List.all_eq_true.mp h11 st hst
  · exact ⟨by simpa [List.isEmpty_iff] using h12.1, h12.2⟩
  · exact ⟨by simpa [List.isEmpty_iff] using h13.1, h13.2⟩
  · intro c hc
    have := List.all_eq_true.mp h15 c hc
    simpa [OdpT.isWs, isWsTab] using this

/-- **the covered-set walk is the pruned recursion** (`_iter_text_paragraphs`, any tree, any constants): the
    `text:p` elements in document order, without descending into annotations or into a paragraph. -/
theorem odp_walk_is_pruned (T : OdpT) (root : Xml) : iterParas T root = pruned T root :=
  walkCov_false T root

/-- an element below a covered / skipped / yielded element is never yielded -/
theorem odp_walk_covered_silent (T : OdpT) (x : Xml) : walkCov T true x = [] := walkCov_true T x

section odp
variable {T : OdpT} (hT : OdpTablesOk T = true)
include hT

/-- **ODP, what the code delivers.**  For every deck (any number of slides, frames in any file order at any
    positions, text boxes with paragraphs / lists / sections / comments in any nesting, tables, images, shapes,
    notes): the token sequence of `get_full_text()` is, slide by slide, the tokens of the frames' paragraphs - frames in
    reading order (top to bottom, left to right, stable), first title-styled paragraph first, then the body-styled
    ones, then the rest, each bucket in visiting order.  Speaker notes, comments (block-level and inline), table cells
    (they are in `slide.tables`) and - see below - shapes outside frames contribute nothing. -/
theorem odp_tokens (d : List DSlide) (hd : deckOk d = true) :
    tokens T.isWs (fullText T (renderOdp d)) = deckTokens T.isWs d :=
  fullText_render (odpOk_of hT) d hd

/- FULL-STRENGTH statement (the property): `tokens (fullText T (renderOdp d)) = fullDeckTokens T.isWs d`, i.e. the
   text of shapes outside frames (`draw:custom-shape` children of the page, how Impress stores shapes with text) is
   part of the slide text too.  FALSE on the current code: `odp_shape_text_dropped` (open finding
   `odp.shape-text-outside-frames-dropped`).  It holds exactly when no such shape carries text: -/
theorem odp_tokens_partial (d : List DSlide) (hd : deckOk d = true)
    (hs : ∀ s ∈ d, (shapeTexts s).flatMap (tokens T.isWs) = []) :
    tokens T.isWs (fullText T (renderOdp d)) = fullDeckTokens T.isWs d := by
  rw [odp_tokens hT d hd]
  unfold deckTokens fullDeckTokens
  exact flatMap_congr' _ (fun s hs' => by simp [List.flatMap_append, hs s hs'])

/-- **nothing merged**: every output token lies inside one text piece of one slide -/
theorem odp_separated (d : List DSlide) (hd : deckOk d = true) :
    ∀ t ∈ tokens T.isWs (fullText T (renderOdp d)), ∃ s ∈ d, ∃ txt ∈ slideTexts T.isWs s, t ∈ tokens T.isWs txt := by
  intro t ht
  rw [odp_tokens hT d hd] at ht
  simpa [deckTokens, List.mem_flatMap] using ht

/-- **nothing leaks**: a token that occurs only in notes / comments / tables / shapes is not in the output -/
theorem odp_excluded (d : List DSlide) (hd : deckOk d = true) (t : Str)
    (hx : t ∉ deckTokens T.isWs d) : t ∉ tokens T.isWs (fullText T (renderOdp d)) := by
  rw [odp_tokens hT d hd]; exact hx

/-- **nothing invented**: the non-whitespace characters of the output are exactly those of the slide texts, in order -/
theorem odp_no_invention (d : List DSlide) (hd : deckOk d = true) :
    (fullText T (renderOdp d)).filter (fun c => !T.isWs c) = (deckTokens T.isWs d).flatten := by
  rw [← tokens_flatten, odp_tokens hT d hd]

end odp

/-- every piece of a slide's text is the visible text of one of its frames' paragraphs, and every non-blank
    paragraph is there: the pieces are a permutation of the non-blank paragraph texts (same multiplicity) -/
theorem bucket_perm (es : List (Role × Str)) (b : Buckets) :
    List.Perm (bucket es b).texts (b.texts ++ es.map (·.2)) := by
  induction es generalizing b with
  | nil => simp [bucket]
  | cons e r ih =>
    obtain ⟨ro, t⟩ := e
    obtain ⟨bt, bb, bo⟩ := b
    have hmid : ∀ (l : List Str), List.Perm (t :: (l ++ r.map (·.2))) (l ++ t :: r.map (·.2)) :=
      fun l => List.perm_middle.symm
    simp only [bucket]
    split
    · rename_i hc
      have hbt : bt = none := hc.2
      subst hbt
      refine (ih _).trans ?_
      simp only [Buckets.texts, Option.toList, List.map_cons, List.nil_append, List.singleton_append, List.cons_append,
        List.append_assoc]
      simpa [List.append_assoc] using hmid (bb ++ bo)
    · split
      · refine (ih _).trans ?_
        simp only [Buckets.texts, List.map_cons, List.append_assoc, List.singleton_append, List.cons_append,
          List.nil_append]
        exact List.Perm.append_left _ (List.Perm.append_left _ (hmid bo))
      · refine (ih _).trans ?_
        simp only [Buckets.texts, List.map_cons, List.append_assoc, List.singleton_append, List.cons_append,
          List.nil_append]
        exact List.Perm.refl _

theorem odp_slide_texts_perm (p : Char → Bool) (s : DSlide) :
    List.Perm (slideTexts p s) ((slideEntries p s).map (·.2)) := by
  have := bucket_perm (slideEntries p s) {}
  simpa [slideTexts, Buckets.texts] using this

/-- the generated constants satisfy the hypotheses: the ODP theorem holds for the current source -/
theorem odp_tokens_current (d : List DSlide) (hd : deckOk d = true) :
    tokens S2T.Gen.C02Sheets.odp.isWs (fullText S2T.Gen.C02Sheets.odp (renderOdp d))
      = deckTokens S2T.Gen.C02Sheets.odp.isWs d :=
  odp_tokens gen_odp_tables_ok d hd

/-! ### examples and the open finding -/

def pO (s : String) : Para := ⟨.other, 0, [.text s.toList]⟩

/-- two frames in reverse reading order, a title below a body paragraph, an outline list, a block comment, an inline
    comment, a table, notes -/
def exDeck : List DSlide :=
  [ { unit := .cm,
      frames := [ ⟨5, 1, .textBox [.para ⟨.body, 0, [.text "B1".toList, .annot "Al".toList [.text "CMT2".toList], .text " b".toList]⟩,
                                    .group .list [.group .item [.para ⟨.body, 1, [.text "L1".toList]⟩]],
                                    .comment "Bob".toList [.text "CMT1".toList]]⟩,
                  ⟨1, 2, .textBox [.para (pO "O1"), .para ⟨.title, 0, [.text "T1".toList]⟩, .para ⟨.title, 2, [.text "T2".toList]⟩]⟩,
                  ⟨3, 0, .table [[[[.text "CELL1".toList]]]]⟩ ],
      shapes := [], notes := [[.text "NOTE1".toList]] } ]

example : deckOk exDeck = true := by decide
example : fullText S2T.Gen.C02Sheets.odp (renderOdp exDeck) = "T1\nB1 b\nL1\nO1\nT2".toList := by decide +kernel
example : deckTokens S2T.Gen.C02Sheets.odp.isWs exDeck = ["T1", "B1", "b", "L1", "O1", "T2"].map String.toList := by
  decide +kernel

def exShape : List DSlide :=
  [ { unit := .cm, frames := [⟨1, 1, .textBox [.para (pO "A1")]⟩], shapes := [[pO "SHAPE1"]], notes := [] } ]

/-- OPEN finding `odp.shape-text-outside-frames-dropped`: the text of a shape outside a frame never reaches the
    slide text (the full-strength statement fails on this deck) -/
theorem odp_shape_text_dropped :
    tokens S2T.Gen.C02Sheets.odp.isWs (fullText S2T.Gen.C02Sheets.odp (renderOdp exShape)) = ["A1".toList]
      ∧ fullDeckTokens S2T.Gen.C02Sheets.odp.isWs exShape = ["A1".toList, "SHAPE1".toList] := by decide +kernel

/-- the excluding hypothesis of `odp_tokens_partial` is exact for that deck -/
example : ¬ (∀ s ∈ exShape, (shapeTexts s).flatMap (tokens S2T.Gen.C02Sheets.odp.isWs) = []) := by decide +kernel

/-! ## ODS -/

open S2T.C02.Sheets.Ods in
/-- what the ODS theorems need from ods_extractor.py / data_types.py (all decidable).  The caps `cellCap` / `rowCap`
    are NOT constrained: the theorems hold for every value of them (they only ever drop empty cells / rows). -/
def OdsTablesOk (T : OdsT) : Bool :=
  let sep (s : Str) : Bool := !s.isEmpty && s.all T.isWs
  decide (T.fmt = stdFmt [tAnnot]) && decide (T.pTag = tP) && decide (T.tableTag = q nsTable "table")
    && decide (T.rowTag = q nsTable "table-row") && decide (T.cellTag = q nsTable "table-cell")
    && decide (T.nameAttr = q nsTable "name") && decide (T.repRows = q nsTable "number-rows-repeated")
    && decide (T.repCols = q nsTable "number-columns-repeated") && decide (T.valueType = q nsOffice "value-type")
    && decide (T.kinds = stdKinds)
    && sep T.paraSep && sep T.cellSep && sep T.lineSep && sep T.unitSep && sep T.joinSep
    && T.ws.contains 10 && (List.range 10).all (fun d => !T.ws.contains (48 + d))

theorem gen_ods_tables_ok : OdsTablesOk S2T.Gen.C02Sheets.ods = true := by decide +kernel

open S2T.C02.Sheets.Ods in
theorem odsOk_of {T : OdsT} (h : OdsTablesOk T = true) : OdsOk T := by
  simp only [OdsTablesOk, Bool.and_eq_true, decide_eq_true_eq] at h
  obtain ⟨⟨⟨⟨⟨⟨⟨⟨⟨⟨⟨⟨⟨⟨⟨⟨h1, h2⟩, h3⟩, h4⟩, h5⟩, h6⟩, h7⟩, h8⟩, h9⟩, h10⟩, h11⟩, h12⟩, h13⟩, h14⟩, h15⟩, h16⟩, h17⟩ := h
  have sep : ∀ s : Str, (!s.isEmpty) = true ∧ s.all T.isWs = true → SepOk T.isWs s :=
    fun s hs => ⟨by simpa [List.isEmpty_iff] using hs.1, hs.2⟩
  exact ⟨h1, h2, h3, h4, h5, h6, h7, h8, h9, h10, sep _ h11, sep _ h12, sep _ h13, sep _ h14, sep _ h15,
    by simpa [OdsT.isWs, isWsTab] using h16, noDigit_of h17⟩

/-- `_iter_cell_paragraphs` is the pruned recursion (any tree, any constants) -/
theorem ods_walk_is_pruned (T : OdsT) (cell : Xml) : Ods.cellParas T cell = Ods.pruned T cell :=
  Ods.walkCov_false T cell

section ods
variable {T : OdsT} (hT : OdsTablesOk T = true)
include hT

/-- **ODS, what the code delivers.**  For every spreadsheet (any number of sheets, rows and cells, any row / column
    repeat counts - the caps on empty runs included, whatever their values -, string cells with any paragraphs, typed
    cells, cell comments): the extraction succeeds and the token sequence of `get_full_text()` is, sheet by sheet, the
    sheet name (documented decoration) followed by the display texts of the cells row by row, left to right, each as
    often as its repeat counts say.  Cell comments and inline annotations contribute nothing. -/
theorem ods_tokens (d : List OSheet) (hd : Ods.sheetsOk d = true) :
    ∃ text, Ods.fullText T (renderOds d) = .ok text ∧ tokens T.isWs text = d.flatMap (sheetTokens T.isWs) :=
  Ods.fullText_render (odsOk_of hT) d hd

/- FULL-STRENGTH statement (the property): `… tokens T.isWs text = d.flatMap (fullSheetTokens T.isWs)`, i.e. rows inside
   `table:table-header-rows` (print-repeat rows, what Calc writes for "rows to repeat") are rows of the sheet.  FALSE on
   the current code: `ods_header_rows_dropped` (open finding `ods.header-rows-dropped`).  It holds exactly when the
   header rows carry no text: -/
theorem ods_tokens_partial (d : List OSheet) (hd : Ods.sheetsOk d = true)
    (hh : ∀ s ∈ d, s.headerRows.flatMap (rowTokens T.isWs) = []) :
    ∃ text, Ods.fullText T (renderOds d) = .ok text ∧ tokens T.isWs text = d.flatMap (fullSheetTokens T.isWs) := by
  obtain ⟨text, h1, h2⟩ := ods_tokens hT d hd
  refine ⟨text, h1, ?_⟩
  rw [h2]
  exact flatMap_congr' _ (fun s hs => by simp [sheetTokens, fullSheetTokens, List.flatMap_append, hh s hs])

/-- **nothing merged**: every output token is a token of the sheet name or lies inside one cell's display text -/
theorem ods_separated (d : List OSheet) (hd : Ods.sheetsOk d = true) :
    ∃ text, Ods.fullText T (renderOds d) = .ok text ∧
      ∀ t ∈ tokens T.isWs text, ∃ s ∈ d, t ∈ tokens T.isWs s.name ∨
        ∃ r ∈ s.rows, ∃ c ∈ r.cells, t ∈ tokens T.isWs (cellShown c) := by
  obtain ⟨text, h1, h2⟩ := ods_tokens hT d hd
  refine ⟨text, h1, ?_⟩
  intro t ht
  rw [h2] at ht
  obtain ⟨s, hs, hts⟩ := List.mem_flatMap.mp ht
  refine ⟨s, hs, ?_⟩
  simp only [sheetTokens, List.mem_append, List.mem_flatMap] at hts
  rcases hts with h | ⟨r, hr, htr⟩
  · exact Or.inl h
  · right
    simp only [rowTokens, List.mem_flatten, List.mem_replicate] at htr
    obtain ⟨l, ⟨_, rfl⟩, hl⟩ := htr
    obtain ⟨c, hc, hcl⟩ := List.mem_flatMap.mp hl
    simp only [List.mem_flatten, List.mem_replicate] at hcl
    obtain ⟨l2, ⟨_, rfl⟩, hl2⟩ := hcl
    exact ⟨r, hr, c, hc, hl2⟩

/-- **nothing leaks, nothing invented**: a token that is in no sheet name and no cell display text (comments) is not
    in the output -/
theorem ods_excluded (d : List OSheet) (hd : Ods.sheetsOk d = true) (t : Str)
    (hx : t ∉ d.flatMap (sheetTokens T.isWs)) :
    ∃ text, Ods.fullText T (renderOds d) = .ok text ∧ t ∉ tokens T.isWs text := by
  obtain ⟨text, h1, h2⟩ := ods_tokens hT d hd
  exact ⟨text, h1, by rw [h2]; exact hx⟩

end ods

theorem ods_tokens_current (d : List OSheet) (hd : Ods.sheetsOk d = true) :
    ∃ text, Ods.fullText S2T.Gen.C02Sheets.ods (renderOds d) = .ok text
      ∧ tokens S2T.Gen.C02Sheets.ods.isWs text = d.flatMap (sheetTokens S2T.Gen.C02Sheets.ods.isWs) :=
  ods_tokens gen_ods_tables_ok d hd

/-- the cap of the source as it is: an empty cell repeated more than 100 times counts once, 100 times is expanded -/
theorem ods_cap_exact : S2T.Gen.C02Sheets.ods.cellCap = 100 ∧ S2T.Gen.C02Sheets.ods.rowCap = 100 := by decide

def cS (s : String) : OCell := ⟨1, none, [[.text s.toList]], none⟩

/-- typed cells, a comment, a repeated cell, empty runs beyond the caps, a repeated row -/
def exSheets : List OSheet :=
  [ { name := "Tab 1".toList, headerRows := [],
      rows := [ ⟨2, [cS "A1", ⟨3, none, [[.text "B1".toList], [.text "b2".toList]], some [.text "CMT1".toList]⟩, ⟨200, none, [], none⟩,
                     ⟨1, some (.float, "1.5".toList), [[.text "1,50 €".toList]], none⟩]⟩,
                ⟨1000, [⟨300, none, [], none⟩]⟩,
                ⟨1, [⟨1, some (.date, []), [[.text "D1".toList]], none⟩]⟩ ] } ]

example : Ods.sheetsOk exSheets = true := by decide
example : (Ods.fullText S2T.Gen.C02Sheets.ods (renderOds exSheets)).toOption
    = some "Tab 1\nA1\tB1\nb2\tB1\nb2\tB1\nb2\t1.5\nA1\tB1\nb2\tB1\nb2\tB1\nb2\t1.5\nD1".toList := by decide +kernel

def exHeader : List OSheet :=
  [ { name := "S1".toList, headerRows := [⟨1, [cS "HEAD1"]⟩], rows := [⟨1, [cS "A1"]⟩] } ]

/-- OPEN finding `ods.header-rows-dropped`: rows inside `table:table-header-rows` are missing from the text -/
theorem ods_header_rows_dropped :
    (Ods.fullText S2T.Gen.C02Sheets.ods (renderOds exHeader)).toOption.map (tokens S2T.Gen.C02Sheets.ods.isWs)
        = some ["S1".toList, "A1".toList]
      ∧ exHeader.flatMap (fullSheetTokens S2T.Gen.C02Sheets.ods.isWs) = ["S1".toList, "HEAD1".toList, "A1".toList] := by
  decide +kernel


/-! ## XLSX -/

open S2T.C02.Sheets.Xlsx S2T.C02.Sheets.XlsxDoc

/-- what the XLSX theorems need from xlsx_extractor.py / data_types.py: every separator is non-empty whitespace and the
    padding character of `rjust` is whitespace.  The `Unnamed: ` prefix is NOT constrained (see the finding below). -/
def XlsxTablesOk (T : XlsxT) : Bool :=
  let sep (s : Str) : Bool := !s.isEmpty && s.all T.isWs
  sep T.colSep && sep T.rowSep && sep T.unitSep && sep T.joinSep && T.ws.contains 32

theorem gen_xlsx_tables_ok : XlsxTablesOk S2T.Gen.C02Sheets.xlsx = true := by decide +kernel

theorem xlsxOk_of {T : XlsxT} (h : XlsxTablesOk T = true) : XlsxOk T := by
  simp only [XlsxTablesOk, Bool.and_eq_true] at h
  obtain ⟨⟨⟨⟨h1, h2⟩, h3⟩, h4⟩, h5⟩ := h
  have sep : ∀ s : Str, (!s.isEmpty) = true ∧ s.all T.isWs = true → Ods.SepOk T.isWs s :=
    fun s hs => ⟨by simpa [List.isEmpty_iff] using hs.1, hs.2⟩
  exact ⟨sep _ h1, sep _ h2, sep _ h3, sep _ h4, by simpa [XlsxT.isWs, isWsTab] using h5⟩

section xlsx
variable {T : XlsxT} (hT : XlsxTablesOk T = true)
include hT

/-- **XLSX, the formatter.**  For ANY row lists: the token sequence of `_format_sheet_as_text(all_rows)` is the display
    texts of the cells in row-major order - column padding and separators are whitespace only, nothing is lost, merged or
    reordered by the alignment. -/
theorem xlsx_format_tokens (rows : List (List Str)) :
    tokens T.isWs (formatSheet T rows) = rows.flatMap (fun r => r.flatMap (tokens T.isWs)) :=
  formatSheet_tokens (xlsxOk_of hT) rows

/-- **XLSX, what the code delivers.**  For every workbook (any grids as openpyxl returns them): the tokens of
    `get_full_text()` are, sheet by sheet, the sheet name (documented decoration) and then the display texts of
    `all_rows` (generated header names first) in row-major order. -/
theorem xlsx_tokens (sheets : List XSheet) :
    tokens T.isWs (fullText T (sheets.map (fun s => (s.name, s.rows))))
      = sheets.flatMap (fun s => tokens T.isWs s.name ++ (allRows T s.rows).flatMap (fun r => r.flatMap (tokens T.isWs))) := by
  rw [fullText_tokens (xlsxOk_of hT), List.flatMap_map]

/- FULL-STRENGTH statement (the property): `tokens … = sheets.flatMap (XlsxDoc.sheetTokens T.isWs)`: the non-decoration tokens
   are exactly the cell display texts in row-major order.  FALSE on the current code when the first used row has an
   empty cell inside the used width: the header name `Unnamed: i` is printed (`xlsx_unnamed_invented`, open finding
   `xlsx.unnamed-header-invented`).  With that excluded it holds: -/
theorem xlsx_tokens_partial (sheets : List XSheet) (hf : ∀ s ∈ sheets, firstRowFull T.isWs s.rows = true) :
    tokens T.isWs (fullText T (sheets.map (fun s => (s.name, s.rows)))) = sheets.flatMap (XlsxDoc.sheetTokens T.isWs) := by
  rw [xlsx_tokens hT]
  exact flatMap_congr' _ (fun s hs => by
    show tokens T.isWs s.name ++ (allRows T s.rows).flatMap (fun r => r.flatMap (tokens T.isWs)) = XlsxDoc.sheetTokens T.isWs s
    rw [allRows_tokens s.rows (hf s hs)]; rfl)

/-- nothing leaks / nothing invented, under the same hypothesis -/
theorem xlsx_excluded (sheets : List XSheet) (hf : ∀ s ∈ sheets, firstRowFull T.isWs s.rows = true) (t : Str)
    (hx : t ∉ sheets.flatMap (XlsxDoc.sheetTokens T.isWs)) :
    t ∉ tokens T.isWs (fullText T (sheets.map (fun s => (s.name, s.rows)))) := by
  rw [xlsx_tokens_partial hT sheets hf]; exact hx

end xlsx

def exBook : List XSheet :=
  [ { name := "S".toList,
      rows := [ [.str "a".toList, .empty, .str "b".toList], [.str "c".toList, .str "d".toList, .str "e".toList] ] } ]

/-- OPEN finding `xlsx.unnamed-header-invented`: an empty cell in the first used row prints `Unnamed: 1` -/
theorem xlsx_unnamed_invented :
    tokens S2T.Gen.C02Sheets.xlsx.isWs (fullText S2T.Gen.C02Sheets.xlsx (exBook.map (fun s => (s.name, s.rows))))
        = ["S", "a", "Unnamed:", "1", "b", "c", "d", "e"].map String.toList
      ∧ exBook.flatMap (XlsxDoc.sheetTokens S2T.Gen.C02Sheets.xlsx.isWs) = ["S", "a", "b", "c", "d", "e"].map String.toList
      ∧ firstRowFull S2T.Gen.C02Sheets.xlsx.isWs (exBook.map (·.rows)).head! = false := by decide +kernel

def exBook2 : List XSheet :=
  [ { name := "Tab 1".toList,
      rows := [ [.str "h 1".toList, .float "2.0".toList (some 2), .bool true, .empty],
                [.int 42, .empty, .float "1.5".toList none, .str " ".toList], [.empty, .empty, .empty, .empty] ] } ]

example : ∀ s ∈ exBook2, firstRowFull S2T.Gen.C02Sheets.xlsx.isWs s.rows = true := by decide +kernel
example : fullText S2T.Gen.C02Sheets.xlsx (exBook2.map (fun s => (s.name, s.rows)))
    = "Tab 1\nh 1 2.0 True\n 42      1.5".toList := by decide +kernel


/-! ## EPUB chapter text: `_XhtmlTextExtractor` (event machine + `get_text`) and the spine-order join -/

section EpubSec
open S2T.HtmlSkip S2T.C02.Sheets.Epub S2T.C02.Sheets.EpubDoc
open S2T.C02.Ooxml (words)

/-- what the EPUB theorems need from REMOVE_TAGS / BLOCK_TAGS (all decidable): the inline tags of the rendered chapters
    are neither removed nor block tags, the block tags are block tags and not removed, `br` / `title` are not removed -/
def EpubTablesOk (T : S2T.HtmlSkip.Tables) (B : List (List Char)) : Bool :=
  inlineTags.all (fun t => !T.remove.contains t && !B.contains t)
    && blockTags.all (fun t => !T.remove.contains t && B.contains t)
    && !T.remove.contains sBr && !T.remove.contains sTitle && !T.remove.isEmpty

theorem gen_epub_tables_ok : EpubTablesOk S2T.Gen.HtmlSkip.epubTables S2T.Gen.HtmlSkip.epubBlock = true := by decide

/-- the whitespace table of the interpreter has blank, tab and newline -/
theorem gen_ws_ok : S2T.Gen.Ooxml.isPySpace ' ' = true ∧ S2T.Gen.Ooxml.isPySpace '\t' = true
    ∧ S2T.Gen.Ooxml.isPySpace '\n' = true := by decide

theorem epubOk_of {T : S2T.HtmlSkip.Tables} {B : List (List Char)} (h : EpubTablesOk T B = true) : EpubOk T B := by
  simp only [EpubTablesOk, Bool.and_eq_true, List.all_eq_true, Bool.not_eq_true'] at h
  obtain ⟨⟨⟨⟨h1, h2⟩, h3⟩, h4⟩, h5⟩ := h
  exact ⟨fun t ht => h1 t ht, fun t ht => h2 t ht, h3, h4, by simpa [List.isEmpty_iff] using h5⟩

/-- `chapter.text` of the chapter document whose handler calls are `chapterEvs T c` -/
def chapterText (T : S2T.HtmlSkip.Tables) (B : List (List Char)) (ws : Char → Bool) (c : Chapter) : List Char :=
  S2T.C02.Ooxml.Html.Epub.getText ws (run T (D B) (init S2T.HtmlSkip.Epub.initState) (chapterEvs T c)).down.textParts

section
variable {T : S2T.HtmlSkip.Tables} {B : List (List Char)} {ws : Char → Bool}
  (hT : EpubTablesOk T B = true) (hsp : ws ' ' = true) (htab : ws '\t' = true) (hnl : ws '\n' = true)
include hT hsp htab hnl

/-- **EPUB chapter.**  For every chapter (title, any blocks, inline elements in any nesting, `<br/>`, removed elements -
    void or not - with hidden text, nested same-name elements and other elements inside): the words of `chapter.text`
    are, block by block, the words of the visible inline text: order and multiplicity kept, blocks and line breaks
    separated, the title, the hidden text of removed elements and their markup absent. -/
theorem epub_chapter_words (c : Chapter) : words ws (chapterText T B ws c) = chapterWords ws c := by
  unfold chapterText
  rw [getText_words hsp htab hnl, run_chapter (epubOk_of hT), words_blocks hnl]
  rfl

/-- **EPUB spine order.**  `get_full_text()` = `_join_unit_text(chapters)`: the chapters' words in spine order, never
    glued across a chapter boundary. -/
theorem epub_full_text_words (cs : List Chapter) :
    words ws (S2T.C02.Ooxml.strip ws (S2T.C02.Ooxml.join ['\n'] (cs.map (chapterText T B ws))))
      = cs.flatMap (chapterWords ws) := by
  rw [S2T.C02.Ooxml.words_strip ws (fun _ h => h),
    S2T.C02.Ooxml.words_join ['\n'] (by simp) (by intro c hc; simp at hc; subst hc; exact hnl), List.flatMap_map]
  exact flatMap_congr' _ (fun c _ => epub_chapter_words hT hsp htab hnl c)

/-- hidden text never reaches the chapter text -/
theorem epub_hidden_absent (c : Chapter) (t : List Char) (hx : t ∉ chapterWords ws c) :
    t ∉ words ws (chapterText T B ws c) := by
  rw [epub_chapter_words hT hsp htab hnl]; exact hx

end

theorem epub_chapter_words_current (c : Chapter) :
    words S2T.Gen.Ooxml.isPySpace (chapterText S2T.Gen.HtmlSkip.epubTables S2T.Gen.HtmlSkip.epubBlock S2T.Gen.Ooxml.isPySpace c)
      = chapterWords S2T.Gen.Ooxml.isPySpace c :=
  epub_chapter_words gen_epub_tables_ok gen_ws_ok.1 gen_ws_ok.2.1 gen_ws_ok.2.2 c

def exChapter : Chapter :=
  { title := "T0".toList,
    blocks := [ ⟨0, [.el 0 [.text "A1".toList], .text " B2 ".toList, .removed 5 [.text "HID1".toList],
                     .text " C3".toList, .removed 4 [.same "HID2".toList, .other 1 "HID3".toList, .text "x".toList], .br,
                     .text "D4".toList, .removed 1 []]⟩,
                ⟨2, [.text "E5".toList]⟩ ] }

example : chapterText S2T.Gen.HtmlSkip.epubTables S2T.Gen.HtmlSkip.epubBlock S2T.Gen.Ooxml.isPySpace exChapter
    = "A1 B2 C3\n\nD4\n\nE5".toList := by decide +kernel

/-- OPEN finding `epub.nested-table-outer-rows-lost` on the machine: a table nested in a cell - the outer cell text
    before it (`OUT1`) is in neither `text_parts` nor `tables`, the rest of the outer row spills into the text.
    (The chapters of `epub_chapter_words` contain no tables: table cells are reported through `chapter.tables`.) -/
theorem epub_nested_table_outer_cell_lost :
    let s := fun (x : String) => x.toList
    let evs : List Ev := [.start (s "table") [], .start (s "tr") [], .start (s "td") [], .data (s "OUT1"),
      .start (s "table") [], .start (s "tr") [], .start (s "td") [], .data (s "IN1"), .end_ (s "td"), .end_ (s "tr"),
      .end_ (s "table"), .end_ (s "td"), .start (s "td") [], .data (s "OUT2"), .end_ (s "td"), .end_ (s "tr"),
      .end_ (s "table")]
    let fin := (run S2T.Gen.HtmlSkip.epubTables (D S2T.Gen.HtmlSkip.epubBlock) (init S2T.HtmlSkip.Epub.initState) evs).down
    S2T.C02.Ooxml.Html.Epub.getText S2T.Gen.Ooxml.isPySpace fin.textParts = s "OUT2" ∧ fin.tables = [[[s "IN1"]]] := by
  decide +kernel

end EpubSec

end S2T.C02.Sheets
