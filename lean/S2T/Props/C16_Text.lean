import S2T.Model.MailText
import S2T.Lemmas.Mail
import S2T.Gen.Mail
import S2T.Gen.Router
/-!
# C16 (part) — decoded texts are returned code point by code point, white space included

* the subject / plain body lose white space at their two ENDS only (`str.strip`), every interior character —
  runs of blanks, tabs, U+00A0, U+3000, C1 controls — stays (`C16_strip_interior_exact`);
* a header value changes by unfolding only, and unfolding a folded value gives back exactly the text that was
  folded (`C16_unfold_exact`), for LF and CRLF;
* a single-byte charset decodes byte by byte through the codec's own table: what was encoded comes back
  (`C16_decode_roundtrip`), ISO-8859-1 is the identity on 0..255 — C1 controls included (`C16_latin1_identity`).
The source facts these rest on (statements of `__post_init__`, the two folding patterns, the subject expressions,
every `.decode(` site with its codec argument, the white space set, the codec tables) are generated from the
current tree and re-decided here.
-/
namespace S2T.C16.Text
open S2T.Mail S2T.MailText
open S2T.Router (Str)

/-! ## Tie to the current source -/

/-- `EmailContent.__post_init__` consists of exactly `self.subject = self.subject.strip()` and
    `self.body_plain = self.body_plain.strip()` -/
theorem gen_post_init : S2T.Gen.Mail.postInit =
    ["self.subject = self.subject.strip()", "self.body_plain = self.body_plain.strip()"] := by decide

/-- `str.isspace` of the running interpreter is `isPyWs` -/
theorem gen_whitespace : S2T.Gen.Mail.pyWhitespace = pyWsList := by decide

/-- both extractors unfold with the pattern `unfold` models, and the Subject goes through exactly these expressions -/
theorem gen_unfold : S2T.Gen.Mail.foldingPatterns = [("mbox", "\\r?\\n(?=[ \\t])", 32), ("eml", "\\r?\\n(?=[ \\t])", 32)] ∧
    S2T.Gen.Mail.subjectExprs = [("mbox", "decode_header_value(message.get('Subject'))"),
                                 ("eml", "HEADER_FOLDING_PATTERN.sub('', mail.subject or '')")] ∧
    S2T.Gen.Mail.unfoldProbe = (unfold "a\n b\r\n\tc\nd\r\n e \r \n".toList).map Char.toNat := by decide

/-- every `.decode(` of the mbox extractor decodes with a variable `charset` or with UTF-8 (the fallback), replacing
    undecodable bytes; and `charset` is only ever bound to the declared charset or `"utf-8"` — no alias table, no
    re-labelling between the declaration and the codec (where the calls sit, and how many there are, is free) -/
theorem gen_decode_sites :
    S2T.Gen.Mail.decodeSites = [("'utf-8'", "replace"), ("charset", "replace")] ∧
    S2T.Gen.Mail.charsetBindings.all (fun v =>
      ["charset or 'utf-8'", "part.get_content_charset() or 'utf-8'",
       "message.get_content_charset() or 'utf-8'"].contains v) = true ∧
    S2T.Gen.Mail.charsetBindings ≠ [] := by decide

/-! ## `str.strip`: the ends only -/

private theorem dropWhile_all {p : Char → Bool} (pre r : Str) (h : ∀ c ∈ pre, p c = true) :
    (pre ++ r).dropWhile p = r.dropWhile p := by
  induction pre with
  | nil => rfl
  | cons a t ih =>
    have ha : p a = true := h a (by simp)
    simp [List.dropWhile, ha]
    exact ih (fun c hc => h c (by simp [hc]))

private theorem dropWhile_all_nil {p : Char → Bool} (l : Str) (h : ∀ c ∈ l, p c = true) : l.dropWhile p = [] := by
  have := dropWhile_all (p := p) l [] h
  simpa using this

private theorem dropWhile_head {p : Char → Bool} (l : Str) (h : ∀ c, l.head? = some c → p c = false) :
    l.dropWhile p = l := by
  cases l with
  | nil => rfl
  | cons a t => simp [List.dropWhile, h a rfl]

/-- **C16 (subject, plain body).** `strip` removes the white space before the first and after the last
    non-white-space character and nothing else: for EVERY text `core` that does not begin or end with white space —
    whatever it contains in its interior (runs of blanks, tabs, U+00A0, U+3000, U+0085 …) — and every white space
    `pre`/`suf` around it, the result is `core`, character by character. -/
theorem C16_strip_interior_exact (pre core suf : Str)
    (hp : ∀ c ∈ pre, isPyWs c = true) (hs : ∀ c ∈ suf, isPyWs c = true)
    (hh : ∀ c, core.head? = some c → isPyWs c = false)
    (hl : ∀ c, core.getLast? = some c → isPyWs c = false) :
    pyStrip (pre ++ core ++ suf) = core := by
  unfold pyStrip lstrip rstrip
  rw [List.append_assoc, dropWhile_all pre _ hp]
  cases core with
  | nil =>
    simp only [List.nil_append]
    rw [dropWhile_all_nil suf hs]; rfl
  | cons a t =>
    rw [dropWhile_head ((a :: t) ++ suf) (fun c hc => hh c (by simpa using hc))]
    rw [List.reverse_append, dropWhile_all suf.reverse _ (fun c hc => hs c (by simpa using hc))]
    rw [dropWhile_head (a :: t).reverse (fun c hc => hl c (by rw [← List.head?_reverse]; exact hc))]
    simp

/-- the subject comes back unchanged when it has no white space at its ends -/
theorem C16_strip_exact (s : Str) (hh : ∀ c, s.head? = some c → isPyWs c = false)
    (hl : ∀ c, s.getLast? = some c → isPyWs c = false) : pyStrip s = s := by
  simpa using C16_strip_interior_exact [] s [] (by simp) (by simp) hh hl

/-! ## header unfolding -/

/-- a header value written on several lines: the pieces joined by the line break `br` -/
def foldJoin (br : Str) : List Str → Str
  | [] => []
  | [a] => a
  | a :: b :: r => a ++ br ++ foldJoin br (b :: r)

/-- no line-break character inside a piece -/
def noBreak (s : Str) : Prop := ∀ c ∈ s, c ≠ '\n' ∧ c ≠ '\r'
instance (s : Str) : Decidable (noBreak s) := inferInstanceAs (Decidable (∀ c ∈ s, c ≠ '\n' ∧ c ≠ '\r'))

private theorem unfold_piece (s r : Str) (h : noBreak s) : unfold (s ++ r) = s ++ unfold r := by
  induction s with
  | nil => rfl
  | cons a t ih =>
    have ha := h a (by simp)
    have h1 : (a == '\n') = false := by simp [ha.1]
    have h2 : (a == '\r') = false := by simp [ha.2]
    simp only [List.cons_append, unfold, h1, h2, Bool.false_and, Bool.or_self]
    simp [ih (fun c hc => h c (by simp [hc]))]

private theorem unfold_lf (r : Str) (h : startsWsp r = true) : unfold ('\n' :: r) = unfold r := by
  simp [unfold, h]

private theorem unfold_crlf (r : Str) (h : startsWsp r = true) : unfold ('\r' :: '\n' :: r) = unfold r := by
  cases r with
  | nil => simp [startsWsp] at h
  | cons w t =>
    have hw : isWsp w = true := h
    have : crlfWsp ('\n' :: w :: t) = true := hw
    rw [unfold]
    simp only [this, Bool.and_true, beq_self_eq_true, Bool.or_true, if_true]
    exact unfold_lf (w :: t) h

private theorem foldJoin_starts (br : Str) (b : Str) (r : List Str) (h : startsWsp b = true) :
    startsWsp (foldJoin br (b :: r)) = true := by
  cases b with
  | nil => simp [startsWsp] at h
  | cons w t => cases r <;> simpa [foldJoin, startsWsp] using h

/-- **C16 (header unfolding).** For every header text cut into pieces without line breaks, every piece after
    the first beginning with the blank or tab it was folded before, and either line break: unfolding the folded
    value gives back exactly the concatenation of the pieces — no white space is added, dropped or merged. -/
theorem C16_unfold_exact (br : Str) (hbr : br = ['\n'] ∨ br = ['\r', '\n']) (segs : List Str)
    (hn : ∀ s ∈ segs, noBreak s) (hw : ∀ s ∈ segs.tail, startsWsp s = true) :
    unfold (foldJoin br segs) = segs.flatten := by
  induction segs with
  | nil => rfl
  | cons a rest ih =>
    cases rest with
    | nil => simpa [foldJoin, unfold] using unfold_piece a [] (hn a (by simp))
    | cons b r =>
      have hb : startsWsp b = true := hw b (by simp)
      have hst := foldJoin_starts br b r hb
      have ih' := ih (fun s hs => hn s (by simp [hs])) (fun s hs => hw s (List.mem_cons_of_mem b hs))
      simp only [foldJoin, List.append_assoc, List.flatten_cons]
      rw [unfold_piece a _ (hn a (by simp))]
      rcases hbr with rfl | rfl
      · simp only [List.cons_append, List.nil_append]
        rw [unfold_lf _ hst, ih']; simp
      · simp only [List.cons_append, List.nil_append]
        rw [unfold_crlf _ hst, ih']; simp

/-- a value without line breaks is not touched by unfolding -/
theorem C16_unfold_id (s : Str) (h : noBreak s) : unfold s = s := by
  simpa [unfold] using unfold_piece s [] h

/-! ## single-byte charsets: byte by byte through the codec's table -/

private theorem getD_idxOf (T : List Nat) (c d : Nat) (h : c ∈ T) : T[T.idxOf c]?.getD d = c := by
  induction T with
  | nil => simp at h
  | cons a t ih =>
    by_cases hac : a = c
    · subst hac; simp [List.idxOf_cons]
    · have : c ∈ t := by simpa [Ne.symm hac] using h
      have hca : (a == c) = false := by simp [hac]
      simpa [List.idxOf_cons, hca] using ih this

/-- **C16 (any charset, single-byte).** Whatever table a codec has: every text over its repertoire, encoded with
    it, decodes back to the same code points — for every part of the repertoire alike. -/
theorem C16_decode_roundtrip (T : List Nat) (cps : List Nat) (h : ∀ c ∈ cps, c ∈ T) :
    decodeTable T (encodeTable T cps) = cps := by
  induction cps with
  | nil => rfl
  | cons a t ih =>
    simp only [decodeTable, encodeTable, List.map_cons, List.map_map] at *
    rw [List.getD_eq_getElem?_getD, getD_idxOf T a _ (h a (by simp))]
    congr 1
    exact ih (fun c hc => h c (by simp [hc]))

/-- **C16 (ISO-8859-1).** Decoding ISO-8859-1 is the identity on byte values: byte 0x80..0x9F is the C1 control
    U+0080..U+009F, not a Windows-1252 character. -/
theorem C16_latin1_identity (bs : Bytes) (h : ∀ b ∈ bs, b < 256) : decodeTable (List.range 256) bs = bs := by
  induction bs with
  | nil => rfl
  | cons a t ih =>
    have ha : a < 256 := h a (by simp)
    simp only [decodeTable, List.map_cons] at *
    rw [ih (fun b hb => h b (by simp [hb]))]
    simp [List.getD, ha]

/-- the running codecs: iso-8859-1 is the identity table, us-ascii its lower half, and Windows-1252 differs from
    ISO-8859-1 exactly on 0x80..0x9F (so only characters from that part tell the two apart) -/
theorem gen_codecs :
    S2T.Gen.Mail.codecTables.lookup "iso-8859-1" = some (List.range 256) ∧
    S2T.Gen.Mail.codecTables.lookup "us-ascii" = some (List.range 128 ++ List.replicate 128 0xFFFD) ∧
    ((S2T.Gen.Mail.codecTables.lookup "windows-1252").map (fun t => (List.range 256).filter (fun b => t.getD b 0 != b)))
      = some ((List.range 32).map (· + 128)) := by
  decide +kernel

/-! ## `.eml`: the subject is mailparser's subject, unfolded and stripped at its ends -/

/-
  Full-strength statement for `.eml` texts: the subject (names, bodies) returned are the code points that were
  sent.  mailparser hands every string over in Unicode normalisation form C (open known finding
  `eml.nfc-normalised-text`), so the statement holds only with the excluding hypothesis "mailparser reports the
  text that was sent"; what is proved is that the extractor itself changes nothing but folds and the two ends.
-/
/-- **C16 (eml subject) — partial.** If mailparser reports the subject that was sent (`m.subject = folded`, the
    wire text folded anywhere before white space) the returned subject is that text, character by character. -/
theorem C16_eml_subject_partial (T : S2T.Router.Tables) (m : Mp) (r : EmlResult) (h : emlContent T m = .ok r)
    (br : Str) (hbr : br = ['\n'] ∨ br = ['\r', '\n']) (segs : List Str)
    (hn : ∀ s ∈ segs, noBreak s) (hw : ∀ s ∈ segs.tail, startsWsp s = true)
    (hm : m.subject = foldJoin br segs)
    (hh : ∀ c, segs.flatten.head? = some c → isPyWs c = false)
    (hl : ∀ c, segs.flatten.getLast? = some c → isPyWs c = false) :
    r.subject = segs.flatten := by
  unfold emlContent at h
  cases hr : readEml T m with
  | error e => simp [hr, Except.map] at h
  | ok r0 =>
    obtain ⟨f, to, _, rfl⟩ := S2T.Mail.readEml_ok T m r0 hr
    simp only [hr, Except.map, Except.ok.injEq] at h
    subst h
    simp only [postInit, hm, C16_unfold_exact br hbr segs hn hw]
    exact C16_strip_exact _ hh hl

/-- counterexample: for a Subject carrying U+F966 mailparser reports U+5FA9 (its NFC form); the result is not
    the subject that was sent -/
theorem C16_eml_nfc_counterexample :
    let m : Mp := { from_ := [["".toList, "a@b.c".toList]], to := [], cc := [], bcc := [], replyTo := [],
                    subject := [Char.ofNat 0x5FA9], textPlain := [], textHtml := [], attachments := [] }
    ∃ r, emlContent S2T.Gen.Router.tables m = .ok r ∧ r.subject = [Char.ofNat 0x5FA9] ∧
      r.subject ≠ [Char.ofNat 0xF966] := by
  refine ⟨_, rfl, by decide, by decide⟩

/-! ## Non-vacuity -/
example : pyStrip " \t a  b\tc d　e \n".toList = "a  b\tc d　e".toList := by decide
example : unfold "alpha  beta\n \tgamma\r\n  delta".toList = "alpha  beta \tgamma  delta".toList := by decide
example : foldJoin ['\n'] ["a  b".toList, " \tc".toList] = "a  b\n \tc".toList := by decide
example : noBreak "a  b".toList := by decide
example : decodeTable (List.range 256) [0x41, 0x85, 0x93, 0xA0] = [0x41, 0x85, 0x93, 0xA0] := by decide

end S2T.C16.Text
