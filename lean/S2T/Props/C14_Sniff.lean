import S2T.Model.Images
import S2T.Gen.Images
/-!
# C14 (part 3) — "its pixel size when the file declares one"

For **every** width and height in the range of the format's header fields and **every** continuation of the
file, the dimension sniffers return the declared pixel size: PNG (IHDR), GIF (logical screen), BMP (info
header, bottom-up or top-down), JPEG (first start-of-frame segment after any sequence of well-formed
non-frame segments).  The three copies of `_get_image_pixel_dimensions` are one function.
-/
namespace S2T.C14.Sniff
open S2T.Images

/-! ## byte encodings of the header fields (the format layouts) -/

def be16 (v : Nat) : Bytes := [v / 256 % 256, v % 256]
def be32 (v : Nat) : Bytes := [v / 16777216 % 256, v / 65536 % 256, v / 256 % 256, v % 256]
def le16 (v : Nat) : Bytes := [v % 256, v / 256 % 256]
def le32 (v : Nat) : Bytes := [v % 256, v / 256 % 256, v / 65536 % 256, v / 16777216 % 256]

/-- PNG: signature, IHDR chunk length + type (any 8 bytes are accepted there by the sniffer), width, height -/
def pngHeader (m : Bytes) (w h : Nat) : Bytes := pngSig ++ m ++ be32 w ++ be32 h
/-- GIF: `GIF87a` / `GIF89a`, logical screen width and height -/
def gifHeader (sig : Bytes) (w h : Nat) : Bytes := sig ++ le16 w ++ le16 h
/-- BMP: `BM`, 16 bytes (file size, reserved, data offset, header size), width, height field (two's complement) -/
def bmpHeader (m : Bytes) (w hField : Nat) : Bytes := [0x42, 0x4D] ++ m ++ le32 w ++ le32 hField

/-- a JPEG marker segment: FF, marker, 2-byte length (counting itself), payload -/
structure Seg where
  marker : Nat
  payload : Bytes

def Seg.enc (s : Seg) : Bytes := 0xFF :: s.marker :: be16 (s.payload.length + 2) ++ s.payload

/-- a segment the walk must step over: not a frame header, not EOI/SOS, representable length -/
def Seg.skippable (sof stop : List Nat) (s : Seg) : Prop :=
  sof.contains s.marker = false ∧ stop.contains s.marker = false ∧ s.payload.length + 2 < 65536

/-- start-of-frame segment: precision, height, width, then component data `tail` -/
def sofSeg (m p w h : Nat) (tail : Bytes) : Bytes :=
  0xFF :: m :: be16 (7 + tail.length) ++ p :: be16 h ++ be16 w ++ tail

/-! ## PNG / GIF / BMP -/

theorem beInt_be32 (v : Nat) (hv : v < 4294967296) : beInt (be32 v) = v := by
  simp only [beInt, be32, List.foldl]; omega
theorem beInt_be16 (v : Nat) (hv : v < 65536) : beInt (be16 v) = v := by
  simp only [beInt, be16, List.foldl]; omega
theorem leInt_le16 (v : Nat) (hv : v < 65536) : leInt (le16 v) = v := by
  simp only [leInt, le16]; omega
theorem leInt_le32 (v : Nat) (hv : v < 4294967296) : leInt (le32 v) = v := by
  simp only [leInt, le32]; omega

/-- **PNG**: any file that starts with a PNG header declaring w × h is reported as w × h (0 ↦ None) -/
theorem sniff_png (scan : Bytes → Option Nat × Option Nat) (m0 m1 m2 m3 m4 m5 m6 m7 w h : Nat) (rest : Bytes)
    (hw : w < 4294967296) (hh : h < 4294967296) :
    sniffWith scan (pngHeader [m0, m1, m2, m3, m4, m5, m6, m7] w h ++ rest) = (orNone w, orNone h) := by
  have e1 : slice (pngHeader [m0, m1, m2, m3, m4, m5, m6, m7] w h ++ rest) 16 20 = be32 w := by
    simp [slice, pngHeader, pngSig, be32]
  have e2 : slice (pngHeader [m0, m1, m2, m3, m4, m5, m6, m7] w h ++ rest) 20 24 = be32 h := by
    simp [slice, pngHeader, pngSig, be32]
  have e3 : pngSig.isPrefixOf (pngHeader [m0, m1, m2, m3, m4, m5, m6, m7] w h ++ rest) = true := by
    simp [pngHeader, pngSig, List.isPrefixOf]
  have e4 : 24 ≤ (pngHeader [m0, m1, m2, m3, m4, m5, m6, m7] w h ++ rest).length := by
    simp [pngHeader, pngSig, be32]
  have e5 : pngHeader [m0, m1, m2, m3, m4, m5, m6, m7] w h ++ rest ≠ [] := by
    simp [pngHeader, pngSig]
  unfold sniffWith
  rw [if_neg e5, if_pos ⟨e3, e4⟩, e1, e2, beInt_be32 w hw, beInt_be32 h hh]

/-- **GIF** (both signatures) -/
theorem sniff_gif (scan : Bytes → Option Nat × Option Nat) (sig : Bytes) (hs : sig = gif87 ∨ sig = gif89) (w h : Nat) (rest : Bytes)
    (hw : w < 65536) (hh : h < 65536) :
    sniffWith scan (gifHeader sig w h ++ rest) = (orNone w, orNone h) := by
  have e1 : slice (gifHeader sig w h ++ rest) 6 8 = le16 w := by
    rcases hs with rfl | rfl <;> simp [slice, gifHeader, gif87, gif89, le16]
  have e2 : slice (gifHeader sig w h ++ rest) 8 10 = le16 h := by
    rcases hs with rfl | rfl <;> simp [slice, gifHeader, gif87, gif89, le16]
  have e3 : (gifHeader sig w h ++ rest).take 6 = sig := by
    rcases hs with rfl | rfl <;> simp [gifHeader, gif87, gif89, le16]
  have e4 : 10 ≤ (gifHeader sig w h ++ rest).length := by
    rcases hs with rfl | rfl <;> simp [gifHeader, gif87, gif89, le16]
  have e5 : gifHeader sig w h ++ rest ≠ [] := by
    rcases hs with rfl | rfl <;> simp [gifHeader, gif87, gif89]
  have e6 : ¬ (pngSig.isPrefixOf (gifHeader sig w h ++ rest) = true ∧ 24 ≤ (gifHeader sig w h ++ rest).length) := by
    rcases hs with rfl | rfl <;> simp [gifHeader, gif87, gif89, pngSig, List.isPrefixOf]
  unfold sniffWith
  rw [if_neg e5, if_neg e6, e3, if_pos ⟨hs, e4⟩, e1, e2, leInt_le16 w hw, leInt_le16 h hh]

/-- the height field of a BMP: `h` for a bottom-up bitmap, `2^32 - h` (two's complement of -h) for a top-down one -/
def bmpHeightField (h : Nat) (topDown : Bool) : Nat := if topDown ∧ h ≠ 0 then 4294967296 - h else h

/-- **BMP**, bottom-up and top-down -/
theorem sniff_bmp (scan : Bytes → Option Nat × Option Nat)
    (m0 m1 m2 m3 m4 m5 m6 m7 m8 m9 m10 m11 m12 m13 m14 m15 w h : Nat) (topDown : Bool) (rest : Bytes)
    (hw : w < 2147483648) (hh : h < 2147483648) :
    sniffWith scan (bmpHeader [m0, m1, m2, m3, m4, m5, m6, m7, m8, m9, m10, m11, m12, m13, m14, m15] w (bmpHeightField h topDown) ++ rest)
      = (orNone w, orNone h) := by
  generalize hm : [m0, m1, m2, m3, m4, m5, m6, m7, m8, m9, m10, m11, m12, m13, m14, m15] = m
  have e1 : slice (bmpHeader m w (bmpHeightField h topDown) ++ rest) 18 22 = le32 w := by
    subst hm; simp [slice, bmpHeader, le32]
  have e2 : slice (bmpHeader m w (bmpHeightField h topDown) ++ rest) 22 26 = le32 (bmpHeightField h topDown) := by
    subst hm; simp [slice, bmpHeader, le32]
  have e3 : (bmpHeader m w (bmpHeightField h topDown) ++ rest).take 2 = [0x42, 0x4D] := by
    simp [bmpHeader]
  have e4 : 26 ≤ (bmpHeader m w (bmpHeightField h topDown) ++ rest).length := by
    subst hm; simp [bmpHeader, le32]
  have e5 : bmpHeader m w (bmpHeightField h topDown) ++ rest ≠ [] := by simp [bmpHeader]
  have e6 : ¬ (pngSig.isPrefixOf (bmpHeader m w (bmpHeightField h topDown) ++ rest) = true ∧ 24 ≤ (bmpHeader m w (bmpHeightField h topDown) ++ rest).length) := by
    simp [bmpHeader, pngSig, List.isPrefixOf]
  have e7 : ¬ (((bmpHeader m w (bmpHeightField h topDown) ++ rest).take 6 = gif87 ∨ (bmpHeader m w (bmpHeightField h topDown) ++ rest).take 6 = gif89)
      ∧ 10 ≤ (bmpHeader m w (bmpHeightField h topDown) ++ rest).length) := by
    subst hm; simp [bmpHeader, gif87, gif89]
  have hf : bmpHeightField h topDown < 4294967296 := by unfold bmpHeightField; split <;> omega
  have ha : absSigned32 (bmpHeightField h topDown) = h := by
    unfold absSigned32 bmpHeightField
    by_cases hc : topDown = true ∧ h ≠ 0
    · rw [if_pos hc]; have := hc.2; split <;> omega
    · rw [if_neg hc]; split <;> omega
  have hwa : absSigned32 w = w := by unfold absSigned32; simp [hw]
  unfold sniffWith
  rw [if_neg e5, if_neg e6, if_neg e7, e3, if_pos ⟨rfl, e4⟩, e1, e2, leInt_le32 w (by omega), leInt_le32 _ hf, ha, hwa]

/-! ## JPEG -/

theorem be16_hi_lo (v : Nat) (hv : v < 65536) : (v / 256 % 256) * 256 + v % 256 = v := by omega

/-- the walk steps over a skippable segment -/
theorem jpegScanA_skip (sof stop : List Nat) (s : Seg) (hs : s.skippable sof stop) (l : Bytes) :
    jpegScanA sof stop (s.enc ++ l) = jpegScanA sof stop l := by
  obtain ⟨h1, h2, h3⟩ := hs
  have hlen : (s.payload.length + 2) / 256 % 256 * 256 + (s.payload.length + 2) % 256 = s.payload.length + 2 :=
    be16_hi_lo _ h3
  simp only [Seg.enc, be16, List.cons_append, List.nil_append]
  rw [jpegScanA]
  rw [if_neg (by decide), if_neg (by rw [h2]; exact Bool.false_ne_true)]
  simp only [hlen]
  rw [if_neg (by omega), if_neg (by rw [h1]; simp)]
  congr 1
  rw [show 2 + (s.payload.length + 2) = (s.payload.length + 4) by omega]
  simp

theorem jpegScanA_skips (sof stop : List Nat) (segs : List Seg) (hs : ∀ s ∈ segs, s.skippable sof stop) (l : Bytes) :
    jpegScanA sof stop (segs.flatMap Seg.enc ++ l) = jpegScanA sof stop l := by
  induction segs with
  | nil => simp
  | cons s r ih =>
    simp only [List.flatMap_cons, List.append_assoc]
    rw [jpegScanA_skip sof stop s (hs s (by simp)), ih (fun x hx => hs x (by simp [hx]))]

/-- the walk answers at a complete start-of-frame segment -/
theorem jpegScanA_sof (sof stop : List Nat) (m p w h : Nat) (tail rest : Bytes)
    (hm : sof.contains m = true) (hst : stop.contains m = false) (hl : 7 + tail.length < 65536)
    (hw : w < 65536) (hh : h < 65536) :
    jpegScanA sof stop (sofSeg m p w h tail ++ rest) = (orNone w, orNone h) := by
  have hlen : (7 + tail.length) / 256 % 256 * 256 + (7 + tail.length) % 256 = 7 + tail.length := be16_hi_lo _ hl
  simp only [sofSeg, be16, List.cons_append, List.nil_append]
  rw [jpegScanA]
  rw [if_neg (by decide), if_neg (by rw [hst]; exact Bool.false_ne_true)]
  simp only [hlen]
  rw [if_neg (by omega), if_pos ⟨hm, by simp only [List.length_cons, List.length_append]; omega⟩]
  simp only [slice, List.drop_succ_cons, List.drop_zero, List.take_succ_cons, List.take_zero, beInt, List.foldl,
    show 9 - 7 = 2 from rfl]
  simp only [Nat.zero_mul, Nat.zero_add]
  rw [be16_hi_lo w hw, be16_hi_lo h hh]

/-- **JPEG**: SOI, any number of well-formed non-frame segments (APPn, DQT, DHT, COM, …), then the frame header
    declaring w × h: reported as w × h, whatever follows -/
theorem sniff_jpeg (sof stop : List Nat) (segs : List Seg) (hs : ∀ s ∈ segs, s.skippable sof stop)
    (m p w h : Nat) (tail rest : Bytes)
    (hm : sof.contains m = true) (hst : stop.contains m = false) (hl : 7 + tail.length < 65536)
    (hw : w < 65536) (hh : h < 65536) :
    sniffA sof stop ([0xFF, 0xD8] ++ segs.flatMap Seg.enc ++ sofSeg m p w h tail ++ rest) = (orNone w, orNone h) := by
  unfold sniffA sniffWith
  simp only [List.cons_append, List.nil_append, ne_eq, reduceCtorEq, not_false_eq_true, if_false]
  rw [if_neg (by simp [pngSig, List.isPrefixOf]), if_neg (by simp [gif87, gif89]), if_neg (by simp), if_pos (by simp [List.isPrefixOf])]
  simp only [List.drop_succ_cons, List.drop_zero, List.append_assoc]
  rw [jpegScanA_skips sof stop segs hs, jpegScanA_sof sof stop m p w h tail rest hm hst hl hw hh]

/-- the hypotheses are met by the generated tables and an ordinary JFIF prefix (APP0, DQT, DHT before SOF0) -/
example : (∀ s ∈ [Seg.mk 0xE0 [74, 70, 73, 70, 0], Seg.mk 0xDB [0, 1, 2], Seg.mk 0xC4 [0]],
      s.skippable S2T.Gen.Images.sof_docx S2T.Gen.Images.stop_docx)
    ∧ S2T.Gen.Images.sof_docx.contains 0xC0 = true ∧ S2T.Gen.Images.stop_docx.contains 0xC0 = false := by
  refine ⟨?_, by decide, by decide⟩
  intro s hs
  simp at hs
  rcases hs with rfl | rfl | rfl <;> exact ⟨by decide, by decide, by decide⟩

/-! ## the copies are one function -/

theorem jpegScanA_short (sof stop : List Nat) (l : Bytes) (h : l.length < 4) : jpegScanA sof stop l = (none, none) := by
  match l, h with
  | [], _ => rw [jpegScanA]; simp
  | [_], _ => rw [jpegScanA]; simp
  | [_, _], _ => rw [jpegScanA]; simp
  | [_, _, _], _ => rw [jpegScanA]; simp
  | _ :: _ :: _ :: _ :: _, h => simp at h; omega

theorem jpegScanB_short (sof stop : List Nat) (l : Bytes) (h : l.length < 4) : jpegScanB sof stop l = (none, none) := by
  match l, h with
  | [], _ => rw [jpegScanB]; simp
  | [_], _ => rw [jpegScanB]; simp
  | [_, _], _ => rw [jpegScanB]; simp
  | [_, _, _], _ => rw [jpegScanB]; simp
  | _ :: _ :: _ :: _ :: _, h => simp at h; omega

/-- the pptx copy (a cut-short frame segment ends the walk) and the docx/xlsx copy (it is stepped over, which leaves
    fewer than four bytes) return the same answer on every byte string -/
theorem jpegScanB_eq_A (sof stop : List Nat) (l : Bytes) : jpegScanB sof stop l = jpegScanA sof stop l := by
  generalize hn : l.length = n
  induction n using Nat.strongRecOn generalizing l with
  | _ n ih =>
    match l, hn with
    | [], _ => rw [jpegScanA_short _ _ _ (by simp), jpegScanB_short _ _ _ (by simp)]
    | [_], _ => rw [jpegScanA_short _ _ _ (by simp), jpegScanB_short _ _ _ (by simp)]
    | [_, _], _ => rw [jpegScanA_short _ _ _ (by simp), jpegScanB_short _ _ _ (by simp)]
    | [_, _, _], _ => rw [jpegScanA_short _ _ _ (by simp), jpegScanB_short _ _ _ (by simp)]
    | b0 :: b1 :: b2 :: b3 :: rest, hn =>
      rw [jpegScanB, jpegScanA]
      simp only
      split
      · exact ih _ (by simp at hn ⊢; omega) _ rfl
      · split
        · rfl
        · split
          · rfl
          · rename_i hlen
            by_cases hsof : sof.contains b1 = true
            · simp only [hsof, true_and, if_true]
              split
              · rfl
              · rename_i hcut
                rw [jpegScanA_short]
                simp only [List.length_drop]
                omega
            · simp only [hsof, false_and, if_false, Bool.false_eq_true]
              exact ih _ (by simp at hn ⊢; omega) _ rfl

/-- **C14_dims (copies)**: `_get_image_pixel_dimensions` of pptx = of docx = of xlsx, on every input -/
theorem sniffB_eq_sniffA (sof stop : List Nat) (d : Bytes) : sniffB sof stop d = sniffA sof stop d := by
  unfold sniffB sniffA sniffWith
  simp only [jpegScanB_eq_A]

/-- the marker tables of the four sniffers — read off the behaviour of the current functions by the translator
    (a marker is a frame marker when a segment carrying it is answered with its size, a stop marker when the walk
    ends there) — are the same set, and it is the set of JPEG start-of-frame markers (C0–CF without DHT C4, JPG C8,
    DAC CC); the stop markers of the three extractor copies are EOI and SOS -/
theorem gen_marker_tables :
    S2T.Gen.Images.sof_docx = [0xC0, 0xC1, 0xC2, 0xC3, 0xC5, 0xC6, 0xC7, 0xC9, 0xCA, 0xCB, 0xCD, 0xCE, 0xCF]
    ∧ S2T.Gen.Images.sof_xlsx = S2T.Gen.Images.sof_docx ∧ S2T.Gen.Images.sof_pptx = S2T.Gen.Images.sof_docx
    ∧ S2T.Gen.Images.sof_util = S2T.Gen.Images.sof_docx
    ∧ S2T.Gen.Images.stop_docx = [0xD9, 0xDA] ∧ S2T.Gen.Images.stop_xlsx = [0xD9, 0xDA] ∧ S2T.Gen.Images.stop_pptx = [0xD9, 0xDA]
    ∧ S2T.Gen.Images.png_signature = pngSig := by decide

/-- the sniffers of the source, instantiated -/
def sniffDocx := sniffA S2T.Gen.Images.sof_docx S2T.Gen.Images.stop_docx
def sniffXlsx := sniffA S2T.Gen.Images.sof_xlsx S2T.Gen.Images.stop_xlsx
def sniffPptx := sniffB S2T.Gen.Images.sof_pptx S2T.Gen.Images.stop_pptx

theorem C14_dims_copies (d : Bytes) : sniffPptx d = sniffDocx d ∧ sniffXlsx d = sniffDocx d := by
  obtain ⟨_, h2, h3, _, h5, h6, h7, _⟩ := gen_marker_tables
  unfold sniffPptx sniffDocx sniffXlsx
  rw [sniffB_eq_sniffA, h2, h3, h5, h6, h7]
  exact ⟨rfl, rfl⟩

/-- `ImageMetadata` keeps a positive size and turns 0 / None into None -/
theorem metaDim_orNone (v : Nat) : metaDim (orNone v) = orNone v := by
  unfold metaDim orNone; split <;> simp [*]

/-- before fix-09 `XlsxImage.get_metadata` evaluated `self.width > 0` on the `None` the sniffer returns for a file whose
    size it does not know (TIFF, EMF, …): `TypeError` instead of metadata.  Full statement (false then):
    `∀ x, metaDimXlsxOld x = .ok (metaDim x)`. -/
def metaDimXlsxOld : Option Nat → Except String (Option Nat)
  | none => .error "TypeError: '>' not supported between instances of 'NoneType' and 'int'"
  | some v => .ok (orNone v)

theorem xlsx_old_counterexample_unknown_size :
    sniffXlsx [0x49, 0x49, 0x2A, 0x00, 8, 0, 0, 0] = (none, none)
    ∧ ∃ e, metaDimXlsxOld (sniffXlsx [0x49, 0x49, 0x2A, 0x00, 8, 0, 0, 0]).1 = .error e := by
  have h : sniffXlsx [0x49, 0x49, 0x2A, 0x00, 8, 0, 0, 0] = (none, none) := by decide +kernel
  exact ⟨h, by rw [h]; exact ⟨_, rfl⟩⟩

/-- what did hold: pictures whose size the sniffer finds -/
theorem xlsx_old_partial_known_size (v : Nat) : metaDimXlsxOld (some v) = .ok (metaDim (some v)) := rfl

/-! ## `util/image_utils.get_image_dimensions` (legacy formats) -/

theorem util_png (jp : Bytes → Option Nat × Option Nat) (l0 l1 l2 l3 w h : Nat) (rest : Bytes)
    (hw : w < 4294967296) (hh : h < 4294967296) :
    utilDims jp 0 (pngHeader [l0, l1, l2, l3, 0x49, 0x48, 0x44, 0x52] w h ++ rest) = (some (w : Int), some (h : Int)) := by
  have e0 : slice (pngHeader [l0, l1, l2, l3, 0x49, 0x48, 0x44, 0x52] w h ++ rest) 12 16 = [0x49, 0x48, 0x44, 0x52] := by
    simp [slice, pngHeader, pngSig]
  have e1 : slice (pngHeader [l0, l1, l2, l3, 0x49, 0x48, 0x44, 0x52] w h ++ rest) 16 20 = be32 w := by
    simp [slice, pngHeader, pngSig, be32]
  have e2 : slice (pngHeader [l0, l1, l2, l3, 0x49, 0x48, 0x44, 0x52] w h ++ rest) 20 24 = be32 h := by
    simp [slice, pngHeader, pngSig, be32]
  have e4 : 24 ≤ (pngHeader [l0, l1, l2, l3, 0x49, 0x48, 0x44, 0x52] w h ++ rest).length := by
    simp [pngHeader, pngSig, be32]
  unfold utilDims
  rw [if_pos ⟨rfl, e4⟩, e0, if_pos rfl, e1, e2, beInt_be32 w hw, beInt_be32 h hh]

theorem util_gif (jp : Bytes → Option Nat × Option Nat) (sig : Bytes) (hs : sig.length = 6) (w h : Nat) (rest : Bytes)
    (hw : w < 65536) (hh : h < 65536) :
    utilDims jp 3 (gifHeader sig w h ++ rest) = (some (w : Int), some (h : Int)) := by
  match sig, hs with
  | [s0, s1, s2, s3, s4, s5], _ =>
    have e1 : slice (gifHeader [s0, s1, s2, s3, s4, s5] w h ++ rest) 6 8 = le16 w := by simp [slice, gifHeader, le16]
    have e2 : slice (gifHeader [s0, s1, s2, s3, s4, s5] w h ++ rest) 8 10 = le16 h := by simp [slice, gifHeader, le16]
    have e4 : 10 ≤ (gifHeader [s0, s1, s2, s3, s4, s5] w h ++ rest).length := by simp [gifHeader, le16]
    unfold utilDims
    rw [if_neg (by simp), if_neg (by simp), if_neg (by simp), if_pos ⟨rfl, e4⟩, e1, e2, leInt_le16 w hw, leInt_le16 h hh]

theorem util_bmp (jp : Bytes → Option Nat × Option Nat)
    (m0 m1 m2 m3 m4 m5 m6 m7 m8 m9 m10 m11 m12 m13 m14 m15 w h : Nat) (topDown : Bool) (rest : Bytes)
    (hw : w < 2147483648) (hh : h < 2147483648) :
    utilDims jp 2 (bmpHeader [m0, m1, m2, m3, m4, m5, m6, m7, m8, m9, m10, m11, m12, m13, m14, m15] w (bmpHeightField h topDown) ++ rest)
      = (some (w : Int), some (h : Int)) := by
  generalize hm : [m0, m1, m2, m3, m4, m5, m6, m7, m8, m9, m10, m11, m12, m13, m14, m15] = m
  have e1 : slice (bmpHeader m w (bmpHeightField h topDown) ++ rest) 18 22 = le32 w := by
    subst hm; simp [slice, bmpHeader, le32]
  have e2 : slice (bmpHeader m w (bmpHeightField h topDown) ++ rest) 22 26 = le32 (bmpHeightField h topDown) := by
    subst hm; simp [slice, bmpHeader, le32]
  have e3 : (bmpHeader m w (bmpHeightField h topDown) ++ rest).take 2 = [0x42, 0x4D] := by simp [bmpHeader]
  have e4 : 26 ≤ (bmpHeader m w (bmpHeightField h topDown) ++ rest).length := by
    subst hm; simp [bmpHeader, le32]
  have hf : bmpHeightField h topDown < 4294967296 := by unfold bmpHeightField; split <;> omega
  have ha : absSigned32 (bmpHeightField h topDown) = h := by
    unfold absSigned32 bmpHeightField
    by_cases hc : topDown = true ∧ h ≠ 0
    · rw [if_pos hc]; have := hc.2; split <;> omega
    · rw [if_neg hc]; split <;> omega
  unfold utilDims
  rw [if_neg (by simp), if_neg (by simp), if_pos ⟨rfl, e4⟩, e3, if_pos rfl, e1, e2, leInt_le32 w (by omega), leInt_le32 _ hf, ha]
  simp [signed32, hw]

end S2T.C14.Sniff
