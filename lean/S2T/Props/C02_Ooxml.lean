import S2T.Lemmas.OoxmlDocx
import S2T.Lemmas.OoxmlAttrs
import S2T.Lemmas.OoxmlHtml
import S2T.Lemmas.OoxmlPptx
import S2T.Spec.OoxmlDeck
import S2T.Gen.Ooxml
import S2T.Gen.HtmlSkip
/-!
# C02 (part "ooxml") — main-text fidelity for DOCX (and, below, HTML / PPTX / XLSX)

Property statement (fixed): every piece of visible body text appears in `get_full_text()` with the same
multiplicity and the same relative order as in the source, pieces the source separates by a paragraph, cell,
line-break or tab boundary stay separated by whitespace; excluded text never appears; nothing else appears
but documented decoration.

Form of the theorems: for every abstract document `d` (any size, any nesting, arbitrary leaf strings),
`words (text_F (render_F d)) = words (lin d)` where `words` is Python's `str.split()` (maximal runs of
non-whitespace) and `lin` the reference linearisation of the spec (leaves in document order, one blank per
boundary, excluded parts absent).  Equality of the *word sequences* is multiplicity + order + separation
("two pieces the source separates are two words") + exclusion + no invention at once.
-/
namespace S2T.C02.Ooxml
open S2T.Gen.Ooxml

/-! ## Tie to the current source (regenerated every run) -/

theorem gen_notes_empty : notes = [] := by decide

/-- `str.isspace` (generated code points) contains the separators the walkers emit -/
theorem gen_ws_ok : WsOk isPySpace := ⟨by decide, by decide, by decide, by decide⟩

def wns : Str := ['{', 'h', 't', 't', 'p', ':', '/', '/', 's', 'c', 'h', 'e', 'm', 'a', 's', '.', 'o', 'p', 'e', 'n', 'x', 'm', 'l', 'f', 'o', 'r', 'm', 'a', 't', 's', '.', 'o', 'r', 'g', '/', 'w', 'o', 'r', 'd', 'p', 'r', 'o', 'c', 'e', 's', 's', 'i', 'n', 'g', 'm', 'l', '/', '2', '0', '0', '6', '/', 'm', 'a', 'i', 'n', '}']
def ans : Str := ['{', 'h', 't', 't', 'p', ':', '/', '/', 's', 'c', 'h', 'e', 'm', 'a', 's', '.', 'o', 'p', 'e', 'n', 'x', 'm', 'l', 'f', 'o', 'r', 'm', 'a', 't', 's', '.', 'o', 'r', 'g', '/', 'd', 'r', 'a', 'w', 'i', 'n', 'g', 'm', 'l', '/', '2', '0', '0', '6', '/', 'm', 'a', 'i', 'n', '}']
/-- ECMA-376 names of the elements the walkers must recognise (my transcription of the standard) -/
def standardNames : List (Tag × Str) := [
  (.wP, wns ++ ['p']), (.wR, wns ++ ['r']), (.wT, wns ++ ['t']), (.wTab, wns ++ ['t', 'a', 'b']),
  (.wBr, wns ++ ['b', 'r']), (.wCr, wns ++ ['c', 'r']), (.wTbl, wns ++ ['t', 'b', 'l']), (.wTr, wns ++ ['t', 'r']),
  (.wTc, wns ++ ['t', 'c']), (.wSdt, wns ++ ['s', 'd', 't']), (.wSdtContent, wns ++ ['s', 'd', 't', 'C', 'o', 'n', 't', 'e', 'n', 't']),
  (.wCustomXml, wns ++ ['c', 'u', 's', 't', 'o', 'm', 'X', 'm', 'l']), (.wTxbxContent, wns ++ ['t', 'x', 'b', 'x', 'C', 'o', 'n', 't', 'e', 'n', 't']),
  (.choice, ['{', 'h', 't', 't', 'p', ':', '/', '/', 's', 'c', 'h', 'e', 'm', 'a', 's', '.', 'o', 'p', 'e', 'n', 'x', 'm', 'l', 'f', 'o', 'r', 'm', 'a', 't', 's', '.', 'o', 'r', 'g', '/', 'm', 'a', 'r', 'k', 'u', 'p', '-', 'c', 'o', 'm', 'p', 'a', 't', 'i', 'b', 'i', 'l', 'i', 't', 'y', '/', '2', '0', '0', '6', '}', 'C', 'h', 'o', 'i', 'c', 'e']),
  (.oMath, ['{', 'h', 't', 't', 'p', ':', '/', '/', 's', 'c', 'h', 'e', 'm', 'a', 's', '.', 'o', 'p', 'e', 'n', 'x', 'm', 'l', 'f', 'o', 'r', 'm', 'a', 't', 's', '.', 'o', 'r', 'g', '/', 'o', 'f', 'f', 'i', 'c', 'e', 'D', 'o', 'c', 'u', 'm', 'e', 'n', 't', '/', '2', '0', '0', '6', '/', 'm', 'a', 't', 'h', '}', 'o', 'M', 'a', 't', 'h']),
  (.oMathPara, ['{', 'h', 't', 't', 'p', ':', '/', '/', 's', 'c', 'h', 'e', 'm', 'a', 's', '.', 'o', 'p', 'e', 'n', 'x', 'm', 'l', 'f', 'o', 'r', 'm', 'a', 't', 's', '.', 'o', 'r', 'g', '/', 'o', 'f', 'f', 'i', 'c', 'e', 'D', 'o', 'c', 'u', 'm', 'e', 'n', 't', '/', '2', '0', '0', '6', '/', 'm', 'a', 't', 'h', '}', 'o', 'M', 'a', 't', 'h', 'P', 'a', 'r', 'a']),
  (.aP, ans ++ ['p']), (.aR, ans ++ ['r']), (.aFld, ans ++ ['f', 'l', 'd']), (.aT, ans ++ ['t']),
  (.aBr, ans ++ ['b', 'r'])]

/-- the tag constants of the source are the standard's names -/
theorem gen_tag_names : tagNames = standardNames := by decide +kernel

/-- classifying a constant's name gives back its constructor: the names are pairwise distinct and none of
    them ends in "}AlternateContent" / "}Fallback", so the model's dispatch on `Tag` is the code's dispatch
    on tag strings -/
theorem gen_classify_ok : tagNames.all (fun p => classifyWith tagNames p.2 == p.1) = true := by decide +kernel

/-! ## DOCX -/

/-- **DOCX fidelity.**  For every document, the words of `DocxContent.get_full_text()` on the rendered
    `w:body` are exactly the words of the body, in order: every visible leaf once, in source order; a
    paragraph / cell / tab / line-break / text-box boundary is whitespace in the output (two pieces
    separated in the source are never one word); tracked deletions, field-less reference marks and
    `mc:Fallback` copies contribute nothing.  Covers tab and break in a run, hyperlinks, tracked
    insertions, inline and block-level content controls, text boxes (AlternateContent), lists, headings,
    tables with nested tables. -/
theorem C02_docx_fidelity (ws : Char → Bool) (hw : WsOk ws) (d : Doc) :
    words ws (Docx.fullText ws (Docx.renderBody d)) = bodyWords fmtDocx ws d :=
  Docx.docx_words hw d

/-- the same for Python's `str.isspace` as generated from the running interpreter -/
theorem C02_docx_fidelity_py (d : Doc) :
    words isPySpace (Docx.fullText isPySpace (Docx.renderBody d)) = bodyWords fmtDocx isPySpace d :=
  C02_docx_fidelity _ gen_ws_ok d


/-- **DOCX: no attribute is read.**  Two `w:body` contents that differ only in attributes - at any depth, on any
    element: the `w:type` / `w:clear` of a `w:br`, `xml:space` of a `w:t`, revision ids of runs / paragraphs / rows,
    id / author / date of tracked changes, `Requires` of `mc:Choice`, VML styles - have the same full text.  (The walk
    dispatches on tags only; the dressed documents of the correspondence tie this to the real extractor.) -/
theorem C02_docx_attr_blind (ws : Char → Bool) (a b : List Xml) (h : SameButAttrs a b) :
    Docx.fullText ws a = Docx.fullText ws b :=
  Docx.fullText_attr_blind ws a b h

/-- **DOCX fidelity for every attribute dressing of the rendered document**: a page / column / text-wrapping break
    is a break, whatever else the producer recorded on the elements -/
theorem C02_docx_fidelity_any_attrs (ws : Char → Bool) (hw : WsOk ws) (d : Doc) (kids : List Xml)
    (h : SameButAttrs kids (Docx.renderBody d)) :
    words ws (Docx.fullText ws kids) = bodyWords fmtDocx ws d := by
  rw [C02_docx_attr_blind ws kids _ h]; exact C02_docx_fidelity ws hw d

/-- the hypothesis is satisfiable non-trivially: 'A', a PAGE break in a run of its own, 'B' in one paragraph -/
example : SameButAttrs
    [el .wP [el (Docx.o "w:pPr") [Docx.prop "w:pStyle" []], el .wR [el (Docx.o "w:rPr") [], leaf .wT ['A']],
      el .wR [.node .wBr [("w:type".toList, "page".toList)] [] []], el .wR [el (Docx.o "w:rPr") [], leaf .wT ['B']]],
     el (Docx.o "w:sectPr") []]
    (Docx.renderBody { body := [.para [] [.text ['A'], .br, .text ['B']]] }) := by
  simp [SameButAttrs, eraseL, Xml.erase, Docx.renderBody, Docx.renderBs, Docx.renderB, Docx.renderIs, Docx.renderI, el, leaf,
    Docx.prop]

/-- **DOCX: nothing leaked, nothing invented.**  Every character of every word of the output is a boundary
    blank or a character of a *visible* leaf of the body (`leavesBs` does not contain the text of tracked
    deletions or reference marks, and nothing outside `w:body` is an input of the function at all). -/
theorem C02_docx_no_leak_no_invention (ws : Char → Bool) (hw : WsOk ws) (d : Doc) :
    ∀ w ∈ words ws (Docx.fullText ws (Docx.renderBody d)), ∀ c ∈ w, FromLeaves (leavesBs d.body) c := by
  intro w hwd c hc
  rw [C02_docx_fidelity ws hw d] at hwd
  exact lin_chars_Bs fmtDocx d.body c (words_chars _ w hwd c hc)

/-- the reference linearisation does not depend on excluded text (it is a function of the visible leaves and
    the boundaries only): replacing the text of a tracked deletion changes no output word -/
theorem C02_docx_deletion_irrelevant (ws : Char → Bool) (hw : WsOk ws) (style : Str) (pre post : List Inline) (s s' : Str) :
    words ws (Docx.fullText ws (Docx.renderBody { body := [.para style (pre ++ .del s :: post)] })) =
    words ws (Docx.fullText ws (Docx.renderBody { body := [.para style (pre ++ .del s' :: post)] })) := by
  rw [C02_docx_fidelity ws hw, C02_docx_fidelity ws hw]
  have h : ∀ t : Str, linIs fmtDocx ws (pre ++ .del t :: post) = linIs fmtDocx ws pre ++ linIs fmtDocx ws post := by
    intro t
    induction pre with
    | nil => simp [linIs, linI]
    | cons x r ih => simp [linIs, ih]
  simp [bodyWords, linBs, linB, h]

/-! ### what the DOCX walk did before the repairs (fix patches `fix-docx-run-tab-break`, `fix-docx-body-sdt`,
    `fix-docx-nested-table-dup`, `fix-docx-textbox`): counterexamples on the model of the old code, one for
    each of the four defects the full statement excludes -/

private def t (s : String) : Inline := .text s.toList
private def pp (xs : List Inline) : Block := .para [] xs

/-- `w:tab` / `w:br` inside a run were ignored: "A<tab/>B<br/>C" came out as one word -/
theorem docx_legacy_tab_break_merge :
    words isPySpace (Docx.Legacy.fullText isPySpace (Docx.renderBody { body := [pp [t "A", .tab, t "B", .br, t "C"]] }))
      = ["ABC".toList] ∧
    bodyWords fmtDocx isPySpace { body := [pp [t "A", .tab, t "B", .br, t "C"]] } = ["A".toList, "B".toList, "C".toList] := by
  decide +kernel

/-- a block-level content control (`w:sdt` child of `w:body`) was dropped -/
theorem docx_legacy_body_sdt_lost :
    words isPySpace (Docx.Legacy.fullText isPySpace (Docx.renderBody { body := [pp [t "A"], .ctl [pp [t "S"]], pp [t "B"]] }))
      = ["A".toList, "B".toList] := by
  decide +kernel

/-- a table nested in a cell was printed three times (`Element.iter` walks all descendants) -/
theorem docx_legacy_nested_table_dup :
    words isPySpace (Docx.Legacy.fullText isPySpace (Docx.renderBody
      { body := [.table [[[pp [t "A"], .table [[[pp [t "N"]]]]]]]] }))
      = ["A".toList, "N".toList, "N".toList, "N".toList] := by
  decide +kernel

/-- the paragraphs of a text box were fused with each other and with the anchor paragraph -/
theorem docx_legacy_textbox_merge :
    words isPySpace (Docx.Legacy.fullText isPySpace (Docx.renderBody
      { body := [pp [t "Before", .box [pp [t "Box1"], pp [t "Box2"]], t "After"]] }))
      = ["BeforeBox1Box2After".toList] := by
  decide +kernel

/-! ## HTML (and MHTML / EPUB chapters, which are the same markup) -/

theorem gen_html_ok : Html.HtmlOk html := by
  refine ⟨⟨?_, ?_, ?_, ?_, ?_, ?_⟩, ⟨?_, ?_, ?_, ?_, ?_, ?_⟩, ⟨?_, ?_, ?_, ?_, ?_, ?_⟩, ⟨?_, ?_, ?_, ?_, ?_, ?_⟩,
    ⟨?_, ?_, ?_, ?_, ?_, ?_⟩, ⟨?_, ?_, ?_, ?_, ?_, ?_⟩, ?_, ?_, ?_, ?_, ?_, ?_, ?_, ?_, ?_, ?_, ?_, ?_, ?_, ?_, ?_, ?_, ?_,
    ?_, ?_, ?_, ?_, ?_, ?_⟩ <;> decide +kernel

theorem gen_html_body_kept : Html.sBody ∉ html.remove := by decide +kernel

theorem gen_deco_ok : Html.DecoOk isPySpace := ⟨by decide, by decide⟩

/-- **HTML fidelity.**  For every document, the words of `HtmlContent.get_full_text()` on the tree
    `_HtmlTreeBuilder` builds for the rendered page are exactly the expected words, in order: every visible
    leaf once, paragraph / heading / list-item / cell / line-break / tab / box boundaries are whitespace,
    a tracked deletion is absent, and the only other words are the documented decoration (`-` in front of a
    list item, `|` between the columns of a table row).  Inside headings and table cells (flattened by
    `_get_cell_text`) nested blocks, line breaks and nested tables stay separated and appear once: the rows
    of a table nested in a cell are part of that cell's text only (`_find_own_rows` skips nested tables and
    rendered cells contain no stray `tr`, lemma `norows_Cells`). -/
theorem C02_html_fidelity (T : Html.Tables) (ws : Char → Bool) (ok : Html.HtmlOk T) (hb : Html.sBody ∉ T.remove)
    (hw : WsOk ws) (hd : Html.DecoOk ws) (title : Str) (d : Doc) :
    words ws (Html.fullText T ws (Html.renderDoc title d)) = Html.htmlWords ws d :=
  Html.html_words ok hb hw hd title d

/-- the same for the tables of the current source and Python's `str.isspace` -/
theorem C02_html_fidelity_py (title : Str) (d : Doc) :
    words isPySpace (Html.fullText html isPySpace (Html.renderDoc title d)) = Html.htmlWords isPySpace d :=
  C02_html_fidelity _ _ gen_html_ok gen_html_body_kept gen_ws_ok gen_deco_ok title d


/-- what the heading branch did before `fix-html-heading-breaks.patch` (`_get_node_text`): a line break
    inside a heading, `<h2>A<br>B</h2>`, fused the two lines into one word -/
theorem html_legacy_heading_break_merge :
    words isPySpace (Html.Legacy.headingText isPySpace
      (.mk (Html.hTag 2) [] [] (Html.renderIs [t "A", .br, t "B"]) [])) = ["AB".toList] ∧
    Html.htmlWords isPySpace { body := [.heading 2 [t "A", .br, t "B"]] } = ["A".toList, "B".toList] := by
  have h : Html.Legacy.nodeText (.mk (Html.hTag 2) [] [] (Html.renderIs [t "A", .br, t "B"]) []) = ['A', 'B'] := by
    simp [Html.Legacy.nodeText, Html.Legacy.kidsText, Html.renderIs, Html.renderI, Html.elem, t]
  rw [Html.Legacy.headingText, h]
  decide +kernel

/-! ## PPTX -/

/-- **PPTX paragraphs.**  `_extract_text_from_paragraphs` on any rendered text body (shape or table cell):
    exactly the words of its paragraphs in order; runs of one word stay one word; a paragraph boundary and an
    `a:br` line break are whitespace; field runs (`a:fld`) contribute their cached text. -/
theorem C02_pptx_paragraphs (ws : Char → Bool) (hw : WsOk ws) (tag : String) (ps : List (List Pptx.Run)) :
    words ws (Pptx.parasText (Pptx.renderTxBody tag ps)) = words ws (Pptx.linParas ps) :=
  Pptx.parasText_words hw tag ps

/-- **PPTX slide and deck assembly, for ANY shapes** (not only rendered ones): the words of
    `PptxContent.get_full_text()` are, slide after slide, the words of the shapes' texts in the documented order
    (stable sort by (top, left) offset), each shape text kept apart from the next by a newline; a shape whose
    `shapeText` is `none` (footer / date / header placeholders, empty shapes, non-table frames) contributes nothing. -/
theorem C02_pptx_assembly (ws : Char → Bool) (hw : WsOk ws) (C : Pptx.Consts) (slides : List (List Pptx.Shape)) :
    words ws (Pptx.fullText C ws slides) =
      slides.flatMap (fun sh => (Pptx.ordered C sh).flatMap (fun s => (Pptx.shapeText C ws s).elim [] (words ws))) := by
  rw [Pptx.fullText_words hw]
  congr 1
  funext sh
  exact Pptx.baseText_words hw C sh

/-- footer / date / header placeholders never contribute, whatever they contain (tables of the current source) -/
theorem C02_pptx_footer_excluded (ws : Char → Bool) (pos : Option (Int × Int)) (idx : Str) (ps : List (List Pptx.Run))
    (r : Pptx.Role) (hr : r = .footer ∨ r = .date ∨ r = .header) :
    Pptx.shapeText pptx ws (Pptx.renderShape { role := r, pos := pos, idx := idx, body := .paras ps }) = none := by
  rcases hr with rfl | rfl | rfl <;>
  · simp only [Pptx.renderShape, Pptx.shapeText, Pptx.Role.ph]
    split
    · rfl
    · have h1 : ['f', 't', 'r'] ∉ pptx.titleTypes := by decide +kernel
      have h2 : ['f', 't', 'r'] ∈ pptx.footerTypes := by decide +kernel
      have h3 : ['d', 't'] ∉ pptx.titleTypes := by decide +kernel
      have h4 : ['d', 't'] ∉ pptx.footerTypes := by decide +kernel
      have h5 : ['d', 't'] ∈ pptx.skipTypes := by decide +kernel
      have h6 : ['h', 'd', 'r'] ∉ pptx.titleTypes := by decide +kernel
      have h7 : ['h', 'd', 'r'] ∉ pptx.footerTypes := by decide +kernel
      have h8 : ['h', 'd', 'r'] ∈ pptx.skipTypes := by decide +kernel
      simp [h1, h2, h3, h4, h5, h6, h7, h8]

/-! ## Open findings: counterexamples on the model of the current code -/

open S2T.HtmlSkip in
/-- EPUB, table nested in a table cell (`<table><tr><td>A</td><td>B</td></tr><tr><td>C<table><tr><td>N</td></tr></table></td>
    <td>E</td></tr></table>`): on `_XhtmlTextExtractor`'s event machine (property C17's model) the first row
    A, B ends up neither in the chapter text nor in the tables. -/
theorem epub_nested_table_cex :
    let td (s : String) : List DEv := [.start "td".toList [], .data s.toList, .end_ "td".toList]
    let evs : List DEv :=
      [.start "table".toList [], .start "tr".toList []] ++ td "A" ++ td "B" ++ [.end_ "tr".toList, .start "tr".toList [],
        .start "td".toList [], .data "C".toList, .start "table".toList [], .start "tr".toList []] ++ td "N" ++
      [.end_ "tr".toList, .end_ "table".toList, .end_ "td".toList] ++ td "E" ++ [.end_ "tr".toList, .end_ "table".toList]
    let st := Down.feed (Epub.down S2T.Gen.HtmlSkip.epubBlock) Epub.initState evs
    st.tables = [[["N".toList]]] ∧ Html.Epub.getText isPySpace st.textParts = "E".toList := by
  decide +kernel

/-- XLSX, empty cell in the first used row: the text contains the invented header `Unnamed: 1` -/
theorem xlsx_unnamed_cex :
    words isPySpace (Xlsx.fullText isPySpace [("S".toList,
      [[some "a".toList, none, some "b".toList], [some "c".toList, some "d".toList, some "e".toList]])])
      = ["S".toList, "a".toList, "Unnamed:".toList, "1".toList, "b".toList, "c".toList, "d".toList, "e".toList] := by
  decide +kernel

/-! ## the hypotheses are satisfiable by non-trivial values -/
example : Html.HtmlOk html ∧ Html.sBody ∉ html.remove ∧ WsOk isPySpace ∧ Html.DecoOk isPySpace :=
  ⟨gen_html_ok, gen_html_body_kept, gen_ws_ok, gen_deco_ok⟩
example : bodyWords fmtDocx isPySpace { body := [pp [t "Hel", t "lo", .tab, t "W", .del "X".toList]] } = ["Hello".toList, "W".toList] := by
  decide +kernel
example : Html.htmlWords isPySpace { body := [.list [[pp [t "I"]]], .table [[[pp [t "A"]], [pp [t "B"]]]]] }
    = ["-".toList, "I".toList, "A".toList, "|".toList, "B".toList] := by decide +kernel
example : WsOk (fun c => c == ' ' || c == '\n' || c == '\t' || c == '\x0b') := ⟨by decide, by decide, by decide, by decide⟩

end S2T.C02.Ooxml
