import S2T.Model.UnitsCarrier
import S2T.Gen.UnitsCarrier
/-!
# C03, part "Carrier" — what one slide unit is made of

The unit of a slide is assembled from several text carriers.  Two ways to lose or misplace text INSIDE the assembly:

* **classification** (`_extract_slide`, ODP): the paragraphs are sorted into title / body / other.  `odp_classify_cover`:
  for every paragraph list and every pair of style tests the three fields together hold every non-blank paragraph text
  exactly once (a permutation); `odp_unit_text_of_classify`: the unit text is the newline-join of exactly these texts;
  `odp_title_is_first_title_paragraph`.  `odp_title_overwrite_counterexample`: without the once-only guard of the title
  branch a second title paragraph evicts the first one, which is then in no field.
* **resolution** of a related part through an id that is local to the slide part: `cache_by_owner_and_id_exact`: a cache
  keyed by (owner, id) answers every owner's own table; `cache_by_id_only_counterexample`: keyed by the id alone, two slides
  using the same id for different parts both get the part loaded last.  Tie: `context_caches_accounted` — the closed-world
  inventory, regenerated from the current source each run, of every store into a dict attribute of a `*Context` class of
  the unit-building modules (and their base classes) with the provenance of its key.
-/
namespace S2T.C03.Carrier
open S2T.Units S2T.Units.Carrier

/-! ## classification -/

/-- a small concrete table for the examples: space is whitespace, newline a line break -/
private def T0 : Tables := ⟨[32], [10], [], [], 0, [], []⟩

private def AccInv (a : OdpAcc) : Prop := (a.found = false → a.title = none) ∧ (∀ t, a.title = some t → t ≠ [])

private theorem step_count (T : Tables) (isT isB : Str → Bool) (a : OdpAcc) (p : OdpPara) (h : AccInv a) (x : Str) :
    AccInv (odpStep T isT isB a p) ∧
    (accTexts (odpStep T isT isB a p)).count x = (accTexts a).count x + (paraTexts T [p]).count x := by
  obtain ⟨h1, h2⟩ := h
  unfold odpStep paraTexts
  by_cases ht : strip T p.text = []
  · simp [ht, AccInv, h1, h2]
    exact ⟨h1, h2⟩
  · by_cases hf : a.found = false
    · have hn := h1 hf
      by_cases hT : isT p.style = true
      · simp [ht, hf, hT, AccInv, accTexts, hn, List.count_cons]
      · by_cases hB : isB p.style = true
        · simp [ht, hf, hT, hB, AccInv, accTexts, hn, List.count_cons, List.count_append]
          omega
        · simp [ht, hf, hT, hB, AccInv, accTexts, hn, List.count_cons, List.count_append]
          omega
    · have hf' : a.found = true := by simpa using hf
      by_cases hB : isB p.style = true
      · refine ⟨⟨by simp [ht, hf', hB], by simpa [ht, hf', hB] using h2⟩, ?_⟩
        simp [ht, hf', hB, accTexts, List.count_cons, List.count_append]
        omega
      · refine ⟨⟨by simp [ht, hf', hB], by simpa [ht, hf', hB] using h2⟩, ?_⟩
        simp [ht, hf', hB, accTexts, List.count_cons, List.count_append]
        omega

private theorem paraTexts_cons (T : Tables) (p : OdpPara) (r : List OdpPara) :
    paraTexts T (p :: r) = paraTexts T [p] ++ paraTexts T r := by
  simp [paraTexts, List.filter_cons]
  split <;> simp

private theorem fold_count (T : Tables) (isT isB : Str → Bool) (ps : List OdpPara) (a : OdpAcc) (h : AccInv a) (x : Str) :
    AccInv (ps.foldl (odpStep T isT isB) a) ∧
    (accTexts (ps.foldl (odpStep T isT isB) a)).count x = (accTexts a).count x + (paraTexts T ps).count x := by
  induction ps generalizing a with
  | nil => simp [paraTexts, h]
  | cons p r ih =>
    have hs := step_count T isT isB a p h x
    have := ih (odpStep T isT isB a p) hs.1
    refine ⟨this.1, ?_⟩
    rw [List.foldl_cons, this.2, hs.2, paraTexts_cons T p r, List.count_append]
    omega

private theorem accInv_init : AccInv {} := ⟨fun _ => rfl, by simp⟩

/-- **cover, exactly once**: whatever the paragraphs, their styles and the two style tests, title + body_text +
other_text of the slide is a permutation of the non-blank stripped paragraph texts — no paragraph is lost, none is
kept twice -/
theorem odp_classify_cover (T : Tables) (isT isB : Str → Bool) (ps : List OdpPara) :
    (accTexts (odpClassifyWith T isT isB ps)).Perm (paraTexts T ps) := by
  rw [List.perm_iff_count]
  intro x
  have := (fold_count T isT isB ps {} accInv_init x).2
  simpa [odpClassifyWith, accTexts] using this

example : accTexts (odpClassify T0 [⟨"P1".toList, "a".toList⟩, ⟨"TitleText".toList, " t ".toList⟩,
    ⟨"MyTitle".toList, "u".toList⟩, ⟨"Body1".toList, "b".toList⟩, ⟨"".toList, " ".toList⟩])
    = ["t".toList, "b".toList, "a".toList, "u".toList] := by decide

/-- the title is a non-empty string when present, so `text_combined` keeps it: the unit text of the slide is the
newline-join of exactly the kept texts -/
theorem odp_unit_text_of_classify (T : Tables) (isT isB : Str → Bool) (ps : List OdpPara) :
    let a := odpClassifyWith T isT isB ps
    textCombined a.title a.body a.other = joinNl (accTexts a) := by
  intro a
  have hinv := (fold_count T isT isB ps {} accInv_init []).1
  unfold textCombined accTexts
  cases ht : a.title with
  | none => simp
  | some t =>
    have : t ≠ [] := hinv.2 t ht
    simp [this]

/-- the title is the first non-blank paragraph whose style passes the title test -/
theorem odp_title_is_first_title_paragraph (T : Tables) (isT isB : Str → Bool) (ps : List OdpPara) :
    (odpClassifyWith T isT isB ps).title
      = ((ps.filter (fun p => strip T p.text ≠ [] ∧ isT p.style = true)).head?).map (fun p => strip T p.text) := by
  have key : ∀ (ps : List OdpPara) (a : OdpAcc), (a.found = false → a.title = none) →
      (ps.foldl (odpStep T isT isB) a).title
        = if a.found then a.title
          else ((ps.filter (fun p => strip T p.text ≠ [] ∧ isT p.style = true)).head?).map (fun p => strip T p.text) := by
    intro ps
    induction ps with
    | nil => intro a h; by_cases hf : a.found <;> simp_all
    | cons p r ih =>
      intro a h
      rw [List.foldl_cons]
      by_cases ht : strip T p.text = []
      · have : odpStep T isT isB a p = a := by simp [odpStep, ht]
        rw [this, ih a h]
        simp [List.filter_cons, ht]
      · by_cases hf : a.found = true
        · have hs : (odpStep T isT isB a p).found = true ∧ (odpStep T isT isB a p).title = a.title := by
            unfold odpStep; simp only [ht, hf]; by_cases hB : isB p.style = true <;> simp [hB]
          rw [ih _ (by simp [hs.1]), hs.1, hs.2]; simp [hf]
        · have hf' : a.found = false := by simpa using hf
          by_cases hT : isT p.style = true
          · have hs : (odpStep T isT isB a p).found = true ∧ (odpStep T isT isB a p).title = some (strip T p.text) := by
              unfold odpStep; simp [ht, hf', hT]
            rw [ih _ (by simp [hs.1]), hs.1, hs.2]; simp [hf', List.filter_cons, ht, hT]
          · have hs : (odpStep T isT isB a p).found = false ∧ (odpStep T isT isB a p).title = a.title := by
              unfold odpStep; simp only [ht, hf']; by_cases hB : isB p.style = true <;> simp [hT, hB]
            rw [ih _ (by intro _; rw [hs.2]; exact h hf'), hs.1]; simp [hf', List.filter_cons, ht, hT]
  simpa [odpClassifyWith] using key ps {} (fun _ => rfl)

/-- without the once-only guard a title frame with two paragraphs keeps only the last one: the first is in no field -/
theorem odp_title_overwrite_counterexample :
    ∃ (T : Tables) (ps : List OdpPara),
      ¬ (accTexts (ps.foldl (odpStepOverwrite T isTitleStyle isBodyStyle) {})).Perm (paraTexts T ps) := by
  refine ⟨T0, [⟨"Title1".toList, "a".toList⟩, ⟨"Title1".toList, "b".toList⟩], ?_⟩
  intro h
  have := h.length_eq
  revert this
  decide

/-! ## resolution through slide-local ids -/

private theorem get_map_other {π ι ν} [DecidableEq π] [DecidableEq ι] (o o' : π) (i : ι) (rels : List (ι × ν))
    (rest : List ((π × ι) × ν)) (h : o' ≠ o) :
    find1 (o, i) (rels.map (fun (e : ι × ν) => ((o', e.1), e.2)) ++ rest) = find1 (o, i) rest := by
  induction rels with
  | nil => rfl
  | cons e r ih => simp [find1, h, ih]

private theorem get_map_own {π ι ν} [DecidableEq π] [DecidableEq ι] (o : π) (i : ι) (rels : List (ι × ν))
    (rest : List ((π × ι) × ν)) (hrest : ∀ e ∈ rest, e.1.1 ≠ o) :
    find1 (o, i) (rels.map (fun (e : ι × ν) => ((o, e.1), e.2)) ++ rest) = find1 i rels := by
  induction rels with
  | nil =>
    simp only [List.map_nil, List.nil_append, find1]
    induction rest with
    | nil => rfl
    | cons e r ih =>
      have h1 : e.1.1 ≠ o := hrest e (by simp)
      have : e.1 ≠ (o, i) := fun hh => h1 (by rw [hh])
      obtain ⟨k, v⟩ := e
      simp only [find1]
      rw [if_neg this]
      exact ih (fun e he => hrest e (by simp [he]))
  | cons e r ih =>
    obtain ⟨k, v⟩ := e
    by_cases hk : k = i
    · simp [find1, hk]
    · simp [find1, hk, ih]

/-- **exact**: in a package whose owning parts have distinct names, the cache keyed by (owner, local id) gives every
owner exactly what its own relationship table says — whatever ids the other owners use -/
theorem cache_by_owner_and_id_exact {π ι ν} [DecidableEq π] [DecidableEq ι] (pk : Package π ι ν)
    (hnd : (pk.map (·.1)).Nodup) (o : π) (rels : List (ι × ν)) (ho : (o, rels) ∈ pk) (i : ι) :
    find1 (o, i) (cacheByOwnerAndId pk) = find1 i rels := by
  induction pk with
  | nil => simp at ho
  | cons e r ih =>
    obtain ⟨o', rels'⟩ := e
    simp only [List.map_cons, List.nodup_cons] at hnd
    simp only [cacheByOwnerAndId, List.flatMap_cons]
    rcases List.mem_cons.mp ho with h | h
    · injection h with h1 h2
      subst h1; subst h2
      apply get_map_own
      intro e he
      simp only [List.mem_flatMap, List.mem_map] at he
      obtain ⟨⟨o2, r2⟩, hm, ⟨x, _, hx⟩⟩ := he
      intro hh
      apply hnd.1
      rw [← hx] at hh
      simp only at hh
      exact List.mem_map.mpr ⟨(o2, r2), hm, hh⟩
    · have hne : o' ≠ o := by
        intro hh
        apply hnd.1
        exact List.mem_map.mpr ⟨(o, rels), h, hh.symm⟩
      rw [get_map_other o o' i rels' _ hne]
      exact ih hnd.2 h

example : find1 ("slide3", "rId2") (cacheByOwnerAndId [("slide1", [("rId2", "data1")]), ("slide3", [("rId2", "data2")])]) = some "data2" := by decide

/-- keyed by the local id alone: two slides that both call their SmartArt data part `rId2` — what PowerPoint writes —
both get the part loaded last; slide 1's own part is returned to nobody -/
theorem cache_by_id_only_counterexample :
    ∃ (pk : Package String String String) (o : String) (rels : List (String × String)) (i : String),
      (pk.map (·.1)).Nodup ∧ (o, rels) ∈ pk ∧ find1 i (cacheByIdOnly pk) ≠ find1 i rels := by
  refine ⟨[("slide1", [("rId2", "data1")]), ("slide3", [("rId2", "data2")])], "slide1", [("rId2", "data1")], "rId2", ?_⟩
  decide

/-! ## tie to the current source -/

/-- key provenances the model accounts for.  `part-name`: the key is the package-unique name of the part the stored
value was read from (or of the part owning it); `unit-number`: the 1-based position of the unit -/
def allowedKeyKinds : List String := ["part-name", "owner-part-name"]

/-- stores keyed otherwise, each with its reason.  EPUB `_manifest[item id]`: the ids of the ONE package document
(content.opf), unique in it by the OPF schema; the spine's idrefs are resolved through this single table, no chapter part
has a table of its own -/
def accountedStores : List (String × String × String × String) :=
  [("epub_extractor.py:_EpubContext", "_parse_manifest", "_manifest", "xml-attribute")]

/-- closed world: every store into a dict attribute of a context class used by the unit builders is keyed by a
package-unique part name — never by an id that is only unique inside one slide / sheet part — or is accounted for -/
theorem context_caches_accounted :
    ∀ e ∈ S2T.Gen.UnitsCarrier.contextStores, e.2.2.2 ∈ allowedKeyKinds ∨ e ∈ accountedStores := by decide

end S2T.C03.Carrier
