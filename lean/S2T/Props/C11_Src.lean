import S2T.Lemmas.Py
import S2T.Lemmas.ZipBomb
import S2T.Gen.PyZipBomb
/-!
# C11 (source tie) — the translated `validate_zipfile` IS the hand model `S2T.ZipBomb.validate`

`S2T.Gen.PyZipBomb` is regenerated from the current text of `zip_bomb.py` on every run
(`tools/gen/pyfun.py`, construct by construct).  The theorems below say that the translated
functions equal the hand model all C11 theorems are about — for every limit setting, every list of
entries of any length, every outcome of `zf.infolist()`, including WHICH `raise` statement fires.

Modelling facts the statement makes explicit:
* a `ZipInfo` is `(filename, file_size, compress_size, is_dir())` with sizes in `Nat`; the model's
  `Entry` forgets the file name (`entryOf`);
* the `k`-th `raise ExtractionZipBombError` of the function (source order) is the model's `k`-th `Reason`;
* `ratio = file_size / compressed_size` (a float used only in the message) raises `OverflowError` in
  CPython when the quotient is not a finite double.  The hand model does not have this outcome, so the
  equality needs `FloatSafe lim` (both size limits below 2^1023 — the documented defaults are 2^30 and
  2^32); `float_overflow_counterexample` shows the difference for larger limits.  FINDING about the model
  (unbounded `Nat` sizes/limits), not about the source for real ZIP fields (< 2^64).
* `_ratio_exceeds`: translated with `limit : Ratio` (a finite limit, the model's hypothesis); its
  `except (AttributeError, OverflowError, ValueError)` fallback for inf/nan is unreachable then and is
  not translated (the generated docstring says so).
-/
set_option linter.unusedSimpArgs false
namespace S2T.C11.Src
open S2T.Py S2T.ZipBomb S2T.Gen.PyZipBomb

/-- the translator understood every construct of the whitelisted functions -/
theorem gen_py_notes_empty : S2T.Gen.PyZipBomb.notes = [] := by decide

/-- the functions this file ties (a renamed / removed function breaks this) -/
theorem gen_py_translated :
    S2T.Gen.PyZipBomb.translated = ["_is_directory", "_ratio_exceeds", "validate_zipfile"] := by decide

def entryOf (i : ZipInfo) : Entry := ⟨i.fileSize, i.compressSize, i.isDir⟩

/-- ordinal of the `raise` statement in `validate_zipfile` (source order) for each model reason -/
def siteOf : Reason → Nat
  | .inspectFailed => 0 | .tooManyEntries => 1 | .entryTooLarge => 2 | .entryZeroCompressed => 3
  | .entryRatio => 4 | .totalTooLarge => 5 | .totalZeroCompressed => 6 | .totalRatio => 7

def excOf (r : Reason) : Exc := exc_ExtractionZipBombError "validate_zipfile" (siteOf r)

/-- a model outcome in the translated function's monad -/
def lift {α β} (f : α → β) : Except Reason α → M β
  | .ok a => pure (f a)
  | .error r => throw (excOf r)

@[simp] theorem lift_ok {α β} (f : α → β) (a : α) : lift f (.ok a) = Except.ok (f a) := rfl
@[simp] theorem lift_error {α β} (f : α → β) (r : Reason) : (lift f (.error r) : M β) = Except.error (excOf r) := rfl
theorem lift_ite {α β} (f : α → β) (c : Prop) [Decidable c] (a b : Except Reason α) :
    lift f (if c then a else b) = if c then lift f a else lift f b := by split <;> rfl

/-- both size limits are far below the largest finite double -/
def FloatSafe (lim : Limits) : Prop := lim.maxSingle < fmax ∧ lim.maxTotal < fmax

example : FloatSafe S2T.Gen.ZipBomb.defaultLimits := by
  have h : (2:Nat) ^ 33 ≤ 2 ^ 1023 := Nat.pow_le_pow_right (by decide) (by decide)
  constructor <;> (simp only [fmax]; exact Nat.lt_of_lt_of_le (by decide) h)

/-- `_is_directory(info)` is `info.is_dir()` -/
theorem is_directory_eq (i : ZipInfo) : _is_directory i = i.isDir := by
  simp [_is_directory]

/-- `_ratio_exceeds(a, b, limit)` is the model's exact cross-multiplication test -/
theorem ratio_exceeds_eq (a b : Nat) (L : Ratio) : _ratio_exceeds a b L = ratioExceeds a b L := by
  simp only [_ratio_exceeds, ratioExceeds, asIntegerRatio, Id.run, pure]
  apply decide_eq_decide.mpr
  constructor <;> intro h
  · have : ((L.num * b : Nat) : Int) < ((a * L.den : Nat) : Int) := by push_cast; omega
    exact_mod_cast this
  · have : ((L.num * b : Nat) : Int) < ((a * L.den : Nat) : Int) := by exact_mod_cast h
    push_cast at this; omega

/-- if the body of the `for info in infos:` loop is the model's `step`, the loop is the model's `loop` -/
theorem forIn_loop (lim : Limits) (f : ZipInfo → Int × Int → M (ForInStep (Int × Int)))
    (hf : ∀ i (tu tc : Nat), f i ((tu : Int), (tc : Int)) =
      lift (fun p => ForInStep.yield ((p.1 : Int), (p.2 : Int))) (step lim tu tc (entryOf i)))
    (infos : List ZipInfo) (tu tc : Nat) :
    forIn infos ((tu : Int), (tc : Int)) f
      = lift (fun p => ((p.1 : Int), (p.2 : Int))) (loop lim tu tc (infos.map entryOf)) := by
  induction infos generalizing tu tc with
  | nil => simp [loop, lift]
  | cons i is ih =>
    simp only [List.forIn_cons, hf, List.map_cons, loop]
    cases hs : step lim tu tc (entryOf i) with
    | error r => simp [lift]
    | ok p => obtain ⟨a, b⟩ := p; simp [lift, ih]

set_option maxRecDepth 8000 in
/-- **the translated `validate_zipfile` is the hand model** when `zf.infolist()` returns `infos`:
    same acceptance, and on rejection the same `raise` statement. -/
theorem validate_zipfile_eq (lim : Limits) (src : Option Str) (infos : List ZipInfo) (hs : FloatSafe lim) :
    validate_zipfile ⟨pure infos⟩ lim src = lift id (validate lim (some (infos.map entryOf))) := by
  have h0 := fun f hf => forIn_loop lim f hf infos 0 0
  simp only [Int.natCast_zero] at h0
  obtain ⟨hs1, hs2⟩ := hs
  unfold validate_zipfile
  simp +instances
  rw [h0]
  · simp only [validate, len]
    by_cases hlen : infos.length > lim.maxEntries
    · have : (lim.maxEntries : Int) < (infos.length : Int) := by omega
      simp [hlen, this, lift, excOf, siteOf]
    · have : ¬ ((lim.maxEntries : Int) < (infos.length : Int)) := by omega
      simp only [hlen, this, List.length_map, if_false]
      cases hl : loop lim 0 0 (infos.map entryOf) with
      | error r => simp [lift]
      | ok p =>
        obtain ⟨tu, tc⟩ := p
        have hle : tu ≤ lim.maxTotal := by
          have := (loop_ok_iff lim _ 0 0 (tu, tc) (Nat.zero_le _)).mp hl
          simp only [Prod.mk.injEq] at this; omega
        dsimp +instances only [finish]
        simp +instances only [M.pure_def, M.ok_bind, truediv_bind, ratio_exceeds_eq, lift_ite, lift_ok,
          lift_error, excOf, siteOf, id]
        py_close
  · intro i tu tc
    dsimp +instances only [step, entryOf, intOfInt]
    simp +instances only [is_directory_eq, truediv_bind, ratio_exceeds_eq, lift_ite, lift_ok, lift_error,
      excOf, siteOf]
    py_close

/-- `zf.infolist()` raising any `Exception` is the first `raise` (`inspectFailed`), whatever the limits -/
theorem validate_zipfile_inspect_failed (lim : Limits) (src : Option Str) (e : Exc)
    (he : e.isa "Exception" = true) :
    validate_zipfile ⟨throw e⟩ lim src = lift id (validate lim none) := by
  unfold validate_zipfile
  simp [he, validate, excOf, siteOf]

/-- … and what is not an `Exception` (KeyboardInterrupt, …) propagates unchanged: the `except Exception`
    clause does not swallow it. -/
theorem validate_zipfile_base_exception (lim : Limits) (src : Option Str) (e : Exc)
    (he : e.isa "Exception" = false) :
    validate_zipfile ⟨throw e⟩ lim src = throw e := by
  unfold validate_zipfile
  simp [he]

/-- the argument of the hand model: the outcome of `zf.infolist()` -/
def infolistOf (zf : ZipFile) : Option (List Entry) :=
  match zf.infolist with
  | .ok infos => some (infos.map entryOf)
  | .error _ => none

/-- **C11 source tie.** For every `ZipFile` whose `infolist()` returns a list or raises an `Exception`,
    every limit setting within the float range and every `source`, the translated function is the hand
    model. -/
theorem validate_zipfile_is_model (zf : ZipFile) (lim : Limits) (src : Option Str) (hs : FloatSafe lim)
    (hz : ∀ e, zf.infolist = .error e → e.isa "Exception" = true) :
    validate_zipfile zf lim src = lift id (validate lim (infolistOf zf)) := by
  obtain ⟨il⟩ := zf
  cases il with
  | ok infos => exact validate_zipfile_eq lim src infos hs
  | error e => exact validate_zipfile_inspect_failed lim src e (hz e rfl)

example : ∃ zf : ZipFile, ∀ e, zf.infolist = .error e → e.isa "Exception" = true :=
  ⟨⟨pure [⟨"a".toList, 10, 1, false⟩]⟩, by intro e h; cases h⟩

/-! ## the difference outside `FloatSafe` (finding about the model, see the header) -/

def bigLim : Limits := ⟨1, 2 ^ 1100, 2 ^ 1100, ⟨2 ^ 1100, 1⟩, ⟨2 ^ 1100, 1⟩⟩
def bigInfos : List ZipInfo := [⟨"a".toList, 2 ^ 1030, 1, false⟩]

instance : DecidableEq (M Unit)
  | .ok _, .ok _ => isTrue rfl
  | .error a, .error b => if h : a = b then isTrue (by rw [h]) else isFalse (by intro h'; cases h'; exact h rfl)
  | .ok _, .error _ => isFalse (by intro h; cases h)
  | .error _, .ok _ => isFalse (by intro h; cases h)

/-- with limits beyond the float range the source raises `OverflowError` from `file_size / compressed_size`
    (a value only used in a message) where the hand model accepts: a 2^1030-byte entry under 2^1100 limits. -/
theorem float_overflow_counterexample :
    validate_zipfile ⟨pure bigInfos⟩ bigLim none = .error overflowError
    ∧ validate bigLim (some (bigInfos.map entryOf)) = .ok () := by
  constructor
  · decide +kernel
  · decide +kernel

end S2T.C11.Src
