import S2T.Model.Limits
import S2T.Gen.C12Consts
/-!
# C12 (second half) — explicit limits, archive members, ODS repeat expansion, XML parse sites

The comparison operators and constants come from the translator (`S2T.Gen.C12Consts`), so an
off-by-one at a limit site (`>` ↦ `>=`), a changed constant, or a dropped argument re-decides
`gen_ops_documented` / `gen_constants` / `sevenzip_passes_members`.
-/
namespace S2T.C12.Limits
open S2T.Limits
open S2T.Gen.C12Consts

/-- every explicit-limit test in the source compares the documented operands with `>` -/
theorem gen_ops_documented : Ops.ofSites limitSites = some Ops.documented := by decide

theorem gen_constants :
    max7zFileSize = 100 * 2 ^ 20 ∧ maxMemorySize = 10 * 2 ^ 20 ∧ configMaxMemorySize = maxMemorySize ∧
    maxArchiveFileSize = 50 * 2 ^ 20 ∧ readFileDefaultLimit = 100 * 2 ^ 20 := by decide

/-- `read_file` refuses ⇔ the limit is enabled (> 0) and the file is larger than it -/
theorem read_file_limit (limit : Int) (size : Nat) :
    readFileRejects Ops.documented limit size = true ↔ (limit > 0 ∧ (size : Int) > limit) := by
  simp [readFileRejects, Ops.documented, Cmp.eval]

/-- 0 (or a negative value) disables the check -/
theorem read_file_zero_disables (limit : Int) (h : limit ≤ 0) (size : Nat) :
    readFileRejects Ops.documented limit size = false := by
  simp [readFileRejects, Ops.documented, Cmp.eval]; omega
example : (0 : Int) ≤ 0 := by decide

/-- a 7z archive is refused ⇔ it is larger than 100 MiB -/
theorem sevenzip_limit (size : Nat) :
    sevenZipRejects Ops.documented max7zFileSize size = true ↔ size > 100 * 2 ^ 20 := by
  simp [sevenZipRejects, Ops.documented, Cmp.eval, max7zFileSize]; omega

/-- ZIP / TAR / 7z: a member is skipped ⇔ its declared size exceeds the per-member limit -/
theorem member_skipped_iff (k : Kind) (limit declared : Nat) :
    memberSkipped Ops.documented k limit declared = true ↔ declared > limit := by
  cases k <;> simp [memberSkipped, Ops.documented, Cmp.eval] <;> omega

/-- ZIP / TAR: only members within the limit are handed to `zf.read` / `tf.extractfile` -/
theorem members_read_within_limit (k : Kind) (limit : Nat) (ds : List Nat) :
    membersRead Ops.documented k limit ds = ds.filter (· ≤ limit) := by
  unfold membersRead
  congr 1
  funext s
  have := member_skipped_iff k limit s
  cases h : memberSkipped Ops.documented k limit s <;> simp_all <;> omega

/-! ## 7z `extractall` -/

/-- the repaired source hands the filtered member list to the extraction step -/
theorem sevenzip_passes_members : sevenZipExtractallKeywords.contains "members" = true := by decide

theorem neededOutput_le (f : SzFolder) (off : Nat) (acc : Option Nat) (hacc : ∀ a, acc = some a → a ≤ off) :
    ∀ n, neededOutput f off acc = some n → n ≤ off + (f.map (·.declared)).sum := by
  induction f generalizing off acc with
  | nil => intro n h; simp [neededOutput] at h; have := hacc n h; simp; omega
  | cons e rest ih =>
    intro n h
    simp only [neededOutput] at h
    have := ih (off + e.declared) _ (by intro a ha; split at ha <;> simp_all <;> omega) n h
    simp; omega

theorem neededOutput_none (f : SzFolder) (off : Nat) (h : ∀ e ∈ f, e.wanted = false) :
    neededOutput f off none = none := by
  induction f generalizing off with
  | nil => rfl
  | cons e rest ih =>
    simp only [neededOutput]
    have he := h e (by simp)
    simp [he]
    exact ih _ (fun x hx => h x (by simp [hx]))

/-- REPAIRED code: whatever is written to the temp directory is a member that passed the filters -/
theorem sevenzip_fixed_writes_only_wanted (f : SzFolder) :
    ∀ s ∈ (extractFolder true f).written, ∃ e ∈ f, e.wanted = true ∧ e.declared = s := by
  intro s hs
  unfold extractFolder at hs
  simp only [↓reduceIte] at hs
  split at hs
  · simp at hs
  · simp at hs
    obtain ⟨e, ⟨he, hw⟩, hd⟩ := hs
    exact ⟨e, he, hw, hd⟩

/-- … hence no oversize member is ever written (with the generated operators and limit) -/
theorem sevenzip_fixed_never_writes_oversize (limit : Nat) (entries : List (Nat × Bool)) :
    ∀ s ∈ (extractFolder true (entries.map (fun e => markWanted Ops.documented limit e.1 e.2))).written, s ≤ limit := by
  intro s hs
  obtain ⟨e, he, hw, hd⟩ := sevenzip_fixed_writes_only_wanted _ s hs
  simp only [List.mem_map] at he
  obtain ⟨⟨a, b⟩, _, rfl⟩ := he
  simp only [markWanted] at hw hd
  subst hd
  have := member_skipped_iff .sevenZip limit a
  cases hsk : memberSkipped Ops.documented .sevenZip limit a
  · simp [hsk] at this; exact this
  · simp [hsk] at hw

/-- REPAIRED code: a folder none of whose members passed the filters is not decoded at all -/
theorem sevenzip_fixed_skips_unwanted_folder (f : SzFolder) (h : ∀ e ∈ f, e.wanted = false) :
    (extractFolder true f).decoded = none ∧ (extractFolder true f).written = [] := by
  unfold extractFolder
  simp [neededOutput_none f 0 h]
example : ∀ e ∈ ([⟨11534336, false⟩] : SzFolder), e.wanted = false := by decide

/-- REPAIRED code: the empty-file loop creates only entries that passed the filters -/
theorem sevenzip_fixed_empty_only_wanted (es : List SzFile) :
    (emptyWritten true es).length = (es.filter (·.wanted)).length ∧
    ((∀ e ∈ es, e.wanted = false) → emptyWritten true es = []) := by
  refine ⟨by simp [emptyWritten], ?_⟩
  intro h
  simp only [emptyWritten, ↓reduceIte, List.map_eq_nil_iff, List.filter_eq_nil_iff]
  intro e he; simp [h e he]
example : ∀ e ∈ ([⟨0, false⟩] : List SzFile), e.wanted = false := by decide

/-- REPAIRED code: the decoder output is bounded, by the declared sizes up to the last wanted member -/
theorem sevenzip_fixed_decode_bounded (f : SzFolder) :
    (extractFolder true f).bounded = true ∧
    ∀ n, (extractFolder true f).decoded = some n → n ≤ (f.map (·.declared)).sum := by
  unfold extractFolder
  simp only [↓reduceIte]
  split
  · simp
  · rename_i n hn
    refine ⟨rfl, ?_⟩
    intro m hm
    simp at hm
    subst hm
    have := neededOutput_le f 0 none (by simp) n hn
    simpa using this

/-- one member per folder (non-solid archive): skipped ⇒ neither decoded nor written -/
theorem sevenzip_fixed_nonsolid_skip (limit declared : Nat) (keep : Bool) (h : declared > limit) :
    extractFolder true [markWanted Ops.documented limit declared keep] = ⟨none, true, []⟩ := by
  have := (member_skipped_iff .sevenZip limit declared).mpr h
  simp [extractFolder, markWanted, this, neededOutput]
example : (11534336 : Nat) > 10485760 := by decide

/-
FULL STATEMENT (false before fix-7z-skip-members.patch, and still false after it for SOLID folders):
  a skipped member is never decompressed into memory or onto disk.
-/
/-- UNFIXED code: an 11 MiB member that the filter skipped is decoded (unbounded) and written -/
theorem sevenzip_unfixed_counterexample :
    extractFolder false [markWanted Ops.documented maxMemorySize 11534336 true] = ⟨some 11534336, false, [11534336]⟩ := by
  decide

/-- REPAIRED code, solid folder: an oversize member stored BEFORE a wanted one still passes through memory
    (it is not written).  Open known finding `7z.solid-oversize-member-decoded`. -/
theorem sevenzip_fixed_solid_counterexample :
    extractFolder true [markWanted Ops.documented maxMemorySize 11534336 true, markWanted Ops.documented maxMemorySize 5 true]
      = ⟨some 11534341, true, [5]⟩ := by decide

/-! ## TAR member loop: link members -/

/-- the member-type guard of the current source lets regular members through and nothing else
    (hard links, symbolic links, directories, devices / FIFOs are skipped before the size test) -/
theorem gen_tar_guard : ∀ k : TarKind, acceptOfTable tarGuardAccepts k = onlyReg k := by
  intro k; cases k <;> decide

/-- in the current source the size test stands before the `read()` of the member's handle, the type guard before the
    `extractfile` call, and the function calls neither `extract` nor `extractall` -/
theorem gen_tar_order :
    eventBefore tarLoopEvents "size-test" "read" = true ∧ eventBefore tarLoopEvents "type-guard" "extractfile" = true ∧
    tarBypassCalls = [] := by decide

/-- under the documented guard every byte string the loop reads into memory is within the per-member limit,
    for every member list (links with any header size, pointing anywhere) -/
theorem tar_delivered_within_limit (limit : Nat) (ms : List TarMember) (h : TarFaithful ms) :
    ∀ n ∈ tarLoopDelivered Ops.documented onlyReg true limit ms, n ≤ limit := by
  intro n hn
  simp only [tarLoopDelivered, List.mem_filterMap] at hn
  obtain ⟨m, hm, hd⟩ := hn
  split at hd
  · rename_i hc
    simp only [Bool.and_eq_true, Bool.not_eq_true', Bool.true_and] at hc
    have hk : m.kind = .reg := by
      cases hkk : m.kind <;> simp [onlyReg, hkk] at hc ⊢
    have hs : ¬ m.size > limit := by
      intro hgt
      have := (member_skipped_iff .tar limit m.size).mpr hgt
      simp [this] at hc
    have := h m hm hk n hd
    omega
  · simp at hd
example : TarFaithful [⟨11534336, .reg, some 11534336⟩, ⟨0, .hardlink, some 11534336⟩, ⟨7, .symlink, none⟩, ⟨5, .reg, some 5⟩] := by
  intro m hm hk n hd
  simp at hm
  rcases hm with rfl | rfl | rfl | rfl <;> simp_all

/-- … the same on the guard table, the comparison operators and the event order the translator read from the
    current source -/
theorem tar_gen_delivered_within_limit (limit : Nat) (ms : List TarMember) (h : TarFaithful ms) :
    ∀ o, Ops.ofSites limitSites = some o →
      ∀ n ∈ tarLoopDelivered o (acceptOfTable tarGuardAccepts) (eventBefore tarLoopEvents "size-test" "read") limit ms, n ≤ limit := by
  intro o ho
  rw [gen_ops_documented] at ho
  cases ho
  have hacc : acceptOfTable tarGuardAccepts = onlyReg := funext gen_tar_guard
  rw [hacc, gen_tar_order.1]
  exact tar_delivered_within_limit limit ms h

/-- … and the loop never reads more than the archive's uncompressed payload in total (no member is read twice) -/
theorem tar_delivered_total_le_payload (limit : Nat) (ms : List TarMember) (h : TarFaithful ms) :
    (tarLoopDelivered Ops.documented onlyReg true limit ms).sum ≤ tarPayload ms := by
  induction ms with
  | nil => simp [tarLoopDelivered, tarPayload]
  | cons m rest ih =>
    have ih' := ih (fun x hx => h x (by simp [hx]))
    have hm := h m (by simp)
    unfold tarLoopDelivered tarPayload at *
    by_cases hk : m.kind = .reg
    · rw [List.filter_cons_of_pos (by simpa using hk), List.filterMap_cons]
      split
      · simp only [List.map_cons, List.sum_cons]; omega
      · rename_i n hn
        have hn' : m.delivers = some n := by
          split at hn <;> simp_all
        have := hm hk n hn'
        simp only [List.map_cons, List.sum_cons]; omega
    · rw [List.filter_cons_of_neg (by simpa using hk), List.filterMap_cons]
      have hno : onlyReg m.kind = false := by
        cases hkk : m.kind <;> simp_all [onlyReg]
      simp only [hno, Bool.false_and]
      exact ih'

/-
FULL STATEMENT for a loop that lets link members through (false): every chunk read is within the limit.
-/
/-- guard `member.isreg() or member.islnk()`: the link's own header says 0 bytes, so it passes the size test,
    and its handle delivers the 11 MiB member it points at -/
theorem tar_hardlink_counterexample :
    let ms : List TarMember := [⟨11534336, .reg, some 11534336⟩, ⟨0, .hardlink, some 11534336⟩]
    tarLoopDelivered Ops.documented (fun k => onlyReg k || decide (k = .hardlink)) true maxMemorySize ms = [11534336] ∧
    11534336 > maxMemorySize ∧ tarPayload ms = 11534336 := by decide

/-- the same through a symbolic link, and k links to one IN-limit member multiply the bytes read by k
    (3 links to a 10 MiB member: 40 MiB read from a 10 MiB payload) -/
theorem tar_symlink_counterexample :
    let ms : List TarMember := [⟨10485760, .reg, some 10485760⟩, ⟨0, .symlink, some 10485760⟩, ⟨0, .symlink, some 10485760⟩, ⟨0, .symlink, some 10485760⟩]
    (tarLoopDelivered Ops.documented (fun k => onlyReg k || decide (k = .symlink)) true maxMemorySize ms).sum = 4 * tarPayload ms := by decide

/-- a loop that reads the handle before it tests the size delivers the oversize member itself -/
theorem tar_read_before_size_test_counterexample :
    tarLoopDelivered Ops.documented onlyReg false maxMemorySize [⟨11534336, .reg, some 11534336⟩] = [11534336] := by decide

/-! ## ODS repeat expansion -/

theorem rowValues_length_le (R : Nat) (hR : 100 ≤ R) (cells : List OdsCell)
    (h : ∀ c ∈ cells, c.isNone = true ∨ c.rep ≤ R) : (rowValues cells).length ≤ R * cells.length := by
  induction cells with
  | nil => simp [rowValues]
  | cons c rest ih =>
    have ih' := ih (fun x hx => h x (by simp [hx]))
    have hc := h c (by simp)
    simp only [rowValues, List.flatMap_cons, List.length_append, List.length_cons] at *
    have : (if c.isNone = true ∧ c.rep > 100 then [true] else List.replicate c.rep.toNat c.isNone).length ≤ R := by
      split
      · simp; omega
      · rename_i hn
        simp
        rcases hc with hc | hc
        · simp [hc] at hn; omega
        · omega
    rw [Nat.mul_add]; omega

/-
FULL STATEMENT (false on the current source):
  theorem ods_cells_bounded (rows) : sheetCells rows ≤ K * xmlLen … rows          for a fixed K
Two independent mechanisms break it: a repeat attribute on a NON-empty cell / row is expanded without a cap
(`ods_repeat_amplification`), and every row is padded to the widest row (`ods_padding_quadratic`).
What holds (exact excluding hypothesis: no non-empty cell carries a repeat above R): the cells
materialised by the cell loop are at most R per cell element.
-/
theorem ods_materialised_partial (R : Nat) (hR : 100 ≤ R) (rows : List OdsRow)
    (h : ∀ r ∈ rows, ∀ c ∈ r.cells, c.isNone = true ∨ c.rep ≤ R) :
    materialised rows ≤ R * (rows.map (·.cells.length)).sum := by
  induction rows with
  | nil => simp [materialised]
  | cons r rest ih =>
    have ih' := ih (fun x hx => h x (by simp [hx]))
    have := rowValues_length_le R hR r.cells (h r (by simp))
    simp only [materialised, List.map_cons, List.sum_cons] at *
    rw [Nat.mul_add]; omega
example : ∀ r ∈ [(⟨3, [⟨100, true, 0⟩, ⟨2, false, 1⟩]⟩ : OdsRow)], ∀ c ∈ r.cells, c.isNone = true ∨ c.rep ≤ 100 := by decide

/-- the empty-cell / empty-row caps do what the comments say -/
theorem ods_empty_repeat_capped (n m : Int) (hn : n > 100) (hm : m > 100) :
    sheetShape [⟨m, [⟨n, true, 0⟩]⟩] = (0, 0) ∧ materialised [⟨m, [⟨n, true, 0⟩]⟩] = 1 := by
  simp [sheetShape, rawRows, rowValues, trimRows, materialised, hn, hm]
example : (5000 : Int) > 100 := by decide

/-! ### repeat independence of EMPTY runs ("irrespective of repeat counts")

For the three kinds of empty run the format has, the cells the model materialises do not depend on the declared
repeat count once it is above the cap (covered cells: for no count at all). -/

private theorem rowValues_append (a b : List OdsCell) : rowValues (a ++ b) = rowValues a ++ rowValues b := by
  simp [rowValues]

private theorem rawRows_append (a b : List OdsRow) : rawRows (a ++ b) = rawRows a ++ rawRows b := by
  simp [rawRows]

/-- an empty `table:table-cell` run anywhere in a row: one placeholder cell whatever the count -/
theorem ods_empty_cell_run_independent (n m : Int) (hn : n > 100) (hm : m > 100) (tl : Nat) (pre post : List OdsCell) :
    rowValues (pre ++ ⟨n, true, tl⟩ :: post) = rowValues (pre ++ ⟨m, true, tl⟩ :: post) := by
  rw [rowValues_append, rowValues_append]
  congr 1
  simp [rowValues, hn, hm]

/-- a repeated row all of whose cells are empty, anywhere in the sheet: one row whatever the count -/
theorem ods_empty_row_run_independent (n m : Int) (hn : n > 100) (hm : m > 100) (cells : List OdsCell)
    (hempty : (rowValues cells).all id = true) (pre post : List OdsRow) :
    rawRows (pre ++ ⟨n, cells⟩ :: post) = rawRows (pre ++ ⟨m, cells⟩ :: post) := by
  rw [rawRows_append, rawRows_append]
  congr 1
  have h1 : n > 100 ∧ (rowValues cells).all id = true := ⟨hn, hempty⟩
  have h2 : m > 100 ∧ (rowValues cells).all id = true := ⟨hm, hempty⟩
  simp only [rawRows, List.flatMap_cons, if_pos h1, if_pos h2]
example : (rowValues [⟨1, true, 0⟩, ⟨500, true, 0⟩]).all id = true := by decide

/-- a `table:covered-table-cell` run: never visited, for every count (no cap involved) -/
theorem ods_covered_run_independent (n m : Int) (pre post : List OdsChild) :
    childCells (pre ++ .covered n :: post) = childCells (pre ++ .covered m :: post) := by
  simp [childCells, OdsChild.cell?]

/-- … hence the sheet and the number of materialised cells are the same for every covered count -/
theorem ods_covered_sheet_independent (n m : Int) (rr : Int) (pre post : List OdsChild) (before after : List OdsRowC) :
    sheetShapeC (before ++ ⟨rr, pre ++ .covered n :: post⟩ :: after) = sheetShapeC (before ++ ⟨rr, pre ++ .covered m :: post⟩ :: after) ∧
    materialisedC (before ++ ⟨rr, pre ++ .covered n :: post⟩ :: after) = materialisedC (before ++ ⟨rr, pre ++ .covered m :: post⟩ :: after) := by
  simp [sheetShapeC, materialisedC, OdsRowC.toRow, ods_covered_run_independent n m pre post]

/-- the three sheets of the harness's repeat-independence oracle, for ALL counts above the cap: same shape -/
theorem ods_oracle_shapes_independent (n m : Int) (hn : n > 100) (hm : m > 100) :
    sheetShape [⟨1, [⟨n, true, 0⟩, ⟨1, false, 1⟩]⟩] = sheetShape [⟨1, [⟨m, true, 0⟩, ⟨1, false, 1⟩]⟩] ∧
    sheetShape [⟨n, [⟨1, true, 0⟩]⟩, ⟨1, [⟨1, false, 1⟩]⟩] = sheetShape [⟨m, [⟨1, true, 0⟩]⟩, ⟨1, [⟨1, false, 1⟩]⟩] ∧
    sheetShapeC [⟨1, [.covered n, .cell ⟨1, false, 1⟩]⟩] = sheetShapeC [⟨1, [.covered m, .cell ⟨1, false, 1⟩]⟩] := by
  refine ⟨?_, ?_, ?_⟩
  · have := ods_empty_cell_run_independent n m hn hm 0 [] [⟨1, false, 1⟩]
    simp only [List.nil_append] at this
    simp [sheetShape, rawRows, this]
  · have := ods_empty_row_run_independent n m hn hm [⟨1, true, 0⟩] (by decide) [] [⟨1, [⟨1, false, 1⟩]⟩]
    simp only [List.nil_append] at this
    simp [sheetShape, this]
  · exact (ods_covered_sheet_independent n m 1 [] [.cell ⟨1, false, 1⟩] [] []).1
example : (2000 : Int) > 100 ∧ (200 : Int) > 100 := by decide

/-- the 675-byte finding: 300 rows × 5000 columns = 1 500 000 cells from one cell element … -/
theorem ods_repeat_amplification_witness :
    sheetShape (repeatSheet 300 5000) = (300, 5000) ∧ sheetCells (repeatSheet 300 5000) = 1500000 := by decide +kernel

/-- … whose size grows only with the number of digits -/
theorem ods_repeat_size (env rt et tt : Nat) (r c : Nat) :
    xmlLen env rt et tt (repeatSheet r c) = env + (rt + digits r + (tt + 1 + digits c + 0)) + 0 := by
  have h1 : ¬ ((r : Int) < 0) := by omega
  have h2 : ¬ ((c : Int) < 0) := by omega
  simp [xmlLen, repeatSheet, intLen, h1, h2]

/-- no repeat attribute above 1, yet the output is quadratic: 201 rows × 200 columns from 400 cell elements -/
theorem ods_padding_quadratic_witness :
    sheetShape (staircaseSheet 200) = (201, 200) ∧ (staircaseSheet 200).length = 201 ∧
    ((staircaseSheet 200).map (·.cells.length)).sum = 400 := by decide +kernel

/-! ## XML parsing -/

/-- every XML parser entry point called by the package is defusedxml's -/
theorem xml_sites_defused : ∀ s ∈ xmlParseSites, ("defusedxml".toList.isPrefixOf s.2.2.2.toList) = true := by decide +kernel

/-- (not vacuous: there is such a call site — `read_zip_xml_root`) -/
theorem xml_sites_nonempty : xmlParseSites ≠ [] := by decide

/-- and no module imports another XML *parser* package (the `xml.etree` imports are used for types,
    `find`/`iter` and serialisation only — no parser entry point is called through them, see above) -/
theorem xml_imports_known :
    ∀ i ∈ xmlImports, i.2.2 = "xml.etree.ElementTree" ∨ i.2.2 = "xml.etree.ElementTree.Element" ∨ i.2.2 = "defusedxml.ElementTree" := by
  decide

end S2T.C12.Limits
