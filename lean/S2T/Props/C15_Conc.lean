import S2T.Lemmas.CacheConc
import S2T.Model.Cells
import S2T.Gen.GlobalWrites
/-!
# C15, part "Conc" — the shared memo caches under concurrent use, and what their keys are

* §6 `_get_round_keys` called by any number of threads at once, any keys, any schedule
     (`S2T.CacheConc.Fixed`, fix-round-key-cache-lock.patch): every call returns what `_expand_key` returns
     (or raises what it raises), never a `KeyError`, and the cache stays consistent.  Counterexample for
     the code before the fix (`Legacy`): a hit whose key is evicted between `get` and `move_to_end` raises
     `KeyError` — the extraction of one thread fails because of what other threads extract.
* §7 a cache keyed by a function `keyOf` of its input is transparent for every history iff nothing but the
     input decides the key: theorem for injective `keyOf`, counterexample for a key that is only
     "length + table directory" of a font program.
* §8 generated facts that tie §6/§7 (and `S2T.Cache.FontFixed`, `S2T.Cache.lruGet`) to the current source:
     the key expression of every access of a keyed cache is a whole, never rebound parameter; every access of
     a lock-protected cell is inside a `with <its lock>:` block.
-/
namespace S2T.C15.Conc
open S2T.Cache S2T.CacheConc

/-! ## §6 the round-key cache, any number of threads -/

/-- the state reached from a consistent cache `c` by the threads asking for `keys` under the schedule `sched` -/
abbrev reached {K V E : Type} [DecidableEq K] (cap : Nat) (f : K → Except E V) (c : Cache K V) (keys : List K) (sched : List Nat) :
    St K V E := Fixed.run cap f (init c keys) sched

/-- Every call that has returned, in any interleaving with any other calls (same key, other keys, hits,
    misses, evictions, failing keys), returned exactly what the uncached function gives for ITS key —
    in particular never the schedule of another key, never a half-built entry, never a `KeyError`. -/
theorem conc_results_transparent {K V E : Type} [DecidableEq K] (cap : Nat) (f : K → Except E V) (c : Cache K V)
    (hc : Consistent f c) (keys : List K) (sched : List Nat) :
    ∀ x ∈ (reached cap f c keys sched).thr, ∀ r, x.res = some r → r = expected f x.key := by
  intro x hx r hr
  have G := fixed_run_good cap f _ (good_init False f c hc keys) sched
  rcases (G.2 x hx).2 r hr with h | h
  · exact h
  · exact absurd h.1 id

/-- … and whatever the interleaving, the cache only ever holds `(key, f key)` pairs, so every later
    extraction of the process is served correctly as well -/
theorem conc_cache_consistent {K V E : Type} [DecidableEq K] (cap : Nat) (f : K → Except E V) (c : Cache K V)
    (hc : Consistent f c) (keys : List K) (sched : List Nat) :
    Consistent f (reached cap f c keys sched).cache :=
  (fixed_run_good cap f _ (good_init False f c hc keys) sched).1

/-- two threads ask for the same not-yet-cached key while one of them is inside `_expand_key`
    (the interleaving of the "most recently used key" fast path): both get `f key` -/
example : let f : Nat → Except Unit Nat := fun k => .ok (k + 1000)
    results (reached 4 f [(7, 1007)] [5, 5] [0, 1, 1, 1, 0, 0]) = [some (.ok 1005), some (.ok 1005)] := by decide

/-- a hit that is overtaken by four misses of other threads (the legacy `KeyError` schedule) on the fixed code -/
example : let f : Nat → Except Unit Nat := fun k => .ok (k + 1000)
    let s := reached 4 f [(0, 1000)] [0, 1, 2, 3, 4] [1,1,1, 2,2,2, 3,3,3, 4,4,4, 0,0,0]
    allDone s = true ∧ results s = [some (.ok 1000), some (.ok 1001), some (.ok 1002), some (.ok 1003), some (.ok 1004)]
      ∧ s.cache.map (·.1) = [2, 3, 4, 0] := by decide

/-! ### §6b the code before fix-round-key-cache-lock.patch

Full-strength statement, FALSE for the unlocked code:
  `∀ x ∈ (Legacy.run cap f (init c keys) sched).thr, ∀ r, x.res = some r → r = expected f x.key` -/

/-- thread 0 finds its key (a hit) and is preempted before `move_to_end`; threads 1–4 miss on four other
    keys, the fourth insertion evicts thread 0's key; `move_to_end` raises `KeyError`. -/
theorem conc_legacy_keyerror :
    let f : Nat → Except Unit Nat := fun k => .ok (k + 1000)
    ∃ sched, (results (Legacy.run 4 f (init [(0, 1000)] [0, 1, 2, 3, 4]) sched))[0]? = some (some .keyError) :=
  ⟨[0, 1,1,1,1, 2,2,2,2, 3,3,3,3, 4,4,4,4, 0], by decide⟩

/-- what remains true of the unlocked code: a call that returns a value returns the right one
    (the failure mode is a spurious exception, not a wrong key schedule). -/
theorem conc_legacy_partial {K V E : Type} [DecidableEq K] (cap : Nat) (f : K → Except E V) (c : Cache K V)
    (hc : Consistent f c) (keys : List K) (sched : List Nat) :
    ∀ x ∈ (Legacy.run cap f (init c keys) sched).thr, ∀ r, x.res = some r → r = expected f x.key ∨ r = .keyError := by
  intro x hx r hr
  have G := legacy_run_good cap f _ (good_init True f c hc keys) sched
  rcases (G.2 x hx).2 r hr with h | h
  · exact Or.inl h
  · exact Or.inr h.2

/-! ## §7 cache keys -/

/-- a cache keyed by `keyOf input` with `keyOf` injective (the current source: the input itself) is
    transparent for every history of calls -/
theorem keyed_cache_history_independent {K Q P G V : Type} [DecidableEq Q] (keyOf : K → Q)
    (inj : ∀ a b, keyOf a = keyOf b → a = b) (parse : K → P) (feat : K → P → G → V)
    (h : List (K × G)) (k : K) (g : G) :
    (Keyed.get keyOf parse feat (Keyed.run keyOf parse feat [] h) k g).1 = feat k (parse k) g :=
  (Keyed.get_spec keyOf inj parse feat _ k g
    (Keyed.run_consistent keyOf inj parse feat [] (by intro qp hqp; cases hqp) h)).1

/-- `FontFixed.get` (the model the font correspondence runs) is the keyed cache with the identity key -/
theorem keyed_id_is_fontFixed {K P G V} [DecidableEq K] (parse : K → P) (feat : K → P → G → V)
    (c : Cache K P) (k : K) (g : G) : Keyed.get id parse feat c k g = FontFixed.get parse feat c k g := rfl

example : ∀ a b : List Nat, id a = id b → a = b := fun _ _ h => h

/-- Full-strength statement FALSE for a key that looks at a part of the input only
    (`(len(font), font[:12 + 16 * numTables])`): two font programs of equal length and equal table directory
    but different `loca` contents share an entry; the second one is decoded with the first one's offsets. -/
theorem keyed_cache_weak_key_counterexample :
    let keyOf : List Nat → Nat × List Nat := fun font => (font.length, font.take 4)   -- length + "directory"
    let parse : List Nat → List Nat := fun font => font.drop 4                      -- the table contents
    let feat : List Nat → List Nat → Nat → Nat := fun _ p gid => p.getD gid 0
    let x := [1, 1, 1, 1, 10, 20]
    let y := [1, 1, 1, 1, 20, 10]
    (Keyed.get keyOf parse feat (Keyed.run keyOf parse feat [] [(x, 0)]) y 0).1 ≠ feat y (parse y) 0 := by decide

/-! ## §8 generated facts (current source) -/
open S2T.Cells S2T.Gen.GlobalWrites

/-- the key expression of every access of `_FONT_CACHE` / `_ROUND_KEY_CACHE` is a parameter of the enclosing
    function that the function never rebinds: the caches are keyed by the WHOLE input (`keyOf = id`) -/
theorem cache_keys_are_whole_inputs :
    ∀ a ∈ cacheAccesses, a.cell ∈ keyedCaches → a.key ≠ [] → a.key ∈ a.params := by decide +kernel

/-- every keyed cache is really looked up and filled by key somewhere (the fact above is not vacuous) -/
theorem cache_keys_present :
    ∀ c ∈ keyedCaches, (∃ a ∈ cacheAccesses, a.cell = c ∧ a.key ≠ [] ∧ a.how = "setitem".toList) ∧
                       (∃ a ∈ cacheAccesses, a.cell = c ∧ a.key ≠ [] ∧ a.how ≠ "setitem".toList) := by decide +kernel

/-- every occurrence of a lock-protected cell is inside a `with <its lock>:` block — the two regions of
    `_get_round_keys` (and of the patch section) are atomic with respect to each other, which is what makes
    `lookup` and `store` single steps of `S2T.CacheConc.Fixed` -/
theorem cache_accesses_locked :
    ∀ a ∈ cacheAccesses, ∀ l ∈ lockedCells, a.cell = l.1 → a.guard = l.2 := by decide +kernel

/-- … and these cells are accessed at all, and only from the one function the model describes -/
theorem cache_access_sites :
    (∀ a ∈ cacheAccesses, a.cell = "_ROUND_KEY_CACHE".toList → a.func = "_get_round_keys".toList) ∧
    (∀ a ∈ cacheAccesses, a.cell = "_FONT_CACHE".toList → a.func = "_ttf_parse_font".toList) ∧
    (∀ l ∈ lockedCells, ∃ a ∈ cacheAccesses, a.cell = l.1) := by decide +kernel

end S2T.C15.Conc
