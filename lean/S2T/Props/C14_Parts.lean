import S2T.Props.C14_Loops
import S2T.Model.ImageParts
import S2T.Gen.ImageParts
/-!
# C14 — numbered parts are visited in numeric order; PDF content type follows the image codec

`xlsx_*`: the worksheet ↦ drawing dictionary of `_extract_images_from_zip` is filled by probing one member name per
sheet index, hence in sheet order, and walking it numbers the pictures exactly as the positional model
(`xlsxExtract`, theorems `C14_xlsx*`) does — for every package, every number of sheets (in particular ≥ 10, where the
string order of `sheet10`, `sheet2` differs from the numeric one: `xlsx_lexicographic_counterexample`).

`pdf_*`: the format / content type of an image XObject is the table entry of the LAST filter of its decode chain, so
any transport prefix (`/FlateDecode`, `/ASCII85Decode`, …) in front of the codec leaves it unchanged, and a name,
a one-element array and a chain ending in the same codec agree.
-/
namespace S2T.C14.Parts
open S2T.Spec.Opc S2T.Images S2T.C14.Resolve S2T.C14.Loops

/-! ## generated facts about the current source -/

theorem gen_notes_empty : S2T.Gen.ImageParts.notes = [] := by decide

/-- the XLSX probe of the current source has the modelled shape: `for k in range(len(sheet_names))`,
    part name `xl/worksheets/_rels/sheet{k + 1}.xml.rels` -/
theorem gen_xlsx_probe_shape :
    S2T.Gen.ImageParts.xlsx_probe_by_index = true
    ∧ S2T.Gen.ImageParts.xlsx_rels_probe.map (fun p => (p.1, p.2.2)) = [("xl/worksheets/_rels/sheet", ".xml.rels")] := by
  decide

/-- no call that re-orders a collection (`sorted`, `.sort`, `reversed`, `set`, …) in the XLSX / PDF image functions -/
theorem gen_no_ordering_calls : S2T.Gen.ImageParts.ordering_sites = [] := by decide

/-- the two PDF tables have the same keys, and the image codecs map to their own types -/
def PdfTablesOk (fmt ct : List (Str × Str)) : Prop :=
  fmt.map (·.1) = ct.map (·.1)
  ∧ lookupStr "/DCTDecode".toList ct = some "image/jpeg".toList
  ∧ lookupStr "/JPXDecode".toList ct = some "image/jp2".toList
  ∧ lookupStr "/DCTDecode".toList fmt = some "jpeg".toList
  ∧ lookupStr "/JPXDecode".toList fmt = some "jp2".toList
  ∧ lookupStr "/ASCII85Decode".toList ct = none ∧ lookupStr "/ASCIIHexDecode".toList ct = none
  ∧ lookupStr "/RunLengthDecode".toList ct = none

instance (fmt ct) : Decidable (PdfTablesOk fmt ct) := by unfold PdfTablesOk; infer_instance

theorem gen_pdf_tables_ok : PdfTablesOk S2T.Gen.ImageParts.pdf_format S2T.Gen.ImageParts.pdf_ctype := by
  decide +kernel

/-! ## PDF -/

/-- the filter consulted for a decode chain is its last element — the image codec — whatever stands in front -/
theorem pdf_filter_chain_codec (ts : List Str) (c : Str) : pdfFilterType (.array (ts ++ [c])) = c := by
  simp [pdfFilterType]

/-- **content type follows the image codec**: for every table, every transport prefix `ts` and every codec `c`
    the chain `ts ++ [c]`, the one-element array `[c]` and the name `c` get the same format and content type -/
theorem pdf_ctype_follows_codec (tbl : List (Str × Str)) (ts : List Str) (c : Str) :
    pdfCtype tbl (.array (ts ++ [c])) = pdfCtype tbl (.name c)
    ∧ pdfFormat tbl (.array (ts ++ [c])) = pdfFormat tbl (.name c) := by
  simp [pdfCtype, pdfFormat, pdfFilterType]

theorem pdf_single_array_eq_name (tbl : List (Str × Str)) (c : Str) :
    pdfCtype tbl (.array [c]) = pdfCtype tbl (.name c) ∧ pdfFormat tbl (.array [c]) = pdfFormat tbl (.name c) := by
  simpa using pdf_ctype_follows_codec tbl [] c

/-- with the tables of the current source: a JPEG / JPEG-2000 file stays `image/jpeg` / `image/jp2` however it is wrapped -/
theorem pdf_jpeg_any_transport (fmt ct : List (Str × Str)) (h : PdfTablesOk fmt ct) (ts : List Str) :
    pdfCtype ct (.array (ts ++ ["/DCTDecode".toList])) = "image/jpeg".toList
    ∧ pdfFormat fmt (.array (ts ++ ["/DCTDecode".toList])) = "jpeg".toList
    ∧ pdfCtype ct (.array (ts ++ ["/JPXDecode".toList])) = "image/jp2".toList
    ∧ pdfFormat fmt (.array (ts ++ ["/JPXDecode".toList])) = "jp2".toList := by
  obtain ⟨_, h1, h2, h3, h4, _⟩ := h
  refine ⟨?_, ?_, ?_, ?_⟩
  · rw [(pdf_ctype_follows_codec ct ts _).1]; simp only [pdfCtype, pdfFilterType, h1, Option.getD_some]
  · rw [(pdf_ctype_follows_codec fmt ts _).2]; simp only [pdfFormat, pdfFilterType, h3, Option.getD_some]
  · rw [(pdf_ctype_follows_codec ct ts _).1]; simp only [pdfCtype, pdfFilterType, h2, Option.getD_some]
  · rw [(pdf_ctype_follows_codec fmt ts _).2]; simp only [pdfFormat, pdfFilterType, h4, Option.getD_some]

example : PdfTablesOk S2T.Gen.ImageParts.pdf_format S2T.Gen.ImageParts.pdf_ctype := gen_pdf_tables_ok

/-- an empty array and an absent entry are both "no filter" -/
theorem pdf_empty_array (tbl : List (Str × Str)) : pdfCtype tbl (.array []) = pdfCtype tbl (.name []) := by
  simp [pdfCtype, pdfFilterType]

/-- "the first filter the table knows" is NOT the codec: a deflated JPEG would be reported as PNG -/
theorem pdf_first_known_counterexample :
    pdfFilterTypeFirstKnown S2T.Gen.ImageParts.pdf_ctype (.array ["/FlateDecode".toList, "/DCTDecode".toList]) = "/FlateDecode".toList
    ∧ pdfFilterType (.array ["/FlateDecode".toList, "/DCTDecode".toList]) = "/DCTDecode".toList := by
  decide +kernel

/-! ## XLSX -/

/-- an index-independent classifier sees only the concatenation of the units -/
theorem entriesOf_const {α} (f : α → Option Entry) (u : Option Nat) (k : Nat) (units : List (List α)) :
    entriesOf (fun _ => f) (fun _ => u) k units = (units.flatten.filterMap f).map (fun e => (u, e)) := by
  induction units generalizing k with
  | nil => simp [entriesOf]
  | cons a r ih => simp [entriesOf, ih, List.filterMap_append]

/-- units of the dictionary walk vs. units of the positional document, over the same visiting order -/
theorem units_flatten_eq (pkg : Pkg) (rels : SheetRels) (dr : Drawings) (order : List Nat) :
    ((sheetToDrawingVia rels order).map fun it => drawingUnit pkg dr it.2).flatten
      = (xlsxUnits pkg (sheetsByPosition rels dr order)).flatten := by
  induction order with
  | nil => simp [sheetToDrawingVia, sheetsByPosition, xlsxUnits]
  | cons k r ih =>
    simp only [sheetToDrawingVia, sheetsByPosition, xlsxUnits, List.filterMap_cons, List.map_cons, List.flatten_cons,
      drawingUnit] at ih ⊢
    cases h : sheetDrawing rels k with
    | none => simpa [h] using ih
    | some d =>
      simp only [Option.map_some, List.map_cons, List.flatten_cons]
      rw [ih]

/-- **dictionary walk = positional model**: the pictures returned by walking `sheet_to_drawing` (numbers included)
    are those of `xlsxExtract` on the sheets in visiting order — for every package, drawing map and order -/
theorem xlsx_walk_eq_positional (pkg : Pkg) (rels : SheetRels) (dr : Drawings) (order : List Nat) :
    (xlsxByMap pkg dr (sheetToDrawingVia rels order)).flatten
      = (xlsxExtract pkg (sheetsByPosition rels dr order)).flatten := by
  simp only [xlsxByMap, xlsxExtract, loopDoc_spec, xlsxClassify_eq, entriesOf_const, units_flatten_eq]

/-- the keys of `sheet_to_drawing` come in the visiting order -/
theorem sheetToDrawing_keys_sublist (rels : SheetRels) (order : List Nat) :
    ((sheetToDrawingVia rels order).map (·.1)).Sublist order := by
  induction order with
  | nil => simp [sheetToDrawingVia]
  | cons k r ih =>
    simp only [sheetToDrawingVia, List.filterMap_cons] at ih ⊢
    cases h : sheetDrawing rels k with
    | none => simpa [h] using ih.cons k
    | some d => simpa [h] using ih.cons_cons k

/-- **sheet order**: the source probes `range(n)`, so the dictionary is filled — and the workbook-wide counter
    advances — in strictly increasing sheet index, whatever the member names look like as strings -/
theorem xlsx_probe_in_sheet_order (rels : SheetRels) (n : Nat) :
    ((sheetToDrawing rels n).map (·.1)).Pairwise (· < ·) := by
  have h := sheetToDrawing_keys_sublist rels (List.range n)
  exact (List.pairwise_lt_range).sublist h

/-- **C14 for XLSX from the package**: numbers 1..n in sheet order (then anchor order) for any number of sheets -/
theorem C14_xlsx_pkg_numbers (pkg : Pkg) (rels : SheetRels) (dr : Drawings) (n : Nat) :
    (xlsxByMap pkg dr (sheetToDrawing rels n)).flatten.map (·.number)
      = List.range' 1 (xlsxByMap pkg dr (sheetToDrawing rels n)).flatten.length := by
  unfold sheetToDrawing
  rw [xlsx_walk_eq_positional, C14_xlsx_numbers]

/-- the string order of numbered part names is not their numeric order from ten parts on -/
theorem part_names_lexicographic_ne_numeric :
    String.ofList (sheetRelsName 9) < String.ofList (sheetRelsName 1) ∧ (1 : Nat) < 9 := by
  decide +kernel

/-- walking the relationship parts in the string order of their names (sheet1, sheet10, sheet11, sheet2, …) numbers
    the picture of sheet 10 before the picture of sheet 2: the per-sheet view then shows 2, 1 instead of 1, 2 -/
theorem xlsx_lexicographic_counterexample :
    let pkg : Pkg := fun n =>
      if n = "xl/drawings/drawing2.xml".toList then some 100 else if n = "xl/drawings/drawing10.xml".toList then some 101
      else if n = "xl/media/a.png".toList then some 1 else if n = "xl/media/b.png".toList then some 2 else none
    let rels : SheetRels := fun n =>
      if n = sheetRelsName 1 then some (some "../drawings/drawing2.xml".toList)
      else if n = sheetRelsName 9 then some (some "../drawings/drawing10.xml".toList) else none
    let dr : Drawings := fun d =>
      if d = "xl/drawings/drawing2.xml".toList then [(1, some "../media/a.png".toList)]
      else if d = "xl/drawings/drawing10.xml".toList then [(1, some "../media/b.png".toList)] else []
    let lex := [0, 9, 10, 1, 2, 3, 4, 5, 6, 7, 8]      -- sheet1, sheet10, sheet11, sheet2, …, sheet9
    ((xlsxExtractPkgVia pkg rels dr lex 11).flatten.map (·.number) = [2, 1])
    ∧ ((xlsxExtractPkg pkg rels dr 11).flatten.map (·.number) = [1, 2]) := by
  decide +kernel

end S2T.C14.Parts
