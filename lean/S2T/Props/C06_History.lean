import S2T.Model.History
import S2T.Spec.C06Cells
import S2T.Gen.ModState
/-!
# C06 (history) — the result of an extraction does not depend on earlier extractions in the process

`run : Store → Doc → Out × Store` is an extraction with the process-global state made explicit.
The general theorems say under which conditions the `Store` is unobservable; the `*_reviewed` /
`module_state_sealed` theorems re-decide on the CURRENT source that every use of a module- or
class-level mutable container which is not a plain read — a write, an **alias**, an escape through
return / argument / default value — is one of the reviewed ones of `S2T.Spec.C06Cells`.
-/
namespace S2T.C06History
open S2T.History S2T.Spec.C06Cells S2T.Gen.ModState

/-! ## general: when is the store unobservable -/

theorem after_frame {σ δ ρ} (run : σ → δ → ρ × σ) (frame : ∀ g d, (run g d).2 = g) (g : σ) (hist : List δ) :
    after run g hist = g := by
  induction hist generalizing g with
  | nil => rfl
  | cons d ds ih => simp only [after]; rw [frame, ih]

/-- **C06 (history, constant tables)**: if no extraction changes the store, then after ANY history of
    extractions a document yields what it yields in a fresh process -/
theorem frame_history_free {σ δ ρ} (run : σ → δ → ρ × σ) (frame : ∀ g d, (run g d).2 = g)
    (g₀ : σ) (hist : List δ) (d : δ) : (run (after run g₀ hist) d).1 = (run g₀ d).1 := by
  rw [after_frame run frame]

/-- … and every document of a batch gets the output it gets alone, in whatever order the batch is processed -/
theorem frame_outputs {σ δ ρ} (run : σ → δ → ρ × σ) (frame : ∀ g d, (run g d).2 = g)
    (g₀ : σ) (ds : List δ) : outputs run g₀ ds = ds.map (fun d => (run g₀ d).1) := by
  induction ds generalizing g₀ with
  | nil => rfl
  | cons d ds ih => simp only [outputs, List.map_cons]; rw [frame, ih]

/-- **C06 (history, non-interference)**: extractions may write cells `W` as long as what they return only
    depends on cells `R` disjoint from `W` (scratch state, statistics, balanced patch bookkeeping) -/
theorem noninterference {κ ν δ ρ : Type} (run : (κ → ν) → δ → ρ × (κ → ν)) (R W : κ → Prop)
    (reads : ∀ g g' d, (∀ c, R c → g c = g' c) → (run g d).1 = (run g' d).1)
    (writes : ∀ g d c, ¬ W c → (run g d).2 c = g c)
    (disj : ∀ c, R c → ¬ W c) (g₀ : κ → ν) (hist : List δ) (d : δ) :
    (run (after run g₀ hist) d).1 = (run g₀ d).1 := by
  apply reads
  induction hist generalizing g₀ with
  | nil => intro c _; rfl
  | cons e es ih =>
    intro c hc
    simp only [after]
    rw [ih (run g₀ e).2 c hc]
    exact writes g₀ e c (disj c hc)

/-! ## memo tables (`_FONT_CACHE`, `_ROUND_KEY_CACHE`, `lru_cache`) -/

theorem lookup_mem {κ ν} [BEq κ] [LawfulBEq κ] (tbl : List (κ × ν)) (k : κ) (v : ν)
    (h : tbl.lookup k = some v) : (k, v) ∈ tbl := by
  induction tbl with
  | nil => simp [List.lookup] at h
  | cons e es ih =>
    obtain ⟨k', v'⟩ := e
    by_cases hk : k == k'
    · simp only [List.lookup, hk] at h
      have : k = k' := by simpa using hk
      subst this
      cases h; exact List.mem_cons_self
    · have hk' : (k == k') = false := by simpa using hk
      simp only [List.lookup, hk'] at h
      exact List.mem_cons_of_mem _ (ih h)

/-- a hit returns what a miss would compute -/
theorem memoGet_value {κ ν} [BEq κ] [LawfulBEq κ] (f : κ → ν) (keep : κ × ν → Bool) (tbl : List (κ × ν))
    (hs : MemoSound f tbl) (k : κ) : (memoGet f keep tbl k).1 = f k := by
  unfold memoGet
  cases h : tbl.lookup k with
  | none => rfl
  | some v => exact hs (k, v) (lookup_mem tbl k v h)

/-- … and storing / re-ordering / evicting keeps the table sound -/
theorem memoGet_sound {κ ν} [BEq κ] [LawfulBEq κ] (f : κ → ν) (keep : κ × ν → Bool) (tbl : List (κ × ν))
    (hs : MemoSound f tbl) (k : κ) : MemoSound f (memoGet f keep tbl k).2 := by
  unfold memoGet
  cases h : tbl.lookup k with
  | none =>
    intro kv hkv
    rcases List.mem_cons.mp hkv with rfl | hm
    · rfl
    · exact hs kv (List.mem_filter.mp hm).1
  | some v =>
    intro kv hkv
    rcases List.mem_cons.mp hkv with rfl | hm
    · exact hs (k, v) (lookup_mem tbl k v h)
    · exact hs kv (List.mem_filter.mp hm).1

/-- **C06 (history, caches)**: whatever keys earlier extractions asked for, and whatever was evicted, a
    memoised lookup returns the function value — the cache is unobservable -/
theorem memo_history_free {κ ν} [BEq κ] [LawfulBEq κ] (f : κ → ν) (keep : κ × ν → Bool) (hist : List κ) (k : κ) :
    (memoGet f keep (after (memoGet f keep) [] hist) k).1 = f k := by
  apply memoGet_value
  suffices h : ∀ tbl, MemoSound f tbl → MemoSound f (after (memoGet f keep) tbl hist) from
    h [] (by intro kv hkv; cases hkv)
  induction hist with
  | nil => intro tbl h; exact h
  | cons e es ih => intro tbl h; exact ih _ (memoGet_sound f keep tbl h e)

/-! ## a constant table consulted together with per-document declarations -/

theorem lookupOnly_history_free {κ ν} [BEq κ] (dflt : κ → ν) (g₀ : List (κ × ν)) (hist : List (Doc κ ν)) (d : Doc κ ν) :
    (lookupOnly dflt (after (lookupOnly dflt) g₀ hist) d).1 = (lookupOnly dflt g₀ d).1 :=
  frame_history_free _ (fun _ _ => rfl) g₀ hist d

/-- merging the declarations into a COPY keeps extraction history free -/
theorem overlayCopy_history_free {κ ν} [BEq κ] (dflt : κ → ν) (g₀ : List (κ × ν)) (hist : List (Doc κ ν)) (d : Doc κ ν) :
    (overlayCopy dflt (after (overlayCopy dflt) g₀ hist) d).1 = (overlayCopy dflt g₀ d).1 :=
  frame_history_free _ (fun _ _ => rfl) g₀ hist d

/-- merging them into the table itself (a per-call name that is an ALIAS of the module-level object) does
    not: a document that declares key 7 changes what a later document, which only uses key 7, gets.
    This is why the inventory lists aliases, not only writes. -/
theorem overlayAlias_history_dependent :
    ∃ (g₀ : List (Nat × Nat)) (a b : Doc Nat Nat),
      (overlayAlias (· + 1000) (after (overlayAlias (· + 1000)) g₀ [a]) b).1 ≠ (overlayAlias (· + 1000) g₀ b).1 :=
  ⟨[(1, 10)], ⟨[(7, 70)], [7]⟩, ⟨[], [7]⟩, by decide⟩

/-! ## the tie: decided on the current source -/

/-- **C06 (process state sealed)**: every use of a mutable container bound at module or class level that is not a
    plain read (mutation, subscript store, alias, return, hand-over to a callee, default value, element of a
    nested table bound or passed on) is a reviewed one -/
theorem module_state_sealed :
    escapes.all (fun e => reviewedEscapes.any (fun r => r.1 == e)) = true := by decide

theorem no_mutable_defaults : mutableDefaults = [] := by decide

theorem rebinds_reviewed : rebinds.all reviewedRebinds.contains = true := by decide

theorem memos_reviewed : memos.all reviewedMemos.contains = true := by decide

theorem attr_stores_reviewed : attrStores.all reviewedAttrStores.contains = true := by decide

theorem modstate_translation_clean : notes = [] := by decide

/-- every cell the frame check lets change is a reviewed written cell / memo, and is a real cell or memoised
    function of the current source -/
theorem volatile_cells_exist :
    volatileCells.all (fun c => mutables.any (fun m => m.2.1 == c) || rebinds.any (fun r => r.2.2 == c)
      || memos.any (fun m => m.2.1 == c)) = true := by decide

/-! ## Non-vacuity -/
example : (memoGet (· * 2) (fun _ => true) [(3, 6)] 3).1 = 6 ∧ (memoGet (· * 2) (fun _ => false) [(3, 6)] 4) = (8, [(4, 8)]) := by decide
example : MemoSound (· * 2) [(3, 6), (4, 8)] := by intro kv h; simp at h; rcases h with rfl | rfl <;> rfl
example : (overlayCopy (· + 1000) [(1, 10)] ⟨[(7, 70)], [7, 1, 2]⟩).1 = [70, 10, 1002] := by decide
example : (overlayAlias (· + 1000) [(1, 10)] ⟨[(7, 70), (1, 11)], [7]⟩).2 = [(1, 10), (7, 70)] := by decide
example : mutables.length ≥ 10 ∧ escapes.length ≥ 1 ∧ memos.length ≥ 1 ∧ volatileCells.length ≥ 3 := by decide

end S2T.C06History
