import S2T.Model.ObserveArgs
import S2T.Spec.C06Ambient
import S2T.Gen.Observers
/-!
# C06 (observers with arguments) — an answer does not depend on the arguments of earlier calls

`text s flag` is a function of the slide and the argument, so any call sequence is trivially history free as long as
the source computes it afresh.  The interesting statements are about keeping part of the answer per instance:
`cachedCopy` is unobservable for EVERY sequence of calls, `cachedAlias` is observable on every slide that has a
caption.  The tie: the accessor parameters of the current source are exactly the modelled ones, each of a kind the
observer-sequence generator varies, and no result class keeps per-instance state outside its dataclass fields.
-/
namespace S2T.C06Observers
open S2T.ObserveArgs S2T.History S2T.Spec.C06Ambient S2T.Gen.Observers

theorem cachedCopy_state (s : Slide) (hist : List Bool) (c : Option (List String))
    (hc : c = none ∨ c = some (baseParts s)) :
    after (cachedCopy s) c hist = none ∨ after (cachedCopy s) c hist = some (baseParts s) := by
  induction hist generalizing c with
  | nil => exact hc
  | cons f fs ih =>
    simp only [after]
    apply ih
    right
    rcases hc with rfl | rfl <;> simp [cachedCopy]

/-- **C06 (observer arguments, copy)**: after ANY sequence of calls with any arguments, a call answers what it
    answers on a fresh result -/
theorem cachedCopy_sequence_free (s : Slide) (hist : List Bool) (flag : Bool) :
    (cachedCopy s (after (cachedCopy s) none hist) flag).1 = parts s flag := by
  rcases cachedCopy_state s hist none (Or.inl rfl) with h | h <;> simp [h, cachedCopy, parts]

/-- … so every call of a sequence gets the stateless answer -/
theorem cachedCopy_outputs (s : Slide) (flags : List Bool) (c : Option (List String))
    (hc : c = none ∨ c = some (baseParts s)) :
    outputs (cachedCopy s) c flags = flags.map (parts s) := by
  induction flags generalizing c with
  | nil => rfl
  | cons f fs ih =>
    simp only [outputs, List.map_cons]
    rw [ih]
    · rcases hc with rfl | rfl <;> simp [cachedCopy, parts]
    · right; rcases hc with rfl | rfl <;> simp [cachedCopy]

/-- **C06 (observer arguments, alias)**: on EVERY slide with a caption, the default request after one caption request
    returns the captions too -/
theorem cachedAlias_sequence_dependent (s : Slide) (h : captions s ≠ []) :
    (cachedAlias s (after (cachedAlias s) none [true]) false).1 ≠ parts s false := by
  simp only [after, cachedAlias, parts, Option.getD_none, Option.getD_some, if_true]
  intro heq
  have := congrArg List.length heq
  simp only [List.length_append] at this
  have hpos : 0 < (captions s).length := List.length_pos_iff.mpr h
  omega

/-- … and a second caption request returns them twice -/
theorem cachedAlias_grows (s : Slide) :
    (cachedAlias s (after (cachedAlias s) none [true]) true).1 = baseParts s ++ captions s ++ captions s := by
  simp [after, cachedAlias]

/-! ## the tie, decided on the current source -/

/-- every optional parameter of every observer method is of a kind the observer-sequence generator has values for -/
theorem accessor_params_exercised : accessorParams.all (fun p => exercisedKinds.contains p.2.2.2) = true := by decide

/-- … and is one whose meaning the model has -/
theorem accessor_params_modelled : accessorParams.all (fun p => modelledParams.contains (p.1, p.2.1, p.2.2.1)) = true := by decide

/-- public methods of result classes that need an argument (none today) -/
theorem required_arg_methods_reviewed : requiredArgMethods = [] := by decide

/-- no result / unit / image / table class keeps state outside its dataclass fields (`__dict__`, `vars`, `setattr`,
    cached properties) -/
theorem no_instance_caches : instanceCaches = [] := by decide

/-! ## Non-vacuity -/
example : text ⟨"Quarterly results", [(false, "x^2")], ["Bar chart", ""]⟩ true = "Quarterly results\n$x^2$\n[Image: Bar chart]" := by decide
example : text ⟨"", [(true, "a")], ["d"]⟩ false = "$$a$$" := by decide
example : captions ⟨"t", [], ["", "x"]⟩ ≠ [] := by decide
example : accessorParams.length ≥ 3 := by decide

end S2T.C06Observers
