import S2T.Model.Inflate
import S2T.Gen.C12Sites
/-!
# C12 — compressed streams that understate themselves; closed-world inventory of the places where packed data expands

"archive members above the per-member limit are skipped without being decompressed into memory": the member loops of
ZIP / TAR / 7z (Props/C12_Limits, Props/C12_Archive) are bounded because each tests a size that the CONTAINER guarantees
(zipfile / tarfile deliver at most the declared size of an entry; the 7z decoder gets max_output).  A compressed STREAM
has no such guarantee: the only size a gzip file states about itself is ISIZE of its LAST member, mod 2^32.

* `trailer_guard_unbounded`: a site that trusts the trailer and then inflates in one go is unbounded — for every limit and
  every K there is a stream that passes the guard and expands to more than K bytes (two members: K + 1 bytes, then 0 bytes);
  `trailer_guard_wraps`: even a SINGLE member does it (2^32 + n bytes state n).
* `bounded_read_within_limit` / `bounded_read_exact`: reading at most limit + 1 bytes holds at most limit + 1 bytes for every
  stream and hands on exactly the streams that expand to at most the limit.
* `gen_inflate_sites_closed`: in the CURRENT archive_extractor.py every call that opens a container is one of the three
  modelled ones (+ the read-back of a 7z member from the temp directory), no module-level one-shot decompress function is
  called, and every yield without an explicit bound is one of the two modelled ones (tar extractfile().read() — bounded by
  the header size the loop tested, `S2T.C12.Limits`; the 7z read-back — only members within the limit are ever written,
  `S2T.C12.Archive`).  A new way of expanding packed data re-decides this theorem.
-/
namespace S2T.C12.Inflate
open S2T.Inflate S2T.Gen.C12Sites

/-- trusting ISIZE: for every limit and every K a stream passes the guard, is handed on, and expands to more than K bytes -/
theorem trailer_guard_unbounded (limit K : Nat) :
    ∃ s : Stream, handedOn .oneShotTrailerGuard limit s = true ∧ produced .oneShotTrailerGuard limit s > K := by
  refine ⟨[K + 1, 0], ?_, ?_⟩ <;> simp [handedOn, produced, isize, inflated]

/-- … a single member suffices: ISIZE is the size mod 2^32 -/
theorem trailer_guard_wraps (limit n : Nat) (h : n ≤ limit) (hn : n < 2 ^ 32) :
    handedOn .oneShotTrailerGuard limit [2 ^ 32 + n] = true ∧ produced .oneShotTrailerGuard limit [2 ^ 32 + n] = 2 ^ 32 + n := by
  have : (2 ^ 32 + n) % 2 ^ 32 = n := by omega
  simp [handedOn, produced, isize, inflated, this]
  omega
example : (5 : Nat) ≤ 10485760 ∧ (5 : Nat) < 2 ^ 32 := by decide

/-- the witness the harness replays: 24 MiB, then 5 bytes, under the default limit of 10 MiB -/
theorem trailer_guard_counterexample :
    isize [25165824, 5] = 5 ∧ handedOn .oneShotTrailerGuard 10485760 [25165824, 5] = true ∧
      produced .oneShotTrailerGuard 10485760 [25165824, 5] = 25165829 := by decide

/-- without any guard everything is produced -/
theorem one_shot_produces_everything (limit : Nat) (s : Stream) : produced .oneShotNoGuard limit s = inflated s := rfl

/-- a bounded read never holds more than limit + 1 bytes, whatever the stream -/
theorem bounded_read_within_limit (limit : Nat) (s : Stream) : produced .boundedRead limit s ≤ limit + 1 := by
  simp [produced]; omega

/-- … and hands on exactly the streams that expand to at most the limit -/
theorem bounded_read_exact (limit : Nat) (s : Stream) :
    handedOn .boundedRead limit s = true ↔ inflated s ≤ limit := by simp [handedOn]

/-- what is handed on by a bounded read was produced in full -/
theorem bounded_read_handed_on_complete (limit : Nat) (s : Stream) (h : handedOn .boundedRead limit s = true) :
    produced .boundedRead limit s = inflated s := by
  simp [handedOn] at h; simp [produced]; omega
example : handedOn .boundedRead 10 [3, 4] = true := by decide

/-- the container openers and unbounded yields that the member-loop theorems cover -/
def modelledOpeners : List String := ["zipfile.ZipFile", "tarfile.open", "SevenZipFile", "open"]
def modelledUnboundedYields : List String := ["tarfile.open().extractfile().read", "open().read"]

def sitesClosed (sites : List (String × String × String × String)) : Bool :=
  sites.all (fun s =>
    (s.2.1 != "open" || modelledOpeners.contains s.2.2.1) &&
    (s.2.1 != "one-shot") &&
    (!siteUnbounded s || modelledUnboundedYields.contains s.2.2.1)) &&
  modelledOpeners.all (fun o => sites.any (fun s => s.2.1 == "open" && s.2.2.1 == o))

/-- closed world on the current source (see the header) -/
theorem gen_inflate_sites_closed : sitesClosed inflateSites = true := by decide

/-- a tree with the trailer-guarded one-shot site is NOT closed -/
theorem one_shot_site_not_closed :
    sitesClosed (inflateSites ++ [("_extract_from_plain_gzip", "one-shot", "gzip.decompress", "none")]) = false := by decide

end S2T.C12.Inflate
