import S2T.Model.YieldLock
import S2T.Model.CacheAlias
import S2T.Model.Cells
import S2T.Gen.Isolation
/-!
# C15 §10 — suspended generators and process-wide locks; §11 — caches that hand out mutable objects

* a generator that closes its `with L:` block before every `yield` (`spans = false`): for any number of generators and every
  schedule the lock is free whenever all generators are suspended, and a consumer is never blocked by generators that are
  merely suspended — however long their consumers keep them (`yield_lock_free_when_suspended`, `yield_never_blocked_by_suspended`);
* a `yield` inside the `with L:` block (`spans = true`) is NOT isolated: once one consumer holds a result without having
  resumed its generator, every other extraction that needs `L` is stuck for ever (`yield_inside_lock_blocks`), it goes on only
  when that consumer resumes (`yield_inside_lock_partial`);
* generated facts, re-decided from the current source on every run: no `yield` of a result generator is enclosed by a `with`
  over a lock or over a patch/set/restore section, no generator function acquires a lock by hand (`yields_hold_nothing_global`);
  the only lock-like objects of the package are the two modelled ones (`locks_are_modelled`);
* a memo that hands out its entries by reference is transparent for every history that never modifies a handed-out value,
  and for every history at all when it hands out copies (`alias_readonly_transparent`, `alias_copy_transparent`); by reference
  + one in-place modification it is not (`alias_by_reference_counterexample`); generated fact: every functools cache of the
  package returns an immutable value (`cache_values_immutable`).
-/
namespace S2T.C15.Suspend
open S2T.YieldLock

/-! ## §10 locks and yields -/

abbrev reached (spans : Bool) (segs : Nat → Nat) (sched : List Nat) : St := run spans (init segs) sched

private theorem inv_step {s : St} (I : Inv s) (t : Nat) : Inv (step false s t) := by
  obtain ⟨H, N⟩ := I
  unfold step
  split
  · exact ⟨H, N⟩
  · rename_i n hp
    refine ⟨fun u => ?_, fun u m => ?_⟩
    · by_cases hu : u = t
      · subst hu; simp [upd]
        have := H u; rw [hp] at this; simpa using this
      · simp [upd, hu]; exact H u
    · by_cases hu : u = t
      · subst hu; simp [upd]
      · simp [upd, hu]; exact N u m
  · rename_i n hp
    split
    · rename_i hl
      refine ⟨fun u => ?_, fun u m => ?_⟩
      · by_cases hu : u = t
        · subst hu; simp [upd]
        · simp [upd, hu]
          have := H u; rw [hl] at this; simp at this
          constructor
          · intro h; exact absurd h.symm hu
          · intro ⟨m, hm⟩; exact absurd hm (this m)
      · by_cases hu : u = t
        · subst hu; simp [upd]
        · simp [upd, hu]; exact N u m
    · exact ⟨H, N⟩
  · rename_i n hp
    simp only [Bool.false_eq_true, ↓reduceIte]
    have ht : s.lock = some t := (H t).mpr ⟨n, hp⟩
    refine ⟨fun u => ?_, fun u m => ?_⟩
    · by_cases hu : u = t
      · subst hu; simp [upd]
      · simp [upd, hu]
        intro m hm
        have := (H u).mpr ⟨m, hm⟩
        rw [ht] at this; exact hu (Option.some.inj this).symm
    · by_cases hu : u = t
      · subst hu; simp [upd]
      · simp [upd, hu]; exact N u m
  · rename_i n hp
    exact absurd hp (N t n)

private theorem inv_run {s : St} (I : Inv s) (sched : List Nat) : Inv (run false s sched) := by
  induction sched generalizing s with
  | nil => exact I
  | cons t r ih => exact ih (inv_step I t)

theorem yield_released_invariant (segs : Nat → Nat) (sched : List Nat) : Inv (reached false segs sched) :=
  inv_run ⟨fun u => by simp [init], fun u n => by simp [init]⟩ sched

/-- all generators suspended (their consumers hold results, none is running) ⇒ the lock is free -/
theorem yield_lock_free_when_suspended (segs : Nat → Nat) (sched : List Nat)
    (h : ∀ u, suspended ((reached false segs sched).pc u) = true) : (reached false segs sched).lock = none := by
  have I := yield_released_invariant segs sched
  generalize reached false segs sched = s at *
  cases hl : s.lock with
  | none => rfl
  | some u =>
    obtain ⟨n, hn⟩ := (I.holder u).mp hl
    have := h u; rw [hn] at this; simp [suspended] at this

/-- a consumer whose generator has work left always makes progress when all OTHER generators are merely suspended:
    nobody has to resume, exhaust or close anything first -/
theorem yield_never_blocked_by_suspended (segs : Nat → Nat) (sched : List Nat) (t : Nat)
    (others : ∀ u, u ≠ t → suspended ((reached false segs sched).pc u) = true)
    (work : (reached false segs sched).pc t ≠ .idle 0) :
    (step false (reached false segs sched) t).pc t ≠ (reached false segs sched).pc t := by
  have I := yield_released_invariant segs sched
  generalize reached false segs sched = s at *
  unfold step
  split
  · rename_i hp; exact absurd hp work
  · rename_i n hp; simp [upd, hp]
  · rename_i n hp
    split
    · simp [upd, hp]
    · rename_i holder hl
      exfalso
      obtain ⟨m, hm⟩ := (I.holder holder).mp hl
      by_cases hh : holder = t
      · subst hh; rw [hp] at hm; cases hm
      · have := others holder hh; rw [hm] at this; simp [suspended] at this
  · rename_i n hp; simp [upd, hp]
  · rename_i n hp; exact absurd hp (I.noHeld t n)

/-- the hypotheses are satisfiable in a non-trivial state: generator 0 suspended after its first result with one more to come,
    generator 1 about to acquire -/
example : let s := reached false (fun _ => 2) [0, 0, 0, 1]
    s.pc 0 = .idle 1 ∧ s.pc 1 = .want 1 ∧ s.lock = none := by
  simp [reached, run, step, init, upd]

/-! ### the `yield` inside the `with L:` block

Full-strength statements, FALSE for `spans = true`:
  `∀ segs sched, (∀ u, suspended (pc u)) → lock = none`
  `∀ segs sched t, (∀ u ≠ t, suspended (pc u)) → pc t ≠ idle 0 → (step true s t).pc t ≠ s.pc t` -/

private theorem blocked_forever (s : St) (h0 : s.lock = some 0) (h1 : s.pc 1 = .want 0) (n : Nat) :
    (run true s (List.replicate n 1)).pc 1 = .want 0 ∧ (run true s (List.replicate n 1)).lock = some 0 := by
  induction n generalizing s with
  | zero => exact ⟨h1, h0⟩
  | succ m ih =>
    have hs : step true s 1 = s := by unfold step; rw [h1]; simp [h0]
    simp only [List.replicate_succ, run, hs]
    exact ih s h0 h1

/-- consumer 0 has received its (only) result and has not resumed its generator; consumer 1 starts an extraction:
    however often it is scheduled it never gets past the acquire, and the lock stays with the suspended generator -/
theorem yield_inside_lock_blocks (n : Nat) :
    let s := reached true (fun _ => 1) [0, 0, 0, 1]
    s.pc 0 = .held 0 ∧ suspended (s.pc 0) = true ∧
    (run true s (List.replicate n 1)).pc 1 = .want 0 ∧ (run true s (List.replicate n 1)).lock = some 0 := by
  have e0 : (reached true (fun _ => 1) [0, 0, 0, 1]).lock = some 0 := by simp [reached, run, step, init, upd]
  have e1 : (reached true (fun _ => 1) [0, 0, 0, 1]).pc 1 = .want 0 := by simp [reached, run, step, init, upd]
  have e2 : (reached true (fun _ => 1) [0, 0, 0, 1]).pc 0 = .held 0 := by simp [reached, run, step, init, upd]
  refine ⟨e2, by rw [e2]; rfl, ?_⟩
  exact blocked_forever _ e0 e1 n

/-- what remains true of the spanning protocol: the blocked extraction goes on as soon as — and only because — the first
    consumer resumes (exhausts / closes) its generator -/
theorem yield_inside_lock_partial :
    let s := reached true (fun _ => 1) [0, 0, 0, 1, 1, 1, 0, 1, 1, 1]
    s.pc 0 = .idle 0 ∧ s.pc 1 = .idle 0 ∧ s.lock = none := by
  simp [reached, run, step, init, upd]

/-! ### generated facts (current source) -/
open S2T.Cells S2T.Gen.Isolation

/-- no `yield` of a result generator is enclosed by a `with` over a lock or over a patch / set / restore section, and no
    generator function takes a lock by hand: every generator of the package is `spans = false` for every lock and section -/
theorem yields_hold_nothing_global :
    ∀ y ∈ yieldScopes, (∀ w ∈ y.withs, w.1 = "local".toList) ∧ y.acquires = false ∧ y.finallyReleases = false := by
  decide +kernel

/-- the lock-like objects of the package are the two the models own (`S2T.Patch` §1, `S2T.CacheConc` §6) -/
theorem locks_are_modelled :
    S2T.Gen.Isolation.notes = [] ∧
    ∀ l ∈ locks, (l.1, l.2.1) ∈ [("pdf_extractor.py".toList, "_CHAR_MAP_PATCH_LOCK".toList),
                                 ("_pypdf_aes_fallback.py".toList, "_ROUND_KEY_CACHE_LOCK".toList)] := by
  decide +kernel

/-! ## §11 caches that hand out their entries by reference -/
open S2T.CacheAlias

private theorem find_consistent {K V} [DecidableEq K] {f : K → V} {c : List (K × V)} (hc : Consistent f c) {k : K} {v : V}
    (h : find k c = some v) : v = f k := by
  induction c with
  | nil => simp [find] at h
  | cons kv r ih =>
    obtain ⟨k', v'⟩ := kv
    unfold find at h
    split at h
    · rename_i e; cases h; subst e; exact hc (k', v) (by simp)
    · exact ih (fun x hx => hc x (by simp [hx])) h

private theorem step_spec {K V} [DecidableEq K] (byRef : Bool) (f : K → V) (c : List (K × V)) (o : Op K V)
    (hc : Consistent f c) (ho : byRef = false ∨ ReadOnly [o]) :
    Consistent f (opStep byRef f c o).1 ∧ ∀ k, o = .get k → (opStep byRef f c o).2 = some (f k) := by
  cases o with
  | get k =>
    simp only [opStep]
    cases hv : find k c with
    | some v =>
      exact ⟨hc, fun k' e => by cases e; simp [find_consistent hc hv]⟩
    | none =>
      refine ⟨fun kv hkv => ?_, fun k' e => by cases e; rfl⟩
      simp at hkv
      rcases hkv with e | e
      · subst e; rfl
      · exact hc kv e
  | modify k g =>
    refine ⟨?_, fun k' e => by cases e⟩
    simp only [opStep]
    rcases ho with e | e
    · simp [e]; exact hc
    · have hg : ∀ v, g v = v := e.1
      cases byRef
      · simp; exact hc
      · simp only [↓reduceIte]
        intro kv hkv
        simp at hkv
        obtain ⟨a, b, hab, e2⟩ := hkv
        have := hc (a, b) hab
        split at e2 <;> (subst e2; simp_all)

private theorem run_consistent {K V} [DecidableEq K] (byRef : Bool) (f : K → V) (c : List (K × V)) (h : List (Op K V))
    (hc : Consistent f c) (ho : byRef = false ∨ ReadOnly h) : Consistent f (opRun byRef f c h) := by
  induction h generalizing c with
  | nil => exact hc
  | cons o r ih =>
    have ho1 : byRef = false ∨ ReadOnly [o] := by
      rcases ho with e | e
      · exact Or.inl e
      · right; cases o <;> simp_all [ReadOnly]
    have hor : byRef = false ∨ ReadOnly r := by
      rcases ho with e | e
      · exact Or.inl e
      · right; cases o <;> simp_all [ReadOnly]
    exact ih _ (step_spec byRef f c o hc ho1).1 hor

/-- a cache that hands out COPIES (or whose callers cannot reach the stored object): after every history of calls and of
    in-place modifications of handed-out values, a call returns what the function returns -/
theorem alias_copy_transparent {K V} [DecidableEq K] (f : K → V) (h : List (Op K V)) (k : K) :
    (opStep false f (opRun false f [] h) (.get k)).2 = some (f k) :=
  (step_spec false f _ (.get k) (run_consistent false f [] h (by intro kv hkv; cases hkv) (Or.inl rfl)) (Or.inl rfl)).2 k rfl

/-- a cache that hands out its entries BY REFERENCE is transparent for every history in which no handed-out value is ever
    modified — which is guaranteed when the values are immutable -/
theorem alias_readonly_transparent {K V} [DecidableEq K] (f : K → V) (h : List (Op K V)) (k : K) (ro : ReadOnly h) :
    (opStep true f (opRun true f [] h) (.get k)).2 = some (f k) :=
  (step_spec true f _ (.get k) (run_consistent true f [] h (by intro kv hkv; cases hkv) (Or.inr ro)) (Or.inr (by simp [ReadOnly]))).2 k rfl

example : ReadOnly [Op.get 1, Op.modify 1 (fun (v : List Nat) => v), Op.get 2] := by simp [ReadOnly]

/-- Full-strength statement `∀ h k, (opStep true f (opRun true f [] h) (.get k)).2 = some (f k)` is FALSE: a table row is split
    into its cells (`f`), the caller pads the row it got to the width of its table (`· ++ [0]`), the next document with the
    same row gets the padded row. -/
theorem alias_by_reference_counterexample :
    let f : Nat → List Nat := fun k => [k, k + 1]
    (opStep true f (opRun true f [] [.get 7, .modify 7 (· ++ [0])]) (.get 7)).2 ≠ some (f 7) := by
  decide

/-- generated fact: every functools cache of the package returns an immutable value (annotation of the decorated function) -/
def immutableAnnots : List Str :=
  ["bool".toList, "str".toList, "int".toList, "float".toList, "bytes".toList, "None".toList, "Callable".toList,
   "Tuple[Callable, Callable]".toList, "type".toList, "str | None".toList, "Optional[str]".toList, "tuple[str, ...]".toList,
   "tuple[str, str]".toList, "frozenset[str]".toList, "re.Pattern[str]".toList, "re.Pattern".toList]

theorem cache_values_immutable : ∀ c ∈ cacheReturns, c.2.2 ∈ immutableAnnots := by decide +kernel

end S2T.C15.Suspend
