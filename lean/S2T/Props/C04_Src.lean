import S2T.Lemmas.PyPaths
import S2T.Py.Records
import S2T.Gen.PyDataTypes
import S2T.Gen.Iface
/-!
# C04 (source tie) — the translated table accessors and `populate_from_path` ARE the hand model `S2T.Iface`

`S2T.Gen.PyDataTypes` is regenerated from the current text of `parsing/extractors/data_types.py` on every run
(`tools/gen/pyfun_paths.py`, construct by construct; methods of dataclasses: `self.<field>` is a record field).
For every table (any rows, ragged included, cells of any type), every list of records, every path string and
every behaviour of the file system:

* `get_table` / `get_dim` of `TableData`, `XlsxSheet`, `OdsSheet`, `OdtTable`, `RtfTable` are `self.data` /
  `dimOfData self.data` (the class ↦ kind assignment `tableKind … = dataIsTable` of the model is thereby PROVED
  per class from the source, not only listed);
* `XlsSheet.get_table` / `get_dim` are `xlsGetTable` / `xlsGetDim` (never raise: `self.data[0]` is guarded);
* `_resolved_if_present` and `FileMetadataInterface.populate_from_path` are `populateFromPath` at the host
  `hostOf env` (what `exists()` / `resolve()` answer), provided the file system raises nothing but `OSError`
  (`FsOk`); any other exception propagates unchanged (`resolved_if_present_propagates`).

Python ints are `Int`, the model counts in `Nat` (`dimInt`); objects are `S2T.Py.Any`, the model is generic in
the cell type (`cellAny` embeds the model's `XCell` — header / value / missing — into objects: a missing key and
a stored `None` are the same object `None`, as in Python).
-/
set_option linter.unusedSimpArgs false
namespace S2T.C04.Src
open S2T.Py S2T.Iface S2T.Gen.PyDataTypes

/-- the translator understood every construct of the whitelisted functions -/
theorem gen_py_notes_empty : S2T.Gen.PyDataTypes.notes = [] := by decide

/-- the functions this file ties (a renamed / removed method breaks this) -/
theorem gen_py_translated : S2T.Gen.PyDataTypes.translated =
    ["TableData.get_table", "TableData.get_dim", "XlsxSheet.get_table", "XlsxSheet.get_dim",
     "OdsSheet.get_table", "OdsSheet.get_dim", "OdtTable.get_table", "OdtTable.get_dim",
     "RtfTable.get_table", "RtfTable.get_dim", "XlsSheet.get_table", "XlsSheet.get_dim",
     "_resolved_if_present", "FileMetadataInterface.populate_from_path"] := by decide

/-- every table class of the generated interface inventory has both accessors tied here -/
theorem table_classes_translated :
    ∀ e ∈ S2T.Gen.Iface.accessors, e.1 = Role.table →
      (e.2.1 ++ ".get_table") ∈ S2T.Gen.PyDataTypes.translated ∧ (e.2.1 ++ ".get_dim") ∈ S2T.Gen.PyDataTypes.translated := by
  decide

/-! ## `get_dim` / `get_table` of the classes whose table is `self.data` -/

/-- the model's `Dim` as the `TableDim` object the source builds -/
def dimInt (d : Dim) : TableDim := ⟨(d.rows : Int), (d.columns : Int)⟩

theorem foldl_max_len {α} (l : List (List α)) (x : Int) (hx : 0 ≤ x) :
    (l.map fun r => len r).foldl max x = max x (maxLen l : Int) := by
  induction l generalizing x with
  | nil => simp [maxLen]; omega
  | cons r rs ih =>
    have h0 : 0 ≤ max x (len r) := by omega
    rw [List.map_cons, List.foldl_cons, ih _ h0]
    simp only [maxLen, len]
    omega

/-- `max((len(row) for row in data), default=0)` is the model's `maxLen` -/
theorem maxD_len {α} (l : List (List α)) : maxD (l.map fun r => len r) 0 = (maxLen l : Int) := by
  cases l with
  | nil => rfl
  | cons r rs =>
    rw [List.map_cons]
    simp only [maxD]
    rw [foldl_max_len _ _ (len_nonneg r)]
    simp only [maxLen, len]
    omega

/-- closes `Cls.get_dim self = dimInt (dimOfData self.data)` for any shape of the (loop-free) body -/
macro "py_dim" : tactic => `(tactic| (
  simp +instances [Id.run, dimInt, dimOfData, maxD_len, pure]
  try simp [len]))

theorem TableData_get_table_eq (self : DataTable) : TableData.get_table self = self.data := by
  simp [TableData.get_table, Id.run, pure]
theorem TableData_get_dim_eq (self : DataTable) : TableData.get_dim self = dimInt (dimOfData self.data) := by
  unfold TableData.get_dim; py_dim
theorem XlsxSheet_get_table_eq (self : DataTable) : XlsxSheet.get_table self = self.data := by
  simp [XlsxSheet.get_table, Id.run, pure]
theorem XlsxSheet_get_dim_eq (self : DataTable) : XlsxSheet.get_dim self = dimInt (dimOfData self.data) := by
  unfold XlsxSheet.get_dim; py_dim
theorem OdsSheet_get_table_eq (self : DataTable) : OdsSheet.get_table self = self.data := by
  simp [OdsSheet.get_table, Id.run, pure]
theorem OdsSheet_get_dim_eq (self : DataTable) : OdsSheet.get_dim self = dimInt (dimOfData self.data) := by
  unfold OdsSheet.get_dim; py_dim
theorem OdtTable_get_table_eq (self : DataTable) : OdtTable.get_table self = self.data := by
  simp [OdtTable.get_table, Id.run, pure]
theorem OdtTable_get_dim_eq (self : DataTable) : OdtTable.get_dim self = dimInt (dimOfData self.data) := by
  unfold OdtTable.get_dim; py_dim
theorem RtfTable_get_table_eq (self : DataTable) : RtfTable.get_table self = self.data := by
  simp [RtfTable.get_table, Id.run, pure]
theorem RtfTable_get_dim_eq (self : DataTable) : RtfTable.get_dim self = dimInt (dimOfData self.data) := by
  unfold RtfTable.get_dim; py_dim

/-- **C04 (i) on the source**: for these five classes `get_dim()` is the shape of `get_table()` -/
theorem data_tables_dim_of_table (self : DataTable) :
    TableData.get_dim self = dimInt (dimOfData (TableData.get_table self))
    ∧ XlsxSheet.get_dim self = dimInt (dimOfData (XlsxSheet.get_table self))
    ∧ OdsSheet.get_dim self = dimInt (dimOfData (OdsSheet.get_table self))
    ∧ OdtTable.get_dim self = dimInt (dimOfData (OdtTable.get_table self))
    ∧ RtfTable.get_dim self = dimInt (dimOfData (RtfTable.get_table self)) := by
  simp only [TableData_get_table_eq, XlsxSheet_get_table_eq, OdsSheet_get_table_eq, OdtTable_get_table_eq,
    RtfTable_get_table_eq, TableData_get_dim_eq, XlsxSheet_get_dim_eq, OdsSheet_get_dim_eq, OdtTable_get_dim_eq,
    RtfTable_get_dim_eq, and_self]

/-! ## `XlsSheet` -/

/-- a cell of the model's table as the object the source puts into the row -/
def cellAny : XCell Py.Str Any → Any
  | .key k => Any.str k
  | .val v => v
  | .none => Any.none

theorem lookup_eq_dictGet {β} (row : List (Py.Str × β)) (h : Py.Str) : S2T.Router.lookup h row = dictGet row h := by
  induction row with
  | nil => rfl
  | cons kv r ih =>
    obtain ⟨k, v⟩ := kv
    simp only [S2T.Router.lookup, dictGet, ih, @eq_comm _ h k]

/-- a `for x in xs: acc.append(g(x))` loop appends the mapped list (any body that agrees with `g` element-wise) -/
theorem forIn_append_map {α β} (xs : List α) (g : α → β) (f : α → List β → M (ForInStep (List β)))
    (hf : ∀ x acc, f x acc = Except.ok (ForInStep.yield (acc ++ [g x]))) (acc : List β) :
    forIn xs acc f = Except.ok (acc ++ xs.map g) := by
  induction xs generalizing acc with
  | nil => simp
  | cons x r ih => simp [List.forIn_cons, hf, ih]

/-- **`XlsSheet.get_table` is `xlsGetTable`** (all lists of records; it never raises) -/
theorem XlsSheet_get_table_eq (self : Py.XlsSheet) :
    XlsSheet.get_table self = pure ((xlsGetTable self.data).map (·.map cellAny)) := by
  obtain ⟨data⟩ := self
  rcases data with _ | ⟨first, rest⟩
  · unfold XlsSheet.get_table
    simp +instances [xlsGetTable]
  · unfold XlsSheet.get_table
    simp +instances [listGetItem]
    rw [forIn_append_map (g := fun row => (dictKeys first).map fun h => Any.ofOption (dictGet row h))]
    · simp [xlsGetTable, dictKeys, cellAny, Function.comp_def, dictGet?, lookup_eq_dictGet]
      constructor
      · intro a b hab; cases hd : dictGet first a <;> simp [cellAny, Any.ofOption]
      · intro row hrow a b hab; cases hd : dictGet row a <;> simp [cellAny, Any.ofOption]
    · intro row acc
      simp [dictGet?, lookup_eq_dictGet, Function.comp_def]

theorem maxLen_map {α β} (f : α → β) (l : List (List α)) : maxLen (l.map (List.map f)) = maxLen l := by
  induction l with
  | nil => rfl
  | cons r rs ih => simp [maxLen, ih]

/-- **`XlsSheet.get_dim` is `xlsGetDim`** -/
theorem XlsSheet_get_dim_eq (self : Py.XlsSheet) : XlsSheet.get_dim self = pure (dimInt (xlsGetDim self.data)) := by
  unfold XlsSheet.get_dim
  simp +instances [XlsSheet_get_table_eq, xlsGetDim, dimInt, dimOfData, maxD_len]
  simp [len, maxLen_map]


/-! ## `_resolved_if_present`, `populate_from_path` -/

/-- the model's `Host` (what the OS answers for a path string) read off the file-system environment:
    `some r` = `exists()` said yes and `resolve()` returned `r`; `none` = anything else -/
def hostOf (env : FsEnv) : Host := fun s =>
  match env.pathExists s with
  | .ok true => (match env.pathResolve s with | .ok r => some r.str | .error _ => none)
  | _ => none

/-- the file system raises nothing but `OSError` (what `pathlib` documents for `exists` / `resolve`) -/
def FsOk (env : FsEnv) : Prop :=
  (∀ s e, env.pathExists s = .error e → e.isa "OSError" = true) ∧
  (∀ s e, env.pathResolve s = .error e → e.isa "OSError" = true)

def osError : Exc := ⟨"OSError", ["OSError", "Exception", "BaseException"], "", 0⟩
example : FsOk ⟨fun s => if s.length > 255 then throw osError else pure (s.length % 2 == 0),
    fun s => pure (parsePath ('/' :: s))⟩ := by
  constructor
  · intro s e h; dsimp only at h; split at h <;> cases h; rfl
  · intro s e h; cases h

/-- **`_resolved_if_present` is the model's `(host s).getD s`** at `s = str(p)` -/
theorem resolved_if_present_eq (env : FsEnv) (p : PurePath) (hfs : FsOk env) :
    _resolved_if_present env p = pure ((hostOf env p.str).getD p.str) := by
  rcases he : env.pathExists p.str with e | (_ | _) <;> rcases hr : env.pathResolve p.str with e2 | r
  all_goals (
    try have h1 := hfs.1 _ _ he
    try have h2 := hfs.2 _ _ hr
    unfold _resolved_if_present
    simp +instances [*, hostOf, EarlyReturn.runK, EarlyReturnT.return]
    try rfl)

/-- outside `FsOk`: an exception of `exists()` that is not an `OSError` is not swallowed -/
theorem resolved_if_present_propagates (env : FsEnv) (p : PurePath) (e : Exc)
    (he : env.pathExists p.str = .error e) (hne : e.isa "OSError" = false) :
    _resolved_if_present env p = throw e := by
  unfold _resolved_if_present
  simp +instances [he, hne]

/-- **`populate_from_path` is `populateFromPath`** at the host the environment presents: for every
    metadata object, every path string (or `None`) and every file system that raises only `OSError` -/
theorem populate_from_path_eq (env : FsEnv) (m : FileMeta) (path : Option Py.Str) (hfs : FsOk env) :
    FileMetadataInterface.populate_from_path env m path = pure (populateFromPath (hostOf env) m path) := by
  rcases path with _ | s
  · unfold FileMetadataInterface.populate_from_path
    simp +instances [populateFromPath]
  · unfold FileMetadataInterface.populate_from_path
    simp +instances [populateFromPath, resolved_if_present_eq _ _ hfs]

end S2T.C04.Src
