import S2T.Model.IfaceStreams
/-! # C04 (streams of several images)

A caller of the common interface collects `get_bytes()` of several images and reads / closes the handles afterwards.
Over the heap model of `S2T.Model.IfaceStreams`:

* images whose stored stream objects are pairwise distinct deliver, each, the whole payload from position 0,
  whatever was collected before and in whatever order the handles are read (`collect_then_read*`);
* the constructor forms `none` / `fresh` build exactly such images, with `size_bytes = len(payload)`
  (`build_fresh_separate`, `built_images_collect_then_read`);
* the form `cached` (one object stored in several images) does not: counterexamples;
* a `bytes` class never shares anything (`bytes_kind_always_separate`).
-/
namespace S2T.C04.Streams
open S2T.Iface

/-! ## 1. reading distinct handles -/

private theorem readCell_open (w : World) (h : Nat) (hc : (w.cell h).closed = false) (hp : (w.cell h).pos = 0) :
    readCell w h =
      (some (0, (w.cell h).content), w.put h { w.cell h with pos := max 0 (w.cell h).content.length }) := by
  simp only [readCell, hc, hp, List.drop_zero, Bool.false_eq_true, if_false]

private theorem put_cell_ne (w : World) (i j : Nat) (c : Cell) (hne : j ≠ i) : (w.put i c).cell j = w.cell j := by
  simp only [World.put, hne, if_false]

private theorem put_cell_eq (w : World) (i : Nat) (c : Cell) : (w.put i c).cell i = c := by
  simp only [World.put, if_true]

private theorem put_next (w : World) (i : Nat) (c : Cell) : (w.put i c).next = w.next := rfl

/-- reading handles that are pairwise distinct, open and at position 0 delivers every stream whole -/
theorem read_distinct : ∀ (w : World) (hs : List Nat), hs.Nodup →
    (∀ h ∈ hs, (w.cell h).closed = false ∧ (w.cell h).pos = 0) →
    readAll w hs = hs.map (fun h => some (0, (w.cell h).content)) := by
  intro w hs
  induction hs generalizing w with
  | nil => intro _ _; rfl
  | cons h hs ih =>
    intro hnd hall
    have hh := hall h (List.mem_cons_self)
    have hnd' := List.nodup_cons.mp hnd
    simp only [readAll, readCell_open w h hh.1 hh.2, List.map_cons]
    congr 1
    have hne : ∀ x ∈ hs, x ≠ h := by
      intro x hx hxe; exact hnd'.1 (hxe ▸ hx)
    rw [ih _ hnd'.2]
    · apply List.map_congr_left
      intro x hx
      rw [put_cell_ne _ _ _ _ (hne x hx)]
    · intro x hx
      rw [put_cell_ne _ _ _ _ (hne x hx)]
      exact hall x (List.mem_cons_of_mem _ hx)

/-! ## 2. collecting `get_bytes()` of images with pairwise distinct stream objects -/

private theorem mem_streamIds {ims : List ImageRef} {im : ImageRef} {id : Nat}
    (hm : im ∈ ims) (hp : im.payload = .stream id) : id ∈ streamIds ims := by
  induction ims with
  | nil => cases hm
  | cons a as ih =>
    rcases List.mem_cons.mp hm with rfl | h
    · simp only [streamIds, hp]; exact List.mem_cons_self
    · have := ih h
      simp only [streamIds]
      split
      · exact List.mem_cons_of_mem _ this
      · exact this

private theorem payloadContent_congr (w1 w : World) (im : ImageRef)
    (h : ∀ id, im.payload = .stream id → (w1.cell id).content = (w.cell id).content) :
    payloadContent w1 im = payloadContent w im := by
  cases hp : im.payload with
  | noData => simp only [payloadContent, hp]
  | bytes b => simp only [payloadContent, hp]
  | stream id => simp only [payloadContent, hp]; exact h id hp

private theorem collect_cons (w : World) (im : ImageRef) (ims : List ImageRef) :
    collect w (im :: ims) =
      ((getBytesW w im).1 :: (collect (getBytesW w im).2 ims).1, (collect (getBytesW w im).2 ims).2) := rfl

private theorem getBytesW_stream (w : World) (im : ImageRef) (id : Nat) (h : im.payload = .stream id)
    (hc : (w.cell id).closed = false) :
    getBytesW w im = (some id, w.put id { w.cell id with pos := 0 }) := by
  simp only [getBytesW, h, hc, Bool.false_eq_true, if_false]

private theorem getBytesW_alloc (w : World) (im : ImageRef) (h : ∀ id, im.payload ≠ .stream id) :
    getBytesW w im = (some w.next, (w.alloc (payloadContent w im)).2) := by
  cases hp : im.payload with
  | noData => simp only [getBytesW, payloadContent, hp, World.alloc]
  | bytes b => simp only [getBytesW, payloadContent, hp, World.alloc]
  | stream id => exact absurd hp (h id)

private theorem streamIds_cons_stream (im : ImageRef) (ims : List ImageRef) (id : Nat)
    (h : im.payload = .stream id) : streamIds (im :: ims) = id :: streamIds ims := by
  simp only [streamIds, h]

private theorem streamIds_cons_other (im : ImageRef) (ims : List ImageRef)
    (h : ∀ id, im.payload ≠ .stream id) : streamIds (im :: ims) = streamIds ims := by
  cases hp : im.payload with
  | noData => simp only [streamIds, hp]
  | bytes b => simp only [streamIds, hp]
  | stream id => exact absurd hp (h id)

private theorem alloc_next (w : World) (v : List Nat) : (w.alloc v).2.next = w.next + 1 := rfl

private theorem alloc_cell_ne (w : World) (v : List Nat) (j : Nat) (h : j ≠ w.next) :
    (w.alloc v).2.cell j = w.cell j := by
  simp only [World.alloc, h, if_false]

private theorem alloc_cell_eq (w : World) (v : List Nat) : (w.alloc v).2.cell w.next = ⟨v, 0, false⟩ := by
  simp only [World.alloc, if_true]

/-- the invariants of `collect` (generalised over the start world) -/
private theorem collect_inv : ∀ (ims : List ImageRef) (w : World), (streamIds ims).Nodup →
    (∀ i ∈ streamIds ims, i < w.next ∧ (w.cell i).closed = false) →
    ∃ hs : List Nat, (collect w ims).1 = hs.map some ∧ hs.length = ims.length ∧ hs.Nodup ∧
      w.next ≤ (collect w ims).2.next ∧
      (∀ h ∈ hs, h ∈ streamIds ims ∨ w.next ≤ h) ∧
      (∀ i, i < w.next → ((collect w ims).2.cell i).content = (w.cell i).content) ∧
      (∀ i, i < w.next → i ∉ streamIds ims → (collect w ims).2.cell i = w.cell i) ∧
      (∀ k (hk : k < ims.length) (hk' : k < hs.length),
        ((collect w ims).2.cell hs[k]).closed = false ∧ ((collect w ims).2.cell hs[k]).pos = 0 ∧
        ((collect w ims).2.cell hs[k]).content = payloadContent w ims[k]) := by
  intro ims
  induction ims with
  | nil =>
    intro w _ _
    refine ⟨[], rfl, rfl, List.nodup_nil, Nat.le_refl _, ?_, fun _ _ => rfl, fun _ _ _ => rfl, ?_⟩
    · intro h hh; cases hh
    · intro k hk; cases hk
  | cons im ims ih =>
    intro w hnd hall
    by_cases hst : ∃ id, im.payload = .stream id
    · -- the image stores a stream object: it is rewound and handed out
      obtain ⟨id, hid⟩ := hst
      have hsi := streamIds_cons_stream im ims id hid
      rw [hsi] at hnd hall
      have hnd' := List.nodup_cons.mp hnd
      have hidw := hall id List.mem_cons_self
      have hg := getBytesW_stream w im id hid hidw.2
      generalize hw1 : w.put id { w.cell id with pos := 0 } = w1 at hg
      have hnext1 : w1.next = w.next := by subst hw1; rfl
      have hcell1 : ∀ j, j ≠ id → w1.cell j = w.cell j := by
        subst hw1; intro j hj; exact put_cell_ne _ _ _ _ hj
      have hcellid : w1.cell id = { w.cell id with pos := 0 } := by subst hw1; exact put_cell_eq _ _ _
      have hcont1 : ∀ j, (w1.cell j).content = (w.cell j).content := by
        intro j
        by_cases hj : j = id
        · subst hj; rw [hcellid]
        · rw [hcell1 j hj]
      obtain ⟨hs, h1, h2, h3, h4, h5, h6, h7, h8⟩ := ih w1 hnd'.2 (by
        intro i hi
        have := hall i (List.mem_cons_of_mem _ hi)
        have hne : i ≠ id := fun e => hnd'.1 (e ▸ hi)
        rw [hnext1, hcell1 i hne]; exact this)
      have hcol : collect w (im :: ims) = (some id :: (collect w1 ims).1, (collect w1 ims).2) := by
        rw [collect_cons, hg]
      rw [hcol, hsi]
      have hidW : (collect w1 ims).2.cell id = { w.cell id with pos := 0 } := by
        rw [h7 id (by omega) hnd'.1, hcellid]
      refine ⟨id :: hs, ?_, ?_, ?_, ?_, ?_, ?_, ?_, ?_⟩
      · simp only [List.map_cons, h1]
      · simp only [List.length_cons, h2]
      · refine List.nodup_cons.mpr ⟨?_, h3⟩
        intro hin
        rcases h5 id hin with h | h
        · exact hnd'.1 h
        · omega
      · show w.next ≤ (collect w1 ims).2.next
        omega
      · intro h hh
        rcases List.mem_cons.mp hh with rfl | hh
        · exact Or.inl List.mem_cons_self
        · rcases h5 h hh with h' | h'
          · exact Or.inl (List.mem_cons_of_mem _ h')
          · exact Or.inr (by omega)
      · intro i hi
        show ((collect w1 ims).2.cell i).content = _
        rw [h6 i (by omega), hcont1]
      · intro i hi hni
        show (collect w1 ims).2.cell i = _
        have hne : i ≠ id := fun e => hni (e ▸ List.mem_cons_self)
        have hni' : i ∉ streamIds ims := fun e => hni (List.mem_cons_of_mem _ e)
        rw [h7 i (by omega) hni', hcell1 i hne]
      · intro k hk hk'
        show ((collect w1 ims).2.cell (id :: hs)[k]).closed = false ∧ ((collect w1 ims).2.cell (id :: hs)[k]).pos = 0 ∧
          ((collect w1 ims).2.cell (id :: hs)[k]).content = payloadContent w (im :: ims)[k]
        cases k with
        | zero =>
          simp only [List.getElem_cons_zero, hidW]
          refine ⟨hidw.2, trivial, ?_⟩
          simp only [payloadContent, hid]
        | succ k =>
          simp only [List.getElem_cons_succ]
          have hk2 : k < ims.length := by simpa using hk
          have hk2' : k < hs.length := by simpa using hk'
          have := h8 k hk2 hk2'
          rw [payloadContent_congr w1 w ims[k] (fun j _ => hcont1 j)] at this
          exact this
    · -- `bytes` / no payload: a new object
      have hst' : ∀ id, im.payload ≠ .stream id := fun id h => hst ⟨id, h⟩
      have hsi := streamIds_cons_other im ims hst'
      rw [hsi] at hnd hall
      have hg := getBytesW_alloc w im hst'
      generalize hv : payloadContent w im = v at hg
      generalize hw1 : (w.alloc v).2 = w1 at hg
      have hnext1 : w1.next = w.next + 1 := by subst hw1; rfl
      have hcell1 : ∀ j, j ≠ w.next → w1.cell j = w.cell j := by
        subst hw1; intro j hj; exact alloc_cell_ne _ _ _ hj
      have hcellid : w1.cell w.next = ⟨v, 0, false⟩ := by subst hw1; exact alloc_cell_eq _ _
      obtain ⟨hs, h1, h2, h3, h4, h5, h6, h7, h8⟩ := ih w1 hnd (by
        intro i hi
        have := hall i hi
        have hne : i ≠ w.next := by omega
        rw [hnext1, hcell1 i hne]; exact ⟨by omega, this.2⟩)
      have hcol : collect w (im :: ims) = (some w.next :: (collect w1 ims).1, (collect w1 ims).2) := by
        rw [collect_cons, hg]
      rw [hcol, hsi]
      have hnew : w.next ∉ streamIds ims := fun e => by have := (hall _ e).1; omega
      have hidW : (collect w1 ims).2.cell w.next = ⟨v, 0, false⟩ := by
        rw [h7 w.next (by omega) hnew, hcellid]
      refine ⟨w.next :: hs, ?_, ?_, ?_, ?_, ?_, ?_, ?_, ?_⟩
      · simp only [List.map_cons, h1]
      · simp only [List.length_cons, h2]
      · refine List.nodup_cons.mpr ⟨?_, h3⟩
        intro hin
        rcases h5 _ hin with h | h
        · exact hnew h
        · omega
      · show w.next ≤ (collect w1 ims).2.next
        omega
      · intro h hh
        rcases List.mem_cons.mp hh with rfl | hh
        · exact Or.inr (Nat.le_refl _)
        · rcases h5 h hh with h' | h'
          · exact Or.inl h'
          · exact Or.inr (by omega)
      · intro i hi
        show ((collect w1 ims).2.cell i).content = _
        rw [h6 i (by omega), hcell1 i (by omega)]
      · intro i hi hni
        show (collect w1 ims).2.cell i = _
        rw [h7 i (by omega) hni, hcell1 i (by omega)]
      · intro k hk hk'
        show ((collect w1 ims).2.cell (w.next :: hs)[k]).closed = false ∧
          ((collect w1 ims).2.cell (w.next :: hs)[k]).pos = 0 ∧
          ((collect w1 ims).2.cell (w.next :: hs)[k]).content = payloadContent w (im :: ims)[k]
        cases k with
        | zero =>
          simp only [List.getElem_cons_zero, hidW]
          exact ⟨trivial, trivial, hv.symm⟩
        | succ k =>
          simp only [List.getElem_cons_succ]
          have hk2 : k < ims.length := by simpa using hk
          have hk2' : k < hs.length := by simpa using hk'
          have := h8 k hk2 hk2'
          rw [payloadContent_congr w1 w ims[k] (fun j hj => by
            have hj' := mem_streamIds (List.getElem_mem hk2) hj
            have := (hall j hj').1
            rw [hcell1 j (by omega)])] at this
          exact this

/-- images whose stored stream objects are pairwise distinct, allocated and open: collecting `get_bytes()` of all of
them raises nowhere, the handles are pairwise distinct, and afterwards every handle is open, at position 0 and holds
its image's payload -/
theorem collect_separate : ∀ (w : World) (ims : List ImageRef), (streamIds ims).Nodup →
    (∀ i ∈ streamIds ims, i < w.next ∧ (w.cell i).closed = false) →
    ∃ hs : List Nat, (collect w ims).1 = hs.map some ∧ hs.Nodup ∧ hs.length = ims.length ∧
      ∀ k (hk : k < ims.length) (hk' : k < hs.length),
        ((collect w ims).2.cell hs[k]).closed = false ∧ ((collect w ims).2.cell hs[k]).pos = 0 ∧
        ((collect w ims).2.cell hs[k]).content = payloadContent w ims[k] := by
  intro w ims hnd hall
  obtain ⟨hs, h1, h2, h3, _, _, _, _, h8⟩ := collect_inv ims w hnd hall
  exact ⟨hs, h1, h3, h2, h8⟩

/-! ## 3. collect everything, then read everything -/

private theorem handles_ready {W : World} {w : World} {ims : List ImageRef} {hs : List Nat}
    (hlen : hs.length = ims.length)
    (h8 : ∀ k (hk : k < ims.length) (hk' : k < hs.length),
      (W.cell hs[k]).closed = false ∧ (W.cell hs[k]).pos = 0 ∧ (W.cell hs[k]).content = payloadContent w ims[k]) :
    ∀ h ∈ hs, (W.cell h).closed = false ∧ (W.cell h).pos = 0 := by
  intro h hh
  obtain ⟨k, hk', rfl⟩ := List.mem_iff_getElem.mp hh
  have := h8 k (by omega) hk'
  exact ⟨this.1, this.2.1⟩

/-- the main theorem: with pairwise distinct, allocated, open stream objects, collecting `get_bytes()` of every image
and reading the handles afterwards finds every stream at position 0 and delivers the whole payload -/
theorem collect_then_read : ∀ (w : World) (ims : List ImageRef), (streamIds ims).Nodup →
    (∀ i ∈ streamIds ims, i < w.next ∧ (w.cell i).closed = false) →
    ∃ hs : List Nat, (collect w ims).1 = hs.map some ∧
      readAll (collect w ims).2 hs = ims.map (fun im => some (0, payloadContent w im)) := by
  intro w ims hnd hall
  obtain ⟨hs, h1, h2, h3, h4⟩ := collect_separate w ims hnd hall
  refine ⟨hs, h1, ?_⟩
  rw [read_distinct _ hs h2 (handles_ready h3 h4)]
  apply List.ext_getElem
  · simp only [List.length_map, h3]
  · intro k hk hk'
    simp only [List.length_map] at hk hk'
    simp only [List.getElem_map]
    rw [(h4 k hk' hk).2.2]

/-- the same for THE handles collected (they are determined by `collect`) -/
theorem collect_then_read_handles : ∀ (w : World) (ims : List ImageRef), (streamIds ims).Nodup →
    (∀ i ∈ streamIds ims, i < w.next ∧ (w.cell i).closed = false) →
    ∀ hs : List Nat, (collect w ims).1 = hs.map some →
      readAll (collect w ims).2 hs = ims.map (fun im => some (0, payloadContent w im)) := by
  intro w ims hnd hall hs hhs
  obtain ⟨hs', h1, h2⟩ := collect_then_read w ims hnd hall
  have : hs = hs' := by
    rw [h1] at hhs
    exact ((List.map_inj_right (f := some) (fun x y h => Option.some.inj h)).mp hhs).symm
  rw [this]; exact h2

/-- … and in any order (any duplicate-free list of collected handles, e.g. a permutation of all of them):
every stream read is found at position 0 and delivers its whole content, which is the payload of its image -/
theorem collect_then_read_any_order : ∀ (w : World) (ims : List ImageRef), (streamIds ims).Nodup →
    (∀ i ∈ streamIds ims, i < w.next ∧ (w.cell i).closed = false) →
    ∃ hs : List Nat, (collect w ims).1 = hs.map some ∧ hs.length = ims.length ∧
      (∀ k (hk : k < ims.length) (hk' : k < hs.length),
        ((collect w ims).2.cell hs[k]).content = payloadContent w ims[k]) ∧
      ∀ order : List Nat, order.Nodup → (∀ h ∈ order, h ∈ hs) →
        readAll (collect w ims).2 order =
          order.map (fun h => some (0, ((collect w ims).2.cell h).content)) := by
  intro w ims hnd hall
  obtain ⟨hs, h1, h2, h3, h4⟩ := collect_separate w ims hnd hall
  refine ⟨hs, h1, h3, fun k hk hk' => (h4 k hk hk').2.2, ?_⟩
  intro order hond hsub
  exact read_distinct _ order hond (fun h hh => handles_ready h3 h4 h (hsub h hh))

/-- a permutation of the handles is such an order -/
theorem collect_then_read_perm : ∀ (w : World) (ims : List ImageRef), (streamIds ims).Nodup →
    (∀ i ∈ streamIds ims, i < w.next ∧ (w.cell i).closed = false) →
    ∀ hs order : List Nat, (collect w ims).1 = hs.map some → order.Perm hs →
      readAll (collect w ims).2 order =
        order.map (fun h => some (0, ((collect w ims).2.cell h).content)) := by
  intro w ims hnd hall hs order hhs hperm
  obtain ⟨hs', h1, h2, h3, h4⟩ := collect_separate w ims hnd hall
  have : hs = hs' := by
    rw [h1] at hhs
    exact ((List.map_inj_right (f := some) (fun x y h => Option.some.inj h)).mp hhs).symm
  subst this
  exact read_distinct _ order (hperm.nodup_iff.mpr h2)
    (fun h hh => handles_ready h3 h4 h (hperm.mem_iff.mp hh))

/-! ## 4. what the constructor sites build without the `cached` form -/

private theorem build_none (kind : PayloadKind) (w : World) (cache : List (Nat × Nat)) (ss : List Source) :
    buildImages kind w cache (.none :: ss) =
      (⟨.noData, 0⟩ :: (buildImages kind w cache ss).1, (buildImages kind w cache ss).2) := rfl

private theorem build_fresh_stream (w : World) (cache : List (Nat × Nat)) (v : List Nat) (ss : List Source) :
    buildImages .stream w cache (.fresh v :: ss) =
      (⟨.stream w.next, v.length⟩ :: (buildImages .stream (w.alloc v).2 cache ss).1,
        (buildImages .stream (w.alloc v).2 cache ss).2) := rfl

private theorem build_fresh_bytes (w : World) (cache : List (Nat × Nat)) (v : List Nat) (ss : List Source) :
    buildImages .bytes w cache (.fresh v :: ss) =
      (⟨.bytes v, v.length⟩ :: (buildImages .bytes w cache ss).1, (buildImages .bytes w cache ss).2) := rfl

private theorem build_fresh_other (w : World) (cache : List (Nat × Nat)) (v : List Nat) (ss : List Source) :
    buildImages .otherKind w cache (.fresh v :: ss) =
      (⟨.bytes v, v.length⟩ :: (buildImages .otherKind w cache ss).1, (buildImages .otherKind w cache ss).2) := rfl

/-- invariants of the constructor loop without `cached` sources: allocated objects are left alone, the stream ids
stored are new (`≥ w.next`), allocated afterwards, open and pairwise distinct; sizes are payload lengths -/
theorem build_fresh_invariants (kind : PayloadKind) : ∀ (srcs : List Source) (w : World) (cache : List (Nat × Nat)),
    (∀ s ∈ srcs, isCached s = false) →
    w.next ≤ (buildImages kind w cache srcs).2.next ∧
    (∀ i, i < w.next → (buildImages kind w cache srcs).2.cell i = w.cell i) ∧
    (streamIds (buildImages kind w cache srcs).1).Nodup ∧
    (∀ i ∈ streamIds (buildImages kind w cache srcs).1,
      w.next ≤ i ∧ i < (buildImages kind w cache srcs).2.next ∧
      ((buildImages kind w cache srcs).2.cell i).closed = false) ∧
    (∀ im ∈ (buildImages kind w cache srcs).1,
      im.sizeBytes = (payloadContent (buildImages kind w cache srcs).2 im).length) := by
  intro srcs
  induction srcs with
  | nil =>
    intro w cache _
    refine ⟨Nat.le_refl _, fun _ _ => rfl, List.nodup_nil, ?_, ?_⟩
    · intro i hi; cases hi
    · intro im him; cases him
  | cons s ss ih =>
    intro w cache hnc
    have hnc' : ∀ s ∈ ss, isCached s = false := fun s hs => hnc s (List.mem_cons_of_mem _ hs)
    -- a step that allocates nothing and stores no stream
    have plain : ∀ (im : ImageRef), (∀ id, im.payload ≠ .stream id) →
        (∀ W, im.sizeBytes = (payloadContent W im).length) →
        buildImages kind w cache (s :: ss) = (im :: (buildImages kind w cache ss).1, (buildImages kind w cache ss).2) →
        w.next ≤ (buildImages kind w cache (s :: ss)).2.next ∧
        (∀ i, i < w.next → (buildImages kind w cache (s :: ss)).2.cell i = w.cell i) ∧
        (streamIds (buildImages kind w cache (s :: ss)).1).Nodup ∧
        (∀ i ∈ streamIds (buildImages kind w cache (s :: ss)).1,
          w.next ≤ i ∧ i < (buildImages kind w cache (s :: ss)).2.next ∧
          ((buildImages kind w cache (s :: ss)).2.cell i).closed = false) ∧
        (∀ im ∈ (buildImages kind w cache (s :: ss)).1,
          im.sizeBytes = (payloadContent (buildImages kind w cache (s :: ss)).2 im).length) := by
      intro im hns hsz heq
      obtain ⟨a1, a2, a3, a4, a5⟩ := ih w cache hnc'
      rw [heq]
      refine ⟨a1, a2, ?_, ?_, ?_⟩
      · show (streamIds (im :: _)).Nodup
        rw [streamIds_cons_other im _ hns]; exact a3
      · show ∀ i ∈ streamIds (im :: _), _
        rw [streamIds_cons_other im _ hns]; exact a4
      · intro x hx
        rcases List.mem_cons.mp hx with rfl | hx
        · exact hsz _
        · exact a5 x hx
    cases s with
    | none =>
      exact plain ⟨.noData, 0⟩ (fun id h => by cases h) (fun W => rfl) (build_none kind w cache ss)
    | cached key v =>
      have := hnc (.cached key v) List.mem_cons_self
      simp only [isCached] at this
      cases this
    | fresh v =>
      cases kind with
      | bytes =>
        exact plain ⟨.bytes v, v.length⟩ (fun id h => by cases h) (fun W => rfl) (build_fresh_bytes w cache v ss)
      | otherKind =>
        exact plain ⟨.bytes v, v.length⟩ (fun id h => by cases h) (fun W => rfl) (build_fresh_other w cache v ss)
      | stream =>
        rw [build_fresh_stream]
        generalize hw1 : (w.alloc v).2 = w1
        have hnext1 : w1.next = w.next + 1 := by subst hw1; rfl
        have hcell1 : ∀ j, j ≠ w.next → w1.cell j = w.cell j := by
          subst hw1; intro j hj; exact alloc_cell_ne _ _ _ hj
        have hcellid : w1.cell w.next = ⟨v, 0, false⟩ := by subst hw1; exact alloc_cell_eq _ _
        obtain ⟨a1, a2, a3, a4, a5⟩ := ih w1 cache hnc'
        have hidW : (buildImages .stream w1 cache ss).2.cell w.next = ⟨v, 0, false⟩ := by
          rw [a2 w.next (by omega), hcellid]
        have hsi := streamIds_cons_stream ⟨.stream w.next, v.length⟩ (buildImages .stream w1 cache ss).1 w.next rfl
        refine ⟨?_, ?_, ?_, ?_, ?_⟩
        · show w.next ≤ (buildImages .stream w1 cache ss).2.next
          omega
        · intro i hi
          show (buildImages .stream w1 cache ss).2.cell i = _
          rw [a2 i (by omega), hcell1 i (by omega)]
        · show (streamIds (_ :: _)).Nodup
          rw [hsi]
          refine List.nodup_cons.mpr ⟨?_, a3⟩
          intro hin
          have := (a4 _ hin).1
          omega
        · show ∀ i ∈ streamIds (_ :: _), _
          rw [hsi]
          intro i hi
          show w.next ≤ i ∧ i < (buildImages .stream w1 cache ss).2.next ∧
            ((buildImages .stream w1 cache ss).2.cell i).closed = false
          rcases List.mem_cons.mp hi with rfl | hi
          · refine ⟨Nat.le_refl _, by omega, ?_⟩
            rw [hidW]
          · have := a4 i hi
            exact ⟨by omega, this.2.1, this.2.2⟩
        · intro x hx
          show x.sizeBytes = (payloadContent (buildImages .stream w1 cache ss).2 x).length
          rcases List.mem_cons.mp hx with rfl | hx
          · simp only [payloadContent, hidW]
          · exact a5 x hx

/-- what the constructor sites build when no site is of the `cached` form satisfies the hypotheses of
`collect_separate` / `collect_then_read`, and `size_bytes` is the payload length -/
theorem build_fresh_separate : ∀ (kind : PayloadKind) (w : World) (cache : List (Nat × Nat)) (srcs : List Source),
    (∀ s ∈ srcs, isCached s = false) →
    let r := buildImages kind w cache srcs
    (streamIds r.1).Nodup ∧ (∀ i ∈ streamIds r.1, i < r.2.next ∧ (r.2.cell i).closed = false) ∧
      (∀ im ∈ r.1, im.sizeBytes = (payloadContent r.2 im).length) := by
  intro kind w cache srcs hnc
  obtain ⟨_, _, a3, a4, a5⟩ := build_fresh_invariants kind srcs w cache hnc
  exact ⟨a3, fun i hi => ⟨(a4 i hi).2.1, (a4 i hi).2.2⟩, a5⟩

/-- a whole document without `cached` sites: collect the streams of all its images, then read them all — every image
delivers `some (0, payload)` and `size_bytes = len(payload)` -/
theorem built_images_collect_then_read : ∀ (kind : PayloadKind) (srcs : List Source),
    (∀ s ∈ srcs, isCached s = false) →
    let r := buildImages kind World.empty [] srcs
    ∃ hs : List Nat, (collect r.2 r.1).1 = hs.map some ∧
      readAll (collect r.2 r.1).2 hs = r.1.map (fun im => some (0, payloadContent r.2 im)) ∧
      ∀ im ∈ r.1, im.sizeBytes = (payloadContent r.2 im).length := by
  intro kind srcs hnc
  obtain ⟨b1, b2, b3⟩ := build_fresh_separate kind World.empty [] srcs hnc
  obtain ⟨hs, h1, h2⟩ := collect_then_read _ _ b1 b2
  exact ⟨hs, h1, h2, b3⟩

/-! ## 6. a `bytes` class has no stored stream objects -/

/-- for a `bytes` class the images built refer to no stream object at all, `cached` sources included -/
theorem bytes_kind_always_separate : ∀ (w : World) (cache : List (Nat × Nat)) (srcs : List Source),
    streamIds (buildImages .bytes w cache srcs).1 = [] := by
  intro w cache srcs
  induction srcs generalizing w cache with
  | nil => rfl
  | cons s ss ih =>
    cases s with
    | none => simp only [buildImages, streamIds]; exact ih w cache
    | fresh v => simp only [buildImages, streamIds]; exact ih w cache
    | cached key v => simp only [buildImages, streamIds]; exact ih w cache

/-! ## 5. the defect class `cached`: one stream object stored in two images -/

/-- two images built from the same cache entry store the same object: the second handle collected is the first one,
and reading both finds the second stream at its end — 0 of its `size_bytes = 3` bytes -/
theorem shared_stream_counterexample :
    let r := buildImages .stream World.empty [] [.cached 1 [7, 8, 9], .cached 1 [7, 8, 9]]
    r.1 = [⟨.stream 0, 3⟩, ⟨.stream 0, 3⟩] ∧
    streamIds r.1 = [0, 0] ∧
    (collect r.2 r.1).1 = [some 0, some 0] ∧
    readAll (collect r.2 r.1).2 [0, 0] = [some (0, [7, 8, 9]), some (3, [])] := by
  decide

/-- … and closing the first image's stream makes `get_bytes()` of the second image raise -/
theorem shared_stream_close_counterexample :
    let r := buildImages .stream World.empty [] [.cached 1 [7, 8, 9], .cached 1 [7, 8, 9]]
    ∃ im1 im2, r.1 = [im1, im2] ∧
      (getBytesW r.2 im1).1 = some 0 ∧
      (getBytesW (closeCell (getBytesW r.2 im1).2 0) im2).1 = none := by
  refine ⟨⟨.stream 0, 3⟩, ⟨.stream 0, 3⟩, ?_⟩
  decide

/-- non-vacuity: the hypotheses of `collect_separate` hold for two images with distinct stream objects -/
example :
    let w := ((World.empty.alloc [5]).2.alloc [6, 7]).2
    let ims : List ImageRef := [⟨.stream 0, 1⟩, ⟨.stream 1, 2⟩]
    (streamIds ims).Nodup ∧ (∀ i ∈ streamIds ims, i < w.next ∧ (w.cell i).closed = false) ∧
      (collect w ims).1 = [some 0, some 1] ∧
      readAll (collect w ims).2 [1, 0] = [some (0, [6, 7]), some (0, [5])] := by
  decide

/-- a document with two fresh stream images and a placeholder in between -/
example :
    let r := buildImages .stream World.empty [] [.fresh [1, 2], .none, .fresh [3]]
    r.1 = [⟨.stream 0, 2⟩, ⟨.noData, 0⟩, ⟨.stream 1, 1⟩] ∧
    (collect r.2 r.1).1 = [some 0, some 2, some 1] ∧
    readAll (collect r.2 r.1).2 [0, 2, 1] = [some (0, [1, 2]), some (0, []), some (0, [3])] := by
  decide

end S2T.C04.Streams
