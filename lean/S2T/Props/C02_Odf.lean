import S2T.Lemmas.C02OdfXml
import S2T.Lemmas.C02OdfRtf
import S2T.Gen.C02Odf
/-!
# C02 (part 'odf') — main-text fidelity: nothing lost, duplicated, merged or leaked

OpenDocument family (ODT, ODG; ODP / ODS / ODF tied by correspondence) and the legacy / plain family (RTF character
machine, PPT text cleaning, XLS sheet formatting, plain text, unit joins).

Shape of every fidelity theorem: for **all** abstract documents `d` (any size, any nesting) rendered by the renderer
of `S2T.Spec.C02OdfDoc`,

    tokens (fullText (render d)) = bodyTokens d

where `tokens` is Python's `str.split()` and `bodyTokens d` is the concatenation, in document order, of the tokens
of the visible text of each body paragraph.  Equality of the two *lists* is the property: same multiplicity, same
order, no token spanning two paragraphs (nothing merged), nothing from notes / comments / tracked deletions
(they are not in `bodyTokens`), nothing invented.  The corollaries spell these readings out.

The theorems hold for every `Tables` value satisfying the decidable `TablesOk`; `gen_tables_ok` re-decides it for the
constants read from the current source on every run.
-/
namespace S2T.C02.Odf
open S2T.Tok S2T.OdfText S2T.OdfDoc

/-- the translator found every constant to be what the source expression evaluates to -/
theorem gen_notes_empty : S2T.Gen.C02Odf.notes = [] := by decide

/-- what the theorems need from the constants of the extractor modules -/
def TablesOk (T : Tables) : Bool :=
  decide (T.odt = stdFmt [tAnnot, tNote]) && decide (T.odg = stdFmt [tAnnot])
    && decide (T.odp = stdFmt [tAnnot]) && decide (T.ods = stdFmt [tAnnot]) && decide (T.odf = stdFmt [tAnnot])
    && decide (T.odtP = tP) && decide (T.odtH = tH) && decide (T.odtTracked = tTracked)
    && decide (T.odgP = tP) && decide (T.odgH = tH) && decide (T.odsP = tP) && decide (T.odpP = tP)
    && [9, 10, 32].all T.ws.contains && (List.range 10).all (fun d => !T.ws.contains (48 + d))

theorem gen_tables_ok : TablesOk S2T.Gen.C02Odf.tables = true := by decide +kernel

theorem odtOk_of {T : Tables} (h : TablesOk T = true) : OdtOk T := by
  simp only [TablesOk, Bool.and_eq_true, decide_eq_true_eq] at h
  obtain ⟨⟨⟨⟨⟨⟨⟨⟨⟨⟨⟨⟨⟨h1, _⟩, _⟩, _⟩, _⟩, h6⟩, h7⟩, h8⟩, _⟩, _⟩, _⟩, _⟩, hws⟩, hdig⟩ := h
  refine ⟨h1, h6, h7, h8, ?_, ?_⟩
  · simp only [List.all_cons, List.all_nil, Bool.and_true, Bool.and_eq_true] at hws
    simpa [Tables.isWs, isWsTab] using hws.2.1
  · intro d hd
    have := List.all_eq_true.mp hdig d (by simpa using hd)
    simp only [Bool.not_eq_true'] at this
    have hc : (digitChar d).toNat = 48 + d := by
      have : ∀ d < 10, (digitChar d).toNat = 48 + d := by decide
      exact this d hd
    have hm : 48 + d ∉ T.ws := by
      intro hmem
      have : T.ws.contains (48 + d) = true := by simpa using hmem
      simp_all
    simp [Tables.isWs, isWsTab, hc, hm]

/-! ## ODT -/

section odt
variable {T : Tables} (hT : TablesOk T = true)
include hT

/-- **ODT, exact text.** `get_full_text()` of a rendered document is its non-blank body paragraphs, one per line,
    each exactly its visible text (every `text:s` count, tab and line break honoured), in document order - whatever
    the nesting of lists, tables, sections and text boxes. -/
theorem odt_text (d : List Blk) (hd : noCommentL d = true) :
    odtFullText T (renderOdt d) = joinNl ((bodyTextsL d).flatMap (nonBlank T)) :=
  odtFullText_render (odtOk_of hT) d hd

/-- **ODT, fidelity.** The token sequence of `get_full_text()` is the body's token sequence: same multiplicity, same
    order; notes, comments and the tracked-changes store contribute nothing. -/
theorem odt_tokens (d : List Blk) (hd : noCommentL d = true) :
    tokens T.isWs (odtFullText T (renderOdt d)) = bodyTokens T.isWs d := by
  rw [odt_text hT d hd, tokens_joinNl (odtOk_of hT).nl, tokens_flatMap_nonBlank]
  rfl

/-- **nothing merged**: every token of the output lies inside one body paragraph (tokens of different
    paragraphs / cells / list items are never glued together). -/
theorem odt_separated (d : List Blk) (hd : noCommentL d = true) :
    ∀ t ∈ tokens T.isWs (odtFullText T (renderOdt d)), ∃ s ∈ bodyTextsL d, t ∈ tokens T.isWs s := by
  intro t ht
  rw [odt_tokens hT d hd] at ht
  simpa [bodyTokens, List.mem_flatMap] using ht

/-- **nothing leaks**: a token that occurs only in excluded text (notes, comments, tracked deletions) is not in
    the output. -/
theorem odt_excluded (d : List Blk) (hd : noCommentL d = true) (t : Str)
    (hx : t ∉ bodyTokens T.isWs d) : t ∉ tokens T.isWs (odtFullText T (renderOdt d)) := by
  rw [odt_tokens hT d hd]; exact hx

/-- **nothing invented, nothing lost**: the non-whitespace characters of the output are exactly the non-whitespace
    characters of the body paragraphs, in order. -/
theorem odt_no_invention (d : List Blk) (hd : noCommentL d = true) :
    (odtFullText T (renderOdt d)).filter (fun c => !T.isWs c)
      = (bodyTextsL d).flatMap (fun s => s.filter (fun c => !T.isWs c)) := by
  rw [← tokens_flatten, odt_tokens hT d hd]
  simp only [bodyTokens]
  induction bodyTextsL d with
  | nil => rfl
  | cons a r ih => simp [List.flatMap_cons, tokens_flatten, ih]

end odt

/-- the generated tables satisfy the hypotheses: the ODT theorems hold for the constants of the current source -/
theorem odt_tokens_current (d : List Blk) (hd : noCommentL d = true) :
    tokens S2T.Gen.C02Odf.tables.isWs (odtFullText S2T.Gen.C02Odf.tables (renderOdt d))
      = bodyTokens S2T.Gen.C02Odf.tables.isWs d :=
  odt_tokens gen_tables_ok d hd

/-! ### examples: the hypotheses are satisfiable by non-trivial documents -/

def sP (s : String) : Blk := .para "P1".toList [.text s.toList]

/-- a table with a nested table, a nested list, a tracked deletion, a note and a comment -/
def exDoc : List Blk :=
  [ .cont .tracked [.cont .region [.cont .deletion [sP "DEL1"]]],
    .cont .table [.cont .row [.cont .cell [sP "OUT1", .cont .table [.cont .row [.cont .cell [sP "IN1"]]]],
                              .cont .cell [sP "OUT2"]]],
    .cont .list [.cont .item [sP "L1a", .cont .list [.cont .item [sP "L2a"]]], .cont .item [.heading 2 [.text "HL1".toList]]],
    .para "P1".toList [.text "A1".toList, .sp 3, .text "B1".toList, .tab,
      .note false "1".toList [.text "NOTE1".toList], .annot "Bob".toList [.text "CMT1".toList], .br, .text "C1".toList] ]

example : noCommentL exDoc = true := by decide
example : bodyTokens S2T.Gen.C02Odf.tables.isWs exDoc
    = ["OUT1", "IN1", "OUT2", "L1a", "L2a", "HL1", "A1", "B1", "C1"].map String.toList := by decide +kernel
example : odtFullText S2T.Gen.C02Odf.tables (renderOdt exDoc)
    = "OUT1\nIN1\nOUT2\nL1a\nL2a\nHL1\nA1   B1\t\nC1".toList := by decide +kernel

/-! ### the defects repaired by fix-odt-fulltext-walk / fix-odt-tracked-deletions (model of the walker before) -/

/-- before the repair a nested table's paragraphs came out twice and out of order -/
theorem odt_old_nested_table_duplicates :
    tokens S2T.Gen.C02Odf.tables.isWs (odtFullTextOld S2T.Gen.C02Odf.tables (renderOdt
      [.cont .table [.cont .row [.cont .cell [sP "OUT1", .cont .table [.cont .row [.cont .cell [sP "IN1"]]]],
                                 .cont .cell [sP "OUT2"]]]]))
      = ["OUT1", "IN1", "OUT2", "IN1"].map String.toList := by decide +kernel

theorem odt_old_nested_list_duplicates :
    tokens S2T.Gen.C02Odf.tables.isWs (odtFullTextOld S2T.Gen.C02Odf.tables (renderOdt
      [.cont .list [.cont .item [sP "L1a", .cont .list [.cont .item [sP "L2a"]]], .cont .item [sP "L1b"]]]))
      = ["L1a", "L2a", "L2a", "L1b"].map String.toList := by decide +kernel

theorem odt_old_heading_in_list_lost :
    odtFullTextOld S2T.Gen.C02Odf.tables (renderOdt [.cont .list [.cont .item [.heading 1 [.text "HL1".toList]]]]) = [] := by
  decide +kernel

theorem odt_old_tracked_deletion_leaks :
    odtFullTextOld S2T.Gen.C02Odf.tables (renderOdt [.cont .tracked [.cont .region [.cont .deletion [sP "DEL1"]]], sP "A1"])
      = "DEL1\nA1".toList := by decide +kernel

/-- OPEN finding `odt.paragraph-anchored-textbox-merged`: a text box anchored *inside* a paragraph (not expressible in
    `Blk`, whose text boxes are block-level) is flattened into the paragraph without any separator.
    Full-strength statement that is FALSE for such trees: "every `text:p` of the body yields its own line". -/
theorem odt_anchored_textbox_merged :
    odtFullText S2T.Gen.C02Odf.tables (.node (q nsOffice "text") [] [] []
      [.node tP [] "PRE1".toList [] [.node (q nsDraw "frame") [] [] "POST1".toList
        [.node (q nsDraw "text-box") [] [] [] [.node tP [] "BOX1".toList [] [], .node tP [] "BOX2".toList [] []]]]])
      = "PRE1BOX1BOX2POST1".toList := by decide +kernel


/-! ## ODG -/

theorem odgOk_of {T : Tables} (h : TablesOk T = true) : OdgOk T := by
  have ho := odtOk_of h
  simp only [TablesOk, Bool.and_eq_true, decide_eq_true_eq] at h
  obtain ⟨⟨⟨⟨⟨⟨⟨⟨⟨⟨⟨⟨⟨_, h2⟩, _⟩, _⟩, _⟩, _⟩, _⟩, _⟩, h9⟩, h10⟩, _⟩, _⟩, _⟩, _⟩ := h
  exact ⟨h2, h9, h10, ho.nl, ho.noDigit⟩

/-- **ODG, fidelity.** Every paragraph / heading of the drawing (pages, frames, text boxes, shapes, groups, lists in
    any nesting) contributes its tokens once, in document order; comments on a page (`office:annotation`) and inline
    annotations contribute nothing. -/
theorem odg_tokens {T : Tables} (hT : TablesOk T = true) (d : List Blk) (hd : drawingOkL d = true) :
    tokens T.isWs (odgFullText T (renderOdg d)) = bodyTokens T.isWs d := by
  have h := odgOk_of hT
  rw [odgFullText_render h d hd, tokens_strip, tokens_strip, tokens_strip, tokens_joinNl h.nl,
    tokens_flatMap_stripLine]
  rfl

theorem odg_excluded {T : Tables} (hT : TablesOk T = true) (d : List Blk) (hd : drawingOkL d = true) (t : Str)
    (hx : t ∉ bodyTokens T.isWs d) : t ∉ tokens T.isWs (odgFullText T (renderOdg d)) := by
  rw [odg_tokens hT d hd]; exact hx

def exDrawing : List Blk :=
  [.cont .page [.comment "Bob".toList [.text "CMT1".toList],
     .cont .frame [.cont .textBox [sP "A1", .cont .list [.cont .item [sP "L1"]]]],
     .cont .shape [.para "P1".toList [.text "S1".toList, .annot "Al".toList [.text "CMT2".toList], .text "x".toList]]]]

example : drawingOkL exDrawing = true := by decide
example : odgFullText S2T.Gen.C02Odf.tables (renderOdg exDrawing) = "A1\nL1\nS1x".toList := by decide +kernel

/-! ## RTF -/

open S2T.Rtf S2T.RtfDoc

theorem gen_rtf_tables_ok : RtfTablesOk S2T.Gen.C02Odf.rtfTables = true := by decide +kernel

section rtf
variable {T : S2T.Rtf.Tables} (hT : RtfTablesOk T = true)
include hT

/-- **RTF, the machine's exact output.** On a rendered document `_strip_rtf_full_with_pages` (character machine +
    `_combine_surrogates`) returns the visible characters of the body paragraphs, each paragraph followed by one
    newline - every `\uN?` escape (a character beyond the BMP, written as two escapes, comes back as that one
    character), escaped backslash, tab / line / cell / row separator honoured; font table, info
    group, header, footer, ignorable destinations and formatting words contribute nothing. -/
theorem rtf_result (d : RDoc) (hd : docOk T d = true) :
    result T (renderRtf d) = d.paras.flatMap (fun pp => codes (rVisibleL pp.kids) ++ [10]) :=
  result_renderRtf (rtfOk_of hT) d hd

/-- **RTF, fidelity.** The token sequence of `RtfContent.full_text` is the body's token sequence. -/
theorem rtf_tokens (d : RDoc) (hd : docOk T d = true) :
    tokens (isWsN T) (fullText T (renderRtf d))
      = (rtfBodyTokens (isWsC T) d).map (fun t => t.map Char.toNat) := by
  have h := rtfOk_of hT
  have hnl : isWsC T '\n' = true := h.nl
  unfold fullText
  rw [tokens_fullTextOf h.nl, rtf_result hT d hd]
  have e : d.paras.flatMap (fun pp => codes (rVisibleL pp.kids) ++ [10])
      = (d.paras.flatMap (fun pp => rVisibleL pp.kids ++ ['\n'])).map Char.toNat := by
    induction d.paras with
    | nil => rfl
    | cons a r ih =>
      simp only [List.flatMap_cons, List.map_append, ih]
      rfl
  rw [e, tokens_map Char.toNat (isWsC T) (isWsN T) (fun _ => rfl)]
  congr 1
  unfold rtfBodyTokens paraTexts
  induction d.paras with
  | nil => rfl
  | cons a r ih =>
    simp only [List.flatMap_cons, List.map_cons, List.append_assoc, List.singleton_append]
    rw [tokens_append_ws hnl, ih]

/-- nothing merged: every output token lies inside one body paragraph -/
theorem rtf_separated (d : RDoc) (hd : docOk T d = true) :
    ∀ t ∈ tokens (isWsN T) (fullText T (renderRtf d)),
      ∃ s ∈ paraTexts d, ∃ u ∈ tokens (isWsC T) s, t = u.map Char.toNat := by
  intro t ht
  rw [rtf_tokens hT d hd] at ht
  obtain ⟨u, hu, rfl⟩ := List.mem_map.mp ht
  obtain ⟨s, hs, hus⟩ := List.mem_flatMap.mp hu
  exact ⟨s, hs, u, hus, rfl⟩

end rtf

def exRtf : RDoc :=
  { fonts := ["Arial".toList], title := "T9".toList, header := some "H1".toList, footer := none,
    paras := [ { kids := [.text "A1 é😀\\".toList, .fmt "b".toList none, .tab, .text "B2".toList,
                           .dest "annotation".toList "N1".toList, .pict "00ff".toList,
                           .group "field".toList none [.dest "fldinst".toList "HYPERLINK x".toList,
                             .group "fldrslt".toList none [.text "L1".toList]], .cell, .text "C3".toList, .row],
                 pageBreakAfter := true },
               { kids := [.text "D4".toList], pageBreakAfter := false } ] }

example : docOk S2T.Gen.C02Odf.rtfTables exRtf = true := by decide +kernel
example : fullText S2T.Gen.C02Odf.rtfTables (renderRtf exRtf) = codes "A1 é😀\\\tB2L1\tC3\nD4".toList := by decide +kernel

/-- OPEN finding `rtf.u-prefixed-control-word-leak` (model of the current code): `\ul` leaks an `l` -/
theorem rtf_ul_leaks :
    result S2T.Gen.C02Odf.rtfTables "{\\rtf1 A1 \\ul B2}".toList = codes "A1 l B2".toList := by decide +kernel

/-- the excluding hypothesis of `docOk` is exact for that finding: `ul` is not an admissible formatting word -/
theorem rtf_ul_not_silent : wordSilent S2T.Gen.C02Odf.rtfTables "ul".toList = false := by decide +kernel

/-- as committed (library fix 64a19e3, `_combine_surrogates`): the two `\uN` halves of a UTF-16 pair give the one
    character beyond the BMP (nothing lost, nothing invented) ... -/
theorem rtf_surrogate_pair_one_char :
    result S2T.Gen.C02Odf.rtfTables "\\u-10179?\\u-8704?".toList = [0x1F600] := by decide +kernel

/-- ... while the machine itself emits the two halves (`rawResult`), and an unpaired half comes out as U+FFFD -/
theorem rtf_surrogate_halves_raw :
    rawResult S2T.Gen.C02Odf.rtfTables "\\u-10179?\\u-8704?".toList = [0xD83D, 0xDE00]
      ∧ result S2T.Gen.C02Odf.rtfTables "A\\u-10179?B\\u-8704?".toList = [65, 0xFFFD, 66, 0xFFFD] := by decide +kernel

/-! ## PPT text cleaning, XLS sheet formatting, plain text, unit joins -/

/-- `_CLEAN_TRANS`: CR / VT / FF become newlines, the other C0 controls except TAB and LF are deleted, nothing else
    is touched -/
def PptTablesOk (T : PptTables) : Bool :=
  [11, 12, 13].all (fun k => T.trans.lookup k == some ['\n'])
    && T.trans.all (fun kv => decide (kv.1 < 32) && (kv.2 == [] || kv.2 == ['\n']))
    && (T.trans.lookup 9).isNone && (T.trans.lookup 10).isNone
    && [9, 10, 32].all T.ws.contains

theorem gen_ppt_tables_ok : PptTablesOk S2T.Gen.C02Odf.pptTables = true := by decide +kernel

theorem ppt_translate_sep {T : PptTables} (h : PptTablesOk T = true) (a b : Str) (sep : Char)
    (hs : sep.toNat = 13 ∨ sep.toNat = 11 ∨ sep.toNat = 12) :
    translate T (a ++ sep :: b) = translate T a ++ '\n' :: translate T b := by
  simp only [PptTablesOk, Bool.and_eq_true, List.all_cons, List.all_nil, Bool.and_true, beq_iff_eq] at h
  obtain ⟨⟨⟨⟨⟨h11, h12, h13⟩, _⟩, _⟩, _⟩, _⟩ := h
  have : T.trans.lookup sep.toNat = some ['\n'] := by rcases hs with e | e | e <;> rw [e] <;> assumption
  simp [translate, List.flatMap_append, this]

/-- **PPT**: paragraphs (CR), line breaks (VT) and form feeds of a text atom stay separated: when no line is a
    placeholder line, the cleaned text has the tokens of both sides, in order. -/
theorem ppt_separated {T : PptTables} (h : PptTablesOk T = true) (a b : Str) (sep : Char)
    (hs : sep.toNat = 13 ∨ sep.toNat = 11 ∨ sep.toNat = 12)
    (hk : ∀ l ∈ (splitOn '\n' (translate T (a ++ sep :: b))).map (normWs T.isWs), l ≠ [] → keepLine T l = true) :
    tokens T.isWs (cleanText T (a ++ sep :: b)) = tokens T.isWs (translate T a) ++ tokens T.isWs (translate T b) := by
  have hw : T.isWs ' ' = true ∧ T.isWs '\n' = true := by
    simp only [PptTablesOk, Bool.and_eq_true, List.all_cons, List.all_nil, Bool.and_true] at h
    exact ⟨h.2.2.2, h.2.2.1⟩
  rw [cleanText_tokens_all T hw.1 hw.2 _ hk, ppt_translate_sep h a b sep hs, tokens_append_ws hw.2]

/-- before fix-ppt-clean-text-separators the table deleted CR / VT / FF: the paragraphs were merged -/
theorem ppt_old_table_merges :
    cleanText { S2T.Gen.C02Odf.pptTables with
        trans := S2T.Gen.C02Odf.pptTrans.map (fun kv => if kv.1 = 11 ∨ kv.1 = 12 ∨ kv.1 = 13 then (kv.1, []) else kv) }
      "A1\rB2\x0bC3".toList = "A1B2C3".toList := by decide +kernel

example : cleanText S2T.Gen.C02Odf.pptTables "A1\rB2\x0bC3\tD4\x01E5\n*\nClick to edit x".toList
    = "A1\nB2\nC3 D4E5".toList := by decide +kernel

/-- **XLS**: the padded table text carries exactly the cells' tokens, row by row, left to right (padding and column
    separators are whitespace only). -/
theorem xls_tokens {p : Char → Bool} (hsp : p ' ' = true) (hn : p '\n' = true) (headers : List Str) (rows : List (List Str)) :
    tokens p (formatSheet headers rows)
      = (if headers = [] then rows else headers :: rows).flatMap (fun r => r.flatMap (tokens p)) :=
  formatSheet_tokens hsp hn headers rows

/-- **plain text**: the three `strip()`s of `PlainTextContent` keep the token sequence -/
theorem plain_tokens' (p : Char → Bool) (s : Str) : tokens p (plainFullText p s) = tokens p s := plain_tokens p s

/-- **unit joins** (PDF pages, ODP slides, ODS sheets, …): `_join_unit_text` keeps every unit's tokens, in order,
    and never glues two units together -/
theorem join_tokens {p : Char → Bool} (hn : p '\n' = true) (us : List Str) :
    tokens p (joinUnits p us) = us.flatMap (tokens p) := joinUnits_tokens hn us

example : formatSheet ["a".toList, "bbb".toList] [["1".toList, "2".toList], ["333".toList, [] ]]
    = "  a  bbb\n  1    2\n333     ".toList := by decide

end S2T.C02.Odf
