import S2T.Lemmas.SharePoint
import S2T.Gen.SharePoint
import S2T.Props.C18_Folders
import S2T.Props.C18_Src
import S2T.Props.C18_Items
/-!
# C18 — SharePoint listing is complete, exact and fault-contained

FULL STATEMENT (fixed, from properties.jsonl):
  Against any document library (any folder tree, any page size, any number of pages) `list_all_files`
  and the filtered listings return every matching file exactly once with its correct parent path and
  nothing that does not match: date bounds are inclusive-after and exclusive-before, extension match is
  case-insensitive, patterns apply to the full path.  If a request fails at any point of the sequence
  the call raises an error of the client's own family (for HTTP and network failures the request error
  carrying status and URL), every response opened so far has been closed, and repeating the call against
  a healthy transport returns the complete listing.

On the upstream tree the statement is FALSE in three places (reproduced on the real client, see
`harness/props/c18.py::KNOWN_LEGACY`); each has a fix patch, the model has a switch per defect (`Cfg`),
the property theorems below are about `Cfg.fixed` and are tied to the source by `gen_cfg_fixed`
(re-decided on the behaviour probed from the current tree on every run); the counterexample theorems
`legacy_*` show that each switch is needed.

Start folders addressed by path (`folder_paths`) and the lazy (generator) delivery of partial results are in
the part file `Props/C18_Folders.lean` (namespace `S2T.C18.Folders`); `listFiltered` below is
`list(list_files_filtered(...))` with `folder_paths = []` (`Folders.C18_lazy_is_eager`).

Quantifiers: every library `L : Lib` (any tree), every page size `n > 0`, every fuel above an explicit
bound (fuel only limits how long the model follows the *server's* nextLink chains / folder depth), every
client state the client can be in (caches empty or filled), every transport for the fault-containment
theorems (not only "one fault at request k"), every filter, every `fromisoformat` / `lower` / `fnmatch`.
-/
namespace S2T.C18
open S2T.SP

/-- every folder id is non-empty and addresses that folder's own children on the server
    (what unique ids give; decidable, see `wellAddressed_example`) -/
def WellAddressed (L : Lib) : Prop := resolves L L = true

/-- unique, non-empty folder ids (what Graph guarantees) are enough -/
theorem C18_unique_ids_wellAddressed (L : Lib) (hn : L.folderIds.Nodup) (he : ∀ id ∈ L.folderIds, id ≠ []) :
    WellAddressed L := resolves_of_nodup L hn he

/-! ## ties to the current source (regenerated on every run) -/

/-- The tree under check behaves, on the three repaired points, like the model the theorems are about. -/
theorem gen_cfg_fixed : S2T.Gen.SharePoint.cfg = Cfg.fixed := by decide

/-- the translator found the constants to be the literals the source shows and the URL shapes it expects -/
theorem gen_notes_empty : S2T.Gen.SharePoint.notes = [] := by decide

/-- the status range of the model is the one `_send` compares against, and the real `_send` accepted /
    rejected every probed status as the model does -/
theorem gen_status_range :
    (∀ st, ok2xx st = (decide (S2T.Gen.SharePoint.statusLo ≤ st) && decide (st < S2T.Gen.SharePoint.statusHi))) ∧
    S2T.Gen.SharePoint.statusProbes.all (fun p => ok2xx p.1 == p.2) = true := by
  refine ⟨fun st => rfl, by decide⟩

/-- closed world: `_send` is the only place a request leaves the client, and nobody calls `urlopen` directly;
    both client errors belong to the `SharePointError` family -/
theorem gen_single_transport_site :
    S2T.Gen.SharePoint.requestSites = ["_send"] ∧ S2T.Gen.SharePoint.urlopenSites = [] ∧
    S2T.Gen.SharePoint.sendCallers.all
      (["fetch_access_token", "_get_json", "download_file", "download_file_by_path"].contains ·) = true ∧
    S2T.Gen.SharePoint.errorFamily.all (·.2) = true := by decide

/-! ## completeness and exactness -/

/-- number of `file` nodes of a library -/
def fileCount : Lib → Nat
  | .nil => 0
  | .file _ r => fileCount r + 1
  | .other r => fileCount r
  | .folder _ _ k r => fileCount k + fileCount r

/-- `Occurs p L m`: the library (whose root folder has path `p`) contains a file node whose metadata,
    with the path of the folder it sits in, is `m`. -/
inductive Occurs : Str → Lib → FileMeta → Prop
  | here (p f r) : Occurs p (.file f r) (parseFile p f)
  | fileRest {p f r m} : Occurs p r m → Occurs p (.file f r) m
  | otherRest {p r m} : Occurs p r m → Occurs p (.other r) m
  | inFolder {p n id k r m} : Occurs (childPath p n) k m → Occurs p (.folder n id k r) m
  | folderRest {p n id k r m} : Occurs p r m → Occurs p (.folder n id k r) m

/-- The specification listing is exact: it contains `m` iff a file node with that metadata and that parent
    path exists … -/
theorem C18_spec_exact (L : Lib) (p : Str) (m : FileMeta) : m ∈ specListing p L ↔ Occurs p L m := by
  induction L generalizing p with
  | nil => simp only [specListing, List.not_mem_nil, false_iff]; intro h; cases h
  | file f r ih =>
    simp only [specListing, List.mem_cons]
    constructor
    · rintro (h | h)
      · subst h; exact .here p f r
      · exact .fileRest ((ih p).mp h)
    · intro h
      cases h with
      | here => exact Or.inl rfl
      | fileRest h => exact Or.inr ((ih p).mpr h)
  | other r ih =>
    simp only [specListing]
    constructor
    · intro h; exact .otherRest ((ih p).mp h)
    · intro h; cases h with | otherRest h => exact (ih p).mpr h
  | folder n id k r ihk ihr =>
    simp only [specListing, List.mem_append]
    constructor
    · rintro (h | h)
      · exact .inFolder ((ihk _).mp h)
      · exact .folderRest ((ihr p).mp h)
    · intro h
      cases h with
      | inFolder h => exact Or.inl ((ihk _).mpr h)
      | folderRest h => exact Or.inr ((ihr p).mpr h)

/-- … and has exactly one entry per file node (so: every file exactly once). -/
theorem C18_spec_once (L : Lib) (p : Str) : (specListing p L).length = fileCount L := by
  induction L generalizing p with
  | nil => rfl
  | file f r ih => simp [specListing, fileCount, ih]
  | other r ih => simp [specListing, fileCount, ih]
  | folder n id k r ihk ihr => simp [specListing, fileCount, ihk, ihr]

/-- COMPLETE + EXACT.  Against the healthy server of any library, with any page size, from any consistent
    client state, `list_all_files` returns a rearrangement of the specification listing: every file once,
    with its parent path, nothing else (the order is: a folder's own files first, then its sub-folders). -/
theorem C18_complete (L : Lib) (n : Nat) (hn : 0 < n) (hL : WellAddressed L)
    (fuel : Nat) (hf : L.size + 2 ≤ fuel) (s : St) (hs : Consistent s) :
    ∃ out s', listAll .fixed (healthy L n) fuel s = (.ok out, s') ∧
      out = clientListing [] L ∧ out.Perm (specListing [] L) ∧ out.length = fileCount L := by
  obtain ⟨s', h⟩ := listAll_healthy .fixed L n hn hL fuel hf s hs
  refine ⟨_, s', h, rfl, clientListing_perm L [], ?_⟩
  rw [(clientListing_perm L []).length_eq, C18_spec_once]

/-- what `FileFilter.matches` is documented to mean -/
def SpecMatches (iso : Str → Option Int) (lower : Str → Str) (glob : Str → Str → Bool)
    (f : Filter) (m : FileMeta) : Prop :=
  DateIn (parseIso .fixed iso) m.created f.createdAfter f.createdBefore ∧
  DateIn (parseIso .fixed iso) m.modified f.modifiedAfter f.modifiedBefore ∧
  (f.extensions = [] ∨ ∃ e ∈ f.extensions, (lower e) <:+ (lower m.name)) ∧
  (f.patterns = [] ∨ ∃ p ∈ f.patterns, glob m.fullPath p = true)

/-- FILTER SEMANTICS: the model of `FileFilter.matches` accepts exactly the files the documentation
    describes — a bound on a date requires the date to be present and parseable, `after` is inclusive
    (`a ≤ ts`), `before` is exclusive (`ts < b`), the extension is compared after lower-casing both sides,
    and patterns see the full path `parent/name`. -/
theorem C18_matches_iff (iso : Str → Option Int) (lower : Str → Str) (glob : Str → Str → Bool)
    (f : Filter) (m : FileMeta) :
    matchesF .fixed iso lower glob f m = true ↔ SpecMatches iso lower glob f m := by
  unfold matchesF SpecMatches
  simp only [Bool.and_eq_true, dateOk_iff, and_assoc]
  refine and_congr Iff.rfl (and_congr Iff.rfl (and_congr ?_ ?_))
  · unfold extOk
    simp only [Bool.or_eq_true, List.isEmpty_iff, List.any_eq_true, List.isSuffixOf_iff_suffix]
  · unfold patOk
    simp only [Bool.or_eq_true, List.isEmpty_iff, List.any_eq_true]

/-- the full path patterns see is `name` at the root and `parent/name` below it -/
theorem C18_fullPath (m : FileMeta) :
    m.fullPath = if m.parent = [] then m.name else m.parent ++ '/' :: m.name := by
  unfold FileMeta.fullPath
  cases m.parent <;> simp

/-- FILTERED LISTING: returns exactly the matching entries of the complete listing (all of them, once,
    nothing else). -/
theorem C18_filter (iso : Str → Option Int) (lower : Str → Str) (glob : Str → Str → Bool) (f : Filter)
    (L : Lib) (n : Nat) (hn : 0 < n) (hL : WellAddressed L)
    (fuel : Nat) (hf : L.size + 2 ≤ fuel) (s : St) (hs : Consistent s) :
    ∃ out s', listFiltered .fixed (healthy L n) iso lower glob f fuel s = (.ok out, s') ∧
      out.Perm ((specListing [] L).filter (matchesF .fixed iso lower glob f)) ∧
      (∀ m, m ∈ out ↔ Occurs [] L m ∧ SpecMatches iso lower glob f m) := by
  obtain ⟨s', h⟩ := listFiltered_healthy .fixed L n iso lower glob f hn hL fuel hf s hs
  have hp := (clientListing_perm L []).filter (matchesF .fixed iso lower glob f)
  refine ⟨_, s', h, hp, ?_⟩
  intro m
  rw [hp.mem_iff, List.mem_filter, C18_spec_exact, C18_matches_iff]

/-- FRACTIONAL SECONDS are kept: a Graph timestamp `base.fffZ` denotes `base+00:00` plus the fraction
    (truncated to µs), for every `fromisoformat`. -/
theorem C18_parse_fraction (iso : Str → Option Int) (base frac : Str) (hb : '.' ∉ base)
    (hd : frac.all isAsciiDigit = true) (hne : frac ≠ []) :
    parseIso .fixed iso (base ++ '.' :: (frac ++ ['Z'])) =
      (iso (base ++ "+00:00".toList)).map (· + (microOf frac : Int)) :=
  parseIso_fraction iso base frac hb hd hne

/-! ## fault containment (for EVERY transport, not only single faults) -/

/-- RESOURCES: whatever the transport does, after the call every response that was opened has been closed. -/
theorem C18_balanced (t : Transport) (fuel : Nat) (s : St) (hs : Bal s) :
    Bal (listAll .fixed t fuel s).2 :=
  listAll_bal .fixed rfl t fuel s hs

theorem C18_balanced_filtered (t : Transport) (iso lower glob) (f : Filter) (fuel : Nat) (s : St) (hs : Bal s) :
    Bal (listFiltered .fixed t iso lower glob f fuel s).2 := by
  have hp := bal_pres .fixed rfl t
  have h1 : Bal (getSiteId .fixed t s).2 :=
    getSiteId_pres hp (fun s _ _ h _ _ => getJson_pres hp .site s h) s hs
  unfold listFiltered
  split
  · rename_i e s' he; rw [he] at h1; exact h1
  · rename_i site s' he; rw [he] at h1
    have h2 := walk_pres hp site fuel none [] s' h1
    split
    · rename_i e s'' he2; rw [he2] at h2; exact h2
    · rename_i fs s'' he2; rw [he2] at h2; exact h2

/-- ERROR FAMILY: whatever the transport does, the only exceptions that leave the call are
    `SharePointRequestError` / `SharePointAuthError` (`outOfFuel` is the model's own stop, not an exception). -/
theorem C18_family (t : Transport) (fuel : Nat) (s : St) (e : Err)
    (h : (listAll .fixed t fuel s).1 = .error e) : e.family = true ∨ e = .outOfFuel := by
  obtain ⟨new, _, hr⟩ := listAll_tr (t := t) .fixed rfl fuel s
  rw [h] at hr
  rcases hr with ⟨he, _⟩ | ⟨i, u, rest, _, _, hra⟩
  · exact Or.inr he
  · exact Or.inl hra.family

/-- STOPS AT THE FIRST FAILURE: for every transport, every request the call made was answered by a 2xx JSON
    object, except possibly the last one; if the last one was not, the call raised what `_send` / `_get_json`
    raise for it (`Raised`), naming that request's URL. A successful call saw no failed request. -/
theorem C18_trace (t : Transport) (fuel : Nat) (s : St) :
    Tr t s.log (listAll .fixed t fuel s).1 (listAll .fixed t fuel s).2.log :=
  listAll_tr .fixed rfl fuel s

private theorem fault_core {α : Type} {t : Transport} {l l' : List (Nat × Url)} {r : Except Err α}
    (htr : Tr t l r l') (k : Nat) (u : Url) (hbad : ¬ Fine (t k u)) (hmade : (k, u) ∈ l') (hnew : (k, u) ∉ l) :
    ∃ e, r = .error e ∧ e.family = true ∧ Raised (t k u) u e ∧ ∃ rest, l' = (k, u) :: rest := by
  obtain ⟨new, hl, hr⟩ := htr
  have hin : (k, u) ∈ new := by
    rw [hl] at hmade
    rcases List.mem_append.mp hmade with h | h
    · exact h
    · exact absurd h hnew
  cases r with
  | ok a => exact absurd (hr _ hin) hbad
  | error e =>
    rcases hr with ⟨_, hf⟩ | ⟨i, u', rest, hn, hf, hra⟩
    · exact absurd (hf _ hin) hbad
    · rw [hn] at hin
      rcases List.mem_cons.mp hin with h | h
      · cases h
        exact ⟨e, rfl, hra.family, hra, rest ++ l, by rw [hl, hn]; rfl⟩
      · exact absurd (hf _ h) hbad

/-- FAULT AT REQUEST k (any k, any failing outcome `o`: HTTPError, URLError, non-2xx response, body that
    is not JSON or not a JSON object).  If the call gets as far as request `k`, then it raises an error of
    the client's family produced by that very request (`Raised o u e`; in particular the request error with
    the HTTP status and the URL for HTTPError / non-2xx, with status `None` and the URL for URLError), the
    failed request is the last one made, every opened response is closed, and calling again — with whatever
    the client cached — against the healthy server returns the complete listing. -/
theorem C18_fault (L : Lib) (n : Nat) (hn : 0 < n) (hL : WellAddressed L)
    (k : Nat) (o : Outcome) (ho : ¬ Fine o) (fuel : Nat) (s : St) (hb : Bal s) (hs : Consistent s)
    (u : Url) (hmade : (k, u) ∈ (listAll .fixed (faultAt k o (healthy L n)) fuel s).2.log)
    (hnew : (k, u) ∉ s.log) :
    ∃ e, (listAll .fixed (faultAt k o (healthy L n)) fuel s).1 = .error e ∧ e.family = true ∧
      Raised o u e ∧
      (∀ code, o = .httpError code → e = .request (some code) u) ∧
      (o = .urlError → e = .request none u) ∧
      (∀ st b, o = .resp st b → ok2xx st = false → e = .request (some st) u) ∧
      (∃ rest, (listAll .fixed (faultAt k o (healthy L n)) fuel s).2.log = (k, u) :: rest) ∧
      Bal (listAll .fixed (faultAt k o (healthy L n)) fuel s).2 ∧
      ∀ fuel', L.size + 2 ≤ fuel' →
        ∃ s'', listAll .fixed (healthy L n) fuel' (listAll .fixed (faultAt k o (healthy L n)) fuel s).2 =
          (.ok (clientListing [] L), s'') := by
  have hto : faultAt k o (healthy L n) k u = o := by simp [faultAt]
  obtain ⟨e, he, hfam, hra, hlast⟩ :=
    fault_core (listAll_tr (t := faultAt k o (healthy L n)) .fixed rfl fuel s) k u (by rw [hto]; exact ho) hmade hnew
  rw [hto] at hra
  refine ⟨e, he, hfam, hra, ?_, ?_, ?_, hlast, C18_balanced _ fuel s hb, ?_⟩
  · intro code hc; subst hc; simpa [Raised] using hra
  · intro hc; subst hc; simpa [Raised] using hra
  · intro st b hc hst; subst hc; simpa [Raised, hst] using hra
  · intro fuel' hf'
    exact listAll_healthy .fixed L n hn hL fuel' hf' _
      (listAll_consistent .fixed rfl _ (siteHonest_faultAt L n k o ho) fuel s hs)

/-- RETRY after ANY misbehaviour: whatever a transport did during a call (any number of faults of any kind,
    including well-formed objects that lack the token / site id) — as long as it never served a *wrong* site id
    in an accepted answer — the next call against the healthy server returns the complete listing. -/
theorem C18_retry (L : Lib) (n : Nat) (hn : 0 < n) (hL : WellAddressed L) (t : Transport) (ht : SiteHonest t)
    (fuel : Nat) (s : St) (hs : Consistent s) (fuel' : Nat) (hf : L.size + 2 ≤ fuel') :
    ∃ s'', listAll .fixed (healthy L n) fuel' (listAll .fixed t fuel s).2 = (.ok (clientListing [] L), s'') :=
  listAll_healthy .fixed L n hn hL fuel' hf _ (listAll_consistent .fixed rfl t ht fuel s hs)

/-- the same for the filtered listing: raised, from that request, in the family -/
theorem C18_fault_filtered (iso lower glob) (f : Filter) (L : Lib) (n : Nat)
    (k : Nat) (o : Outcome) (ho : ¬ Fine o) (fuel : Nat) (s : St) (u : Url)
    (hmade : (k, u) ∈ (listFiltered .fixed (faultAt k o (healthy L n)) iso lower glob f fuel s).2.log)
    (hnew : (k, u) ∉ s.log) :
    ∃ e, (listFiltered .fixed (faultAt k o (healthy L n)) iso lower glob f fuel s).1 = .error e ∧
      e.family = true ∧ Raised o u e := by
  have hto : faultAt k o (healthy L n) k u = o := by simp [faultAt]
  obtain ⟨e, he, hfam, hra, _⟩ :=
    fault_core (listFiltered_tr (t := faultAt k o (healthy L n)) .fixed rfl iso lower glob f fuel s) k u
      (by rw [hto]; exact ho) hmade hnew
  rw [hto] at hra
  exact ⟨e, he, hfam, hra⟩

/-! ## non-vacuity: every hypothesis above is satisfied by a non-trivial value -/

def exFile (nm : String) (ts : String) : FileItem := ⟨nm.toList, ("id-" ++ nm).toList, some ts.toList, some ts.toList⟩

/-- root: a.txt, folder "Q 1" { b.PDF, (other), folder "deep" { c.docx } }, z.txt -/
def exLib : Lib :=
  .file (exFile "a.txt" "2024-01-15T10:00:00.9Z")
    (.folder "Q 1".toList "F1".toList
      (.file (exFile "b.PDF" "2024-01-15T10:00:00Z")
        (.other (.folder "deep".toList "F2".toList (.file (exFile "c.docx" "2024-01-16T00:00:00.25Z") .nil) .nil)))
      (.file (exFile "z.txt" "2023-12-31T23:59:59.999999Z") .nil))

theorem wellAddressed_example : WellAddressed exLib := by unfold WellAddressed; decide +kernel

example : exLib.folderIds.Nodup ∧ ∀ id ∈ exLib.folderIds, id ≠ [] := by decide +kernel
example : SiteHonest (faultAt 1 (.resp 200 (.obj {})) (healthy exLib 2)) := by
  intro i st ob h _
  unfold faultAt at h
  split at h
  · cases h; exact Or.inr rfl
  · simp only [healthy, serve] at h; cases h; exact Or.inl rfl
example : Consistent {} := Or.inl rfl
example : Bal {} := rfl
example : exLib.size + 2 ≤ 9 := by decide
example : ¬ Fine (.httpError 503) := by rintro ⟨_, _, h, _⟩; cases h
example : ¬ Fine .urlError := by rintro ⟨_, _, h, _⟩; cases h
example : ¬ Fine (.resp 200 .nonObject) := by rintro ⟨_, _, h, _⟩; cases h
example : ¬ Fine (.resp 302 (.obj {})) := by rintro ⟨st, ob, h, h2⟩; cases h; revert h2; decide

/-- the complete listing of the example, page size 1 (4 files, three folder levels, 2 requests per page) -/
example : (listAll .fixed (healthy exLib 1) 9 {}).1 = .ok (clientListing [] exLib) ∧
    (clientListing [] exLib).map (·.fullPath) =
      ["a.txt".toList, "z.txt".toList, "Q 1/b.PDF".toList, "Q 1/deep/c.docx".toList] := by decide +kernel

/-- the fault hypotheses `hmade` / `hnew` of `C18_fault` are satisfiable along that run, e.g. the 7th (a nextLink page of the root folder pass) -/
example : (6, Url.cursor none 1) ∈ (listAll .fixed (faultAt 6 (.httpError 503) (healthy exLib 1)) 9 {}).2.log ∧
    (6, Url.cursor none 1) ∉ ({} : St).log := by decide +kernel

example : (listAll .fixed (faultAt 6 (.httpError 503) (healthy exLib 1)) 9 {}).1 =
    .error (.request (some 503) (.cursor none 1)) := by decide +kernel

/-- `C18_parse_fraction` hypotheses -/
example : '.' ∉ "2024-01-15T10:00:00".toList ∧ "9".toList.all isAsciiDigit = true ∧ "9".toList ≠ [] := by decide

/-- the hint example: modified `…10:00:00.9Z`, `modified_after = …10:00:00.5` — matches on the fixed tree -/
theorem fraction_example_fixed :
    matchesF .fixed isoStrict asciiLower globMatch { modifiedAfter := some 1705312800500000 }
      (parseFile [] (exFile "a.txt" "2024-01-15T10:00:00.9Z")) = true := by decide +kernel

/-! ## counterexamples on the upstream behaviour (each switch of `Cfg` is needed) -/

/-- upstream: the same file does NOT match (fraction dropped before the comparison) — inclusive-after fails -/
theorem legacy_fraction_truncated :
    matchesF .legacy isoStrict asciiLower globMatch { modifiedAfter := some 1705312800500000 }
      (parseFile [] (exFile "a.txt" "2024-01-15T10:00:00.9Z")) = false := by decide +kernel

/-- upstream: after an HTTPError the response it carried is still open -/
theorem legacy_httpError_leaks :
    ¬ Bal (listAll .legacy (faultAt 2 (.httpError 503) (healthy exLib 1)) 9 {}).2 := by
  unfold Bal; decide +kernel

/-- upstream: a JSON body that is not an object escapes as AttributeError (outside the client's family) -/
theorem legacy_nonObject_escapes :
    (listAll .legacy (faultAt 2 (.resp 200 .nonObject) (healthy exLib 1)) 9 {}).1 =
      .error (.other "AttributeError") ∧ (Err.other "AttributeError").family = false := by decide +kernel

/-! ## The translated `FileFilter.matches` itself (end to end)

`Props/C18_Src.lean` proves the `FileFilter.matches` re-translated from `client.py` on every run equal
to the model's `matchesF`; composed with `C18_matches_iff`, the documented filter semantics is a
statement about the method **as the source has it now**: for every host (`str.lower`, `fnmatch`, a
`fromisoformat` raising only `ValueError`), every filter and every metadata object within `DatesOk` it
never raises and answers `True` exactly for the files the specification describes; the folder list
takes no part in it, and a filter without criteria accepts every file. -/
section src
open S2T.Py S2T.Gen.PyClient S2T.C18.Src


/-- **C18 at the source level (filter semantics).** -/
theorem C18_src_matches_iff (env : SpEnv) (f : FileFilter) (fm : SpFileMeta) (hV : IsoRaisesValueError env)
    (hD : DatesOk env fm) :
    (FileFilter.matches env f fm = .ok true ↔
        SpecMatches (isoOf env) env.lower env.fnmatch (filterOf f) (metaOf fm)) ∧
    (∃ b, FileFilter.matches env f fm = .ok b) := by
  rw [matches_eq env f fm hV hD]
  refine ⟨?_, ⟨_, rfl⟩⟩
  rw [← C18_matches_iff]
  constructor
  · intro h; simpa [pure, Except.pure] using h
  · intro h; rw [h]; rfl

/-- **C18 at the source level (the folder list does not take part in `matches`; an empty filter accepts).** -/
theorem C18_src_folders_irrelevant (env : SpEnv) (f : FileFilter) (folders : List Py.Str) (fm : SpFileMeta)
    (hV : IsoRaisesValueError env) (hD : DatesOk env fm) :
    FileFilter.matches env { f with folderPaths := folders } fm = FileFilter.matches env f fm := by
  rw [matches_eq env f fm hV hD, matches_eq env _ fm hV hD]
  rfl

theorem C18_src_empty_filter_accepts (env : SpEnv) (folders : List Py.Str) (fm : SpFileMeta)
    (hV : IsoRaisesValueError env) (hD : DatesOk env fm) :
    FileFilter.matches env ⟨none, none, none, none, folders, [], []⟩ fm = .ok true := by
  apply (C18_src_matches_iff env _ fm hV hD).1.mpr
  unfold SpecMatches
  refine ⟨?_, ?_, Or.inl rfl, Or.inl rfl⟩ <;> simp [filterOf, DateIn]

/-! ### Non-vacuity -/
private theorem toyEnv_iso : IsoRaisesValueError toyEnv := by
  intro s e h
  simp only [toyEnv] at h
  split at h
  · cases h
  · cases h; rfl

private theorem toyEnv_dates (fm : SpFileMeta) : DatesOk toyEnv fm := by
  have hw : ∀ s, WholeSecond toyEnv s := by
    intro s a d _ h
    simp only [toyEnv] at h
    split at h
    · cases h; decide
    · cases h
  exact ⟨fun s _ => hw s, fun s _ => hw s⟩

/-- a file the toy host dates 2024-01-15 -/
def toyFile : SpFileMeta := ⟨"a.docx".toList, "1".toList, some "2024-01-15T10:00:00Z".toList, none, some "docs".toList⟩

example : FileFilter.matches toyEnv ⟨none, none, none, none, [], [], [".pdf".toList]⟩ toyFile = .ok false := by
  rw [matches_eq toyEnv _ toyFile toyEnv_iso (toyEnv_dates _)]
  exact congrArg Except.ok (by decide +kernel)
example : FileFilter.matches toyEnv ⟨some ⟨1705312800000000⟩, none, none, none, ["x".toList], [], [".docx".toList]⟩ toyFile
    = .ok true := by
  rw [matches_eq toyEnv _ toyFile toyEnv_iso (toyEnv_dates _)]
  exact congrArg Except.ok (by decide +kernel)
example : FileFilter.matches toyEnv ⟨none, some ⟨1705312800000000⟩, none, none, [], [], []⟩ toyFile = .ok false := by
  rw [matches_eq toyEnv _ toyFile toyEnv_iso (toyEnv_dates _)]
  exact congrArg Except.ok (by decide +kernel)
end src

end S2T.C18
