import S2T.Lemmas.PyUnits
import S2T.Gen.PyUnits
import S2T.Gen.Units
/-!
# C03 (source tie) — the translated `iterate_units()` / `get_full_text()` methods ARE the hand model `S2T.Units`

`S2T.Gen.PyUnits` is regenerated from the current text of `parsing/extractors/data_types.py` on every run
(`tools/gen/pyfun_units.py`, construct by construct: generator methods as the list of the yielded units, dataclasses
as structures generated from `dataclasses.fields`, `typing.Protocol` parameters as type classes, the heading-stack
`while` loop as well-founded recursion, closures with `nonlocal` as auxiliary definitions with explicit state,
references to elements of a local list as positions).  For every instance of the content class and every environment
(`Units.Env`: the character tables behind `str.strip / split / splitlines / lower`, any `str(x)`):

* `_join_unit_text` — for ANY unit class (`UnitInterface` instance) — is `strip (joinNl (texts))` = the model's `joinUnitText`;
* `iterate_units` of PdfContent, XlsxContent, OdsContent, XlsContent (numbered by `enumerate(…, start=1)`), PptxContent,
  OdpContent, PptContent, EpubContent (stored numbers), PlainTextContent, HtmlContent, OdgContent, OdfContent,
  EmailContent (one unit), RtfContent (pages / full text / paragraphs; images and tables grouped by `page_number or 1`)
  viewed as (number reported by `get_metadata()`, `get_text()`, heading path, level, image count, table count) is the
  model's unit list; `get_full_text` is the model's full text — for the eleven "join" classes `joinUnitText` of the units;
* `OdtContent.iterate_units`, `DocContent.iterate_units`: the heading-section machine (`secRun` over `odtEvents` /
  `docEvents`), the single-unit fall-backs, and the best-effort attachment of tables / images, which is shown never to
  raise on a non-empty unit list and never to change number, text, heading path or level of a unit.
  `DocContent`: the attachment loop has no `if units:` guard — the statement says exactly when it raises `IndexError`
  (images present, no unit), with a concrete counterexample (`doc_images_without_units_raise_counterexample`).

Model hypotheses made explicit: stored slide / chapter numbers are compared under "not negative" (the model counts in
`Nat`; `*_iterate_units_all` / `EpubContent_iterate_units_id` state numbers and texts for ALL ints); `DocContent`: the
heading words of the environment's tables are the generated `docHeadingRules` (read from the same source).
Not translated: `DocxContent.iterate_units` (see the report: raising operations after a `yield`).
-/
set_option linter.unusedSimpArgs false
set_option linter.unusedVariables false
namespace S2T.C03.Src
open S2T.Py S2T.Py.Units S2T.Units S2T.Gen.PyUnits

/-- the translator understood every construct of the whitelisted functions -/
theorem gen_py_notes_empty : S2T.Gen.PyUnits.notes = [] := by decide

/-- the functions this file ties (a renamed / removed method breaks this) -/
theorem gen_py_translated : S2T.Gen.PyUnits.translated =
    ["OdtUnit.get_text", "OdtUnit.get_metadata", "DocUnit.get_text", "DocUnit.get_metadata", "EmailUnit.get_text", "EmailUnit.get_metadata", "PdfUnit.get_text", "PdfUnit.get_metadata",
     "PlainTextUnit.get_text", "PlainTextUnit.get_metadata", "HtmlUnit.get_text", "HtmlUnit.get_metadata",
     "PptUnit.get_text", "PptUnit.get_metadata", "PptxUnit.get_text", "PptxUnit.get_metadata",
     "XlsUnit.get_text", "XlsUnit.get_metadata", "XlsxUnit.get_text", "XlsxUnit.get_metadata",
     "OdgUnit.get_text", "OdgUnit.get_metadata", "OdfUnit.get_text", "OdfUnit.get_metadata",
     "OdpUnit.get_text", "OdpUnit.get_metadata", "OdsUnit.get_text", "OdsUnit.get_metadata",
     "RtfUnit.get_text", "RtfUnit.get_metadata", "EpubChapter.get_text", "EpubChapter.get_metadata",
     "_join_unit_text", "PptSlideContent.text_combined", "OdpSlide.text_combined", "PptxSlide.get_text",
     "XlsSheet.get_table",
     "PdfContent.iterate_units", "PdfContent.get_full_text", "PptxContent.iterate_units", "PptxContent.get_full_text",
     "OdpContent.iterate_units", "OdpContent.get_full_text", "XlsxContent.iterate_units", "XlsxContent.get_full_text",
     "OdsContent.iterate_units", "OdsContent.get_full_text", "EpubContent.iterate_units", "EpubContent.get_full_text",
     "HtmlContent.iterate_units", "HtmlContent.get_full_text", "PlainTextContent.iterate_units", "PlainTextContent.get_full_text",
     "EmailContent.iterate_units", "EmailContent.get_full_text", "OdgContent.iterate_units", "OdgContent.get_full_text",
     "OdfContent.iterate_units", "OdfContent.get_full_text", "RtfContent.iterate_units", "RtfContent.get_full_text",
     "XlsContent.iterate_units", "XlsContent.get_full_text", "PptContent.iterate_units", "PptContent.get_full_text",
     "OdtContent.iterate_units", "OdtContent.get_full_text", "DocContent.iterate_units", "DocContent.get_full_text",
     "DocxContent.get_full_text"] := by decide

/-- every unit class the translated `iterate_units` methods yield has its `get_text` registered as the
`UnitInterface` the generic `_join_unit_text` dispatches on -/
theorem unit_classes_dispatch : S2T.Gen.PyUnits.protocol_instances =
    [("UnitInterface", ["OdtUnit", "DocUnit", "EmailUnit", "PdfUnit", "PlainTextUnit", "HtmlUnit", "PptUnit", "PptxUnit", "XlsUnit", "XlsxUnit",
      "OdgUnit", "OdfUnit", "OdpUnit", "OdsUnit", "RtfUnit", "EpubChapter"])] := by decide

/-- **`_join_unit_text`** (any unit class `U`, any list): the trimmed newline-join of the `get_text()` results -/
theorem join_unit_text_eq (env : Units.Env) {U : Type} [UnitInterface U] (units : List U) :
    _join_unit_text env units = strip env.tables (joinNl (units.map UnitInterface.get_text)) := by
  simp [_join_unit_text, Id.run, pure]

/-- … which is the model's `joinUnitText` on any list of model units with the same texts -/
theorem join_unit_text_model (env : Units.Env) {U : Type} [UnitInterface U] (units : List U) (ds : List DUnit)
    (h : units.map UnitInterface.get_text = ds.map (·.text)) :
    _join_unit_text env units = joinUnitText env.tables ds := by
  rw [join_unit_text_eq, h, joinUnitText]

/-- closes `iterate_units self |>.map view = model units |>.map viewD` for a method whose body is ONE
`for i, x in enumerate(xs, start=1): yield U(…)` loop, given the model's per-element abstraction `m` -/
macro "py_enum_units" m:term "with" defs:Lean.Parser.Tactic.simpLemma,* : tactic => `(tactic| (
  simp
  refine map_enumerateFrom_enumUnits _ $m _ ?_ 1 1 rfl _
  intro k x
  simp [viewD, $defs,*]))

/-! ## PDF -/
def pdfPage (p : PdfPage) : Page := { text := p.text, nImages := p.images.length, nTables := p.tables.length }
def pdfView (u : PdfUnit) : UView :=
  { number := (PdfUnit.get_metadata u).unit_number, text := PdfUnit.get_text u, nImages := u.images.length, nTables := u.tables.length }

/-- **`PdfContent.iterate_units`** is the model's `pdfUnits` (number, text, image and table counts), all instances -/
theorem PdfContent_iterate_units_eq (self : PdfContent) :
    (PdfContent.iterate_units self).map pdfView = (pdfUnits (self.pages.map pdfPage)).map viewD := by
  unfold PdfContent.iterate_units pdfUnits
  py_enum_units pdfPage with pdfView, pdfPage, PdfUnit.get_metadata, PdfUnit.get_text

/-- the texts of two unit lists agree when their views do -/
theorem texts_of_views {U : Type} [UnitInterface U] (v : U → UView) (hv : ∀ u, (v u).text = UnitInterface.get_text u)
    (us : List U) (ds : List DUnit) (h : us.map v = ds.map viewD) :
    us.map UnitInterface.get_text = ds.map (·.text) := by
  have := congrArg (List.map UView.text) h
  simpa [Function.comp_def, hv, viewD] using this

/-- **`PdfContent.get_full_text`** is the model's `pdfFullText` = `joinUnitText` of the units -/
theorem PdfContent_get_full_text_eq (env : Units.Env) (self : PdfContent) :
    PdfContent.get_full_text env self = pdfFullText env.tables (self.pages.map pdfPage) := by
  unfold PdfContent.get_full_text pdfFullText
  simp only [Id.run, pure]
  exact join_unit_text_model env _ _ (texts_of_views pdfView (fun _ => rfl) _ _ (PdfContent_iterate_units_eq self))

/-! ## XLSX / ODS / XLS -/
def xlsxSheet (s : XlsxSheet) : Sheet := { name := s.name, text := s.text }
def xlsxView (u : XlsxUnit) : UView := { number := (XlsxUnit.get_metadata u).unit_number, text := XlsxUnit.get_text u }

theorem XlsxContent_iterate_units_eq (env : Units.Env) (self : XlsxContent) :
    (XlsxContent.iterate_units env self).map xlsxView = (xlsxUnits env.tables (self.sheets.map xlsxSheet)).map viewD := by
  unfold XlsxContent.iterate_units xlsxUnits
  py_enum_units xlsxSheet with xlsxView, xlsxSheet, XlsxUnit.get_metadata, XlsxUnit.get_text

theorem XlsxContent_get_full_text_eq (env : Units.Env) (self : XlsxContent) :
    XlsxContent.get_full_text env self = xlsxFullText env.tables (self.sheets.map xlsxSheet) := by
  unfold XlsxContent.get_full_text xlsxFullText
  simp only [Id.run, pure]
  exact join_unit_text_model env _ _ (texts_of_views xlsxView (fun _ => rfl) _ _ (XlsxContent_iterate_units_eq env self))

def odsSheet (s : OdsSheet) : Sheet := { name := s.name, text := s.text }
def odsView (u : OdsUnit) : UView := { number := (OdsUnit.get_metadata u).unit_number, text := OdsUnit.get_text u }

theorem OdsContent_iterate_units_eq (env : Units.Env) (self : OdsContent) :
    (OdsContent.iterate_units env self).map odsView = (odsUnits env.tables (self.sheets.map odsSheet)).map viewD := by
  unfold OdsContent.iterate_units odsUnits
  py_enum_units odsSheet with odsView, odsSheet, OdsUnit.get_metadata, OdsUnit.get_text

theorem OdsContent_get_full_text_eq (env : Units.Env) (self : OdsContent) :
    OdsContent.get_full_text env self = odsFullText env.tables (self.sheets.map odsSheet) := by
  unfold OdsContent.get_full_text odsFullText
  simp only [Id.run, pure]
  exact join_unit_text_model env _ _ (texts_of_views odsView (fun _ => rfl) _ _ (OdsContent_iterate_units_eq env self))

def xlsSheet (s : Gen.PyUnits.XlsSheet) : Sheet := { name := s.name, text := s.text }
def xlsView (u : XlsUnit) : UView := { number := (XlsUnit.get_metadata u).unit_number, text := XlsUnit.get_text u }

theorem XlsContent_iterate_units_eq (env : Units.Env) (self : XlsContent) :
    (XlsContent.iterate_units env self).map xlsView = (xlsUnits env.tables (self.sheets.map xlsSheet)).map viewD := by
  unfold XlsContent.iterate_units xlsUnits
  py_enum_units xlsSheet with xlsView, xlsSheet, XlsUnit.get_metadata, XlsUnit.get_text

/-- `XlsContent.get_full_text` is the stored field, trimmed — not the join of the units (as the model says) -/
theorem XlsContent_get_full_text_eq (env : Units.Env) (self : XlsContent) :
    XlsContent.get_full_text env self = xlsFullText env.tables self.full_text := by
  simp [XlsContent.get_full_text, xlsFullText, Id.run, pure]

/-! ## single-unit formats: plain text, HTML, ODG, ODF -/
def plainView (u : PlainTextUnit) : UView := { number := (PlainTextUnit.get_metadata u).unit_number, text := PlainTextUnit.get_text u }
def htmlView (u : HtmlUnit) : UView := { number := (HtmlUnit.get_metadata u).unit_number, text := HtmlUnit.get_text u }
def odgView (u : OdgUnit) : UView := { number := (OdgUnit.get_metadata u).unit_number, text := OdgUnit.get_text u }
def odfView (u : OdfUnit) : UView := { number := (OdfUnit.get_metadata u).unit_number, text := OdfUnit.get_text u }

theorem PlainTextContent_iterate_units_eq (env : Units.Env) (self : PlainTextContent) :
    (PlainTextContent.iterate_units env self).map plainView = (singleUnits env.tables self.content).map viewD := by
  simp [PlainTextContent.iterate_units, singleUnits, plainView, viewD, PlainTextUnit.get_metadata, PlainTextUnit.get_text, Id.run, pure]
theorem PlainTextContent_get_full_text_eq (env : Units.Env) (self : PlainTextContent) :
    PlainTextContent.get_full_text env self = singleFullText env.tables self.content := by
  unfold PlainTextContent.get_full_text singleFullText
  simp only [Id.run, pure]
  exact join_unit_text_model env _ _ (texts_of_views plainView (fun _ => rfl) _ _ (PlainTextContent_iterate_units_eq env self))

theorem HtmlContent_iterate_units_eq (env : Units.Env) (self : HtmlContent) :
    (HtmlContent.iterate_units env self).map htmlView = (singleUnits env.tables self.content).map viewD := by
  simp [HtmlContent.iterate_units, singleUnits, htmlView, viewD, HtmlUnit.get_metadata, HtmlUnit.get_text, Id.run, pure]
theorem HtmlContent_get_full_text_eq (env : Units.Env) (self : HtmlContent) :
    HtmlContent.get_full_text env self = singleFullText env.tables self.content := by
  unfold HtmlContent.get_full_text singleFullText
  simp only [Id.run, pure]
  exact join_unit_text_model env _ _ (texts_of_views htmlView (fun _ => rfl) _ _ (HtmlContent_iterate_units_eq env self))

theorem OdgContent_iterate_units_eq (env : Units.Env) (self : OdgContent) :
    (OdgContent.iterate_units env self).map odgView = (singleUnits env.tables self.full_text).map viewD := by
  simp [OdgContent.iterate_units, singleUnits, odgView, viewD, OdgUnit.get_metadata, OdgUnit.get_text, Id.run, pure]
theorem OdgContent_get_full_text_eq (env : Units.Env) (self : OdgContent) :
    OdgContent.get_full_text env self = singleFullText env.tables self.full_text := by
  unfold OdgContent.get_full_text singleFullText
  simp only [Id.run, pure]
  exact join_unit_text_model env _ _ (texts_of_views odgView (fun _ => rfl) _ _ (OdgContent_iterate_units_eq env self))

theorem OdfContent_iterate_units_eq (env : Units.Env) (self : OdfContent) :
    (OdfContent.iterate_units env self).map odfView = (singleUnits env.tables self.full_text).map viewD := by
  simp [OdfContent.iterate_units, singleUnits, odfView, viewD, OdfUnit.get_metadata, OdfUnit.get_text, Id.run, pure]
theorem OdfContent_get_full_text_eq (env : Units.Env) (self : OdfContent) :
    OdfContent.get_full_text env self = singleFullText env.tables self.full_text := by
  unfold OdfContent.get_full_text singleFullText
  simp only [Id.run, pure]
  exact join_unit_text_model env _ _ (texts_of_views odfView (fun _ => rfl) _ _ (OdfContent_iterate_units_eq env self))

/-! ## e-mail -/
def emailOf (c : EmailContent) : Email := { bodyPlain := c.body_plain, bodyHtml := c.body_html }
def emailView (u : EmailUnit) : UView := { number := (EmailUnit.get_metadata u).unit_number, text := EmailUnit.get_text u }

theorem EmailContent_iterate_units_eq (self : EmailContent) :
    (EmailContent.iterate_units self).map emailView = (emailUnits (emailOf self)).map viewD := by
  unfold EmailContent.iterate_units emailUnits
  simp +instances [Id.run, emailOf]
  repeat' split
  all_goals simp_all [pure, emailView, viewD, EmailUnit.get_metadata, EmailUnit.get_text, Id.run]
theorem EmailContent_get_full_text_eq (env : Units.Env) (self : EmailContent) :
    EmailContent.get_full_text env self = emailFullText env.tables (emailOf self) := by
  unfold EmailContent.get_full_text emailFullText
  simp only [Id.run, pure]
  exact join_unit_text_model env _ _ (texts_of_views emailView (fun _ => rfl) _ _ (EmailContent_iterate_units_eq self))

/-! ## EPUB -/
def epubChapter (c : EpubChapter) : Chapter := { number := c.chapter_number.toNat, text := c.text }
def epubView (u : EpubChapter) : UView := { number := (EpubChapter.get_metadata u).unit_number, text := EpubChapter.get_text u }

/-- the unit number is the stored chapter number, whatever it is (negative numbers included) -/
theorem EpubContent_iterate_units_id (self : EpubContent) : EpubContent.iterate_units self = self.chapters := by
  simp [EpubContent.iterate_units]

/-- the model counts in `Nat`: for stored chapter numbers that are not negative the units are the model's -/
theorem EpubContent_iterate_units_eq (self : EpubContent) (h : ∀ c ∈ self.chapters, 0 ≤ c.chapter_number) :
    (EpubContent.iterate_units self).map epubView = (epubUnits (self.chapters.map epubChapter)).map viewD := by
  rw [EpubContent_iterate_units_id]
  simp only [epubUnits, List.map_map]
  apply List.map_congr_left
  intro c hc
  have := h c hc
  simp [epubView, viewD, epubChapter, EpubChapter.get_metadata, EpubChapter.get_text, Id.run, pure]
  omega
theorem EpubContent_get_full_text_eq (env : Units.Env) (self : EpubContent) :
    EpubContent.get_full_text env self = epubFullText env.tables (self.chapters.map epubChapter) := by
  unfold EpubContent.get_full_text epubFullText
  simp only [Id.run, pure]
  refine join_unit_text_model env _ _ ?_
  simp [EpubContent_iterate_units_id, epubUnits, epubChapter, UnitInterface.get_text, EpubChapter.get_text, Id.run, pure, Function.comp_def]

/-! ## PPT -/
def pptSlide (s : PptSlideContent) : PptSlide :=
  { number := s.slide_number.toNat, title := s.title, body := s.body_text, other := s.other_text }
def pptView (u : PptUnit) : UView := { number := (PptUnit.get_metadata u).unit_number, text := PptUnit.get_text u }

/-- **`PptSlideContent.text_combined`** is the model's `textCombined` (a `None` / empty title is left out) -/
theorem PptSlideContent_text_combined_eq (s : PptSlideContent) :
    PptSlideContent.text_combined s = textCombined s.title s.body_text s.other_text := by
  unfold PptSlideContent.text_combined textCombined
  rcases ht : s.title with _ | t
  · simp [Id.run, pure, ht]
  · simp [Id.run, pure, ht]
    split <;> simp

/-- texts and numbers, ALL instances (the stored slide number is passed through, negative or not) -/
theorem PptContent_iterate_units_all (self : PptContent) :
    (PptContent.iterate_units self).map (fun u => ((PptUnit.get_metadata u).unit_number, PptUnit.get_text u))
      = self.slides.map (fun s => (s.slide_number, textCombined s.title s.body_text s.other_text)) := by
  simp [PptContent.iterate_units, PptSlideContent_text_combined_eq]
  simp [PptUnit.get_metadata, PptUnit.get_text, Id.run, pure, Function.comp_def]

/-- **`PptContent.iterate_units`** is the model's `pptUnits` for stored slide numbers that are not negative (the model
counts in `Nat`) -/
theorem PptContent_iterate_units_eq (self : PptContent) (h : ∀ s ∈ self.slides, 0 ≤ s.slide_number) :
    (PptContent.iterate_units self).map pptView = (pptUnits (self.slides.map pptSlide)).map viewD := by
  simp [PptContent.iterate_units, pptUnits, PptSlideContent_text_combined_eq, Function.comp_def]
  intro s hs
  have := h s hs
  simp [pptView, viewD, pptSlide, PptUnit.get_metadata, PptUnit.get_text, Id.run, pure]
  omega

example : ∃ c : PptContent, c.slides ≠ [] ∧ ∀ s ∈ c.slides, 0 ≤ s.slide_number :=
  ⟨{ slides := [{ slide_number := 3, title := some "T".toList }] }, by simp, by simp⟩

/-- outside the hypothesis: the model's `PptSlide.number` is a `Nat`, the stored `slide_number` any int — a negative
stored number is passed through by the source and cannot be represented by the model (the same holds for OdpSlide,
PptxSlide, EpubChapter; a finding about the MODEL's type, not about the library) -/
theorem stored_negative_number_counterexample :
    (PptContent.iterate_units { slides := [{ slide_number := -1 }] }).map pptView
      ≠ (pptUnits ([({ slide_number := -1 } : PptSlideContent)].map pptSlide)).map viewD := by
  decide

/-- **`PptContent.get_full_text`** is the model's `pptFullText`: the newline-join of the non-empty trimmed unit texts -/
theorem PptContent_get_full_text_eq (env : Units.Env) (self : PptContent) :
    PptContent.get_full_text env self = pptFullText env.tables (self.slides.map pptSlide) := by
  simp [PptContent.get_full_text, PptContent.iterate_units, PptSlideContent_text_combined_eq]
  simp [pptFullText, pptUnits, PptUnit.get_text, pptSlide, Id.run, pure, Function.comp_def, List.filter_map, isEmpty_eq_decide]

/-! ## ODP -/
def odpSlide (s : OdpSlide) : PptSlide :=
  { number := s.slide_number.toNat, title := some s.title, body := s.body_text, other := s.other_text }
def odpView (u : OdpUnit) : UView :=
  { number := (OdpUnit.get_metadata u).unit_number, text := OdpUnit.get_text u, path := (OdpUnit.get_metadata u).location }

theorem OdpSlide_text_combined_eq (s : OdpSlide) :
    OdpSlide.text_combined s = textCombined (some s.title) s.body_text s.other_text := by
  unfold OdpSlide.text_combined textCombined
  simp [Id.run, pure]
  split <;> simp_all

theorem OdpContent_iterate_units_eq (self : OdpContent) (h : ∀ s ∈ self.slides, 0 ≤ s.slide_number) :
    (OdpContent.iterate_units self).map odpView = (odpUnits (self.slides.map odpSlide)).map viewD := by
  simp [OdpContent.iterate_units, odpUnits, OdpSlide_text_combined_eq, Function.comp_def]
  intro s hs
  have := h s hs
  simp [odpView, viewD, odpSlide, OdpUnit.get_metadata, OdpUnit.get_text, Id.run, pure]
  omega

theorem OdpContent_get_full_text_eq (env : Units.Env) (self : OdpContent) :
    OdpContent.get_full_text env self = odpFullText env.tables (self.slides.map odpSlide) := by
  unfold OdpContent.get_full_text odpFullText
  simp only [Id.run, pure]
  refine join_unit_text_model env _ _ ?_
  simp [OdpContent.iterate_units, OdpSlide_text_combined_eq]
  simp [odpUnits, odpSlide, UnitInterface.get_text, OdpUnit.get_text, Id.run, pure, Function.comp_def]

/-! ## PPTX -/
def pptxSlide (s : Gen.PyUnits.PptxSlide) : Units.PptxSlide :=
  { number := s.slide_number.toNat, baseText := s.base_text, formulas := s.formulas.map (fun f => (f.latex, f.is_display)),
    imageDescs := s.images.map (·.description) }
def pptxView (u : PptxUnit) : UView :=
  { number := (PptxUnit.get_metadata u).unit_number, text := PptxUnit.get_text u, nImages := u.images.length }

theorem PptxSlide_get_text_eq (s : Gen.PyUnits.PptxSlide) (cap : Bool) :
    PptxSlide.get_text s cap = pptxSlideText (pptxSlide s) cap := by
  unfold PptxSlide.get_text pptxSlideText
  simp (disch := py_appends) only [Id.run, forIn_id_append]
  simp only [pure, bind, apply_ite stepVal, stepVal_yield, listAppend, List.nil_append, flatMap_ite_singleton,
    flatMap_ite_singleton', flatMap_ite_singletons, pptxSlide]
  cases cap <;> simp [List.filter_map, Function.comp_def] <;> split <;> simp_all

theorem PptxContent_iterate_units_eq (env : Units.Env) (self : PptxContent) (cap : Bool)
    (h : ∀ s ∈ self.slides, 0 ≤ s.slide_number) :
    (PptxContent.iterate_units env self cap).map pptxView
      = (pptxUnits env.tables (self.slides.map pptxSlide) cap).map viewD := by
  simp [PptxContent.iterate_units, PptxSlide_get_text_eq]
  simp [pptxUnits, Function.comp_def]
  intro s hs
  have := h s hs
  simp [pptxView, viewD, pptxSlide, PptxUnit.get_metadata, PptxUnit.get_text, Id.run, pure]
  omega

/-- texts and numbers, ALL instances (the stored slide number is passed through, negative or not) -/
theorem PptxContent_iterate_units_all (env : Units.Env) (self : PptxContent) (cap : Bool) :
    (PptxContent.iterate_units env self cap).map (fun u => ((PptxUnit.get_metadata u).unit_number, PptxUnit.get_text u, u.images.length))
      = self.slides.map (fun s => (s.slide_number, strip env.tables (pptxSlideText (pptxSlide s) cap), s.images.length)) := by
  simp [PptxContent.iterate_units, PptxSlide_get_text_eq]
  simp [PptxUnit.get_metadata, PptxUnit.get_text, Id.run, pure, Function.comp_def]

theorem PptxContent_get_full_text_eq (env : Units.Env) (self : PptxContent) (cap : Bool) :
    PptxContent.get_full_text env self cap = pptxFullText env.tables (self.slides.map pptxSlide) cap := by
  unfold PptxContent.get_full_text pptxFullText
  simp only [Id.run, pure]
  refine join_unit_text_model env _ _ ?_
  simp [PptxContent.iterate_units, PptxSlide_get_text_eq]
  simp [pptxUnits, UnitInterface.get_text, PptxUnit.get_text, Id.run, pure, Function.comp_def]

/-! ## RTF -/
def rtfOf (c : RtfContent) : Rtf :=
  { pages := c.pages, fullText := c.full_text, paragraphs := c.paragraphs.map (·.text),
    imagePages := c.images.map (·.page_number), tablePages := c.tables.map (·.page_number) }
def rtfView (u : RtfUnit) : UView :=
  { number := (RtfUnit.get_metadata u).unit_number, text := RtfUnit.get_text u, nImages := u.images.length, nTables := u.tables.length }

/-- **`RtfContent.iterate_units`** never raises (the `d[page]` look-ups of the two group-by-page loops always find the
entry created just before) and is the model's `rtfUnits`: one unit per explicit page, else the full text, else the
non-blank paragraphs; images / tables are counted on the page `page_number or 1` -/
theorem RtfContent_iterate_units_eq (env : Units.Env) (self : RtfContent) :
    (fun us => us.map rtfView) <$> RtfContent.iterate_units env self
      = Except.ok ((rtfUnits env.tables (rtfOf self)).map viewD) := by
  unfold RtfContent.iterate_units
  simp (disch := py_group) only [forIn_groupBy (fun (i : RtfImage) => orD i.page_number 1),
    forIn_groupBy (fun (i : RtfTable) => orD i.page_number 1)]
  simp only [M.ok_bind', dGetD_foldl_groupStep]
  unfold rtfUnits
  simp [rtfOf, dGetD]
  repeat' split
  all_goals first
    | (simp_all [rtfView, viewD, RtfUnit.get_metadata, RtfUnit.get_text, Id.run, pure, filter_page_length_one, List.filter_map,
        Function.comp_def, isEmpty_eq_decide]; done)
    | (simp only [map_ok, List.map_map]
       refine congrArg Except.ok (map_enumerateFrom_enumUnits' _ _ ?_ 1 1 rfl _)
       intro k x
       simp [rtfView, viewD, RtfUnit.get_metadata, RtfUnit.get_text, Id.run, pure, filter_page_length])

/-- **`RtfContent.get_full_text`**: the stored full text when there is one, else the join of the units -/
theorem RtfContent_get_full_text_eq (env : Units.Env) (self : RtfContent) :
    RtfContent.get_full_text env self = Except.ok (rtfFullText env.tables (rtfOf self)) := by
  obtain ⟨us, hus, hv⟩ := map_eq_ok _ _ _ (RtfContent_iterate_units_eq env self)
  unfold RtfContent.get_full_text rtfFullText
  simp only [hus, M.ok_bind']
  by_cases hf : self.full_text = []
  · simp [hf, rtfOf]
    exact join_unit_text_model env _ _ (texts_of_views rtfView (fun _ => rfl) _ _ (by simpa [rtfOf, hf] using hv))
  · simp [hf, rtfOf]

/-! ## ODT: heading sections (the heading-stack `while` loop is well-founded recursion generated from the source) -/

/-- the model's paragraph loop state: the section machine, `in_table_block`, tables not yet consumed -/
structure OdtM where
  s : Sec
  inT : Bool
  left : Nat

/-- one paragraph of `odtEvents` fed to the section machine -/
def odtParaStep (T : Tables) (mk : List Units.Str → List Units.Str) (m : OdtM) (p : OdtPara) : OdtM :=
  match p.outline with
  | some lv =>
    let t := strip T p.text
    if t ≠ [] then { m with s := secStep T mk m.s (.heading lv t) } else m
  | none =>
    if odtIsTableStyle p.style then
      if !m.inT then
        (match m.left with
         | 0 => { m with inT := true }
         | k + 1 => { s := secStep T mk m.s .table, inT := true, left := k })
      else m
    else
      let t := strip T p.text
      if t ≠ [] then { m with s := secStep T mk m.s (.body t), inT := false } else { m with inT := false }

theorem odtEvents_fold (T : Tables) (mk : List Units.Str → List Units.Str) (ps : List OdtPara) (m : OdtM) :
    (odtEvents T ps m.inT m.left).foldl (secStep T mk) m.s = (ps.foldl (odtParaStep T mk) m).s := by
  induction ps generalizing m with
  | nil => simp [odtEvents]
  | cons p r ih =>
    obtain ⟨s, inT, left⟩ := m
    rw [List.foldl_cons, ← ih]
    simp only [odtEvents, odtParaStep]
    rcases ho : p.outline with _ | lv
    · by_cases hs : odtIsTableStyle p.style = true
      · cases inT
        · cases left <;> simp [hs, ho]
        · simp [hs, ho]
      · by_cases ht : strip T p.text = [] <;> simp [hs, ho, ht]
    · by_cases ht : strip T p.text = [] <;> simp [ho, ht]

theorem while_1_rev (lv : Int) (r : List (Int × Py.Str)) :
    OdtContent.iterate_units.while_1 lv r.reverse = (popStack lv r).reverse := by
  induction r with
  | nil => unfold OdtContent.iterate_units.while_1; simp [popStack, truthy]
  | cons a l ih =>
    unfold OdtContent.iterate_units.while_1
    obtain ⟨l0, t0⟩ := a
    simp [popStack, truthy]
    split
    · simp_all [popNE]
    · simp_all

def flushSpec (T : Tables) (base : List Py.Str) (lvl : Option Int) (path : List Py.Str) (units : List OdtUnit)
    (lines : List Py.Str) (tables : List TableData) (idx : Int) :
    List OdtUnit × List Py.Str × List TableData × Int :=
  let text := strip T (joinNl (lines.filter (· ≠ [])))
  if text = [] ∧ tables = [] then (units, [], [], idx)
  else (units ++ [{ text := text, unit_number := idx, heading_level := lvl, heading_path := odtMkPath base path,
                    kind := "body".toList, tables := tables }], [], [], idx + 1)

theorem flush_current_eq (env : Units.Env) (base : List Py.Str) (lvl : Option Int) (path : List Py.Str) (units : List OdtUnit)
    (lines : List Py.Str) (tables : List TableData) (idx : Int) :
    OdtContent.iterate_units.flush_current env base lvl path units lines tables idx
      = flushSpec env.tables base lvl path units lines tables idx := by
  unfold OdtContent.iterate_units.flush_current flushSpec
  simp (disch := py_yields) only [forIn_id_step]
  simp [odtMkPath, pure, apply_ite stepVal, isEmpty_eq_decide]
  have hstep : ∀ (acc : List Py.Str) x, (∀ (h : ¬acc = []), ¬acc.getLast h = x) ↔ (acc = [] ∨ ¬acc.getLast? = some x) := by
    intro acc x
    cases acc with
    | nil => simp
    | cons a l => simp [List.getLast?_eq_some_getLast]; exact ⟨fun h => h trivial, fun h _ => h⟩
  simp only [hstep]
  by_cases h1 : strip env.tables (joinNl (List.filter (fun x => !decide (x = [])) lines)) = [] <;>
    by_cases h2 : tables = [] <;> simp [h1, h2] <;> rfl

def odtPara (p : OdtParagraph) : OdtPara := { text := p.text, outline := p.outline_level, style := orD p.style_name [] }
def odtOf (c : OdtContent) : Odt :=
  { paragraphs := c.paragraphs.map odtPara, title := c.metadata.title, fullText := c.full_text,
    nTables := c.tables.length, nImages := c.images.length }
def odtView (u : OdtUnit) : UView :=
  { number := (OdtUnit.get_metadata u).unit_number, text := OdtUnit.get_text u,
    path := (OdtUnit.get_metadata u).heading_path, level := (OdtUnit.get_metadata u).heading_level }
/-- the model's unit without the image / table counts (attachment by caption / header matching is not modelled) -/
def viewD4 (d : DUnit) : UView := { number := d.number, text := d.text, path := d.path, level := d.level }

abbrev OdtSt := List OdtUnit × List (Int × Py.Str) × Option Int × List Py.Str × List Py.Str × List TableData × Int × Bool
  × Int × List TableData × Bool

def odtRel (nTables : Nat) : OdtSt → OdtM → Prop
  | (units, hs, lvl, path, lines, tabs, idx, any, ti, pend, inT), m =>
    units.map odtView = m.s.units.map viewD4 ∧ idx = (m.s.units.length : Int) + 1 ∧ hs = m.s.stackRev.reverse ∧
    lvl = m.s.level ∧ path = m.s.path ∧ lines = m.s.lines ∧ tabs.length = m.s.curTables ∧ any = m.s.any ∧
    ti + (m.left : Int) = (nTables : Int) ∧ 0 ≤ ti ∧ pend.length = m.s.pending ∧ inT = m.inT

/-- `flush_current` and the model's `secFlush` keep the loop state and the model state related -/
theorem flush_rel (T : Tables) (base : List Py.Str) (units : List OdtUnit) (tabs : List TableData) (idx : Int) (s : Sec)
    (hu : units.map odtView = s.units.map viewD4) (hidx : idx = (s.units.length : Int) + 1) (htabs : tabs.length = s.curTables) :
    ∃ u' su, flushSpec T base s.level s.path units s.lines tabs idx = (u', [], [], (su.length : Int) + 1)
      ∧ u'.map odtView = su.map viewD4
      ∧ secFlush T (odtMkPath base) s = { s with units := su, lines := [], curTables := 0 } := by
  have ht : (tabs = []) ↔ s.curTables = 0 := by rw [← htabs]; cases tabs <;> simp
  unfold flushSpec secFlush
  simp only [ht]
  split
  · exact ⟨units, s.units, by simp [hidx], by simp [hu], by simp⟩
  · refine ⟨_, _, by simp [hidx]; rfl, ?_, rfl⟩
    simp [hu, hidx, odtView, viewD4, OdtUnit.get_metadata, OdtUnit.get_text, Id.run, pure]

/-- `base_heading_path`: the document title, if any -/
def baseOf (o : Odt) : List Units.Str := if o.title ≠ [] then [o.title] else []

theorem odtUnits_unfold (T : Tables) (o : Odt) (hp : o.paragraphs ≠ []) :
    odtUnits T o =
      (if !(secRun T (odtMkPath (baseOf o)) (odtEvents T o.paragraphs false o.nTables)).any then odtSingle o
       else (secRun T (odtMkPath (baseOf o)) (odtEvents T o.paragraphs false o.nTables)).units) := by
  unfold odtUnits baseOf
  rw [if_neg hp]

theorem odtSingle_view (o : Odt) :
    (odtSingle o).map viewD4 = [{ number := 1, text := o.fullText, path := baseOf o, level := if baseOf o ≠ [] then some 1 else none }] := by
  simp [odtSingle, viewD4, baseOf]

set_option hygiene false in
/-- the image loop of the attachment phase keeps `attachInv`; then every unit is yielded -/
macro "odt_images" : tactic => `(tactic| (
  rw [map_bind]
  refine forIn_sim_bind (fun us (_ : Unit) => attachInv odtView (su.map viewD4) us) (fun _ _ => ()) () _ _ _ _ _ hI ?_ ?_
  · intro img us _ hI
    simp (disch := py_find) only [forIn_find_eq]
    have hlast := refLast_ok us hI.2
    have hfirst := refFirst_ok us hI.2
    have hpos := attachInv_pos _ _ us hI
    generalize hr : findRes _ us = r
    have hlt := findRes_lt _ us r hr
    cases r <;> simp only [Option.isNone_none, Option.isNone_some, if_true, Bool.false_eq_true, if_false,
      hlast, hfirst, M.ok_bind', M.pure_def] <;> (repeat' split) <;>
      exact attach_step_deref odtView _ us _ _ hI
        (by first | omega | exact hlt _ rfl | exact refFindLast_getD_lt _ us hpos) (fun d u => rfl)
  · intro us hI
    simp [hI.1]))

set_option hygiene false in
/-- the whole attachment phase (tables that no table paragraph announced, then images) -/
macro "odt_attach" : tactic => `(tactic| (
  split
  · rw [map_bind]
    refine forIn_sim_bind (fun us (_ : Unit) => attachInv odtView (su.map viewD4) us) (fun _ _ => ()) () _ _ _ _ _ hI0 ?_ ?_
    · intro tb us _ hI
      simp (disch := py_find) only [forIn_find_eq]
      have hlast := refLast_ok us hI.2
      have hpos := attachInv_pos _ _ us hI
      generalize hr : findRes _ us = r
      have hlt := findRes_lt _ us r hr
      cases r <;> simp only [refOr, hlast, M.ok_bind', M.pure_def] <;> (repeat' split) <;>
        exact attach_step odtView _ us _ _ hI (by first | omega | exact hlt _ rfl) (fun u => rfl)
    · intro us hI
      odt_images
  · have hI := hI0
    odt_images))

theorem OdtContent_iterate_units_eq (env : Units.Env) (self : OdtContent) :
    (fun us => us.map odtView) <$> OdtContent.iterate_units env self
      = Except.ok ((odtUnits env.tables (odtOf self)).map viewD4) := by
  unfold OdtContent.iterate_units
  simp only [flush_current_eq]
  have hb : (if truthy self.metadata.title = true then [self.metadata.title] else []) = baseOf (odtOf self) := by
    cases h : self.metadata.title <;> simp [truthy_str, baseOf, odtOf, h]
  simp only [hb]
  generalize hbase : baseOf (odtOf self) = base
  by_cases hp : self.paragraphs = []
  · have hm : odtUnits env.tables (odtOf self) = odtSingle (odtOf self) := by simp [odtUnits, odtOf, hp]
    rw [hm, odtSingle_view, hbase]
    simp [hp]
    simp [odtOf, odtView, OdtUnit.get_metadata, OdtUnit.get_text, Id.run, pure]
  · have hne : ¬ ((!truthy self.paragraphs) = true) := by simp [truthy_list, hp]
    rw [if_neg hne, map_bind]
    refine forIn_sim_bind (odtRel self.tables.length)
      (fun m p => odtParaStep env.tables (odtMkPath base) m (odtPara p))
      ⟨{}, false, self.tables.length⟩ _ _ _ _ _ ?_ ?_ ?_
    · simp [odtRel]
    · intro p σ m hR
      obtain ⟨units, hs, lvl, path, lines, tabs, idx, any, ti, pend, inT⟩ := σ
      obtain ⟨⟨stk, mlvl, mpath, mlines, mcur, mpend, munits, many⟩, minT, left⟩ := m
      simp only [odtRel] at hR
      obtain ⟨hu, rfl, rfl, rfl, rfl, rfl, htabs, rfl, hti, hti0, hpend, rfl⟩ := hR
      obtain ⟨u1, su, hf1, hf2, hf3⟩ := flush_rel env.tables base units tabs _
        ⟨stk, lvl, path, lines, mcur, mpend, munits, true⟩ hu rfl htabs
      simp only [] at hf1 hf3
      rcases ho : p.outline_level with _ | lv
      · simp only [ho, Option.isSome_none, Bool.false_eq_true, dite_false]
        have hstyle : (startswith (orD p.style_name "".toList) "Table".toList
            || isInfixB "Table_".toList (orD p.style_name "".toList)) = odtIsTableStyle (odtPara p).style := by
          simp [odtIsTableStyle, odtPara, startswith]
        rw [hstyle]
        simp only [odtPara]
        by_cases hs : odtIsTableStyle (orD p.style_name []) = true
        · simp only [hs, if_true]
          cases inT
          · by_cases hlt : ti < len self.tables
            · obtain ⟨tb, htb, _⟩ := listGetItem_ok self.tables ti hti0 hlt
              obtain ⟨k, rfl⟩ : ∃ k, left = k + 1 := ⟨left - 1, by simp only [len] at hlt; omega⟩
              refine ⟨_, by simp [hlt, htb]; rfl, ?_⟩
              simp only [len] at hlt
              simp [odtRel, odtParaStep, odtPara, ho, hs, secStep, hu, htabs, hpend]
              omega
            · have hl0 : left = 0 := by simp only [len] at hlt; omega
              subst hl0
              refine ⟨_, by simp [hlt]; rfl, ?_⟩
              simp [odtRel, odtParaStep, odtPara, ho, hs, hu, htabs, hpend, hti, hti0]
              simp only [len] at hlt
              omega
          · refine ⟨_, by simp; rfl, ?_⟩
            simp [odtRel, odtParaStep, odtPara, ho, hs, hu, htabs, hpend, hti, hti0]
        · simp only [hs, if_false]
          by_cases ht : strip env.tables p.text = []
          · refine ⟨_, by simp [ht]; rfl, ?_⟩
            simp [odtRel, odtParaStep, odtPara, ho, hs, ht, hu, htabs, hpend, hti, hti0]
          · refine ⟨_, by simp [ht]; rfl, ?_⟩
            simp [odtRel, odtParaStep, odtPara, ho, hs, ht, secStep, hu, htabs, hpend, hti, hti0]
      · by_cases ht : strip env.tables p.text = []
        · refine ⟨_, by simp [ho, ht]; rfl, ?_⟩
          simp [odtRel, odtParaStep, odtPara, ho, ht, hu, htabs, hti, hti0, hpend]
        · have htr : truthy (strip env.tables p.text) = true := by simp [truthy_str, ht]
          simp only [ho, hf1, Option.isSome_some, dite_true, htr, if_true, getS_some, while_1_rev]
          split
          · refine ⟨_, rfl, ?_⟩
            simp only [odtRel, odtParaStep, odtPara, ho, secStep, hf3]
            simp [ht, hf2, hti, hti0, hpend, pathOf, List.filter_map, Function.comp_def, isEmpty_eq_decide]
          · rename_i hpd
            have hp0 : mpend = 0 := by rw [← hpend]; cases pend <;> simp_all [truthy_list]
            refine ⟨_, rfl, ?_⟩
            simp only [odtRel, odtParaStep, odtPara, ho, secStep, hf3]
            simp [ht, hf2, hti, hti0, hpend, hp0, pathOf, List.filter_map, Function.comp_def, isEmpty_eq_decide]
    · intro σ hR
      obtain ⟨units, hs, lvl, path, lines, tabs, idx, any, ti, pend, inT⟩ := σ
      generalize hm : List.foldl _ _ self.paragraphs = m at hR
      obtain ⟨⟨stk, mlvl, mpath, mlines, mcur, mpend, munits, many⟩, minT, left⟩ := m
      simp only [odtRel] at hR
      obtain ⟨hu, rfl, rfl, rfl, rfl, rfl, htabs, rfl, hti, hti0, hpend, rfl⟩ := hR
      -- the model side
      have hfold := odtEvents_fold env.tables (odtMkPath base) (self.paragraphs.map odtPara) ⟨{}, false, self.tables.length⟩
      rw [List.foldl_map, hm] at hfold
      simp only [] at hfold
      obtain ⟨u1, su, hf1, hf2, hf3⟩ := flush_rel env.tables base units (tabs ++ pend) _
        ⟨stk, lvl, path, lines, mcur + mpend, 0, munits, any⟩ hu rfl (by simp [htabs, hpend])
      simp only [] at hf1 hf3
      have hrhs : odtUnits env.tables (odtOf self) = if (!any) = true then odtSingle (odtOf self) else su := by
        rw [odtUnits_unfold _ _ (by simp [odtOf, hp]), hbase]
        have e1 : (odtOf self).paragraphs = self.paragraphs.map odtPara := rfl
        have e2 : (odtOf self).nTables = self.tables.length := rfl
        rw [e1, e2]
        simp only [secRun, hfold, hf3]
      rw [hrhs]
      by_cases hpd : pend = []
      · subst hpd
        simp only [List.append_nil] at hf1
        simp only [truthy_list, List.isEmpty_nil, Bool.not_true, Bool.false_eq_true, if_false, hf1]
        cases any
        · simp [odtSingle_view, hbase]
          simp [odtOf, odtView, OdtUnit.get_metadata, OdtUnit.get_text, Id.run, pure]
        · simp only [Bool.not_true, Bool.false_eq_true, if_false]
          by_cases hu1 : u1 = []
          · subst hu1
            have : su = [] := by simpa using hf2.symm
            simp [this]
          · have hu1' : (!u1.isEmpty) = true := by simp [hu1]
            simp only [hu1', if_true]
            have hI0 : attachInv odtView (su.map viewD4) u1 := ⟨hf2, hu1⟩
            odt_attach
      · have htp : truthy pend = true := by simp [truthy_list, hpd]
        simp only [htp, if_true, hf1]
        cases any
        · simp [odtSingle_view, hbase]
          simp [odtOf, odtView, OdtUnit.get_metadata, OdtUnit.get_text, Id.run, pure]
        · simp only [Bool.not_true, Bool.false_eq_true, if_false]
          by_cases hu1 : u1 = []
          · subst hu1
            have : su = [] := by simpa using hf2.symm
            simp [this]
          · have hu1' : truthy u1 = true := by simp [truthy_list, hu1]
            simp only [hu1', if_true]
            have hI0 : attachInv odtView (su.map viewD4) u1 := ⟨hf2, hu1⟩
            odt_attach

/-- `OdtContent.get_full_text` is the stored field (as the model says) -/
theorem OdtContent_get_full_text_eq (self : OdtContent) : OdtContent.get_full_text self = odtFullText (odtOf self) := by
  simp [OdtContent.get_full_text, odtFullText, odtOf, Id.run, pure]

/-! ## legacy DOC: heading sections from the text lines, stored tables consumed by token match -/

/-- the model's line loop state: the section machine and the tables not yet consumed (flattened) -/
structure DocM where
  s : Sec
  rest : List (List Units.Str)

/-- one line of `docEvents` fed to the section machine -/
def docLineStep (T : Tables) (m : DocM) (line : Units.Str) : DocM :=
  match m.rest with
  | [] => { m with s := (docLine T line).foldl (secStep T id) m.s }
  | tb :: tr =>
    if splitWs T line ≠ [] ∧ splitWs T line = tb then { s := secStep T id m.s .table, rest := tr }
    else { m with s := (docLine T line).foldl (secStep T id) m.s }

theorem docEvents_fold (T : Tables) (lines : List Units.Str) (m : DocM) :
    (docEvents T lines m.rest).foldl (secStep T id) m.s = (lines.foldl (docLineStep T) m).s := by
  induction lines generalizing m with
  | nil => cases m.rest <;> simp [docEvents]
  | cons l r ih =>
    obtain ⟨s, rest⟩ := m
    rw [List.foldl_cons, ← ih]
    cases rest with
    | nil => simp [docEvents, docLineStep, List.foldl_append]
    | cons tb tr =>
      simp only [docEvents, docLineStep]
      split <;> simp [List.foldl_append]

theorem doc_while_1_rev (lv : Int) (r : List (Int × Py.Str)) :
    DocContent.iterate_units.while_1 lv r.reverse = (popStack lv r).reverse := by
  induction r with
  | nil => unfold DocContent.iterate_units.while_1; simp [popStack, truthy]
  | cons a l ih =>
    unfold DocContent.iterate_units.while_1
    obtain ⟨l0, t0⟩ := a
    simp [popStack, truthy]
    split
    · simp_all [popNE]
    · simp_all

/-- **`heading_level_for`** (the nested function of `DocContent.iterate_units`) is the model's `docHeadingLevel` at the
heading words the translator of `tools/gen/units.py` read from the same source -/
theorem heading_level_for_eq (env : Units.Env) (hr : env.tables.docHeadingRules = S2T.Gen.Units.docHeadingRules) (line : Py.Str) :
    DocContent.iterate_units.heading_level_for env line = docHeadingLevel env.tables line := by
  unfold DocContent.iterate_units.heading_level_for docHeadingLevel
  simp [hr, S2T.Gen.Units.docHeadingRules, Id.run, pure, startswith, List.find?]
  generalize lower env.tables (strip env.tables line) = lw
  split
  · rfl
  · simp only [← List.isPrefixOf_iff_prefix]
    generalize List.isPrefixOf _ lw = b1
    generalize List.isPrefixOf _ lw = b2
    by_cases h3 : lw = "intro".toList
    · subst h3
      cases b1 <;> cases b2 <;> simp
    · have h3' : ¬ ("intro".toList = lw) := fun e => h3 e.symm
      skip
      cases b1 <;> cases b2 <;> simp_all

theorem splitWsAux_ne (T : Tables) : ∀ (s acc : Units.Str), ∀ t ∈ splitWsAux T s acc, t ≠ [] := by
  intro s
  induction s with
  | nil =>
    intro acc t ht
    unfold splitWsAux at ht
    split at ht
    · cases ht
    · rename_i h
      simp at ht
      subst ht
      intro e
      apply h
      simpa using e
  | cons c r ih =>
    intro acc t ht
    unfold splitWsAux at ht
    split at ht
    · split at ht
      · exact ih [] t ht
      · rename_i h
        rcases List.mem_cons.mp ht with e | e
        · subst e
          intro e2
          apply h
          simpa using e2
        · exact ih [] t e
    · exact ih (c :: acc) t ht

/-- `[t for t in line.split() if t]` is `line.split()`: `split()` yields no empty token -/
theorem splitWs_filter (T : Tables) (s : Units.Str) : (splitWs T s).filter (fun t => !t.isEmpty) = splitWs T s := by
  apply List.filter_eq_self.mpr
  intro t ht
  have := splitWsAux_ne T s [] t ht
  cases t with
  | nil => exact absurd rfl this
  | cons a l => rfl

/-- `[cell for row in table for cell in row]` -/
def docFlat (tb : List (List Py.Str)) : List Py.Str := tb.flatMap (fun row => row)
def docOf (c : DocContent) : Doc := { mainText := c.main_text, title := c.metadata.title, tables := c.tables.map docFlat }
def docView (u : DocUnit) : UView :=
  { number := (DocUnit.get_metadata u).unit_number, text := DocUnit.get_text u,
    path := (DocUnit.get_metadata u).heading_path, level := (DocUnit.get_metadata u).heading_level }

def docFlushSpec (T : Tables) (base : List Py.Str) (lvl : Option Int) (path : List Py.Str) (units : List DocUnit)
    (lines : List Py.Str) (tables : List TableData) (idx : Int) : List DocUnit × List Py.Str × List TableData × Int :=
  let text := strip T (joinNl (lines.filter (· ≠ [])))
  if text = [] ∧ tables = [] then (units, [], [], idx)
  else (units ++ [{ text := text, unit_number := idx, location := base ++ path, heading_level := lvl, heading_path := path,
                    tables := tables }], [], [], idx + 1)

theorem doc_flush_current_eq (env : Units.Env) (base : List Py.Str) (lvl : Option Int) (path : List Py.Str) (units : List DocUnit)
    (lines : List Py.Str) (tables : List TableData) (idx : Int) :
    DocContent.iterate_units.flush_current env base lvl path units lines tables idx
      = docFlushSpec env.tables base lvl path units lines tables idx := by
  unfold DocContent.iterate_units.flush_current docFlushSpec
  simp [pure, isEmpty_eq_decide, Id.run]
  try (by_cases h1 : strip env.tables (joinNl (List.filter (fun x => !decide (x = [])) lines)) = [] <;>
    by_cases h2 : tables = [] <;> simp [h1, h2] <;> rfl)

theorem doc_flush_rel (T : Tables) (base : List Py.Str) (units : List DocUnit) (tabs : List TableData) (idx : Int) (s : Sec)
    (hu : units.map docView = s.units.map viewD4) (hidx : idx = (s.units.length : Int) + 1) (htabs : tabs.length = s.curTables) :
    ∃ u' su, docFlushSpec T base s.level s.path units s.lines tabs idx = (u', [], [], (su.length : Int) + 1)
      ∧ u'.map docView = su.map viewD4
      ∧ secFlush T id s = { s with units := su, lines := [], curTables := 0 } := by
  have ht : (tabs = []) ↔ s.curTables = 0 := by rw [← htabs]; cases tabs <;> simp
  unfold docFlushSpec secFlush
  simp only [ht]
  split
  · exact ⟨units, s.units, by simp [hidx], by simp [hu], by simp⟩
  · refine ⟨_, _, by simp [hidx]; rfl, ?_, rfl⟩
    simp [hu, hidx, docView, viewD4, DocUnit.get_metadata, DocUnit.get_text, Id.run, pure]

/-- what `consume_table_if_present` answers: the next stored table, if the line's tokens are its cells -/
def consumeSpec (T : Tables) (tables : List (List (List Py.Str))) (ti : Int) (pend : List TableData) (line : Py.Str) :
    Bool × Int × List TableData :=
  match tables.drop ti.toNat with
  | [] => (false, ti, pend)
  | tb :: _ =>
    if splitWs T line ≠ [] ∧ splitWs T line = docFlat tb then
      (true, ti + 1, pend ++ [{ data := tb.map (List.map Any.str) }])
    else (false, ti, pend)

theorem consume_eq (env : Units.Env) (self : DocContent) (ti : Int) (pend : List TableData) (line : Py.Str) (h0 : 0 ≤ ti) :
    DocContent.iterate_units.consume_table_if_present env self ti pend line
      = Except.ok (consumeSpec env.tables self.tables ti pend line) := by
  unfold DocContent.iterate_units.consume_table_if_present consumeSpec
  by_cases hge : ti ≥ len self.tables
  · have : self.tables.drop ti.toNat = [] := by
      apply List.drop_eq_nil_of_le
      simp only [len] at hge
      omega
    simp [hge, this]
  · have hlt : ti < len self.tables := by omega
    obtain ⟨tb, htb, hd⟩ := listGetItem_ok self.tables ti h0 hlt
    simp [hge, hd, htb, splitWs_filter, docFlat]
    split
    · simp_all
    · simp_all
      split <;> rfl

abbrev DocSt := Int × List TableData × List DocUnit × List (Int × Py.Str) × Option Int × List Py.Str × List Py.Str
  × List TableData × Int × Bool

def docRel (tables : List (List (List Py.Str))) : DocSt → DocM → Prop
  | (ti, pend, units, hs, lvl, path, lines, tabs, idx, any), m =>
    m.rest = (tables.drop ti.toNat).map docFlat ∧ 0 ≤ ti ∧ pend.length = m.s.pending ∧
    units.map docView = m.s.units.map viewD4 ∧ idx = (m.s.units.length : Int) + 1 ∧ hs = m.s.stackRev.reverse ∧
    lvl = m.s.level ∧ path = m.s.path ∧ lines = m.s.lines ∧ tabs.length = m.s.curTables ∧ any = m.s.any

theorem orV_str_nil (s : Py.Str) : orV s "".toList = s := by
  cases s <;> simp [orV, truthy_str]


set_option hygiene false in
/-- a line that `consume_table_if_present` did not take: heading / body / blank -/
macro "doc_line" : tactic => `(tactic| (
  obtain ⟨u1, su, hf1, hf2, hf3⟩ := doc_flush_rel env.tables base units tabs _
    ⟨stk, lvl, path, lines', mcur, mpend, munits, true⟩ hu rfl htabs
  simp only [] at hf1 hf3
  by_cases hs : (docHeadingLevel env.tables line).isSome = true
  · obtain ⟨lv, hlv⟩ := Option.isSome_iff_exists.mp hs
    have hne : strip env.tables line ≠ [] := by
      intro e
      simp [docHeadingLevel, e] at hlv
    have htr : truthy (strip env.tables line) = true := by simp [truthy_str, hne]
    simp only [dif_pos hs, hf1, htr, if_true, getS_of_eq _ _ hlv, doc_while_1_rev]
    split
    · refine ⟨_, rfl, ?_⟩
      simp only [docRel, docLine, hlv, List.foldl_cons, List.foldl_nil, secStep, hf3]
      simp [hne, hf2, hrest, hti0, hpend, pathOf, List.filter_map, Function.comp_def, isEmpty_eq_decide]
    · rename_i hpd
      have hp0 : mpend = 0 := by rw [← hpend]; cases pend <;> simp_all [truthy_list]
      refine ⟨_, rfl, ?_⟩
      simp only [docRel, docLine, hlv, List.foldl_cons, List.foldl_nil, secStep, hf3]
      simp [hne, hf2, hrest, hti0, hpend, hp0, pathOf, List.filter_map, Function.comp_def, isEmpty_eq_decide]
  · have hlv : docHeadingLevel env.tables line = none := by
      cases h : docHeadingLevel env.tables line <;> simp_all
    simp only [dif_neg hs]
    by_cases ht : strip env.tables line = []
    · refine ⟨_, by simp [ht]; rfl, ?_⟩
      simp [docRel, docLine, hlv, ht, hu, htabs, hrest, hti0, hpend]
    · refine ⟨_, by simp [ht]; rfl, ?_⟩
      simp [docRel, docLine, hlv, ht, secStep, hu, htabs, hrest, hti0, hpend]))


set_option hygiene false in
/-- the image loop of `DocContent.iterate_units` keeps the views; then every unit is yielded -/
macro "doc_images" : tactic => `(tactic| (
  rw [map_bind]
  refine forIn_sim_bind (fun us (_ : Unit) => attachInv docView (su.map viewD4) us) (fun _ _ => ()) () _ _ _ _ _ hI0 ?_ ?_
  · intro img us _ hI
    simp (disch := py_find) only [forIn_find_eq]
    have hlast := refLast_ok us hI.2
    have hpos := attachInv_pos _ _ us hI
    generalize hr : findRes _ us = r
    have hlt := findRes_lt _ us r hr
    cases r <;> simp only [Option.isNone_none, Option.isNone_some, if_true, Bool.false_eq_true, if_false,
      hlast, M.ok_bind', M.pure_def] <;> (repeat' split) <;>
      exact attach_step_deref docView _ us _ _ hI
        (by first | omega | exact hlt _ rfl | exact refFindLast_getD_lt _ us hpos) (fun d u => rfl)
  · intro us hI
    simp [hI.1]))

set_option hygiene false in
macro "doc_tail" : tactic => `(tactic| (
  cases any
  · simp
    simp [docView, viewD4, DocUnit.get_metadata, DocUnit.get_text, Id.run, pure]
  · simp only [Bool.not_true, Bool.false_eq_true, if_false]
    by_cases hu1 : u1 = []
    · subst hu1
      have hsu : su = [] := by simpa using hf2.symm
      subst hsu
      simp [truthy_list]
    · have hI0 : attachInv docView (su.map viewD4) u1 := ⟨hf2, hu1⟩
      have hut : truthy u1 = true := by simp [truthy_list, hu1]
      try simp only [hut, if_true]
      doc_images))

theorem DocContent_iterate_units_eq (env : Units.Env) (hr : env.tables.docHeadingRules = S2T.Gen.Units.docHeadingRules)
    (self : DocContent) :
    (fun us => us.map docView) <$> DocContent.iterate_units env self
      = Except.ok ((docUnits env.tables (docOf self)).map viewD4) := by
  unfold DocContent.iterate_units
  simp only [doc_flush_current_eq, heading_level_for_eq env hr, orV_str_nil]
  generalize hbase : (if truthy self.metadata.title = true then [self.metadata.title] else []) = base
  generalize hlines : List.map (fun line => rstrip env.tables line) (splitlines env.tables self.main_text) = lines
  by_cases hl : lines = []
  · have hm : docUnits env.tables (docOf self) = [{ number := 1, text := [] }] := by
      simp [docUnits, docOf, hlines, hl]
    rw [hm]
    simp [hl]
    simp [docView, viewD4, DocUnit.get_metadata, DocUnit.get_text, Id.run, pure]
  · have hne : ¬ ((!truthy lines) = true) := by simp [truthy_list, hl]
    rw [if_neg hne, map_bind]
    refine forIn_sim_bind (docRel self.tables) (docLineStep env.tables) ⟨{}, self.tables.map docFlat⟩ _ _ _ _ _ ?_ ?_ ?_
    · simp [docRel]
    · intro line σ m hR
      obtain ⟨ti, pend, units, hs, lvl, path, lines', tabs, idx, any⟩ := σ
      obtain ⟨⟨stk, mlvl, mpath, mlines, mcur, mpend, munits, many⟩, rest⟩ := m
      simp only [docRel] at hR
      obtain ⟨hrest, hti0, hpend, hu, rfl, rfl, rfl, rfl, rfl, htabs, rfl⟩ := hR
      simp only [consume_eq env self ti pend line hti0, M.ok_bind']
      rcases hd : self.tables.drop ti.toNat with _ | ⟨tb, tr⟩
      · have hc : consumeSpec env.tables self.tables ti pend line = (false, ti, pend) := by simp [consumeSpec, hd]
        simp only [hd, List.map_nil] at hrest
        subst hrest
        have hrest : ([] : List (List Units.Str)) = List.map docFlat (List.drop ti.toNat self.tables) := by simp [hd]
        simp only [hc, Bool.false_eq_true, if_false, docLineStep]
        doc_line
      · simp only [hd, List.map_cons] at hrest
        subst hrest
        by_cases hmt : splitWs env.tables line ≠ [] ∧ splitWs env.tables line = docFlat tb
        · have hc : consumeSpec env.tables self.tables ti pend line
              = (true, ti + 1, pend ++ [{ data := tb.map (List.map Any.str) }]) := by
            have hne2 : ¬ docFlat tb = [] := hmt.2 ▸ hmt.1
            simp [consumeSpec, hd, hmt, hne2]
          refine ⟨_, by simp [hc]; rfl, ?_⟩
          have hdrop : List.drop (ti + 1).toNat self.tables = tr := by
            have : (ti + 1).toNat = ti.toNat + 1 := by omega
            rw [this, ← List.drop_drop, hd]
            rfl
          have hne2 : ¬ docFlat tb = [] := hmt.2 ▸ hmt.1
          simp [docRel, docLineStep, hmt, hne2, secStep, hu, htabs, hpend, hdrop]
          omega
        · have hc : consumeSpec env.tables self.tables ti pend line = (false, ti, pend) := by simp [consumeSpec, hd, hmt]
          have hrest : (docFlat tb :: List.map docFlat tr) = List.map docFlat (List.drop ti.toNat self.tables) := by simp [hd]
          simp only [hc, Bool.false_eq_true, if_false, docLineStep, hmt, if_false]
          doc_line
    · intro σ hR
      obtain ⟨ti, pend, units, hs, lvl, path, lines', tabs, idx, any⟩ := σ
      generalize hm : List.foldl _ _ lines = m at hR
      obtain ⟨⟨stk, mlvl, mpath, mlines, mcur, mpend, munits, many⟩, rest⟩ := m
      simp only [docRel] at hR
      obtain ⟨hrest, hti0, hpend, hu, rfl, rfl, rfl, rfl, rfl, htabs, rfl⟩ := hR
      have hfold := docEvents_fold env.tables lines ⟨{}, self.tables.map docFlat⟩
      rw [hm] at hfold
      simp only [] at hfold
      obtain ⟨u1, su, hf1, hf2, hf3⟩ := doc_flush_rel env.tables base units (tabs ++ pend) _
        ⟨stk, lvl, path, lines', mcur + mpend, 0, munits, any⟩ hu rfl (by simp [htabs, hpend])
      simp only [] at hf1 hf3
      have hrhs : docUnits env.tables (docOf self)
          = if (!any) = true then [{ number := 1, text := strip env.tables self.main_text, nTables := self.tables.length }] else su := by
        unfold docUnits
        simp only [docOf, List.length_map]
        have e : List.map (rstrip env.tables) (splitlines env.tables self.main_text) = lines := hlines
        rw [e, if_neg hl]
        simp only [secRun, hfold, hf3]
      rw [hrhs]
      simp only []
      by_cases hpd : pend = []
      · subst hpd
        simp only [List.append_nil] at hf1
        simp only [truthy_list, List.isEmpty_nil, Bool.not_true, Bool.false_eq_true, if_false, hf1]
        doc_tail
      · have htp : truthy pend = true := by simp [truthy_list, hpd]
        simp only [htp, if_true, hf1]
        doc_tail

/-- the generated interpreter tables as the environment (`str(x)` of other objects is irrelevant here) -/
def genEnv : Units.Env := { tables := S2T.Gen.Units.tables, strOfAny := fun _ => [] }

example : genEnv.tables.docHeadingRules = S2T.Gen.Units.docHeadingRules := rfl

/-- **`DocContent.get_full_text`**: title, newline, the join of the units — trimmed; it raises exactly when
`iterate_units` does -/
theorem DocContent_get_full_text_eq (env : Units.Env) (hr : env.tables.docHeadingRules = S2T.Gen.Units.docHeadingRules)
    (self : DocContent) :
    DocContent.get_full_text env self = Except.ok (docFullText env.tables (docOf self)) := by
  obtain ⟨us, hus, hv⟩ := map_eq_ok _ _ _ (DocContent_iterate_units_eq env hr self)
  unfold DocContent.get_full_text docFullText
  simp only [hus, M.ok_bind']
  have htx : us.map UnitInterface.get_text = (docUnits env.tables (docOf self)).map (·.text) := by
    have := congrArg (List.map UView.text) hv
    simpa [docView, viewD4, Function.comp_def, UnitInterface.get_text] using this
  rw [join_unit_text_model env us _ htx]
  simp [docOf]

/-! ## DOCX: only `get_full_text` (the stored field); `iterate_units` stays hand-modelled -/

def docxOf (c : DocxContent) (paras : List DocxPara) : Docx :=
  { paragraphs := paras, fullText := c.full_text, title := c.metadata.title, nImages := c.images.length, nTables := c.tables.length }

theorem DocxContent_get_full_text_eq (self : DocxContent) (paras : List DocxPara) :
    DocxContent.get_full_text self = docxFullText (docxOf self paras) := by
  simp [DocxContent.get_full_text, docxFullText, docxOf, Id.run, pure]

end S2T.C03.Src
