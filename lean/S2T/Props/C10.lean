import S2T.Lemmas.SevenZip
import S2T.Lemmas.Varint
import S2T.Gen.SevenZip
import S2T.Props.C10_Header
import S2T.Props.C10_History
/-!
# C10 — Archive members come out as themselves: right bytes, name, order

Property statement (fixed): for an archive built by any standard packer from a set of files (ZIP stored or
deflated, TAR plain/gz/bz2/xz, 7z with copy, LZMA or LZMA2 coders, solid or one folder per file),
`read_archive` yields, in archive order, exactly the results of the supported visible members, each identical
in content to extracting that member's bytes on its own and labelled with the member's file name and an
`archive!/member` path.  A corrupt or unsupported member affects only itself.

The theorems are about the models in `S2T/Model/SevenZip.lean` and `S2T/Model/ArchiveLoop.lean`, which are the
code WITH the repairs found while proving (fix-7z-folder-pack-offset, fix-7z-empty-file, fix-7z-utf16-names,
fix-tar-detect-before-magic, and — part `C10_Header` — fix-7z-substream-digest-count, fix-7z-attributes-external-byte).  For each repair the previous behaviour is kept in the
model and a counterexample theorem shows the full statement false for it; the harness replays the same
witnesses on the real code every run.
-/
namespace S2T.C10
open S2T.SevenZip S2T.ArchiveLoop
open S2T.Spec.SevenZipWriter (Layout Opts WellFormed archive writeHeader startHeader)

/-! ## constants -/

/-- the translator found every constant to be the constant expression the source shows -/
theorem gen_notes_empty : S2T.Gen.SevenZip.notes = [] := by decide

/-- `PROP_*`, coder ids and the signature in sevenzip.py are those of 7zFormat.txt / Methods.txt -/
theorem gen_ids_are_spec : S2T.Gen.SevenZip.ids = specIds := by decide

/-! ## the 7z variable-length number -/

/-- number of extra bytes a minimal writer (7-Zip's `WriteNumber`) uses -/
def widthOf (n : Nat) : Nat :=
  if n < 2 ^ 7 then 0 else if n < 2 ^ 14 then 1 else if n < 2 ^ 21 then 2 else if n < 2 ^ 28 then 3
  else if n < 2 ^ 35 then 4 else if n < 2 ^ 42 then 5 else if n < 2 ^ 49 then 6 else if n < 2 ^ 56 then 7 else 8

/-- 7zFormat.txt `REAL_UINT64`, minimal form -/
def writeNumber (n : Nat) : Bytes := writeNumberK (widthOf n) n

/-- **varint round trip** for every `n < 2^64`: `_read_number` on what a writer emits, followed by anything,
    returns `n` and leaves exactly the rest (the other reader fields untouched). -/
theorem C10_varint (n : Nat) (h : n < 2 ^ 64) (rest : Bytes) (r : R) :
    readNumber { r with stream := writeNumber n ++ rest } = .ok (n, { r with stream := rest }) := by
  unfold writeNumber
  apply readNumber_writeNumberK
  · unfold widthOf
    repeat' split
    all_goals omega
  · unfold widthOf
    repeat' split
    all_goals simp only [Nat.reducePow, Nat.reduceSub] at *
    all_goals omega

/-- … and for every legal non-minimal width too (`k ≤ 8` extra bytes, value fits) -/
theorem C10_varint_any_width (k n : Nat) (hk : k ≤ 8) (hfit : n / 256 ^ k < 2 ^ (7 - k)) (rest : Bytes) (r : R) :
    readNumber { r with stream := writeNumberK k n ++ rest } = .ok (n, { r with stream := rest }) :=
  readNumber_writeNumberK k n rest hk hfit r

example : writeNumber 300 = [0x81, 0x2C] ∧ writeNumber 5 = [5] ∧ writeNumber (2 ^ 63) = 0xFF :: [0, 0, 0, 0, 0, 0, 0, 0x80] := by
  decide

/-! ## 7z: every layout extracts to the files that were packed

`gs` are the folders in archive order, each with its coder, its pack stream and the entries listed while
it is current (its files, with directories and empty files interleaved anywhere); `tail` are entries
after the last file (directories / empty files).  Solid = one group, one folder per file = every group
holds one file, mixed = anything else.  The archive file is `pre ++ pack streams ++ post` with the
pack streams at `packPos` after the 32-byte signature header (`post` = the header that was parsed).

`extractall(members=…)`: `wanted` = the indices in `list()` of the requested entries (`none` = `members=None`).
Only the requested files are written; a folder holding none of them is not decoded, any other folder is
decoded up to the end of its last requested file — and what is written is still each file's own bytes. -/

theorem C10_7z_layout_members (ids : Ids) (c : Codec) (gs : List Group) (tail : List Entry) (attr : Entry → Nat)
    (pre post : Bytes) (packPos : Nat) (wanted : Option (List Nat))
    (hg : ∀ g ∈ gs, GroupOk ids c g)
    (ht : ∀ e ∈ tail, e.hasStream = false)
    (hpre : pre.length = packPos + headerOffset)
    (hattr : ∀ e ∈ allEntries gs tail, e.isDir = false → attr e &&& 0x10 = 0)
    (hdir : ∀ e ∈ allEntries gs tail, e.isDir = true → e.data = []) :
    let es := allEntries gs tail
    let r := buildFileList (packR packPos gs tail) (rawEntries attr es) (emptyFileBits es)
    r.files.map (fun f => (f.filename, f.isDirectory, f.uncompressed)) = es.map (fun e => (e.name, e.isDir, e.data.length))
    ∧ extractAll ids c (pre ++ gs.flatMap (·.packed) ++ post) r wanted
        = .ok (streamFilesW (isWanted wanted) es 0 ++ emptyFilesW (isWanted wanted) es 0) := by
  intro es r
  have hinfos : buildInfos (rawEntries attr es) (packR packPos gs tail).fileSizes (emptyFileBits es) = es.map (info attr) := by
    have := buildInfos_spec attr es [] [] hattr hdir
    simpa [packR] using this
  have hasg : assignLoop (packR packPos gs tail).folders (skipItems (es.map (info attr)) 0) 0 0 = specAsg gs 0 0 := by
    have := assign_all tail ht gs [] 0 (fun g h => (hg g h).streams)
    simpa [packR, skipItems_info] using this
  have hfiles : r.files = setFolderIndex ((es.map (info attr)).map (·.1)) (specAsg gs 0 0) := by
    simp only [r, buildFileList]
    rw [hinfos, hasg]
    simp [packR]
  have hempty : r.emptyFileIdx = emptyIdx es 0 := by
    simp only [r, buildFileList]
    rw [hinfos, emptyIdxLoop_info]
    simp [packR]
  have hf2f : r.folderToFiles = (specAsg gs 0 0).foldl (fun m p => dictAppend m p.2 p.1) [] := by
    simp only [r, buildFileList]
    rw [hinfos, hasg]
    simp [packR]
  have hfold : r.folders = gs.map Group.folder := by simp only [r, buildFileList, packR]
  have hps : r.packSizes = gs.map (·.packed.length) := by simp only [r, buildFileList, packR]
  have hpp : packPosOf r = packPos + headerOffset := by simp [r, buildFileList, packR, packPosOf]
  have hFA : FilesAt r.files es 0 := by
    intro j e he
    rw [hfiles]
    simp only [setFolderIndex, Nat.zero_add, List.getElem?_mapIdx, List.getElem?_map, he, Option.map_some, info]
    split <;> exact ⟨_, rfl, rfl, rfl, rfl⟩
  have hdict : ∀ a g b, gs = a ++ g :: b →
      dictGet r.folderToFiles a.length = some (streamIdx g.entries (a.flatMap (·.entries)).length) := by
    intro a g b hab
    rw [hf2f, dictGet_foldl]
    have := specAsg_filter a g b 0 0
    simp only [Nat.zero_add] at this
    rw [← hab] at this
    rw [this]
    have hne : streamIdx g.entries (a.flatMap (·.entries)).length ≠ [] := by
      intro h0
      have h1 := streamIdx_length g.entries (a.flatMap (·.entries)).length
      have h2 := (hg g (by rw [hab]; simp)).streams
      rw [h0] at h1; simp at h1; omega
    rw [if_neg hne]
    simp [dictGet]
  constructor
  · rw [hfiles]
    apply List.ext_getElem?
    intro i
    simp only [setFolderIndex, List.getElem?_mapIdx, List.getElem?_map]
    cases es[i]? with
    | none => rfl
    | some e => simp only [Option.map_some, info]; split <;> rfl
  · unfold extractAll
    rw [hfold, hpp]
    have hrun := runPlan_spec ids c gs tail r pre post (packPos + headerOffset) wanted hps hpre hdict hFA gs [] rfl hg
    simp only [List.length_nil, List.flatMap_nil] at hrun
    rw [hrun, hempty, emptyWrites_gen r.files wanted es 0 hFA, streamFilesW_all _ gs tail ht]

/-- **`members=None`** (the statement as before): every non-empty file with its own bytes in archive order,
    then the empty files. -/
theorem C10_7z_layout (ids : Ids) (c : Codec) (gs : List Group) (tail : List Entry) (attr : Entry → Nat)
    (pre post : Bytes) (packPos : Nat)
    (hg : ∀ g ∈ gs, GroupOk ids c g)
    (ht : ∀ e ∈ tail, e.hasStream = false)
    (hpre : pre.length = packPos + headerOffset)
    (hattr : ∀ e ∈ allEntries gs tail, e.isDir = false → attr e &&& 0x10 = 0)
    (hdir : ∀ e ∈ allEntries gs tail, e.isDir = true → e.data = []) :
    let es := allEntries gs tail
    let r := buildFileList (packR packPos gs tail) (rawEntries attr es) (emptyFileBits es)
    r.files.map (fun f => (f.filename, f.isDirectory, f.uncompressed)) = es.map (fun e => (e.name, e.isDir, e.data.length))
    ∧ extractAll ids c (pre ++ gs.flatMap (·.packed) ++ post) r = .ok (streamFiles es ++ emptyFiles es) := by
  intro es r
  have h := C10_7z_layout_members ids c gs tail attr pre post packPos none hg ht hpre hattr hdir
  refine ⟨h.1, ?_⟩
  have h2 := h.2
  rw [streamFilesW_none, emptyFilesW_none] at h2
  exact h2

/-! ### the three coders of a reference packer satisfy `GroupOk` -/

/-- the dictionary size an LZMA2 property byte stands for: xz file format 5.3.1 / 7-Zip `Lzma2Dec.c`
    (`LZMA2_DIC_SIZE_FROM_PROP(p) = (2 | (p & 1)) << (p / 2 + 11)`, 40 = 4 GiB - 1, larger bytes are invalid):
    4K, 6K, 8K, 12K, 16K, 24K, ... -/
def lzma2SpecDict (p : Nat) : Nat := if p = 40 then 0xFFFFFFFF else (2 ||| (p &&& 1)) <<< (p / 2 + 11)

/-- **the reader sets the LZMA2 decoder up with the dictionary the property byte stands for**, every valid byte below 40
    (both the 2^n and the 3·2^(n-1) sizes, and byte 0 = 4 KiB) -/
theorem lzma2Dict_spec : ∀ p, p < 40 → lzma2Dict p = some (lzma2SpecDict p) := by decide

/-- SOURCE TIE, exhaustive over the input domain: for every property byte 0..255 the filter chain the source function
    `_decompress_lzma2` hands to `lzma.LZMADecompressor` (recorded by the generator from the function itself, current
    source) is the model's `lzma2Dict` -/
theorem gen_lzma2_dict_is_model :
    S2T.Gen.SevenZip.lzma2DictTable = (List.range 256).map lzma2Dict := by decide +kernel

/-- hence: the SOURCE sets the decoder up with exactly the format's dictionary for every valid property byte below 40 -/
theorem gen_lzma2_dict_is_spec : ∀ p, p < 40 → S2T.Gen.SevenZip.lzma2DictTable[p]? = some (some (lzma2SpecDict p)) := by
  rw [gen_lzma2_dict_is_model]; decide

/-- byte 40 (4 GiB - 1) and the invalid bytes get `preset=6` (8 MiB): NOT the format's dictionary for byte 40; a folder
    written with it is outside `Method.wf` (no packer the statement quantifies over writes a 4 GiB dictionary for files
    `read_archive` accepts, `MAX_7Z_FILE_SIZE`) -/
theorem lzma2Dict_40_is_preset : lzma2Dict 40 = none ∧ 2 ^ 23 < lzma2SpecDict 40 := by decide

/-- the variant `1 <<< (p / 2 + 12)` (mantissa bit of the byte dropped) asks for LESS than the format's dictionary at
    every odd byte — 2/3 of it — so `CodecOk` says nothing about it, and a match beyond 2/3 of the window is lost
    (witness replayed on the real code: `7z.lzma2-dictionary-3x2n`) -/
theorem lzma2Dict_without_mantissa_counterexample :
    ∀ p, p < 40 → p % 2 = 1 → 1 <<< (p / 2 + 12) < lzma2SpecDict p ∧ 3 * (1 <<< (p / 2 + 12)) = 2 * lzma2SpecDict p := by decide

/-- little-endian 8-byte size as `struct.pack("<Q", n)` -/
def le64 (u : Nat) : Bytes := (List.range 8).map fun i => (u >>> (8 * i)) % 256

/-- the raw encoders of a reference packer (stdlib `lzma` with `FORMAT_RAW` filters) -/
structure Enc where
  lzma : Bytes → Bytes → Bytes        -- 5 property bytes, data ↦ raw LZMA stream
  lzma2 : Nat → Bytes → Bytes         -- property byte, data ↦ raw LZMA2 stream

/-- ASSUMPTION on stdlib `lzma` (third party, not verified): decoding what was encoded gives the data back,
    when called exactly as `_decompress_lzma` / `_decompress_lzma2` call it on the folder's own pack stream —
    and, with `max_length = m`, its first `m` bytes (`capTo`); an encoder never emits an empty stream. -/
structure CodecOk (c : Codec) (e : Enc) : Prop where
  lzma : ∀ props x mo, props.length = 5 →
    c.lzmaAlone (props ++ le64 x.length ++ e.lzma props x) mo = some (capTo mo x)
  /-- the encoder works with the dictionary its property byte STANDS FOR (`lzma2SpecDict`, the format's table, not the
      reader's computation); any decoder whose dictionary is at least that large gives the data back.  Nothing is
      assumed about a decoder set up with a smaller dictionary — it fails as soon as a match reaches further back. -/
  lzma2 : ∀ p x mo d, p < 40 → lzma2SpecDict p ≤ d → c.lzma2Raw (some d) (e.lzma2 p x) mo = some (capTo mo x)
  lzma_ne : ∀ props x, e.lzma props x ≠ []
  lzma2_ne : ∀ p x, e.lzma2 p x ≠ []

inductive Method
  | copy
  | lzma (props : Bytes)
  | lzma2 (prop : Nat)

def packGroup (e : Enc) (m : Method) (es : List Entry) : Group :=
  match m with
  | .copy => { coder := ⟨specIds.coderCopy, none⟩, packed := streamData es, entries := es }
  | .lzma p => { coder := ⟨specIds.coderLzma, some p⟩, packed := e.lzma p (streamData es), entries := es }
  | .lzma2 p => { coder := ⟨specIds.coderLzma2, some [p]⟩, packed := e.lzma2 p (streamData es), entries := es }

def Method.wf : Method → Prop
  | .lzma p => p.length = 5
  | .lzma2 p => p < 40
  | .copy => True

private theorem streamData_ne (es : List Entry) (h : streamCount es ≥ 1) : streamData es ≠ [] := by
  unfold streamCount at h
  unfold streamData
  cases hf : es.filter (·.hasStream) with
  | nil => simp [hf] at h
  | cons e rest =>
    have he : e ∈ es.filter (·.hasStream) := by rw [hf]; exact List.mem_cons_self ..
    have hs := (List.mem_filter.mp he).2
    unfold Entry.hasStream at hs
    have hd : e.data ≠ [] := by
      intro h0; simp [h0] at hs
    simp [List.flatMap_cons, hd]

theorem packGroup_ok (c : Codec) (e : Enc) (hc : CodecOk c e) (m : Method) (hm : m.wf) (es : List Entry)
    (hs : streamCount es ≥ 1) : GroupOk S2T.Gen.SevenZip.ids c (packGroup e m es) := by
  rw [gen_ids_are_spec]
  cases m with
  | copy =>
    exact ⟨hs, streamData_ne es hs, by intro mo; simp [packGroup, applyDecoder]⟩
  | lzma p =>
    refine ⟨hs, hc.lzma_ne _ _, ?_⟩
    have hp : p.length = 5 := hm
    have h5 : p.take 5 = p := by rw [← hp]; exact List.take_length
    intro mo
    have := hc.lzma p (streamData es) mo hp
    simp only [le64, List.append_assoc] at this
    simp [packGroup, applyDecoder, specIds, decompressLzma, hp, h5, this]
  | lzma2 p =>
    refine ⟨hs, hc.lzma2_ne _ _, ?_⟩
    intro mo
    have hp : p < 40 := hm
    simp [packGroup, applyDecoder, specIds, decompressLzma2, lzma2Dict_spec p hp,
      hc.lzma2 p (streamData es) mo (lzma2SpecDict p) hp (Nat.le_refl _)]

/-- **7z, all layouts, reference packer.**  For every list of folders `layout` (each: a coder COPY / LZMA /
    LZMA2 and the entries listed while it is current, at least one of them a non-empty file), every trailing
    list of directories / empty files, the repaired reader lists every entry with its name, kind and size, and
    `extractall` writes exactly the non-empty files with their own bytes, in archive order, followed by the
    empty files. -/
theorem C10_7z_reference_members (c : Codec) (e : Enc) (hc : CodecOk c e) (layout : List (Method × List Entry))
    (tail : List Entry) (attr : Entry → Nat) (pre post : Bytes) (packPos : Nat) (wanted : Option (List Nat))
    (hm : ∀ l ∈ layout, l.1.wf ∧ streamCount l.2 ≥ 1)
    (ht : ∀ x ∈ tail, x.hasStream = false)
    (hpre : pre.length = packPos + headerOffset)
    (hattr : ∀ x ∈ allEntries (layout.map fun l => packGroup e l.1 l.2) tail, x.isDir = false → attr x &&& 0x10 = 0)
    (hdir : ∀ x ∈ allEntries (layout.map fun l => packGroup e l.1 l.2) tail, x.isDir = true → x.data = []) :
    let gs := layout.map fun l => packGroup e l.1 l.2
    let es := allEntries gs tail
    let r := buildFileList (packR packPos gs tail) (rawEntries attr es) (emptyFileBits es)
    r.files.map (fun f => (f.filename, f.isDirectory, f.uncompressed)) = es.map (fun x => (x.name, x.isDir, x.data.length))
    ∧ extractAll S2T.Gen.SevenZip.ids c (pre ++ gs.flatMap (·.packed) ++ post) r wanted
        = .ok (streamFilesW (isWanted wanted) es 0 ++ emptyFilesW (isWanted wanted) es 0) := by
  intro gs es r
  apply C10_7z_layout_members S2T.Gen.SevenZip.ids c gs tail attr pre post packPos wanted _ ht hpre hattr hdir
  intro g hg
  obtain ⟨l, hl, rfl⟩ := List.mem_map.mp hg
  exact packGroup_ok c e hc l.1 (hm l hl).1 l.2 (hm l hl).2

/-- the same with `members=None`: everything is written -/
theorem C10_7z_reference (c : Codec) (e : Enc) (hc : CodecOk c e) (layout : List (Method × List Entry))
    (tail : List Entry) (attr : Entry → Nat) (pre post : Bytes) (packPos : Nat)
    (hm : ∀ l ∈ layout, l.1.wf ∧ streamCount l.2 ≥ 1)
    (ht : ∀ x ∈ tail, x.hasStream = false)
    (hpre : pre.length = packPos + headerOffset)
    (hattr : ∀ x ∈ allEntries (layout.map fun l => packGroup e l.1 l.2) tail, x.isDir = false → attr x &&& 0x10 = 0)
    (hdir : ∀ x ∈ allEntries (layout.map fun l => packGroup e l.1 l.2) tail, x.isDir = true → x.data = []) :
    let gs := layout.map fun l => packGroup e l.1 l.2
    let es := allEntries gs tail
    let r := buildFileList (packR packPos gs tail) (rawEntries attr es) (emptyFileBits es)
    r.files.map (fun f => (f.filename, f.isDirectory, f.uncompressed)) = es.map (fun x => (x.name, x.isDir, x.data.length))
    ∧ extractAll S2T.Gen.SevenZip.ids c (pre ++ gs.flatMap (·.packed) ++ post) r = .ok (streamFiles es ++ emptyFiles es) := by
  intro gs es r
  have h := C10_7z_reference_members c e hc layout tail attr pre post packPos none hm ht hpre hattr hdir
  refine ⟨h.1, ?_⟩
  have h2 := h.2
  rw [streamFilesW_none, emptyFilesW_none] at h2
  exact h2

/-! ### the hypotheses are satisfiable; counterexamples for the previous behaviour -/

/-- a toy coder pair (prefix a marker byte) satisfying `CodecOk` -/
def toyEnc : Enc := { lzma := fun _ x => 0 :: x, lzma2 := fun _ x => 0 :: x }
def toyCodec : Codec :=
  { lzmaAlone := fun s mo => some (capTo mo (s.drop 14)), lzma2Raw := fun _ s mo => some (capTo mo (s.drop 1)) }

theorem toy_ok : CodecOk toyCodec toyEnc := by
  refine ⟨?_, ?_, ?_, ?_⟩
  · intro p x mo hp
    simp only [toyCodec, toyEnc]
    rw [show p ++ le64 x.length ++ 0 :: x = (p ++ le64 x.length ++ [0]) ++ x by simp,
      List.drop_left' (by simp [le64, hp])]
  · intro p x mo d _ _; simp [toyCodec, toyEnc]
  · intro p x; simp [toyEnc]
  · intro p x; simp [toyEnc]

def exA : Entry := { name := [97, 46, 116, 120, 116], isDir := false, data := [1, 2, 3] }      -- a.txt
def exB : Entry := { name := [98, 46, 116, 120, 116], isDir := false, data := [4, 5] }         -- b.txt
def exD : Entry := { name := [100], isDir := true, data := [] }                                -- d/
def exE : Entry := { name := [101, 46, 116, 120, 116], isDir := false, data := [] }            -- e.txt (empty)
def exAttr (e : Entry) : Nat := if e.isDir then 0x10 else 0x20

/-- a mixed layout with a directory and an empty file interleaved: folder 0 = LZMA{a}, folder 1 = COPY{b} -/
def exLayout : List (Method × List Entry) := [(.lzma [93, 0, 0, 1, 0], [exD, exA, exE]), (.copy, [exB])]

example : ∀ l ∈ exLayout, l.1.wf ∧ streamCount l.2 ≥ 1 := by
  intro l hl
  simp only [exLayout, List.mem_cons, List.mem_nil_iff, or_false] at hl
  rcases hl with rfl | rfl <;> exact ⟨by simp [Method.wf], by decide⟩

example : ∀ x ∈ allEntries (exLayout.map fun l => packGroup toyEnc l.1 l.2) [exD], x.isDir = false → exAttr x &&& 0x10 = 0 := by
  decide

/-- the reference theorem evaluated on that layout: the reader returns the packed files -/
example :
    extractAll S2T.Gen.SevenZip.ids toyCodec
      (List.replicate 32 0 ++ (exLayout.map fun l => packGroup toyEnc l.1 l.2).flatMap (·.packed) ++ [9, 9])
      (buildFileList (packR 0 (exLayout.map fun l => packGroup toyEnc l.1 l.2) [exD])
        (rawEntries exAttr [exD, exA, exE, exB, exD]) (emptyFileBits [exD, exA, exE, exB, exD]))
      = .ok [(exA.name, [1, 2, 3]), (exB.name, [4, 5]), (exE.name, [])] := by
  decide

/-- `members` = only `b.txt` (index 3): folder 0 (LZMA{a}) is not decoded, only `b.txt` is written -/
example :
    extractAll S2T.Gen.SevenZip.ids toyCodec
      (List.replicate 32 0 ++ (exLayout.map fun l => packGroup toyEnc l.1 l.2).flatMap (·.packed) ++ [9, 9])
      (buildFileList (packR 0 (exLayout.map fun l => packGroup toyEnc l.1 l.2) [exD])
        (rawEntries exAttr [exD, exA, exE, exB, exD]) (emptyFileBits [exD, exA, exE, exB, exD]))
      (some [3])
      = .ok [(exB.name, [4, 5])] := by
  decide

/-- solid COPY folder {a, b}, `members` = only `a.txt`: decoded up to the end of `a.txt` (3 bytes), cut right;
    `members` = only `b.txt`: `a.txt` is stepped over -/
example :
    let gs := [packGroup toyEnc .copy [exA, exB]]
    let file := List.replicate 32 0 ++ [1, 2, 3, 4, 5]
    let r := buildFileList (packR 0 gs []) (rawEntries exAttr [exA, exB]) (emptyFileBits [exA, exB])
    folderCap r.files (some [0]) [0, 1] = .ok (some (some 3))
    ∧ extractAll specIds toyCodec file r (some [0]) = .ok [(exA.name, [1, 2, 3])]
    ∧ extractAll specIds toyCodec file r (some [1]) = .ok [(exB.name, [4, 5])]
    ∧ extractAll specIds toyCodec file r (some []) = .ok [] := by
  decide

/-- **counterexample (previous `extractall`)**: two folders, COPY coder.  The second member comes out with the
    first pack stream's bytes; the repaired loop returns its own.  (Witness replayed on the real code:
    key `7z.multi-folder-first-pack-stream`.)

    Full statement, false for the previous code:  ∀ gs …, extractAllOld … = .ok (streamFiles es). -/
theorem C10_7z_previous_two_folders_counterexample :
    let gs := [packGroup toyEnc .copy [exA], packGroup toyEnc .copy [exB]]
    let file := List.replicate 32 0 ++ [1, 2, 3] ++ [4, 5]
    let r := buildFileList (packR 0 gs []) (rawEntries exAttr [exA, exB]) (emptyFileBits [exA, exB])
    extractAllOld specIds toyCodec file r = .ok [(exA.name, [1, 2, 3]), (exB.name, [1, 2])]
    ∧ extractAll specIds toyCodec file r = .ok [(exA.name, [1, 2, 3]), (exB.name, [4, 5])] := by
  decide

/-- the exact excluding hypothesis for the previous loop: with a single folder (one pack stream) both loops
    make the same `_decompress_folder` call -/
theorem C10_7z_previous_plan_partial (n pp : Nat) (f : Folder) (h : f.numPackStreams = 1) :
    folderPlanOld [n] pp [f] 0 = folderPlan [n] pp [f] 0 0 := by
  simp [folderPlanOld, folderPlan, h]

/-- **counterexample (previous `_build_file_list`)**: an empty file is listed as a directory and is not written -/
theorem C10_7z_previous_empty_file_counterexample :
    let gs := [packGroup toyEnc .copy [exE, exA]]
    let file := List.replicate 32 0 ++ [1, 2, 3]
    let raw := rawEntries exAttr [exE, exA]
    (buildFileListOld (packR 0 gs []) raw).files.map (·.isDirectory) = [true, false]
    ∧ extractAllOld specIds toyCodec file (buildFileListOld (packR 0 gs []) raw) = .ok [(exA.name, [1, 2, 3])]
    ∧ extractAll specIds toyCodec file (buildFileList (packR 0 gs []) raw (emptyFileBits [exE, exA]))
        = .ok [(exA.name, [1, 2, 3]), (exE.name, [])] := by
  decide

/-- **counterexample (previous name decoding)**: U+1F600 is stored as the pair D83D DE00; `chr` per code unit
    gives two lone surrogates (a name `open()` cannot encode, which aborted the whole archive) -/
theorem C10_7z_previous_name_counterexample :
    decodeNameOld [0x61, 0xD83D, 0xDE00] = [0x61, 0xD83D, 0xDE00] ∧ decodeUtf16 [0x61, 0xD83D, 0xDE00] = [0x61, 0x1F600] := by
  decide

/-! ## the member loops: results = the visible supported members, each extracted on its own, in order -/

section loops
variable {ρ : Type} (env : Env ρ) (ap : Option Str)

/-- the member extracted on its own, labelled `archive!/member`, extractor chosen by the base name -/
def alone (name : Str) (data : Bytes) : List ρ := (env.extract (baseName name) data (fullPath ap name)).1

/-- the label really is `archive!/member` -/
theorem label_eq (a name : Str) (ha : a ≠ []) : fullPath (some a) name = a ++ s "!/" ++ name := by
  cases a with
  | nil => exact absurd rfl ha
  | cons x xs => rfl

/-- supported visible member (`_should_skip_file` negated) -/
def visibleSupported (name : Str) : Bool := !shouldSkip env name (baseName name)

private theorem processEntry_small (name : Str) (data : Bytes) (h : data.length ≤ env.consts.maxArchiveFileSize) :
    processEntry env ap name data (baseName name) = alone env ap name data := by
  unfold processEntry alone
  rw [if_neg (by omega)]

/-! ### TAR -/

def tarData (m : TarMember) : Bytes := match m.read with | .data b => b | _ => []

def tarKeep (m : TarMember) : Bool :=
  m.isReg && visibleSupported env m.name && decide (m.size ≤ env.consts.maxMemorySize)

theorem C10_members_tar (hlim : env.consts.maxMemorySize ≤ env.consts.maxArchiveFileSize) (ms : List TarMember)
    (hread : ∀ m ∈ ms, m.isReg = true → ∃ b, m.read = .data b ∧ m.size = b.length) :
    readTar env ap ms = (ms.filter (tarKeep env)).flatMap fun m => alone env ap m.name (tarData m) := by
  induction ms with
  | nil => rfl
  | cons m ms ih =>
    have ih' := ih (fun x hx => hread x (List.mem_cons_of_mem _ hx))
    unfold readTar
    cases hreg : m.isReg with
    | false => simp [tarKeep, hreg, List.filter_cons, ih']
    | true =>
      obtain ⟨b, hb, hsz⟩ := hread m (List.mem_cons_self ..) hreg
      by_cases hskip : shouldSkip env m.name (baseName m.name) = true
      · simp [tarKeep, hreg, visibleSupported, hskip, List.filter_cons, ih']
      · by_cases hbig : m.size > env.consts.maxMemorySize
        · have : ¬ m.size ≤ env.consts.maxMemorySize := by omega
          simp [tarKeep, hreg, visibleSupported, hskip, hbig, this, List.filter_cons, ih']
        · have hle : m.size ≤ env.consts.maxMemorySize := by omega
          have hp := processEntry_small env ap m.name b (by omega)
          simp [tarKeep, hreg, visibleSupported, hskip, hbig, hle, List.filter_cons, ih', hb, hp, tarData]

/-- **isolation (TAR)**: the results are the concatenation of the per-member results, whatever any member does -/
theorem C10_isolation_tar (a b : List TarMember) :
    readTar env ap (a ++ b) = readTar env ap a ++ readTar env ap b := by
  induction a with
  | nil => rfl
  | cons m a ih =>
    simp only [List.cons_append, readTar]
    split <;> try exact ih
    split <;> try exact ih
    split <;> try exact ih
    split <;> simp [ih]

/-- a member that cannot be read, or whose extractor raises before yielding, contributes nothing -/
theorem C10_failing_member_tar (m : TarMember)
    (h : m.read = .raised ∨ m.read = .noFile ∨ ∃ b, m.read = .data b ∧ alone env ap m.name b = []
      ∧ b.length ≤ env.consts.maxArchiveFileSize) :
    readTar env ap [m] = [] := by
  unfold readTar
  split; · rfl
  split; · rfl
  split; · rfl
  rcases h with h | h | ⟨b, hb, he, hl⟩
  · simp [h, readTar]
  · simp [h, readTar]
  · simp [hb, readTar, processEntry_small env ap m.name b hl, he]

/-! ### ZIP -/

def zipData (i : ZipInfo) : Bytes := match i.read with | .data b => b | _ => []

def zipKeep (i : ZipInfo) : Bool :=
  !i.isDir && visibleSupported env i.filename && decide (i.fileSize ≤ env.consts.maxMemorySize)

private theorem zipScan_ok (infos : List ZipInfo) (henc : ∀ i ∈ infos, i.isDir = false → i.flagBits &&& 1 = 0) :
    zipScan env infos = .ok (infos.filter fun i => !i.isDir && visibleSupported env i.filename) := by
  induction infos with
  | nil => rfl
  | cons i infos ih =>
    have ih' := ih (fun x hx => henc x (List.mem_cons_of_mem _ hx))
    unfold zipScan
    cases hd : i.isDir with
    | true => simp [hd, List.filter_cons, ih']
    | false =>
      have := henc i (List.mem_cons_self ..) hd
      by_cases hskip : shouldSkip env i.filename (baseName i.filename) = true
      · simp [hd, this, hskip, visibleSupported, List.filter_cons, ih']
      · simp [hd, this, hskip, visibleSupported, List.filter_cons, ih']

private theorem zipLoop_ok (hlim : env.consts.maxMemorySize ≤ env.consts.maxArchiveFileSize) (l : List ZipInfo)
    (hread : ∀ i ∈ l, ∃ b, i.read = .data b ∧ i.fileSize = b.length) :
    zipLoop env ap l = { yields := (l.filter fun i => decide (i.fileSize ≤ env.consts.maxMemorySize)).flatMap
                            fun i => alone env ap i.filename (zipData i),
                          terminal := none } := by
  induction l with
  | nil => rfl
  | cons i l ih =>
    have ih' := ih (fun x hx => hread x (List.mem_cons_of_mem _ hx))
    obtain ⟨b, hb, hsz⟩ := hread i (List.mem_cons_self ..)
    unfold zipLoop
    by_cases hbig : i.fileSize > env.consts.maxMemorySize
    · have : ¬ i.fileSize ≤ env.consts.maxMemorySize := by omega
      simp [hbig, this, List.filter_cons, ih']
    · have hle : i.fileSize ≤ env.consts.maxMemorySize := by omega
      have hp := processEntry_small env ap i.filename b (by omega)
      simp [hbig, hle, hb, List.filter_cons, ih', hp, zipData]

theorem C10_members_zip (hlim : env.consts.maxMemorySize ≤ env.consts.maxArchiveFileSize) (infos : List ZipInfo)
    (henc : ∀ i ∈ infos, i.isDir = false → i.flagBits &&& 1 = 0)
    (hread : ∀ i ∈ infos, i.isDir = false → ∃ b, i.read = .data b ∧ i.fileSize = b.length) :
    readZip env ap infos = { yields := (infos.filter (zipKeep env)).flatMap fun i => alone env ap i.filename (zipData i),
                             terminal := none } := by
  unfold readZip
  rw [zipScan_ok env infos henc]
  simp only
  rw [zipLoop_ok env ap hlim]
  · simp only [List.filter_filter]
    congr 2
    apply List.filter_congr
    intro i _
    unfold zipKeep
    cases i.isDir <;> cases visibleSupported env i.filename <;> simp
  · intro i hi
    have := List.mem_filter.mp hi
    have hd : i.isDir = false := by
      have := this.2; cases h : i.isDir <;> simp_all
    exact hread i this.1 hd

/-! ### 7z -/

def sevenKeep (e : Entry) : Bool :=
  !e.isDir && visibleSupported env e.name && decide (e.data.length ≤ env.consts.maxMemorySize)

private theorem sevenLoop_spec (hlim : env.consts.maxMemorySize ≤ env.consts.maxArchiveFileSize)
    (writes : List (Str × Bytes)) : ∀ (es : List Entry) (files : List FileInfo) (i0 : Nat),
    files.map (fun f => (f.filename, f.isDirectory, f.uncompressed)) = es.map (fun e => (e.name, e.isDir, e.data.length)) →
    (∀ e ∈ es, sevenKeep env e = true → readBack writes e.name = some e.data) →
    sevenLoop env ap writes ((sevenFilter env files i0).map (·.2))
      = (es.filter (sevenKeep env)).flatMap fun e => alone env ap e.name e.data := by
  intro es
  induction es with
  | nil => intro files i0 hf _; cases files <;> simp_all [sevenFilter, sevenLoop]
  | cons e es ih =>
    intro files i0 hf hrb
    cases files with
    | nil => simp at hf
    | cons f fs =>
      simp only [List.map_cons, List.cons.injEq, Prod.mk.injEq] at hf
      obtain ⟨⟨hn, hd, hu⟩, hrest⟩ := hf
      have ih' := ih fs (i0 + 1) hrest (fun x hx => hrb x (List.mem_cons_of_mem _ hx))
      unfold sevenFilter
      cases hdir : e.isDir with
      | true => simp [hd, hdir, sevenKeep, List.filter_cons, ih']
      | false =>
        by_cases hskip : shouldSkip env e.name (baseName e.name) = true
        · simp [hd, hdir, hn, hskip, sevenKeep, visibleSupported, List.filter_cons, ih']
        · by_cases hbig : e.data.length > env.consts.maxMemorySize
          · have : ¬ e.data.length ≤ env.consts.maxMemorySize := by omega
            simp [hd, hdir, hn, hu, hskip, hbig, this, sevenKeep, visibleSupported, List.filter_cons, ih']
          · have hle : e.data.length ≤ env.consts.maxMemorySize := by omega
            have hk : sevenKeep env e = true := by simp [sevenKeep, hdir, visibleSupported, hskip, hle]
            have hr := hrb e (List.mem_cons_self ..) hk
            have hp := processEntry_small env ap e.name e.data (by omega)
            simp [hd, hdir, hn, hu, hskip, hbig, hle, sevenKeep, visibleSupported, List.filter_cons, ih',
              sevenLoop, hr, hp]

/-- the `members` handed to `extractall` are exactly the entries `sevenKeep` keeps -/
private theorem sevenFilter_idx : ∀ (es : List Entry) (files : List FileInfo) (i0 : Nat),
    files.map (fun f => (f.filename, f.isDirectory, f.uncompressed)) = es.map (fun e => (e.name, e.isDir, e.data.length)) →
    (sevenFilter env files i0).map (·.1) = keepIdx (sevenKeep env) es i0 := by
  intro es
  induction es with
  | nil => intro files i0 hf; cases files <;> simp_all [sevenFilter, keepIdx]
  | cons e es ih =>
    intro files i0 hf
    cases files with
    | nil => simp at hf
    | cons f fs =>
      simp only [List.map_cons, List.cons.injEq, Prod.mk.injEq] at hf
      obtain ⟨⟨hn, hd, hu⟩, hrest⟩ := hf
      have ih' := ih fs (i0 + 1) hrest
      unfold sevenFilter keepIdx
      cases hdir : e.isDir with
      | true => simp [hd, hdir, sevenKeep, ih']
      | false =>
        by_cases hskip : shouldSkip env e.name (baseName e.name) = true
        · simp [hd, hdir, hn, hskip, sevenKeep, visibleSupported, ih']
        · by_cases hbig : e.data.length > env.consts.maxMemorySize
          · have : ¬ e.data.length ≤ env.consts.maxMemorySize := by omega
            simp [hd, hdir, hn, hu, hskip, hbig, this, sevenKeep, visibleSupported, ih']
          · have hle : e.data.length ≤ env.consts.maxMemorySize := by omega
            simp [hd, hdir, hn, hu, hskip, hbig, hle, sevenKeep, visibleSupported, ih']

/-! #### reading the temporary directory back -/

private theorem readBack_none (ws : List (Str × Bytes)) (n : Str) (h : n ∉ ws.map (·.1)) : readBack ws n = none := by
  induction ws with
  | nil => rfl
  | cons w ws ih =>
    obtain ⟨m, b⟩ := w
    simp only [List.map_cons, List.mem_cons, not_or] at h
    have hmn : ¬ m = n := fun e => h.1 e.symm
    simp [readBack, ih h.2, hmn]

private theorem readBack_mem (ws : List (Str × Bytes)) (n : Str) (d : Bytes) (hn : (ws.map (·.1)).Nodup) (h : (n, d) ∈ ws) :
    readBack ws n = some d := by
  induction ws with
  | nil => simp at h
  | cons w ws ih =>
    obtain ⟨m, b⟩ := w
    simp only [List.map_cons, List.nodup_cons] at hn
    rcases List.mem_cons.mp h with heq | hin
    · cases heq
      simp [readBack, readBack_none ws n hn.1]
    · simp [readBack, ih hn.2 hin]

private theorem inj_of_nodup_map {α β : Type} (f : α → β) (l : List α) (hn : (l.map f).Nodup) :
    ∀ a ∈ l, ∀ b ∈ l, f a = f b → a = b := by
  induction l with
  | nil => intro a ha; simp at ha
  | cons x xs ih =>
    intro a ha b hb h
    simp only [List.map_cons, List.nodup_cons, List.mem_map, not_exists, not_and] at hn
    rcases List.mem_cons.mp ha with rfl | ha' <;> rcases List.mem_cons.mp hb with rfl | hb'
    · rfl
    · exact absurd h.symm (hn.1 b hb')
    · exact absurd h (hn.1 a ha')
    · exact ih hn.2 a ha' b hb' h

private theorem writes_nodup (es : List Entry) (hn : (es.map (·.name)).Nodup) :
    ((streamFiles es ++ emptyFiles es).map (·.1)).Nodup := by
  have hinj : ∀ a ∈ es, ∀ b ∈ es, a.name = b.name → a = b := fun a ha b hb h => inj_of_nodup_map (·.name) es hn a ha b hb h
  simp only [streamFiles, emptyFiles, List.map_append, List.map_map, Function.comp_def]
  rw [List.nodup_append]
  refine ⟨?_, ?_, ?_⟩
  · exact (List.Sublist.map _ List.filter_sublist).nodup hn
  · exact (List.Sublist.map _ List.filter_sublist).nodup hn
  · intro x hx y hy hxy
    obtain ⟨a, ha, rfl⟩ := List.mem_map.mp hx
    obtain ⟨b, hb, rfl⟩ := List.mem_map.mp hy
    have ha' := List.mem_filter.mp ha
    have hb' := List.mem_filter.mp hb
    have := hinj a ha'.1 b hb'.1 hxy
    subst this
    have h1 := ha'.2
    have h2 := hb'.2
    unfold Entry.hasStream at h1
    unfold Entry.isEmptyFile at h2
    cases h : a.data.isEmpty <;> simp_all

private theorem readBack_writes (es : List Entry) (hn : (es.map (·.name)).Nodup) :
    ∀ e ∈ es, e.isDir = false → readBack (streamFiles es ++ emptyFiles es) e.name = some e.data := by
  intro e he hd
  apply readBack_mem _ _ _ (writes_nodup es hn)
  cases hdata : e.data with
  | nil =>
    apply List.mem_append_right
    simp only [emptyFiles, List.mem_map, List.mem_filter]
    exact ⟨e, ⟨he, by simp [Entry.isEmptyFile, hd, hdata]⟩, by simp⟩
  | cons b bs =>
    apply List.mem_append_left
    simp only [streamFiles, List.mem_map, List.mem_filter]
    exact ⟨e, ⟨he, by simp [Entry.hasStream, hd, hdata]⟩, by simp [hdata]⟩

private theorem sevenKeep_not_dir {e : Entry} (h : sevenKeep env e = true) : e.isDir = false := by
  unfold sevenKeep at h
  cases hd : e.isDir <;> simp_all

/-- **7z member loop** (the code path: `extractall(members = the entries that passed the filters)`).  If the
    reader lists the entries `es` (name, kind, size) and `extractall` wrote the files of the kept entries
    (`C10_7z_layout_members` with `wanted` = their indices), and the member names are distinct (a *set* of
    files), then the results are exactly the visible supported non-directory members, each extracted on its
    own from its own bytes, in archive order. -/
theorem C10_members_7z (hlim : env.consts.maxMemorySize ≤ env.consts.maxArchiveFileSize)
    (es : List Entry) (files : List FileInfo) (i0 : Nat) (hn : (es.map (·.name)).Nodup)
    (hf : files.map (fun f => (f.filename, f.isDirectory, f.uncompressed)) = es.map (fun e => (e.name, e.isDir, e.data.length))) :
    sevenLoop env ap (streamFiles (es.filter (sevenKeep env)) ++ emptyFiles (es.filter (sevenKeep env)))
        ((sevenFilter env files i0).map (·.2))
      = (es.filter (sevenKeep env)).flatMap fun e => alone env ap e.name e.data := by
  apply sevenLoop_spec env ap hlim _ es files i0 hf
  intro e he hk
  have hn' : ((es.filter (sevenKeep env)).map (·.name)).Nodup :=
    (List.Sublist.map _ List.filter_sublist).nodup hn
  exact readBack_writes _ hn' e (List.mem_filter.mpr ⟨he, hk⟩) (sevenKeep_not_dir env hk)

/-- the same when everything was extracted (`members=None`): the extra files in the directory change nothing -/
theorem C10_members_7z_all (hlim : env.consts.maxMemorySize ≤ env.consts.maxArchiveFileSize)
    (es : List Entry) (files : List FileInfo) (i0 : Nat) (hn : (es.map (·.name)).Nodup)
    (hf : files.map (fun f => (f.filename, f.isDirectory, f.uncompressed)) = es.map (fun e => (e.name, e.isDir, e.data.length))) :
    sevenLoop env ap (streamFiles es ++ emptyFiles es) ((sevenFilter env files i0).map (·.2))
      = (es.filter (sevenKeep env)).flatMap fun e => alone env ap e.name e.data :=
  sevenLoop_spec env ap hlim _ es files i0 hf
    (fun e he hk => readBack_writes es hn e he (sevenKeep_not_dir env hk))

/-- **7z end to end on the model** (reader state → results), for every layout a reference packer produces.
    `parse` is `SevenZipReader.__init__`; that it returns the state `packR`/`_build_file_list` describe for the
    bytes a packer wrote is tied by the correspondence (header byte grammar), not proved.  `extractall` is
    called with `members` = the entries that passed the filters: skipped entries are neither decoded nor
    written, and the results are unchanged. -/
theorem C10_7z_end_to_end (c : Codec) (e : Enc) (hc : CodecOk c e) (layout : List (Method × List Entry))
    (tail : List Entry) (attr : Entry → Nat) (pre post : Bytes) (packPos : Nat)
    (parse : Bytes → Except Err R) (gs : List Group) (es : List Entry) (file : Bytes)
    (hgs : gs = layout.map fun l => packGroup e l.1 l.2) (hes : es = allEntries gs tail)
    (hfile : file = pre ++ gs.flatMap (·.packed) ++ post)
    (hlim : env.consts.maxMemorySize ≤ env.consts.maxArchiveFileSize)
    (hm : ∀ l ∈ layout, l.1.wf ∧ streamCount l.2 ≥ 1)
    (ht : ∀ x ∈ tail, x.hasStream = false)
    (hpre : pre.length = packPos + headerOffset)
    (hattr : ∀ x ∈ es, x.isDir = false → attr x &&& 0x10 = 0)
    (hdir : ∀ x ∈ es, x.isDir = true → x.data = [])
    (hn : (es.map (·.name)).Nodup)
    (hsize : file.length ≤ env.consts.max7zFileSize)
    (hparse : parse file = .ok (buildFileList (packR packPos gs tail) (rawEntries attr es) (emptyFileBits es))) :
    (read7z env ap file parse (fun _ => false) (fun f r w => extractAll S2T.Gen.SevenZip.ids c f r w)).yields
        = (es.filter (sevenKeep env)).flatMap (fun x => alone env ap x.name x.data)
    ∧ (read7z env ap file parse (fun _ => false) (fun f r w => extractAll S2T.Gen.SevenZip.ids c f r w)).terminal = none := by
  subst hgs hes hfile
  have h0 := (C10_7z_reference_members c e hc layout tail attr pre post packPos none hm ht hpre hattr hdir).1
  have hidx := sevenFilter_idx env _ _ 0 h0
  have ⟨h1, h2⟩ := C10_7z_reference_members c e hc layout tail attr pre post packPos
    (some (keepIdx (sevenKeep env) (allEntries (layout.map fun l => packGroup e l.1 l.2) tail) 0)) hm ht hpre hattr hdir
  rw [streamFilesW_keepIdx, emptyFilesW_keepIdx] at h2
  unfold read7z
  rw [if_neg (Nat.not_lt.mpr hsize), hparse]
  simp only [Bool.false_eq_true, if_false, hidx]
  rw [h2]
  exact ⟨C10_members_7z env ap hlim _ _ 0 hn h1, rfl⟩

end loops

/-! ## detection and dispatch -/

def compatible (a b : Bytes) : Bool :=
  a.take (min a.length b.length) == b.take (min a.length b.length)

/-- no signature shadows a later one of another type; declared lengths are the real lengths -/
def sigsOk : List (Bytes × Str × Nat) → Bool
  | [] => true
  | (m, ty, len) :: r => (m.length == len) && r.all (fun x => !compatible m x.1 || ty == x.2.1) && sigsOk r

theorem gen_sigs_ok : sigsOk S2T.Gen.SevenZip.consts.signatures = true := by decide

private theorem compatible_of_prefixes (header m m' : Bytes) (h1 : header.take m.length = m) (h2 : header.take m'.length = m') :
    compatible m m' = true := by
  unfold compatible
  have e1 : m.take (min m.length m'.length) = header.take (min m.length m'.length) := by
    calc m.take (min m.length m'.length) = (header.take m.length).take (min m.length m'.length) := by rw [h1]
      _ = header.take (min m.length m'.length) := by rw [List.take_take]; congr 1; omega
  have e2 : m'.take (min m.length m'.length) = header.take (min m.length m'.length) := by
    calc m'.take (min m.length m'.length) = (header.take m'.length).take (min m.length m'.length) := by rw [h2]
      _ = header.take (min m.length m'.length) := by rw [List.take_take]; congr 1; omega
  simp [e1, e2]

private theorem sigsOk_len : ∀ (sigs : List (Bytes × Str × Nat)), sigsOk sigs = true →
    ∀ m ty len, (m, ty, len) ∈ sigs → m.length = len
  | [], _, m, ty, len, h => by simp at h
  | (m1, ty1, len1) :: ys, hok, m, ty, len, h => by
    simp only [sigsOk, Bool.and_eq_true, beq_iff_eq] at hok
    rcases List.mem_cons.mp h with heq | hin
    · cases heq; exact hok.1.1
    · exact sigsOk_len ys hok.2 m ty len hin

theorem sigMatch_spec (header : Bytes) : ∀ (sigs : List (Bytes × Str × Nat)), sigsOk sigs = true →
    ∀ m ty len, (m, ty, len) ∈ sigs → header.take len = m → sigMatch header sigs = some ty := by
  intro sigs
  induction sigs with
  | nil => intro _ m ty len h; simp at h
  | cons x sigs ih =>
    obtain ⟨m0, ty0, len0⟩ := x
    intro hok m ty len hmem hp
    simp only [sigsOk, Bool.and_eq_true, beq_iff_eq, List.all_eq_true, Bool.or_eq_true, Bool.not_eq_true'] at hok
    obtain ⟨⟨hlen0, hall⟩, hrest⟩ := hok
    unfold sigMatch
    by_cases h0 : header.take len0 = m0
    · simp only [h0, beq_self_eq_true, if_true]
      rcases List.mem_cons.mp hmem with heq | hin
      · cases heq; rfl
      · have hlen : m.length = len := sigsOk_len sigs hrest m ty len hin
        have hc := compatible_of_prefixes header m0 m (by rw [hlen0]; exact h0) (by rw [hlen]; exact hp)
        rcases hall (m, ty, len) hin with hnc | hty
        · simp [hc] at hnc
        · simp at hty; rw [hty]
    · have hne : (header.take len0 == m0) = false := by simpa using h0
      simp only [hne, Bool.false_eq_true, if_false]
      rcases List.mem_cons.mp hmem with heq | hin
      · cases heq; exact absurd hp h0
      · exact ih hrest m ty len hin hp

/-- **plain TAR is recognised whatever its first member is called** (repaired order) and opened with `r:tar` -/
theorem C10_detect_tar (file : Bytes) (hlen : 262 ≤ file.length) (hm : (file.drop 257).take 5 = [117, 115, 116, 97, 114]) :
    detect S2T.Gen.SevenZip.consts file = some (s "tar") ∧ route (s "tar") = .tar (s "r:tar") := by
  refine ⟨?_, by decide⟩
  unfold detect
  have h1 : (file.take 512).isEmpty = false := by
    cases file with
    | nil => simp at hlen
    | cons a b => simp
  have h2 : isTarAt S2T.Gen.SevenZip.consts (file.take 512) = true := by
    unfold isTarAt
    have ha : (file.take 512).length ≥ 262 := by rw [List.length_take]; omega
    have hb : ((file.take 512).drop 257).take 5 = (file.drop 257).take 5 := by
      rw [List.drop_take, List.take_take]
      congr 1
    have ha' : 262 ≤ min 512 file.length := by omega
    simp only [S2T.Gen.SevenZip.consts] at *
    simp [ha', hb, hm]
  simp [h1, h2]

/-- **every signature of the table leads to its type** when the file is not a plain TAR -/
theorem C10_detect_signature (file m : Bytes) (ty : Str) (len : Nat)
    (hsig : (m, ty, len) ∈ S2T.Gen.SevenZip.consts.signatures)
    (hne : file ≠ []) (hnt : isTarAt S2T.Gen.SevenZip.consts (file.take 512) = false)
    (hp : (file.take 512).take len = m) :
    detect S2T.Gen.SevenZip.consts file = some ty := by
  unfold detect
  have h1 : (file.take 512).isEmpty = false := by
    cases file with
    | nil => exact absurd rfl hne
    | cons a b => simp
  simp only [h1, hnt, Bool.false_eq_true, if_false]
  exact sigMatch_spec _ _ gen_sigs_ok m ty len hsig hp

/-- the dispatch: each detected type goes to its reader, TAR flavours with the matching `tarfile` mode -/
theorem C10_routes :
    route (s "zip") = .zip ∧ route (s "7z") = .sevenZ ∧ route (s "tar.gz") = .tar (s "r:gz")
    ∧ route (s "tar.bz2") = .tar (s "r:bz2") ∧ route (s "tar.xz") = .tar (s "r:xz")
    ∧ S2T.Gen.SevenZip.consts.signatures.all (fun x => route x.2.1 != .unsupported) = true := by
  decide

/-- `NESTED_ARCHIVE_EXTENSIONS` is the documented list (archives inside archives are never unpacked) -/
theorem gen_nested_are_spec :
    S2T.Gen.SevenZip.consts.nested = [s ".7z", s ".tar", s ".tar.bz2", s ".tar.gz", s ".tar.xz", s ".tbz2", s ".tgz", s ".txz", s ".zip"] := by
  decide

/-- the limits nest as the member-loop theorems assume -/
theorem gen_limits : S2T.Gen.SevenZip.consts.maxMemorySize ≤ S2T.Gen.SevenZip.consts.maxArchiveFileSize := by decide

set_option maxRecDepth 20000 in
/-- **counterexample (previous detection order)**: the first block of a TAR whose first member is called
    `BZ…` was taken for bzip2 -/
theorem C10_detect_previous_counterexample :
    let block := [66, 90] ++ List.replicate 255 0 ++ [117, 115, 116, 97, 114] ++ List.replicate 250 0
    detectOld S2T.Gen.SevenZip.consts block = some (s "tar.bz2") ∧ detect S2T.Gen.SevenZip.consts block = some (s "tar") := by
  decide

example : (([80, 75, 3, 4] : Bytes), s "zip", 4) ∈ S2T.Gen.SevenZip.consts.signatures := by decide

/-! ## 7z, from the BYTES a packer writes to the results (header round trip composed with the layout theorems) -/

/-- the coder of the reference packer, as the writer specification names it -/
def Method.spec : Method → S2T.Spec.SevenZipWriter.Method
  | .copy => .copy
  | .lzma p => .lzma p
  | .lzma2 p => .lzma2 p

private theorem packGroup_coder (e : Enc) (m : Method) (es : List Entry) : (packGroup e m es).coder = coderOf m.spec := by
  cases m <;> rfl

private theorem startHeader_length (crc : Bytes → Nat) (n : Nat) (h : Bytes) : (startHeader crc n h).length = 32 := by
  simp [startHeader, S2T.Spec.SevenZipWriter.startFields, S2T.Spec.SevenZipWriter.magic, le_length]

section written
variable {ρ : Type} (env : Env ρ) (ap : Option Str)

/-- **7z end to end, from the written bytes** (model of `read_archive`'s 7z path on the file a standard packer
    writes).  `layout` = the folders (coder COPY / LZMA / LZMA2, entries listed while the folder is current),
    `tail` = trailing directories / empty files, `o` = the header options, `x` = the attribute / mtime / CRC values
    stored per entry.  The file is `archive crc L packs`: 32-byte start header, the pack streams, the header block
    `writeHeader L` of the writer specification.  Then the reader (`SevenZipReader.__init__` = `parseHeader`, no
    longer a parameter) followed by the member loop yields exactly the supported visible members, each extracted on
    its own from its own bytes, in archive order.
    Hypotheses that stay explicit: `CodecOk` (stdlib lzma; vacuous for COPY-only layouts), the layout is well formed,
    no folder CRCs (`hfc`: the layout theorems start from folders without a CRC; the header round trip itself holds
    with them), a stored attribute of a non-directory does not carry the directory bit 0x10 (`hattr`), distinct
    member names, size limits. -/
theorem C10_7z_written_end_to_end (c : Codec) (e : Enc) (hc : CodecOk c e) (crc : Bytes → Nat) (hcrc : ∀ b, crc b < 2 ^ 32)
    (layout : List (Method × List Entry)) (tail : List Entry) (x : Entry → Nat × Nat × Nat) (o : Opts)
    (gs : List Group) (es : List Entry) (L : Layout) (file : Bytes)
    (hgs : gs = layout.map fun l => packGroup e l.1 l.2) (hes : es = allEntries gs tail)
    (hL : L = layoutOf x (layout.map fun l => (l.1.spec, packGroup e l.1 l.2)) tail o)
    (hfile : file = archive crc L (gs.flatMap (·.packed)))
    (hwf : WellFormed L) (hfc : o.folderCrc = false) (hne : layout ≠ [])
    (hlim : env.consts.maxMemorySize ≤ env.consts.maxArchiveFileSize)
    (hm : ∀ l ∈ layout, l.1.wf ∧ streamCount l.2 ≥ 1)
    (ht : ∀ y ∈ tail, y.hasStream = false)
    (hattr : ∀ y ∈ es, y.isDir = false → o.attrs = true → (x y).1 &&& 0x10 = 0)
    (hdir : ∀ y ∈ es, y.isDir = true → y.data = [])
    (hn : (es.map (·.name)).Nodup)
    (hsize : file.length ≤ env.consts.max7zFileSize) (hfit : file.length < 2 ^ 63) :
    (read7z env ap file (parseHeader S2T.Gen.SevenZip.ids fixed crc c) (fun _ => false)
        (fun f r w => extractAll S2T.Gen.SevenZip.ids c f r w)).yields
        = (es.filter (sevenKeep env)).flatMap (fun y => alone env ap y.name y.data)
    ∧ (read7z env ap file (parseHeader S2T.Gen.SevenZip.ids fixed crc c) (fun _ => false)
        (fun f r w => extractAll S2T.Gen.SevenZip.ids c f r w)).terminal = none := by
  have hmgs : (layout.map fun l => (l.1.spec, packGroup e l.1 l.2)).map (·.2) = gs := by
    rw [hgs]; simp [List.map_map, Function.comp_def]
  have hesne : es ≠ [] := by
    cases layout with
    | nil => exact absurd rfl hne
    | cons l ls =>
      have h1 := (hm l (List.mem_cons_self ..)).2
      have h2 : l.2 ≠ [] := by intro h0; rw [h0] at h1; simp [streamCount] at h1
      rw [hes, hgs]
      simp [allEntries, packGroup, h2]
      cases l.1 <;> simp [h2]
  have hlen : file.length = 32 + (gs.flatMap (·.packed)).length + (writeHeader L).length := by
    rw [hfile]; simp [archive, startHeader_length]; omega
  have hrt := S2T.C10.Header.header_round_trip crc hcrc c L hwf (gs.flatMap (·.packed)) ⟨by omega, by omega⟩
  have hst := stateOf_layoutOf x (layout.map fun l => (l.1.spec, packGroup e l.1 l.2)) tail o
    (by intro p hp; obtain ⟨l, _, rfl⟩ := List.mem_map.mp hp; exact packGroup_coder e l.1 l.2) ht hfc
    (by simpa using hne) (by rw [hmgs, ← hes]; exact hesne)
  rw [hmgs, ← hes, ← hL] at hst
  rw [hst, ← hfile] at hrt
  refine C10_7z_end_to_end env ap c e hc layout tail (attrOf x o)
    (startHeader crc (gs.flatMap (·.packed)).length (writeHeader L)) (writeHeader L) 0
    (parseHeader S2T.Gen.SevenZip.ids fixed crc c) gs es file hgs hes (by rw [hfile]; rfl) hlim hm ht
    (by simp [startHeader_length, headerOffset]) ?_ hdir hn hsize hrt
  intro y hy hd
  unfold attrOf
  split
  · rename_i ha; exact hattr y hy hd ha
  · rfl

end written

/-- the hypotheses of `C10_7z_written_end_to_end` on a concrete layout: folder 0 = COPY{d/, a.txt, e.txt (empty)},
    folder 1 = COPY{b.txt}; Windows attributes (0x10 / 0x20) are stored -/
example :
    let layout : List (Method × List Entry) := [(.copy, [exD, exA, exE]), (.copy, [exB])]
    let x : Entry → Nat × Nat × Nat := fun e => (exAttr e, 0, 0)
    let gs := layout.map fun l => packGroup toyEnc l.1 l.2
    let es := allEntries gs []
    let L := layoutOf x (layout.map fun l => (l.1.spec, packGroup toyEnc l.1 l.2)) [] {}
    WellFormed L ∧ (∀ l ∈ layout, l.1.wf ∧ streamCount l.2 ≥ 1)
    ∧ (∀ y ∈ es, y.isDir = false → ({} : Opts).attrs = true → (x y).1 &&& 0x10 = 0)
    ∧ (∀ y ∈ es, y.isDir = true → y.data = []) ∧ (es.map (·.name)).Nodup := by
  refine ⟨by decide, ?_, by decide, by decide, by decide⟩
  intro l hl
  simp only [List.mem_cons, List.mem_nil_iff, or_false] at hl
  rcases hl with rfl | rfl <;> exact ⟨by simp [Method.wf], by decide⟩

/-! ## after any process history (composition with `Props/C10_History.lean`)

`R` is the router behind the module's `lru_cache`s, `hist` the reads that ran before in the process — any number
of archives of any container type, each as the sequence of cache questions it asked (`β`: whatever they returned).
The member-loop theorems above are restated for the read run against the store that history left behind. -/
section history
open S2T.ArchiveHistory S2T.C10History
variable {ε ρ β : Type} (R : Router ε ρ) (c : Consts) (ap : Option Str) (hist : List (Prog ε β))

theorem C10_members_tar_after_any_history (hlim : c.maxMemorySize ≤ c.maxArchiveFileSize) (ms : List TarMember)
    (hread : ∀ m ∈ ms, m.isReg = true → ∃ b, m.read = .data b ∧ m.size = b.length) :
    (runMemo R (readTarP R c ap ms) (afterReads R Store.empty hist)).1
      = (ms.filter (tarKeep (envOf R c))).flatMap fun m => alone (envOf R c) ap m.name (tarData m) := by
  rw [C10_history_free, tar_prog_pure]
  exact C10_members_tar (envOf R c) ap hlim ms hread

theorem C10_members_zip_after_any_history (hlim : c.maxMemorySize ≤ c.maxArchiveFileSize) (infos : List ZipInfo)
    (henc : ∀ i ∈ infos, i.isDir = false → i.flagBits &&& 1 = 0)
    (hread : ∀ i ∈ infos, i.isDir = false → ∃ b, i.read = .data b ∧ i.fileSize = b.length) :
    (runMemo R (readZipP R c ap infos) (afterReads R Store.empty hist)).1
      = { yields := (infos.filter (zipKeep (envOf R c))).flatMap fun i => alone (envOf R c) ap i.filename (zipData i),
          terminal := none } := by
  rw [C10_history_free, zip_prog_pure]
  exact C10_members_zip (envOf R c) ap hlim infos henc hread

open S2T.SevenZip in
/-- the 7z path: whatever `SevenZipReader` / `extractall` do with the file (they touch no process state), the results
    after any history are those of the single-call model, to which `C10_7z_end_to_end` / `C10_7z_written_end_to_end` apply -/
theorem C10_7z_after_any_history (file : Bytes) (parse : Bytes → Except Err S2T.SevenZip.R)
    (needsPw : S2T.SevenZip.R → Bool)
    (extract : Bytes → S2T.SevenZip.R → Option (List Nat) → Except Err (List (Str × Bytes))) :
    (runMemo R (read7zP R c ap file parse needsPw extract) (afterReads R Store.empty hist)).1
      = read7z (envOf R c) ap file parse needsPw extract := by
  rw [C10_history_free, seven_prog_pure]

/-- the label of a member is made from the path of the archive being read and nothing else: two reads of the same
    member bytes under two archive paths give the two labels, in either order, after any history -/
theorem C10_label_is_own_archive (a name : Str) (ha : a ≠ []) (data : Bytes) (base : Str)
    (hsmall : data.length ≤ c.maxArchiveFileSize) :
    (runMemo R (processEntryP R c (some a) name data base) (afterReads R Store.empty hist)).1
      = (R.run (R.getExt base) data (a ++ s "!/" ++ name)).1 := by
  rw [C10_history_free, processEntry_prog_pure, ← label_eq a name ha]
  unfold processEntry
  rw [if_neg (by simp only [envOf]; omega)]
  rfl

end history

end S2T.C10
