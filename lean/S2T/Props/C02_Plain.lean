import S2T.Model.C02Plain
import S2T.Lemmas.C02OdfStr
import S2T.Gen.C02Plain
/-!
# C02 (part 'plain') — plain-text files (txt / csv / tsv / md / json) from the BYTES of the file

The 'odf' part proves that `PlainTextContent.get_full_text()` keeps the tokens of the DECODED string.  This part
closes the gap in front of it: the way from the file's bytes to that string (`_detect_and_decode`), for files of
ANY size.  charset_normalizer is a parameter (`detect`); the theorems say what the extractor makes of its verdict:

* `plain_file_text` / `plain_file_tokens`: for every text `s` (any length, any characters the codec can represent),
  written with or without signature, if the detector names the codec the file was written with, the full text is
  `s.strip()` and its tokens are exactly the tokens of `s` - nothing lost, replaced, merged or invented, wherever in
  the file a character stands and however large the file is;
* `plain_no_loss`: for ANY content and ANY verdict whose strict decoding succeeds, the text re-encodes to exactly the
  bytes behind the signature: every byte of the file is accounted for by the characters of the text;
* `plain_size_independent`: the text of the file depends on the content only through the verdict and the strict
  decoding of the WHOLE payload - two detectors that agree on this file give the same text (no sampling);
* `sites_ok`: the facts about the CURRENT source that make `detectAndDecode` the right model are regenerated on every
  run (S2T.Gen.C02Plain) and re-decided: the detector is handed the complete, unsliced content; the text of the
  match branch is `str(<best match>)`; the only `.decode(` is the `utf-8`/`replace` fallback on the whole content;
  `read()` has no size argument; the module has no `len(...)` comparison, no slice and no integer literal, i.e. no
  size threshold at all.
-/
namespace S2T.C02.Plain
open S2T.Tok S2T.Plain S2T.Rtf

private theorem toNat_ofNat_small (n : Nat) (h : n < 256) : (Char.ofNat n).toNat = n := by
  have hv : n.isValidChar := Or.inl (by omega)
  rw [Char.ofNat, dif_pos hv]
  simp [Char.ofNatAux, Char.toNat]

private theorem byteChar_charByte (c : Char) (h : c.toNat < 256) : byteChar (charByte c) = c := by
  unfold byteChar charByte
  have : (c.toNat.toUInt8).toNat = c.toNat := by simp [Nat.toUInt8]; omega
  rw [this]; exact Char.ofNat_toNat c

private theorem charByte_byteChar (x : UInt8) : charByte (byteChar x) = x := by
  unfold byteChar charByte
  rw [toNat_ofNat_small _ x.toNat_lt]
  simp

private theorem map_byteChar_charByte (s : Str) (h : ∀ c ∈ s, c.toNat < 256) :
    (s.map charByte).map byteChar = s := by
  induction s with
  | nil => rfl
  | cons c r ih =>
    simp only [List.map_cons, byteChar_charByte c (h c (by simp))]
    rw [ih (fun x hx => h x (by simp [hx]))]

/-- decoding what was encoded gives the text back, for every codec that can represent it -/
theorem decode_encode (c : Codec) (s : Str) (b : ByteArray) (h : encode c s = some b) : decode c b = some s := by
  cases c with
  | utf8 =>
    simp only [encode, Option.some.injEq] at h
    subst h
    simp [decode]
  | latin1 =>
    simp only [encode] at h
    split at h
    · rename_i hs
      simp only [Option.some.injEq] at h
      subst h
      simp only [decode, Option.some.injEq]
      exact map_byteChar_charByte s (by simpa using hs)
    · cases h
  | ascii =>
    simp only [encode] at h
    split at h
    · rename_i hs
      simp only [Option.some.injEq] at h
      subst h
      have hs' : ∀ c ∈ s, c.toNat < 128 := by simpa using hs
      have h256 : ∀ c ∈ s, c.toNat < 256 := fun c hc => by have := hs' c hc; omega
      have hall : ((s.map charByte).all fun x => decide (x.toNat < 128)) = true := by
        simp only [List.all_map, List.all_eq_true, Function.comp, decide_eq_true_eq]
        intro c hc
        have := hs' c hc
        simp [charByte, Nat.toUInt8]; omega
      simp only [decode, hall, if_true, Option.some.injEq]
      exact map_byteChar_charByte s h256
    · cases h

/-- and back: whatever strict decoding accepts re-encodes to exactly the bytes it was given -/
theorem encode_decode (c : Codec) (b : ByteArray) (t : Str) (h : decode c b = some t) : encode c t = some b := by
  cases c with
  | utf8 =>
    simp only [decode, Option.map_eq_some_iff] at h
    obtain ⟨a, ha, rfl⟩ := h
    have hs : b.utf8Decode?.isSome := by simp [ha]
    have := ByteArray.utf8Encode_get_utf8Decode? (b := b) (h := hs)
    simp only [ha, Option.get_some] at this
    simp [encode, this]
  | latin1 =>
    simp only [decode, Option.some.injEq] at h
    subst h
    have hall : ((b.data.toList.map byteChar).all fun c => decide (c.toNat < 256)) = true := by
      simp only [List.all_map, List.all_eq_true, Function.comp, decide_eq_true_eq]
      intro x _
      rw [byteChar, toNat_ofNat_small _ x.toNat_lt]; exact x.toNat_lt
    simp only [encode, hall, if_true, Option.some.injEq, List.map_map]
    have : (charByte ∘ byteChar) = id := by funext x; exact charByte_byteChar x
    simp [this]
  | ascii =>
    simp only [decode] at h
    split at h
    · rename_i hb
      simp only [Option.some.injEq] at h
      subst h
      have hb' : ∀ x ∈ b.data.toList, x.toNat < 128 := by
        intro x hx
        have := List.all_eq_true.mp hb x hx
        simpa using this
      have hall : ((b.data.toList.map byteChar).all fun c => decide (c.toNat < 128)) = true := by
        simp only [List.all_map, List.all_eq_true, Function.comp, decide_eq_true_eq]
        intro x hx
        rw [byteChar, toNat_ofNat_small _ x.toNat_lt]; exact hb' x hx
      simp only [encode, hall, if_true, Option.some.injEq, List.map_map]
      have : (charByte ∘ byteChar) = id := by funext x; exact charByte_byteChar x
      simp [this]
    · cases h

/-- the bytes behind the signature of a rendered file are the encoded text -/
theorem payload_render (c : Codec) (sig : Bool) (e : ByteArray) :
    payload ⟨c, (sigBytes c sig).size⟩ (sigBytes c sig ++ e) = e := by
  unfold payload
  exact ByteArray.extract_append_eq_right rfl (by simp)

/-- **plain-text files, any size**: if the detector names the codec the file was written with (and the signature it
    carries), the full text is the stripped text of the file -/
theorem plain_file_text (p : Char → Bool) (detect : ByteArray → Option Verdict) (fallback : ByteArray → Str)
    (c : Codec) (sig : Bool) (s : Str) (b : ByteArray) (hr : renderText c sig s = some b) (hne : b.size ≠ 0)
    (hd : detect b = some ⟨c, (sigBytes c sig).size⟩) :
    fileFullText p detect fallback b = plainFullText p s := by
  simp only [renderText, Option.map_eq_some_iff] at hr
  obtain ⟨e, he, rfl⟩ := hr
  have hdec := decode_encode c s e he
  unfold fileFullText detectAndDecode
  rw [if_neg hne]
  simp only [hd, payload_render, hdec]

/-- … hence `get_full_text().split()` is `s.split()`: every token once, in order, separated, nothing else -/
theorem plain_file_tokens (p : Char → Bool) (detect : ByteArray → Option Verdict) (fallback : ByteArray → Str)
    (c : Codec) (sig : Bool) (s : Str) (b : ByteArray) (hr : renderText c sig s = some b) (hne : b.size ≠ 0)
    (hd : detect b = some ⟨c, (sigBytes c sig).size⟩) :
    tokens p (fileFullText p detect fallback b) = tokens p s := by
  rw [plain_file_text p detect fallback c sig s b hr hne hd, plain_tokens]

/-- the hypotheses are satisfiable: a UTF-8 file with signature, non-ASCII text at the END -/
example : ∃ b, renderText .utf8 true "id;name\n1;Köln €".toList = some b ∧ b.size ≠ 0 := by
  refine ⟨_, rfl, ?_⟩
  simp [sigBytes, utf8Sig, ByteArray.size_append]

/-- **nothing lost, nothing replaced** for ANY content: when the verdict's strict decoding succeeds, the text is that
    decoding and it re-encodes to exactly the bytes behind the signature -/
theorem plain_no_loss (detect : ByteArray → Option Verdict) (fallback : ByteArray → Str) (content : ByteArray)
    (v : Verdict) (t : Str) (hne : content.size ≠ 0) (hd : detect content = some v)
    (ht : decode v.codec (payload v content) = some t) :
    detectAndDecode detect fallback content = (t, v.codec) ∧ encode v.codec t = some (payload v content) := by
  refine ⟨?_, encode_decode _ _ _ ht⟩
  simp [detectAndDecode, hne, hd, ht]

/-- **no sampling**: the result is determined by the verdict for THIS content and the whole payload; detectors that
    agree on the file give the same text whatever they say about any prefix of it -/
theorem plain_size_independent (d₁ d₂ : ByteArray → Option Verdict) (fallback : ByteArray → Str) (content : ByteArray)
    (h : d₁ content = d₂ content) :
    detectAndDecode d₁ fallback content = detectAndDecode d₂ fallback content := by
  simp [detectAndDecode, h]

/-- counterexample to the sampled variant (what a "detect on the head only, decode with errors=replace" extractor
    does): an ASCII verdict for a file whose tail is not ASCII has NO strict decoding - any text produced from that
    verdict has lost characters -/
theorem ascii_verdict_on_utf8_tail_undecodable :
    decode .ascii (String.ofList "ab;cd\nKöln".toList).toByteArray = none := by
  decide

/-! ## tie to the current source -/

/-- what the model assumes about `plain_extractor.py` (see the module docstring) -/
def SitesOk (s : S2T.Gen.C02Plain.Sites) : Prop :=
  s.detectCalls = 1 ∧ s.detectArgWhole = true ∧ s.textFromMatch = true ∧ s.readSizeArgs = 0 ∧
  s.decodeCalls = [("content", "utf-8", "replace")] ∧ s.lenCompares = 0 ∧ s.slices = 0 ∧ s.intLiterals = [] ∧
  s.emptyGuard = true

instance (s : S2T.Gen.C02Plain.Sites) : Decidable (SitesOk s) := by unfold SitesOk; infer_instance

theorem sites_ok : SitesOk S2T.Gen.C02Plain.sites := by decide

theorem gen_notes_empty : S2T.Gen.C02Plain.notes = [] := by decide

end S2T.C02.Plain
