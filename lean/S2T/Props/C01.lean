import S2T.Lemmas.Wrapper
import S2T.Lemmas.WrapperBeh
import S2T.Gen.Exceptions
import S2T.Gen.Wrappers
import S2T.Gen.Loops
import S2T.Props.C01_Regex
import S2T.Props.C01_Iter
/-!
# C01 — stable failure surface (and CLI discipline, loop inventory)

`S2T.Gen.Wrappers` holds the control skeleton of every registered `read_*` function, of the thin
public wrappers, `read_file`, the archive-member / attachment loops and `cli.main`, translated from
the current source.  `escapes_sound` (Lemmas/Wrapper) says the syntactic analysis `escapes`
over-approximates every execution of the nondeterministic semantics in which *every* opaque atom
(every call into a parser) may raise *any* exception.  The theorems below re-decide, on the current
skeletons, that nothing but an `ExtractionError` subclass can leave an extractor.
-/
namespace S2T.C01
open S2T.Wrapper S2T.Gen.Exceptions S2T.Gen.Wrappers

/-- the hierarchy: family part generated, everything else arbitrary -/
def hier (otherSub : String → String → Bool) : Hier := { famSub := famSub, otherSub := otherSub }

theorem family_rooted : family.all (fun ca => ca.2.contains root && ca.2.contains ca.1) = true := by decide

theorem hier_ok (otherSub : String → String → Bool) : HierOk (hier otherSub) isFam root where
  rootFam := by decide
  famRoot := by
    intro c hc
    simp only [hier, famSub]
    unfold isFam at hc
    have hc' : c ∈ family.map (·.1) := by simpa using hc
    obtain ⟨⟨k, anc⟩, hm, hk⟩ := List.mem_map.mp hc'
    simp at hk; subst hk
    -- `family.lookup k` finds an entry whose ancestors contain root
    have hall := List.all_eq_true.mp family_rooted
    have : ∀ (l : List (String × List String)), (∀ x ∈ l, (x.2.contains root && x.2.contains x.1) = true) →
        (k, anc) ∈ l → (match l.lookup k with | some a => a.contains root | none => false) = true := by
      intro l hl hmem
      induction l with
      | nil => cases hmem
      | cons x xs ih =>
        obtain ⟨k', a'⟩ := x
        by_cases hkk : k = k'
        · subst hkk
          have := hl (k, a') (by simp)
          simp only [Bool.and_eq_true] at this
          have h1 : root ∈ a' := by simpa using this.1
          simp [List.lookup, h1]
        · have hne : (k == k') = false := by simpa using hkk
          simp only [List.lookup, hne]
          apply ih (fun x hx => hl x (List.mem_cons_of_mem _ hx))
          rcases List.mem_cons.mp hmem with h | h
          · cases h; exact absurd rfl hkk
          · exact h
    exact this family hall hm

/-- no non-family exception in the abstract result -/
def onlyFamily (a : Abs) : Bool := !a.other

/-- **C01 (surface), decided on the generated skeletons**: for each of the registered extractors the
    analysis finds no way for a non-family exception to escape. -/
theorem surface_decided :
    extractorWrappers.all (fun w => onlyFamily (escapes root isFam none w.2)) = true := by decide

/-- every registered extractor is a generator function (so nothing runs at call time) -/
theorem all_generators : allGenerators = true := by decide

/-- the thin public wrappers in `sharepoint2text/__init__.py` cannot raise at all -/
theorem init_wrappers_total :
    initWrappers.all (fun w => escapes root isFam none w.2 == Abs.empty) = true := by decide

/-- **C01 (surface), semantic statement**: take any registered extractor, any behaviour of every
    parser call it makes (complete, or raise any exception, family or not), any class hierarchy
    outside the library; whatever escapes while the generator is consumed is an instance of a
    subclass of `ExtractionError`. -/
theorem C01_surface (otherSub : String → String → Bool) (name : String) (w : Stmt)
    (hw : (name, w) ∈ extractorWrappers) (tr : List Ch) (e : Exn)
    (hex : Exec (hier otherSub) isFam root none w tr (.raised e)) :
    ∃ c, e = .fam c ∧ isFam c = true ∧ famSub c root = true := by
  have hdec := List.all_eq_true.mp surface_decided (name, w) hw
  obtain ⟨hwf, hmem⟩ := escapes_sound (hier_ok otherSub) hex none (by simp [CurOk]) (by intro e0 h; cases h) e rfl
  cases e with
  | fam c => exact ⟨c, rfl, hwf.1, hwf.2⟩
  | other n =>
    simp only [Abs.mem] at hmem
    simp only [onlyFamily, hmem] at hdec
    cases hdec

/-- archive members: whatever happens while one member is processed, only the file-encrypted
    error (a family class) or nothing escapes `_process_archive_entry` -/
theorem member_decided : onlyFamily (escapes root isFam none process_archive_entry) = true := by decide

/-- `read_file`: with the path/OS atoms (`os:*`: Path(), stat, open, close — total when the file
    exists and is readable, the property's precondition) set aside, only family exceptions escape. -/
def assumeOsTotal : Stmt → Stmt
  | .atom tag total => .atom tag (total || tag.toList.take 3 == ['o', 's', ':'])
  | .seq a b => .seq (assumeOsTotal a) (assumeOsTotal b)
  | .ite a b => .ite (assumeOsTotal a) (assumeOsTotal b)
  | .loop b => .loop (assumeOsTotal b)
  | .try_ b hs f => .try_ (assumeOsTotal b) (assumeHs hs) (assumeOsTotal f)
  | s => s
where assumeHs : List (List String × Stmt) → List (List String × Stmt)
  | [] => []
  | (p, h) :: r => (p, assumeOsTotal h) :: assumeHs r

theorem read_file_decided : onlyFamily (escapes root isFam none (assumeOsTotal read_file)) = true := by decide

theorem C01_read_file (otherSub : String → String → Bool) (tr : List Ch) (e : Exn)
    (hex : Exec (hier otherSub) isFam root none (assumeOsTotal read_file) tr (.raised e)) :
    ∃ c, e = .fam c ∧ isFam c = true := by
  obtain ⟨hwf, hmem⟩ := escapes_sound (hier_ok otherSub) hex none (by simp [CurOk]) (by intro e0 h; cases h) e rfl
  cases e with
  | fam c => exact ⟨c, rfl, hwf.1⟩
  | other n =>
    have hdec := read_file_decided
    simp only [Abs.mem] at hmem
    simp only [onlyFamily, hmem] at hdec
    cases hdec

/-- generalisation of `assumeOsTotal`: atoms whose tag starts with one of the given prefixes are total -/
def assumeTotal (ps : List (List Char)) : Stmt → Stmt
  | .atom tag total => .atom tag (total || ps.any (fun p => tag.toList.take p.length == p))
  | .seq a b => .seq (assumeTotal ps a) (assumeTotal ps b)
  | .ite a b => .ite (assumeTotal ps a) (assumeTotal ps b)
  | .loop b => .loop (assumeTotal ps b)
  | .try_ b hs f => .try_ (assumeTotal ps b) (assumeHs hs) (assumeTotal ps f)
  | s => s
where assumeHs : List (List String × Stmt) → List (List String × Stmt)
  | [] => []
  | (p, h) :: r => (p, assumeTotal ps h) :: assumeHs r

/-- e-mail attachments (`EmailContent.iterate_supported_attachments`): iterating the attachment list,
    `dict.get` on the MIME table and `seek(0)` on the payload `BytesIO` are taken as total (the
    payloads are open in-memory streams built by the extractor); then whatever an attachment's
    extractor does, only `ExtractionError` subclasses escape — every other exception is logged and
    the next attachment is processed. -/
def attachmentAssumptions : List (List Char) :=
  ["next:self.attachments".toList, "stmt:MIME_TYPE_MAPPING.get".toList, "stmt:attachment.data.seek".toList]

theorem attachments_decided :
    onlyFamily (escapes root isFam none (assumeTotal attachmentAssumptions iterate_supported_attachments)) = true := by decide

theorem C01_attachments (otherSub : String → String → Bool) (tr : List Ch) (e : Exn)
    (hex : Exec (hier otherSub) isFam root none (assumeTotal attachmentAssumptions iterate_supported_attachments) tr (.raised e)) :
    ∃ c, e = .fam c ∧ isFam c = true := by
  obtain ⟨hwf, hmem⟩ := escapes_sound (hier_ok otherSub) hex none (by simp [CurOk]) (by intro e0 h; cases h) e rfl
  cases e with
  | fam c => exact ⟨c, rfl, hwf.1⟩
  | other n =>
    have hdec := attachments_decided
    simp only [Abs.mem] at hmem
    simp only [onlyFamily, hmem] at hdec
    cases hdec

/-- archive members: stronger than `member_decided` — nothing at all escapes `_process_archive_entry` -/
theorem member_nothing_escapes : (escapes root isFam none process_archive_entry == Abs.empty) = true := by decide

/-! ## CLI discipline

`cli_main = argument handling ; try <everything that touches the file> except Exception: …`.
`cliBody` is the last statement of the function (the `try`), `cliPrefix` what precedes it (parser
construction and argument errors — no input file involved). -/

def lastOf : Stmt → Stmt
  | .seq _ b => lastOf b
  | s => s

def prefixOf : Stmt → Stmt
  | .seq a b => match b with
    | .seq _ _ => .seq a (prefixOf b)
    | _ => a
  | _ => .atom "skip" true

def cliBody : Stmt := lastOf cli_main
def cliPrefix : Stmt := prefixOf cli_main

/-- the two outcomes the property allows for an input file -/
def cliAllowed (b : Beh) : Bool :=
  (b.k == .ret "0" && b.o ≥ 1 && b.e == 0) || (b.k == .ret "1" && b.o == 0 && b.e == 1)

/-- decided on the current skeleton: every abstract behaviour of the file-handling part of
    `cli.main` is one of the two allowed ones -/
theorem cli_decided : (behav root isFam [] cliBody).all cliAllowed = true := by decide

/-- argument handling never writes to stdout -/
theorem cli_prefix_silent : (behav root isFam [] cliPrefix).all (fun b => b.o == 0) = true := by decide

/-- **C01 (CLI)**: whatever the extractors and serialisers do (complete or raise anything, at any
    point), a run of the file-handling part of `cli.main` either returns 0 having written to stdout
    and nothing to stderr, or returns 1 having written nothing to stdout and exactly one message to
    stderr.  (Before the fix `35d0ebd` the skeleton contained a stdout write that could fail after a
    partial write, and `cli_decided` is false for it.) -/
theorem C01_cli (otherSub : String → String → Bool) (tr : List Ch) (o : Out)
    (hex : Exec (hier otherSub) isFam root none cliBody tr o) :
    (o = .ret "0" ∧ 1 ≤ countCh .out tr ∧ countCh .err tr = 0) ∨
    (o = .ret "1" ∧ countCh .out tr = 0 ∧ countCh .err tr = 1) := by
  have hb := behav_sound (hier_ok otherSub) hex [] (by simp [CurK]) (by intro e0 h; cases h)
  have hall := List.all_eq_true.mp cli_decided _ hb
  simp only [cliAllowed, behOf, Bool.or_eq_true, Bool.and_eq_true, beq_iff_eq, decide_eq_true_eq] at hall
  have sat0 : ∀ n, sat n = 0 → n = 0 := by intro n h; unfold sat at h; split at h <;> omega
  have sat1 : ∀ n, sat n = 1 → n = 1 := by intro n h; unfold sat at h; split at h <;> omega
  have satge : ∀ n, 1 ≤ sat n → 1 ≤ n := by intro n h; unfold sat at h; split at h <;> omega
  have kret : ∀ g, kindOf o = .ret g → o = .ret g := by
    intro g h
    cases o with
    | ret t => simp only [kindOf] at h; cases h; rfl
    | raised e => cases e <;> simp [kindOf] at h
    | _ => simp [kindOf] at h
  rcases hall with ⟨⟨hk, ho⟩, he⟩ | ⟨⟨hk, ho⟩, he⟩
  · left; exact ⟨kret _ hk, satge _ (of_decide_eq_true ho), sat0 _ he⟩
  · right; exact ⟨kret _ hk, sat0 _ ho, sat1 _ he⟩

/-- the old shape (write that may fail midway, inside the try) is rejected by the analysis -/
example : (behav root isFam [] (.try_ (.seq (.write .out false) (.ret "0"))
    [(["Exception"], .seq (.write .err true) (.ret "1"))] (.atom "skip" true))).all cliAllowed = false := by decide

/-! ## Non-vacuity: the semantics does let a wrapper fail, and the analysis is not trivially empty -/
example : (escapes root isFam none read_docx).famAll = true := by decide
example : Exec (hier fun _ _ => false) isFam root none
    (.try_ (.atom "parse" false) [(["ExtractionError"], .reraise), (["Exception"], .raise_ "ExtractionFailedError")] (.atom "skip" true))
    ([] ++ [] ++ []) (if Out.normal = Out.normal then .raised (.fam "ExtractionFailedError") else .normal) :=
  Exec.tryCaught (pre := [(["ExtractionError"], .reraise)]) (h := (["Exception"], .raise_ "ExtractionFailedError")) (post := [])
    (Exec.atomRaise (e := .other "ValueError") trivial)
    (by decide) (by decide)
    (Exec.raiseFam (by decide)) Exec.atomOk
/-- an unwrapped parser call would be flagged -/
example : onlyFamily (escapes root isFam none (.seq (.atom "parse" false) .yield_)) = false := by decide

end S2T.C01
