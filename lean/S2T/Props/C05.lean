import S2T.Lemmas.SerialMore
import S2T.Gen.Schema
import S2T.Props.C05_History
import S2T.Props.C05_Streams
import S2T.Props.C05_Codec
import S2T.Props.C05_Ctor
/-!
# C05 — `to_json` is JSON-serialisable and `from_json` restores the same object

Model: `S2T/Model/Serial.lean` (`ser` = `_serialize_for_json`, `deserValue` = `_deserialize_value`, …),
spec predicates: `S2T/Spec/Serial.lean`.  The theorems are proved for **every** class table `S`
satisfying the decidable `SchemaOk`, every value (unbounded depth / width / string length) and every
declared type; `SchemaOk` is re-decided by the kernel on the schema regenerated from the source
(`S2T.Gen.Schema.schema`: every dataclass the reflective registry finds, ordered fields, resolved hints,
defaults, `__post_init__` strips).

The transport `json.loads(json.dumps(j)) = j` for `isJson j` is CPython's (assumed; exercised by the
harness oracle on every case), so `from_json(json.loads(json.dumps(x.to_json())))` is
`deserializeExtraction (serializeExtraction true x)` whenever `C05_jsonable` applies.

FULL-STRENGTH STATEMENT (false on the current tree — see `C05_cex_*`):
  for every instance `v` of a registered dataclass whose fields are populated according to their type
  hints (with `Any` = any value at all) and every `include_binary`:
  `isJson (to_json v)` ∧ `from_json (to_json v)` is an instance of the same class with the same `to_json`.
What is proved instead (`C05_roundtrip_partial`): the same for every `v` with `WellTyped S ty v`, where
`WellTyped` differs from plain well-typedness in exactly one clause: a **dict standing in a position that
is not declared `Dict[...]`** (an `Any` cell, a `str | None` field, …) must not have a key whose `str()` is
`_type`, `_bytes` or `_bytesio`  (known findings `serial.bytes-marker-in-untyped-dict`,
`serial.type-marker-in-untyped-dict`; not producible by any extractor: their `Any` cells are scalars).
Dicts in positions declared `Dict[...]` (XLS rows keyed by header cells, HTML/EPUB link dicts) are
unrestricted after fix `typed-dict-before-markers`.  `C05_jsonable` needs `noForeign`; that the XLSX
extractor only produces such cells is `C05_cell_json` (after fix `xlsx-cell-json-types`).
-/
namespace S2T.C05
open S2T.Serial

/-! ## the generated schema satisfies the side conditions (re-decided on every run) -/

theorem gen_schema_ok : SchemaOk S2T.Gen.Schema.schema = true := by decide +kernel

/-- the translator's cross-checks (registry = dataclasses of `data_types`, every `__post_init__` understood,
no `init=False` field, every field hinted) found nothing -/
theorem gen_notes_empty : S2T.Gen.Schema.notes = [] := by decide

/-- the marker keys used by the source are exactly the model's -/
theorem gen_markers :
    (S2T.Gen.Schema.markerKeys.all markers.contains && markers.all S2T.Gen.Schema.markerKeys.contains) = true := by
  decide +kernel

theorem gen_type_key : S2T.Gen.Schema.typeKey = kType := by decide +kernel

/-- `str.isspace` code points at runtime = the model's `strip` set -/
theorem gen_whitespace : S2T.Gen.Schema.whitespace = pyWhitespace := by decide +kernel

/-- the cell types turned into ISO strings are the three the model's `Cell` has constructors for -/
theorem gen_cell_iso_types :
    S2T.Gen.Schema.cellIsoTypes = ["datetime".toList, "date".toList, "time".toList] := by decide +kernel

/-! ## JSON-ability -/

/-- `to_json()` / `serialize_extraction(x, include_binary=b)` of anything free of foreign values is accepted by the
standard JSON encoder and survives `json.loads ∘ json.dumps` unchanged. No typing hypothesis. -/
theorem C05_jsonable (b : Bool) (v : PyVal) (h : noForeign v = true) : isJson (serializeExtraction b v) = true := by
  have hj := isJson_ser b v h
  unfold serializeExtraction
  split
  · rename_i kvs hk; rw [hk] at hj; exact hj
  · simp [isJson, isJsonKVs, keysNodup, hj]

example : noForeign (.obj "XlsxSheet".toList [("data".toList, .list [.list [.float "1.5".toList, .str "1 day, 6:00:00".toList]])]) = true := by
  decide

/-! ## round trip -/
section generic
variable {S : Schema}

/-- every position: deserialising the serialised value gives its canonical form, and the canonical form
serialises to the same JSON -/
theorem C05_roundtrip_value (hS : SchemaOk S = true) (ty : Ty) (v : PyVal) (h : WellTyped S ty v = true) :
    deserValue S ty (ser true v) = .ok (canon S ty v) ∧ ser true (canon S ty v) = ser true v :=
  ⟨deser_ser hS v ty h, ser_canon v ty⟩

/-- **`from_json(to_json(x))`** for a dataclass instance `x`: succeeds, gives an instance of the *same class*
with the *same field names*, whose `to_json()` is *identical*, and which is exactly `canon x`. -/
theorem C05_roundtrip_partial (hS : SchemaOk S = true) (c : Str) (fs : List (Str × PyVal))
    (h : WellTyped S .any (.obj c fs) = true) :
    ∃ fs', deserializeExtraction S (serializeExtraction true (.obj c fs)) = .ok (.obj c fs')
      ∧ fs'.map (·.1) = fs.map (·.1)
      ∧ serializeExtraction true (.obj c fs') = serializeExtraction true (.obj c fs)
      ∧ PyVal.obj c fs' = canon S .any (.obj c fs) := by
  have hwt := h
  simp only [WellTyped, unwrapOpt] at h
  cases hf : S.find c with
  | none => simp [hf] at h
  | some C =>
    simp [hf] at h
    obtain ⟨⟨_, hnames⟩, _⟩ := h
    obtain ⟨J, hJ, h1, h2, h3⟩ := ser_obj_shape hS c fs C hf hnames
    have hcanon : canon S .any (.obj c fs) = .obj c (canonFields S C fs) := by simp [canon, hf]
    refine ⟨canonFields S C fs, ?_, ?_, ?_, hcanon.symm⟩
    · rw [serializeExtraction_obj, hJ, deserializeExtraction_of_deserValue J h1 h2 (by simp [h3]), ← hJ,
        deser_ser hS _ _ hwt, hcanon]
    · simp [canonFields_eq, List.map_map, Function.comp_def]
    · rw [serializeExtraction_obj, serializeExtraction_obj, ← hcanon]
      exact ser_canon _ _

/-- **the round trip in every reachable process state**: after ANY history `pre` of `to_json` / `from_json` calls on
any arguments (JSON of other types, written by this or another process, failing calls, …) in a process started with
an empty registry, `from_json` of the JSON of `x` rebuilds `x` exactly as `C05_roundtrip_partial` says.  (State
machine: `S2T/Model/SerialState.lean`; its tie to the source: `History.gen_state_sites_ok` + the fresh-process
history correspondence of the harness.) -/
theorem C05_roundtrip_any_history (hS : SchemaOk S = true) (pre : List S2T.SerialState.Op) (c : Str) (fs : List (Str × PyVal))
    (h : WellTyped S .any (.obj c fs) = true) :
    ∃ fs', (S2T.SerialState.run S .pure [] (pre ++ [.fromJson (serializeExtraction true (.obj c fs))])).getLast?
        = some (.back (.ok (.obj c fs')))
      ∧ fs'.map (·.1) = fs.map (·.1)
      ∧ serializeExtraction true (.obj c fs') = serializeExtraction true (.obj c fs)
      ∧ PyVal.obj c fs' = canon S .any (.obj c fs) := by
  obtain ⟨fs', h1, h2, h3, h4⟩ := C05_roundtrip_partial hS c fs h
  refine ⟨fs', ?_, h2, h3, h4⟩
  rw [History.C05_after_any_history]
  simp [S2T.SerialState.stateless, h1]

/-- … and `to_json` after any history is the stateless serialiser -/
theorem C05_to_json_any_history (pre : List S2T.SerialState.Op) (b : Bool) (v : PyVal) :
    (S2T.SerialState.run S .pure [] (pre ++ [.toJson b v])).getLast? = some (.json (serializeExtraction b v)) := by
  rw [History.C05_after_any_history]; rfl

/-- image / attachment payloads: a binary leaf in any traversed position comes back as the same bytes
(`bytearray` as `bytes`), whatever the declared type of the position -/
theorem C05_binary_restored (ty : Ty) (bs : List Nat) :
    canon S ty (.bytes bs) = .bytes bs ∧ canon S ty (.bytesio bs) = .bytesio bs
      ∧ canon S ty (.bytearray bs) = .bytes bs := by
  simp [canon]

/-- … in particular every binary field of the instance itself -/
theorem C05_binary_fields (c : Str) (fs : List (Str × PyVal))
    (h : WellTyped S .any (.obj c fs) = true) (n : Str) (bs : List Nat) :
    ((n, PyVal.bytes bs) ∈ fs → ∃ fs', canon S .any (.obj c fs) = .obj c fs' ∧ (n, PyVal.bytes bs) ∈ fs')
    ∧ ((n, PyVal.bytesio bs) ∈ fs → ∃ fs', canon S .any (.obj c fs) = .obj c fs' ∧ (n, PyVal.bytesio bs) ∈ fs') := by
  simp only [WellTyped, unwrapOpt] at h
  cases hf : S.find c with
  | none => simp [hf] at h
  | some C =>
    have hcanon : canon S .any (.obj c fs) = .obj c (canonFields S C fs) := by simp [canon, hf]
    constructor
    · intro hm
      refine ⟨_, hcanon, ?_⟩
      rw [canonFields_eq]
      exact List.mem_map.mpr ⟨(n, .bytes bs), hm, by simp [canon]⟩
    · intro hm
      refine ⟨_, hcanon, ?_⟩
      rw [canonFields_eq]
      exact List.mem_map.mpr ⟨(n, .bytesio bs), hm, by simp [canon]⟩

/-- **image / attachment streams of the rebuilt object, in every reachable process state and after any later
history**: in ANY heap state `st` (whatever was restored, read, closed before), `from_json(to_json(x))` hands out
one new stream per `io.BytesIO` leaf of `canon x`; after ANY history `mid` of further `from_json` calls and of reads /
closes / rewinds of other streams (of this or of any other restored object), reading the `i`-th one returns its whole
payload.  (Heap: `S2T/Model/SerialHeap.lean`; tie of the decoder to the source: `Streams.gen_alloc_sites_ok`,
`History.gen_state_cells` + the consumption histories of the harness.) -/
theorem C05_restored_streams_any_history (hS : SchemaOk S = true) (c : Str) (fs : List (Str × PyVal))
    (h : WellTyped S .any (.obj c fs) = true) (st : S2T.SerialHeap.State) (i : Nat) (mid : List S2T.SerialHeap.HOp)
    (hi : i < (S2T.SerialHeap.leaves (canon S .any (.obj c fs))).length)
    (hmid : ∀ op ∈ mid, S2T.SerialHeap.touches (st.heap.length + i) op = false) :
    S2T.SerialHeap.restoredLeaves S (serializeExtraction true (.obj c fs)) = S2T.SerialHeap.leaves (canon S .any (.obj c fs))
    ∧ (S2T.SerialHeap.heapStep
        (S2T.SerialHeap.hrun .fresh (S2T.SerialHeap.hstep .fresh st
          (.restore (S2T.SerialHeap.restoredLeaves S (serializeExtraction true (.obj c fs))))) mid).heap
        (st.heap.length + i) .read).1 = .ok (S2T.SerialHeap.leaves (canon S .any (.obj c fs)))[i] := by
  obtain ⟨fs', h1, _, _, h4⟩ := C05_roundtrip_partial hS c fs h
  have hl : S2T.SerialHeap.restoredLeaves S (serializeExtraction true (.obj c fs))
      = S2T.SerialHeap.leaves (canon S .any (.obj c fs)) := by
    simp [S2T.SerialHeap.restoredLeaves, h1, h4]
  rw [hl]
  exact ⟨rfl, (Streams.C05_read_after_any_history st _ i hi mid hmid).1⟩

private theorem mem_leavesFields (n : Str) (bs : List Nat) : ∀ fs : List (Str × PyVal),
    (n, PyVal.bytesio bs) ∈ fs → bs ∈ S2T.SerialHeap.leavesFields fs := by
  intro fs
  induction fs with
  | nil => intro hm; cases hm
  | cons f fs ih =>
    intro hm
    obtain ⟨m, v⟩ := f
    simp only [S2T.SerialHeap.leavesFields, List.mem_append]
    rcases List.mem_cons.mp hm with he | hm
    · left
      have : v = PyVal.bytesio bs := by cases he; rfl
      subst this
      simp [S2T.SerialHeap.leaves]
    · exact Or.inr (ih hm)

/-- … and every `io.BytesIO` field of `x` is one of those streams (the hypothesis `hi` above is satisfiable) -/
theorem C05_stream_fields (c : Str) (fs : List (Str × PyVal)) (h : WellTyped S .any (.obj c fs) = true) (n : Str) (bs : List Nat)
    (hm : (n, PyVal.bytesio bs) ∈ fs) : bs ∈ S2T.SerialHeap.leaves (canon S .any (.obj c fs)) := by
  obtain ⟨fs', hc, hm'⟩ := (C05_binary_fields c fs h n bs).2 hm
  rw [hc]
  simp only [S2T.SerialHeap.leaves]
  exact mem_leavesFields n bs fs' hm'

/-- the serialiser is idempotent: what `to_json` returns is plain data -/
theorem C05_to_json_plain (b : Bool) (v : PyVal) : ser b (ser true v) = ser true v := ser_ser b v

end generic

/-- the round trip on the current source's schema -/
theorem C05_roundtrip_current (c : Str) (fs : List (Str × PyVal))
    (h : WellTyped S2T.Gen.Schema.schema .any (.obj c fs) = true) :
    ∃ fs', deserializeExtraction S2T.Gen.Schema.schema (serializeExtraction true (.obj c fs)) = .ok (.obj c fs')
      ∧ fs'.map (·.1) = fs.map (·.1)
      ∧ serializeExtraction true (.obj c fs') = serializeExtraction true (.obj c fs)
      ∧ PyVal.obj c fs' = canon S2T.Gen.Schema.schema .any (.obj c fs) :=
  C05_roundtrip_partial gen_schema_ok c fs h

/-! ### the hypotheses are satisfiable by non-trivial values (and hold for content that looks like markers) -/

/-- an XLS sheet whose header cells are `_bytes` / `_type` (content in a `Dict[str, Any]` position) -/
def xlsSheetMarkerHeaders : PyVal :=
  .obj "XlsSheet".toList [
    ("name".toList, .str "_type".toList),
    ("data".toList, .list [.dict [(.str "_bytes".toList, .str "aGk=".toList), (.str "_type".toList, .str "XlsSheet".toList),
                                  (.int 7, .float "2.5".toList)]]),
    ("text".toList, .str "_bytesio".toList)]

example : WellTyped S2T.Gen.Schema.schema .any xlsSheetMarkerHeaders = true := by decide +kernel

/-- an e-mail with an attachment payload, a tuple where a list is declared and nested dataclasses -/
def emailWithAttachment : PyVal :=
  .obj "EmailAttachment".toList [
    ("filename".toList, .str "a.bin".toList), ("mime_type".toList, .str "application/x".toList),
    ("data".toList, .bytesio [0, 255, 104, 105]), ("is_supported_mime_type".toList, .bool false)]

example : WellTyped S2T.Gen.Schema.schema .any emailWithAttachment = true := by decide +kernel

example : deserializeExtraction S2T.Gen.Schema.schema (serializeExtraction true emailWithAttachment)
    = .ok emailWithAttachment := by rfl

/-! ## excluding binary payloads -/

/-- `include_binary=False` serialises exactly the value in which the binary leaves (`bytes`, `bytearray`,
`BytesIO`) are `None` — nothing else differs -/
theorem C05_nobinary (v : PyVal) : serializeExtraction false v = serializeExtraction true (dropBinary v) := by
  simp [serializeExtraction, ser_false]

example : serializeExtraction false emailWithAttachment
    = .dict [(.str kType, .str "EmailAttachment".toList), (.str "filename".toList, .str "a.bin".toList),
             (.str "mime_type".toList, .str "application/x".toList), (.str "data".toList, .none),
             (.str "is_supported_mime_type".toList, .bool false)] := by rfl

/-! ## CLI payload shape -/

/-- one result: the JSON object `serialize_extraction` gives -/
theorem C05_cli_one (b : Bool) (r : PyVal) :
    cliResults b [r] = serializeExtraction b r ∧ ∃ kvs, cliResults b [r] = .dict kvs := by
  refine ⟨rfl, ?_⟩
  simp only [cliResults, serializeExtraction]
  split
  · exact ⟨_, rfl⟩
  · exact ⟨_, rfl⟩

/-- zero or several results: an array of those objects, in order -/
theorem C05_cli_many (b : Bool) (rs : List PyVal) (h : rs.length ≠ 1) :
    cliResults b rs = .list (rs.map (serializeExtraction b)) := by
  match rs, h with
  | [], _ => rfl
  | [_], h => simp at h
  | _ :: _ :: _, _ => rfl

theorem C05_cli_units_one (b : Bool) (units : PyVal → List PyVal) (r : PyVal) :
    cliUnitResults b units [r] = .list ((units r).map (serializeExtraction b)) := rfl

theorem C05_cli_units_many (b : Bool) (units : PyVal → List PyVal) (rs : List PyVal) (h : rs.length ≠ 1) :
    cliUnitResults b units rs = .list (rs.map (fun r => .list ((units r).map (serializeExtraction b)))) := by
  match rs, h with
  | [], _ => rfl
  | [_], h => simp at h
  | _ :: _ :: _, _ => rfl

/-- without `--binary` the `--json` payload is the payload of the results with exactly their binary leaves set to
`None` — for one result and for several -/
theorem C05_cli_nobinary (rs : List PyVal) : cliResults false rs = cliResults true (rs.map dropBinary) := by
  match rs with
  | [] => rfl
  | [r] => simp [cliResults, C05_nobinary]
  | r :: r' :: rs => simp [cliResults, C05_nobinary, Function.comp_def]

/-- … and so is the `--json-unit` payload (units of every result) -/
theorem C05_cli_units_nobinary (units : PyVal → List PyVal) (rs : List PyVal) :
    cliUnitResults false units rs = cliUnitResults true (fun r => (units r).map dropBinary) rs := by
  match rs with
  | [] => rfl
  | [r] => simp [cliUnitResults, C05_nobinary, Function.comp_def]
  | r :: r' :: rs => simp [cliUnitResults, C05_nobinary, Function.comp_def]

/-- every flag combination of `cli.main`: the payload with `--binary` absent is the payload with `--binary` of the
binary-free results / units -/
theorem C05_cli_payload_nobinary (jsonUnit : Bool) (units : PyVal → List PyVal) (rs : List PyVal) :
    cliPayload jsonUnit false units rs = cliPayload jsonUnit true (fun r => (units r).map dropBinary) (if jsonUnit then rs else rs.map dropBinary) := by
  cases jsonUnit
  · simp [cliPayload, C05_cli_nobinary]
  · simp [cliPayload, C05_cli_units_nobinary]

/-- the model is the plumbing `passed` -/
theorem C05_cli_plumbing (b : Bool) (rs : List PyVal) : cliResultsWith .passed b rs = cliResults b rs := by
  match rs with
  | [] => rfl
  | [r] => rfl
  | r :: r' :: rs => rfl

/-- why `Streams.gen_flag_sites_ok` is an obligation (the shape of seeded change C05/flag dropped for several results): a
several-results branch that mentions the serialiser without the keyword prints the payloads although `--binary` is
absent — for two results, not for one -/
theorem C05_cex_cli_flag_dropped :
    (render (cliResultsWith .droppedForSeveral false [emailWithAttachment, emailWithAttachment])
        == render (cliResults false [emailWithAttachment, emailWithAttachment])) = false
    ∧ cliResultsWith .droppedForSeveral false [emailWithAttachment] = cliResults false [emailWithAttachment]
    ∧ (render (cliResultsWith .droppedForSeveral false [emailWithAttachment, emailWithAttachment])
        == render (cliResults true [emailWithAttachment, emailWithAttachment])) = true := by
  refine ⟨by decide +kernel, rfl, by decide +kernel⟩

/-! ## spreadsheet cells -/

/-- whatever openpyxl hands over, `_get_cell_value` returns a JSON scalar -/
theorem C05_cell_json (c : Cell) : noForeign (cellValue c) = true ∧ isJson (cellValue c) = true := by
  cases c <;> simp [cellValue, noForeign, isJson]

/-- … so a sheet's rows (`XlsxSheet.data`) are free of foreign values -/
theorem C05_sheet_rows_json (rows : List (List Cell)) :
    noForeign (.list (rows.map (fun r => .list (r.map cellValue)))) = true := by
  simp only [noForeign]
  induction rows with
  | nil => simp [noForeignList]
  | cons r rows ih =>
    simp only [List.map_cons, noForeignList, noForeign, ih, Bool.and_true]
    induction r with
    | nil => simp [noForeignList]
    | cons c r ihr => simp [noForeignList, (C05_cell_json c).1, ihr]

example : cellValue (.timedelta "1 day, 6:00:00".toList) = .str "1 day, 6:00:00".toList := rfl

/-! ## counterexamples: why the hypotheses are there -/

/-- decidable: `from_json(to_json(v))` fails, or gives an object whose `to_json` is different -/
def roundTripBreaks (S : Schema) (v : PyVal) : Bool :=
  match deserializeExtraction S (serializeExtraction true v) with
  | .ok w => !(render (serializeExtraction true w) == render (serializeExtraction true v))
  | .error _ => true

theorem roundTripBreaks_sound (S : Schema) (v : PyVal) (h : roundTripBreaks S v = true) :
    ¬ ∃ w, deserializeExtraction S (serializeExtraction true v) = .ok w
        ∧ serializeExtraction true w = serializeExtraction true v := by
  rintro ⟨w, hw, he⟩
  simp [roundTripBreaks, hw, he] at h

/-- known finding `serial.bytes-marker-in-untyped-dict`: content `{"_bytes": "aGk=", "b": 2}` in an `Any` cell
comes back as `b'hi'` -/
def cexBytesMarker : PyVal :=
  .obj "TableData".toList [("data".toList, .list [.list [.dict [(.str "_bytes".toList, .str "aGk=".toList), (.str "b".toList, .int 2)]]])]

theorem C05_cex_bytes_marker :
    WellTyped S2T.Gen.Schema.schema .any cexBytesMarker = false
    ∧ deserializeExtraction S2T.Gen.Schema.schema (serializeExtraction true cexBytesMarker)
        = .ok (.obj "TableData".toList [("data".toList, .list [.list [.bytes [104, 105]]])])
    ∧ roundTripBreaks S2T.Gen.Schema.schema cexBytesMarker = true := by
  refine ⟨by decide +kernel, by rfl, by decide +kernel⟩

/-- known finding `serial.type-marker-in-untyped-dict`: content `{"_type": "TableDim", "rows": 3}` in an `Any` cell
is revived as a `TableDim` instance -/
def cexTypeMarker : PyVal :=
  .obj "TableData".toList [("data".toList, .list [.list [.dict [(.str "_type".toList, .str "TableDim".toList), (.str "rows".toList, .int 3)]]])]

/-- the cell of the rebuilt table is a dataclass instance -/
def cellIsObj : Except Err PyVal → Bool
  | .ok (.obj _ [(_, .list [.list [.obj _ _]])]) => true
  | _ => false

theorem C05_cex_type_marker :
    WellTyped S2T.Gen.Schema.schema .any cexTypeMarker = false
    ∧ cellIsObj (deserializeExtraction S2T.Gen.Schema.schema (serializeExtraction true cexTypeMarker)) = true
    ∧ roundTripBreaks S2T.Gen.Schema.schema cexTypeMarker = true := by
  refine ⟨by decide +kernel, by decide +kernel, by decide +kernel⟩

/-- `noForeign` is needed: a `datetime.timedelta` left in a cell is handed to the JSON encoder as is -/
theorem C05_cex_foreign :
    WellTyped S2T.Gen.Schema.schema .any
      (.obj "TableData".toList [("data".toList, .list [.list [.foreign "timedelta".toList]])]) = true
    ∧ isJson (serializeExtraction true
      (.obj "TableData".toList [("data".toList, .list [.list [.foreign "timedelta".toList]])])) = false := by
  refine ⟨by decide +kernel, by decide +kernel⟩

/-- the `__post_init__` clause of `WellTyped` is needed: a `PlainTextContent` whose `content` was assigned *after*
construction (so it is not stripped) comes back stripped -/
theorem C05_cex_post_init :
    let v : PyVal := .obj "PlainTextContent".toList [("content".toList, .str " x ".toList), ("metadata".toList, .none)]
    WellTyped S2T.Gen.Schema.schema .any v = false ∧ roundTripBreaks S2T.Gen.Schema.schema v = true := by
  refine ⟨by decide +kernel, by decide +kernel⟩

/-- the typing clause is needed: a `str` in a `bytes`-typed field is taken for base64 -/
theorem C05_cex_str_in_bytes_field :
    let v : PyVal := .obj "XlsImage".toList [("image_index".toList, .int 0), ("content_type".toList, .str "".toList),
      ("data".toList, .str "aGk=".toList), ("size_bytes".toList, .int 0), ("width".toList, .none), ("height".toList, .none)]
    WellTyped S2T.Gen.Schema.schema .any v = false ∧ roundTripBreaks S2T.Gen.Schema.schema v = true := by
  refine ⟨by decide +kernel, by decide +kernel⟩

end S2T.C05
