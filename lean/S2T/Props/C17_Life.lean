import S2T.Lemmas.HtmlBook
import S2T.Gen.HtmlSkip
import S2T.Gen.HtmlLife
/-!
# C17 (histories) — a removed element takes nothing else with it, ALSO not from the next document

`Props/C17.lean` is about one parser object and one document whose removed elements are all closed.  Here:

* a document may END inside a removed element (`Tail.unclosed`: trailing `<object>` / `<iframe>` / `<noscript>` without
  end tag, truncated chapter).  `chapter_visible_before_unclosed`: everything visible BEFORE it still reaches the
  class-specific part, nothing after it does — for all tables, downstreams, documents, contents.
* a HISTORY of documents (`readBook`: the chapters of an EPUB, the files / mail bodies one process reads): with a new parser
  object per document every document is read as if it were alone (`book_documents_independent`, `C17_book`,
  `C17_book_transparent`), whatever the other documents end with.
* that hypothesis — "a new object per document" — is NOT free: for the reader that keeps one object and re-initialises only
  the class-specific part (`Reuse.readBook`) the statement is false (`reuse_cex_*`) and holds exactly when no document
  ends inside a removed element (`reuse_partial`).  So it is tied to the source: `Gen/HtmlLife.lean` is the inventory of
  EVERY mention of the two parser classes in the package, and `gen_parser_sites_fresh` decides that each one is
  `v = Cls()` in a function body, never escaping, fed exactly once in the same loop nest, never `reset()`; that the
  classes carry no class-level (shared) state, no decorator, no `__new__` / `__getattr__` …; the harness drives
  multi-document histories through every reader and compares the object state after EVERY real `feed` with
  `run (init …)` on that feed's calls.
-/
namespace S2T.C17.Life
open S2T.HtmlSkip

section generic
variable {σ : Type} (T : Tables) (D : Down σ)

/-- **Unclosed removed element.** The class-specific part receives exactly the calls of the visible items before it. -/
theorem chapter_visible_before_unclosed (c : Chapter) (st : St σ) (h : ChapterOk T c = true) (hc : Clean st) :
    (run T D st c.events).down = D.feed st.down (downEvents c.doc) :=
  run_chapter_down T D c h st hc

/-- … and the gate is then still inside that element (which is why the object must not be used for another document) -/
theorem unclosed_leaves_gate_inside (t : Str) (a : Attrs) (junk : List Ev) (doc : Doc) (st : St σ)
    (h : ChapterOk T ⟨doc, .unclosed t a junk⟩ = true) (hc : Clean st) :
    (run T D st (Chapter.events ⟨doc, .unclosed t a junk⟩)).skipTag = some t ∧
    (run T D st (Chapter.events ⟨doc, .unclosed t a junk⟩)).skipDepth > 0 := by
  simp only [ChapterOk, Bool.and_eq_true] at h
  simp only [Chapter.events]
  rw [run_append, run_doc T D doc st h.1 hc]
  obtain ⟨k, hk⟩ := run_unclosed T D t a junk h.2 { st with down := D.feed st.down (downEvents doc) } hc
  rw [hk]
  exact ⟨rfl, by simp only []; omega⟩

/-- **Independence.** With a new parser per document, what is extracted from a document of a history is what is
    extracted from it alone — for ANY neighbours (no hypothesis on them at all). -/
theorem book_documents_independent (d0 : σ) (before after : List (List Ev)) (evs : List Ev) :
    (readBook T D d0 (before ++ evs :: after))[before.length]? = some (run T D (init d0) evs) := by
  simp [readBook]

/-- **C17 for a history.** Every document contributes exactly its visible items before its unclosed tail. -/
theorem C17_book (d0 : σ) (book : List Chapter) (h : book.all (ChapterOk T) = true) :
    (readBook T D d0 (book.map Chapter.events)).map (·.down) =
      book.map (fun c => D.feed d0 (downEvents c.doc)) := by
  simp only [readBook, List.map_map]
  apply List.map_congr_left
  intro c hc
  have := run_chapter_down T D c (List.all_eq_true.mp h c hc) (init d0) ⟨rfl, rfl⟩
  simpa [init] using this

/-- **Takes nothing else with it.** The history reads like the history with every removed element, comment and
    unclosed tail deleted. -/
theorem C17_book_transparent (d0 : σ) (book : List Chapter) (h : book.all (ChapterOk T) = true) :
    (readBook T D d0 (book.map Chapter.events)).map (·.down) =
      (readBook T D d0 ((book.map Chapter.strip).map Chapter.events)).map (·.down) := by
  have h' : (book.map Chapter.strip).all (ChapterOk T) = true := by
    simp only [List.all_map, List.all_eq_true, Function.comp] at *
    intro c hc; exact chapter_strip_ok T c (h c hc)
  rw [C17_book T D d0 book h, C17_book T D d0 _ h', List.map_map]
  apply List.map_congr_left
  intro c _
  simp [Chapter.strip, strip_downEvents]

/-- **The reused parser (partial).** Re-initialising only the class-specific part between documents is right exactly
    on histories in which no document ends inside a removed element. -/
theorem reuse_partial (d0 : σ) (book : List Chapter) (st : St σ) (hc : Clean st)
    (h : (book.all fun c => DocOk T c.doc && c.tail == Tail.complete) = true) :
    Reuse.readBook T D d0 st (book.map Chapter.events) = readBook T D d0 (book.map Chapter.events) :=
  reuse_eq_fresh T D d0 book st hc h

end generic

/-! ## On the tables of the current source -/
open S2T.Gen.HtmlSkip

theorem C17_epub_book (book : List Chapter) (h : book.all SpecChapterOk = true) :
    (readBook epubTables (Epub.down epubBlock) Epub.initState (book.map Chapter.events)).map (·.down) =
      book.map (fun c => (Epub.down epubBlock).feed Epub.initState (downEvents c.doc)) := by
  apply C17_book
  simp only [List.all_eq_true] at *
  intro c hc
  rw [specChapterOk_iff _ (by decide +kernel : TablesMatchSpec epubTables = true)]; exact h c hc

theorem C17_html_history (hist : List Chapter) (h : hist.all SpecChapterOk = true) :
    (readBook htmlTables (Tree.down htmlVoid) Tree.initState (hist.map Chapter.events)).map (·.down) =
      hist.map (fun c => (Tree.down htmlVoid).feed Tree.initState (downEvents c.doc)) := by
  apply C17_book
  simp only [List.all_eq_true] at *
  intro c hc
  rw [specChapterOk_iff _ (by decide +kernel : TablesMatchSpec htmlTables = true)]; exact h c hc

/-- visible / hidden for a history, both machines: the data that gets through for each document is its visible text
    before the unclosed tail, in order and multiplicity -/
theorem C17_book_visible (book : List Chapter) (h : book.all SpecChapterOk = true) :
    (readBook epubTables logDown [] (book.map Chapter.events)).map (fun s => dataOf s.down) =
      book.map (fun c => visibleData c.doc) ∧
    (readBook htmlTables logDown [] (book.map Chapter.events)).map (fun s => dataOf s.down) =
      book.map (fun c => visibleData c.doc) := by
  have key : ∀ T, TablesMatchSpec T = true →
      (readBook T logDown [] (book.map Chapter.events)).map (fun s => dataOf s.down) =
        book.map (fun c => visibleData c.doc) := by
    intro T hT
    have hb : book.all (ChapterOk T) = true := by
      simp only [List.all_eq_true] at *
      intro c hc; rw [specChapterOk_iff _ hT]; exact h c hc
    have := congrArg (List.map dataOf) (C17_book T logDown [] book hb)
    simp only [List.map_map] at this
    rw [show (fun s : St (List DEv) => dataOf s.down) = dataOf ∘ (fun s => s.down) from rfl, this]
    apply List.map_congr_left
    intro c _
    simp [logDown_feed, dataOf_downEvents]
  exact ⟨key _ (by decide +kernel), key _ (by decide +kernel)⟩

/-! ## The source really makes a new parser per document -/
open S2T.Gen.HtmlLife

theorem gen_life_notes_empty : S2T.Gen.HtmlLife.notes = [] := by decide

/-- every mention of a parser class in the package is `v = Cls()` in a function body: `v` bound once, never escaping,
    fed exactly once in the loop nest it was constructed in, never reset -/
theorem gen_parser_sites_fresh : sites.all (fun s => s.shape == "fresh-local-fed-once") = true := by decide +kernel

/-- the inventory is not blind: both classes are constructed somewhere -/
theorem gen_parser_sites_cover :
    sites.any (fun s => s.cls == "_HtmlTreeBuilder") = true ∧
    sites.any (fun s => s.cls == "_XhtmlTextExtractor") = true := by decide +kernel

/-- no state shared between parser objects and nothing wrapped around the classes: no class-level statement, no
    decorator / metaclass, no special method but `__init__`, `HTMLParser` the only base, and `__init__` reaches
    `HTMLParser.__init__` (which resets the tokeniser) -/
theorem gen_parser_classes_plain :
    htmlClassAttrs = [] ∧ epubClassAttrs = [] ∧ htmlDecorators = [] ∧ epubDecorators = [] ∧
    htmlDunders = ["__init__"] ∧ epubDunders = ["__init__"] ∧
    htmlBases = ["HTMLParser"] ∧ epubBases = ["HTMLParser"] ∧
    htmlInitResets ≠ [] ∧ epubInitResets ≠ [] := by decide +kernel

/-- ONE DRIVER.  The theorems quantify over the event sequence the machine receives, and the correspondence identifies
    that sequence with what `HTMLParser.feed` delivers for the document text.  That identification needs: nothing in the
    package but the two `handle_startendtag` methods (whose start+end expansion is the model's `.startend` case and is
    translated in `C17_Src`) calls a handler, takes one as a value or names one in a string.  A second driver — a tree
    walk over an XML parse, a pre-pass, a re-delivery of buffered text — decides on its own which calls the gate sees
    (e.g. it may skip the text that follows a removed element) and is outside every theorem of C17. -/
theorem gen_handlers_driven_by_feed_only :
    handlerCalls.all (fun c =>
      (c.2.1 == "_HtmlTreeBuilder.handle_startendtag" || c.2.1 == "_XhtmlTextExtractor.handle_startendtag") &&
      (c.2.2 == "handle_starttag" || c.2.2 == "handle_endtag")) = true := by decide +kernel

/-- NO SIDE DOOR.  The only methods of the two classes that can change a parser object's state are `__init__` and the
    handlers modelled in `Model/HtmlSkip.lean` (and translated in `C17_Src`): the getters and any helper are read-only, so
    the state the getters report is the state the modelled handlers built from the delivered calls. -/
theorem gen_state_written_by_modelled_handlers_only :
    stateWriters.all (fun m =>
      ["_HtmlTreeBuilder", "_XhtmlTextExtractor"].any (fun c =>
        ["__init__", "handle_starttag", "handle_endtag", "handle_startendtag", "handle_data", "handle_comment"].any
          (fun h => m == c ++ "." ++ h))) = true := by decide +kernel

/-- the two inventories are not blind -/
theorem gen_driver_inventory_cover :
    handlerCalls.length = 4 ∧ stateWriters.any (· == "_XhtmlTextExtractor.handle_data") = true ∧
    stateWriters.any (· == "_HtmlTreeBuilder.handle_starttag") = true := by decide +kernel

/-! ## Counterexamples for the reused parser (replayed on the real code by the harness: they hold on the source as
it is and fail as soon as a parser object's gate state survives into the next document) -/

private def p : Str := "p".toList
private def para (s : String) : List Item := [.open_ p [], .text s.toList, .close p]

/-- chapter 1 `<p>a</p><object data=x><param name=q><p>h`, chapter 2 `<p>b</p>` -/
def wBookObject : List Chapter :=
  [⟨para "a", .unclosed "object".toList [("data".toList, some "x".toList)]
      [.start "param".toList [("name".toList, some "q".toList)], .start p [], .data "h".toList]⟩,
   ⟨para "b", .complete⟩]
/-- chapter 1 ends in `<noscript><noscript>h</noscript>` (one of two closed), chapters 2 and 3 follow -/
def wBookNested : List Chapter :=
  [⟨para "a", .unclosed "noscript".toList [] [.start "noscript".toList [], .data "h".toList, .end_ "noscript".toList]⟩,
   ⟨para "b" ++ [.removed "script".toList [] [.data "x".toList]], .complete⟩, ⟨para "c", .complete⟩]

private def reuseKept (book : List Chapter) : List (List Str) :=
  (Reuse.readBook epubTables logDown [] (init []) (book.map Chapter.events)).map (fun s => dataOf s.down)

theorem reuse_cex_object :
    wBookObject.all SpecChapterOk = true ∧ wBookObject.map (fun c => visibleData c.doc) = [["a".toList], ["b".toList]] ∧
    reuseKept wBookObject = [["a".toList], []] := by decide +kernel
theorem reuse_cex_nested :
    wBookNested.all SpecChapterOk = true ∧
    wBookNested.map (fun c => visibleData c.doc) = [["a".toList], ["b".toList], ["c".toList]] ∧
    reuseKept wBookNested = [["a".toList], [], []] := by decide +kernel

/-! ## Non-vacuity -/
example : (wBookObject ++ wBookNested).all (ChapterOk epubTables) = true := by decide +kernel
example : (readBook epubTables logDown [] (wBookObject.map Chapter.events)).map (fun s => dataOf s.down) =
    [["a".toList], ["b".toList]] := by decide +kernel
-- `reuse_partial`'s hypothesis is satisfiable by a history with removed elements, and excludes each witness
example : (([⟨para "a" ++ [.removed "object".toList [] [.start p []]], .complete⟩, ⟨para "b", .complete⟩] : List Chapter).all
    fun c => DocOk epubTables c.doc && c.tail == Tail.complete) = true := by decide +kernel
example : (wBookObject.all fun c => DocOk epubTables c.doc && c.tail == Tail.complete) = false := by decide +kernel

end S2T.C17.Life
