import S2T.Model.Images
import S2T.Gen.Images
/-!
# C14 (part 1) — "however the package references it": reference resolution

Every resolver of the image paths agrees with `Spec.Opc.opcResolve` (RFC 3986 §5.2 for path-only
references) for **all** source directories and **all** targets; the laws `norm_*` pin the specification
itself down.  The functions these resolvers replaced (`…Old`) are kept with their counterexamples.
-/
namespace S2T.C14.Resolve
open S2T.Spec.Opc S2T.Images

/-! ## laws of the specification -/

theorem splitSlash_ne_nil (s : Str) : splitSlash s ≠ [] := by
  induction s with
  | nil => simp [splitSlash]
  | cons c r ih =>
    unfold splitSlash
    split
    · simp
    · split <;> simp

/-- `(a + "/" + b).split("/") = a.split("/") + b.split("/")` -/
theorem splitSlash_append (a b : Str) : splitSlash (a ++ '/' :: b) = splitSlash a ++ splitSlash b := by
  induction a with
  | nil => simp [splitSlash]
  | cons c r ih =>
    simp only [List.cons_append]
    rw [splitSlash.eq_2, splitSlash.eq_2]
    by_cases hc : c = '/'
    · simp [hc, ih]
    · simp only [hc, if_false, ih]
      cases hs : splitSlash r with
      | nil => exact absurd hs (splitSlash_ne_nil r)
      | cons s t => simp

/-- no segment produced by `split("/")` contains a slash; joining them back gives the string -/
theorem joinSlash_splitSlash (s : Str) : joinSlash (splitSlash s) = s := by
  induction s with
  | nil => simp [splitSlash, joinSlash]
  | cons c r ih =>
    unfold splitSlash
    by_cases hc : c = '/'
    · simp only [hc, if_true]
      cases hs : splitSlash r with
      | nil => exact absurd hs (splitSlash_ne_nil r)
      | cons s t => rw [hs] at ih; simp [joinSlash, ih]
    · simp only [hc, if_false]
      cases hs : splitSlash r with
      | nil => exact absurd hs (splitSlash_ne_nil r)
      | cons s t =>
        rw [hs] at ih
        cases t with
        | nil => simp [joinSlash] at ih ⊢; exact ih
        | cons t1 t2 => simp [joinSlash] at ih ⊢; exact ih

theorem joinSlash_append (a b : List Str) (ha : a ≠ []) (hb : b ≠ []) :
    joinSlash (a ++ b) = joinSlash a ++ '/' :: joinSlash b := by
  induction a with
  | nil => exact absurd rfl ha
  | cons s t ih =>
    cases t with
    | nil =>
      cases b with
      | nil => exact absurd rfl hb
      | cons b1 b2 => simp [joinSlash]
    | cons t1 t2 =>
      have := ih (by simp)
      simp only [List.cons_append] at this ⊢
      simp [joinSlash, this]

/-- `normSegs` continues where it stopped -/
theorem normSegs_append (acc xs ys : List Str) :
    normSegs acc (xs ++ ys) = normSegs (normSegs acc xs).reverse ys := by
  induction xs generalizing acc with
  | nil => simp [normSegs]
  | cons s r ih =>
    simp only [List.cons_append, normSegs]
    split
    · exact ih _
    · split
      · exact ih _
      · exact ih _

/-- **clean result**: the resolved name has no empty, `.` or `..` segment -/
theorem normSegs_clean (acc l : List Str) (hacc : ∀ s ∈ acc, isName s = true) :
    ∀ s ∈ normSegs acc l, isName s = true := by
  induction l generalizing acc with
  | nil => intro s hs; simp [normSegs] at hs; exact hacc s hs
  | cons x r ih =>
    unfold normSegs
    split
    · exact ih _ (fun s hs => hacc s (List.mem_of_mem_tail hs))
    · rename_i h1
      split
      · exact ih _ hacc
      · rename_i h2
        apply ih
        intro s hs
        rcases List.mem_cons.mp hs with rfl | hs
        · simp only [isName, Bool.and_eq_true, decide_eq_true_eq]
          simp only [not_or] at h2
          exact ⟨⟨h2.1, h2.2⟩, h1⟩
        · exact hacc s hs

theorem norm_clean (l : List Str) : ∀ s ∈ norm l, isName s = true :=
  normSegs_clean [] l (by simp)

/-- **names are kept**: a list of proper names is its own normal form -/
theorem normSegs_names (acc l : List Str) (hl : ∀ s ∈ l, isName s = true) :
    normSegs acc l = acc.reverse ++ l := by
  induction l generalizing acc with
  | nil => simp [normSegs]
  | cons x r ih =>
    have hx := hl x (by simp)
    simp only [isName, Bool.and_eq_true, decide_eq_true_eq] at hx
    unfold normSegs
    rw [if_neg hx.2, if_neg (by simp [hx.1.1, hx.1.2])]
    rw [ih _ (fun s hs => hl s (by simp [hs]))]
    simp

theorem norm_noDots (l : List Str) (hl : ∀ s ∈ l, isName s = true) : norm l = l := by
  simpa [norm] using normSegs_names [] l hl

/-- **`name/..` cancels** anywhere in the reference (RFC 3986 §5.2.4 step 2C) -/
theorem norm_cancel (xs ys : List Str) (s : Str) (hs : isName s = true) :
    norm (xs ++ s :: dotdot :: ys) = norm (xs ++ ys) := by
  simp only [isName, Bool.and_eq_true, decide_eq_true_eq] at hs
  unfold norm
  rw [normSegs_append, normSegs_append [] xs ys]
  generalize (normSegs [] xs).reverse = acc
  rw [normSegs.eq_2, if_neg hs.2, if_neg (by simp [hs.1.1, hs.1.2]), normSegs.eq_2, if_pos rfl]
  simp

/-- **`.` and empty segments disappear** anywhere (step 2B / doubled slashes) -/
theorem norm_skip (xs ys : List Str) (s : Str) (hs : s = [] ∨ s = dot) :
    norm (xs ++ s :: ys) = norm (xs ++ ys) := by
  unfold norm
  rw [normSegs_append, normSegs_append [] xs ys]
  generalize (normSegs [] xs).reverse = acc
  have h1 : s ≠ dotdot := by rcases hs with rfl | rfl <;> simp [dot, dotdot]
  rw [normSegs.eq_2, if_neg h1, if_pos hs]

/-- **`..` at the package root disappears** (the root has no parent) -/
theorem norm_root_dotdot (ys : List Str) : norm (dotdot :: ys) = norm ys := by
  simp [norm, normSegs]

/-- an absolute target ignores the source part -/
theorem opc_absolute (d d' t : Str) (ht : isAbsolute t = true) : opcResolve d t = opcResolve d' t := by
  simp [opcResolve, ht]

/-- a relative target made of proper names is appended to the source directory -/
theorem opc_plain (d t : Str) (ht : isAbsolute t = false)
    (hd : ∀ s ∈ splitSlash d, isName s = true) (hs : ∀ s ∈ splitSlash t, isName s = true) :
    opcResolve d t = d ++ '/' :: t := by
  simp only [opcResolve, ht, Bool.false_eq_true, if_false]
  rw [norm_noDots (splitSlash d ++ splitSlash t)
    (by intro s h; rcases List.mem_append.mp h with h | h; exact hd s h; exact hs s h)]
  rw [joinSlash_append _ _ (splitSlash_ne_nil d) (splitSlash_ne_nil t), joinSlash_splitSlash, joinSlash_splitSlash]

example : opcResolve "ppt/slides".toList "../media/image1.png".toList = "ppt/media/image1.png".toList := by decide +kernel
example : opcResolve "ppt/slides".toList "/ppt/media/i.png".toList = "ppt/media/i.png".toList := by decide +kernel
example : opcResolve "ppt/slides".toList "media/../../media/i.png".toList = "ppt/media/i.png".toList := by decide +kernel
example : opcResolve "word".toList "./media//a.png".toList = "word/media/a.png".toList := by decide +kernel
example : ∀ s ∈ splitSlash "media/a.png".toList, isName s = true := by decide +kernel

/-! ## the resolvers of the source -/

theorem popLoop_eq_normSegs (res l : List Str) : popLoop res l = normSegs res l := by
  induction l generalizing res with
  | nil => simp [popLoop, normSegs]
  | cons p r ih =>
    unfold popLoop normSegs
    by_cases h1 : p = dotdot
    · simp only [h1, if_true]
      cases res <;> simp [ih]
    · simp only [h1, if_false]
      by_cases h2 : p = [] ∨ p = dot
      · rw [if_pos h2, if_neg (by rcases h2 with h | h <;> simp [h])]
        exact ih _
      · rw [if_neg h2, if_pos (by simp only [not_or] at h2; exact h2)]
        exact ih _

/-- **C14_opc** — `zip_utils.resolve_part_target` is OPC resolution, for every source directory and target. -/
theorem C14_opc_resolve_part_target (d t : Str) : resolvePartTarget d t = opcResolve d t := by
  unfold resolvePartTarget opcResolve startsSlash isAbsolute norm
  split
  · rw [popLoop_eq_normSegs]
  · rw [popLoop_eq_normSegs, splitSlash_append]

/-- PPTX: the member read for a picture is the OPC resolution of the relationship target against the slide's directory -/
theorem C14_opc_pptx (slidePath t : Str) : pptxImagePath slidePath t = opcResolve (dirOf slidePath) t :=
  C14_opc_resolve_part_target _ _

/-- DOCX: … against `word/` (the directory of `word/document.xml`) -/
theorem C14_opc_docx (t : Str) : docxImagePath t = opcResolve "word".toList t :=
  C14_opc_resolve_part_target _ _

/-- XLSX: sheet → drawing (against `xl/worksheets/`) and drawing → image (against the drawing's directory) -/
theorem C14_opc_xlsx_drawing (t : Str) : xlsxDrawingPath t = opcResolve "xl/worksheets".toList t :=
  C14_opc_resolve_part_target _ _
theorem C14_opc_xlsx_image (t drawing : Str) : xlsxImagePath t drawing = opcResolve (dirOf drawing) t :=
  C14_opc_resolve_part_target _ _

/-- the directory of `dir/name` is `dir` (so `dirOf "ppt/slides/slide1.xml" = "ppt/slides"` for every such name) -/
theorem dirOf_join (dir name : Str) (hn : '/' ∉ name) : dirOf (dir ++ '/' :: name) = dir := by
  have hname : splitSlash name = [name] := by
    induction name with
    | nil => simp [splitSlash]
    | cons c r ih =>
      have hc : c ≠ '/' := fun h => hn (by simp [h])
      have hr : '/' ∉ r := fun h => hn (by simp [h])
      unfold splitSlash
      simp [hc, ih hr]
  unfold dirOf
  rw [splitSlash_append, hname, List.dropLast_concat, joinSlash_splitSlash]

/-- EPUB: manifest hrefs are resolved against the OPF directory (`opfDir` = `dir ++ "/"`, or `""` at the root) -/
theorem C14_opc_epub (dir href : Str) : epubResolve (dir ++ ['/']) href = opcResolve dir href := by
  unfold epubResolve opcResolve startsSlash isAbsolute norm
  rw [popLoop_eq_normSegs]
  split
  · simp
  · rw [show dir ++ ['/'] ++ href = dir ++ '/' :: href by simp, splitSlash_append]

theorem C14_opc_epub_root (href : Str) : epubResolve [] href = opcResolve [] href := by
  unfold epubResolve opcResolve startsSlash isAbsolute norm
  rw [popLoop_eq_normSegs]
  split
  · simp
  · simp only [List.nil_append, splitSlash.eq_1, List.cons_append]
    conv => rhs; rw [normSegs.eq_2]
    simp [dotdot]

/-- a reference stays inside the package: no `..` reaches above the root -/
def staysInside : List Str → List Str → Bool
  | _, [] => true
  | res, p :: r =>
    if p = dotdot then (match res with | [] => false | _ :: t => staysInside t r)
    else if p ≠ [] ∧ p ≠ dot then staysInside (p :: res) r
    else staysInside res r

theorem odfLoop_inside (res l : List Str) (h : staysInside res l = true) : odfLoop res l = some (normSegs res l) := by
  induction l generalizing res with
  | nil => simp [odfLoop, normSegs]
  | cons p r ih =>
    unfold odfLoop normSegs
    unfold staysInside at h
    by_cases h1 : p = dotdot
    · simp only [h1, if_true] at h ⊢
      cases res with
      | nil => simp at h
      | cons a t => simp at h ⊢; exact ih _ h
    · simp only [h1, if_false] at h ⊢
      by_cases h2 : p = [] ∨ p = dot
      · rw [if_pos h2]
        rw [if_neg (by rcases h2 with h' | h' <;> simp [h'])] at h ⊢
        exact ih _ h
      · rw [if_neg h2]
        rw [if_pos (by simp only [not_or] at h2; exact h2)] at h ⊢
        exact ih _ h

theorem odfLoop_outside (res l : List Str) (h : staysInside res l = false) : odfLoop res l = none := by
  induction l generalizing res with
  | nil => simp [staysInside] at h
  | cons p r ih =>
    unfold odfLoop
    unfold staysInside at h
    by_cases h1 : p = dotdot
    · simp only [h1, if_true] at h ⊢
      cases res with
      | nil => rfl
      | cons a t => simp at h ⊢; exact ih _ h
    · simp only [h1, if_false] at h ⊢
      by_cases h2 : p ≠ [] ∧ p ≠ dot
      · rw [if_pos h2] at h ⊢; exact ih _ h
      · rw [if_neg h2] at h ⊢; exact ih _ h

/-- ODF (odt / odp / ods / odg): a package-relative `xlink:href` that stays inside the package designates the
    member OPC-style resolution from the package root gives (`./Pictures/a.png`, `Pictures/x/../a.png`, …) -/
theorem C14_opc_odf (href : Str) (hrel : isAbsolute href = false) (hin : staysInside [] (splitSlash href) = true) :
    odfResolve href = opcResolve [] href := by
  have hrel' := hrel
  unfold isAbsolute at hrel'
  simp only [odfResolve, opcResolve, startsSlash, hrel, hrel', Bool.false_eq_true, if_false]
  rw [odfLoop_inside _ _ hin]
  simp only [norm, splitSlash.eq_1, List.cons_append, List.nil_append]
  rw [normSegs.eq_2]
  simp [dotdot]

/-- … and a reference that leaves the package (`../linked.png`, `/abs.png`: a linked file, not a member) is left alone -/
theorem C14_odf_outside (href : Str) (h : isAbsolute href = true ∨ staysInside [] (splitSlash href) = false) :
    odfResolve href = href := by
  unfold odfResolve startsSlash
  unfold isAbsolute at h
  rcases h with h | h
  · simp [h]
  · split
    · rfl
    · rw [odfLoop_outside _ _ h]

example : isAbsolute "./Pictures/a.png".toList = false ∧ staysInside [] (splitSlash "./Pictures/a.png".toList) = true := by decide +kernel
example : staysInside [] (splitSlash "../linked/a.png".toList) = false := by decide +kernel
example : odfResolve "./Pictures/a.png".toList = "Pictures/a.png".toList := by decide +kernel

/-! ## the functions before the fixes: the full-strength statement was false

    ∀ d t, pptxNormalizeOld d t = opcResolve d t          -- FALSE (absolute and mixed `..` targets)
    ∀ t, docxImagePathOld t = opcResolve "word" t          -- FALSE (absolute and parent-relative targets)
    ∀ t, xlsxImagePathOld t = opcResolve "xl/drawings" t   -- FALSE (sub-directories of media, sibling files)
    ∀ t, xlsxDrawingPathOld t = opcResolve "xl/worksheets" t   -- FALSE (`../../xl/drawings/…`)
    ∀ d h, epubResolveOld (d ++ "/") h = opcResolve d h    -- FALSE (`../images/a.png`)
    ∀ h, id h = opcResolve "" h   (ODF hrefs used verbatim) -- FALSE (`./Pictures/a.png`)
-/

/-- the old PPTX resolver glued an absolute target under the slide directory (the recorded defect) -/
theorem pptx_old_counterexample_absolute :
    pptxNormalizeOld "ppt/slides".toList "/ppt/media/i.png".toList = "ppt/slides/ppt/media/i.png".toList
    ∧ opcResolve "ppt/slides".toList "/ppt/media/i.png".toList = "ppt/media/i.png".toList := by decide +kernel

theorem pptx_old_counterexample_mixed :
    pptxNormalizeOld "ppt/slides".toList "media/../../media/i.png".toList = "ppt/slides/media/media/i.png".toList
    ∧ opcResolve "ppt/slides".toList "media/../../media/i.png".toList = "ppt/media/i.png".toList := by decide +kernel

theorem docx_old_counterexample :
    docxImagePathOld "/word/media/a.png".toList = "word//word/media/a.png".toList
    ∧ opcResolve "word".toList "/word/media/a.png".toList = "word/media/a.png".toList
    ∧ docxImagePathOld "../media/a.png".toList = "word/../media/a.png".toList
    ∧ opcResolve "word".toList "../media/a.png".toList = "media/a.png".toList := by decide +kernel

theorem xlsx_old_counterexample :
    xlsxImagePathOld "../media/sub/a.png".toList = "xl/media/a.png".toList
    ∧ opcResolve "xl/drawings".toList "../media/sub/a.png".toList = "xl/media/sub/a.png".toList
    ∧ xlsxImagePathOld "a.png".toList = "xl/media/a.png".toList
    ∧ opcResolve "xl/drawings".toList "a.png".toList = "xl/drawings/a.png".toList
    ∧ xlsxDrawingPathOld "../../xl/drawings/d.xml".toList = "xl/../xl/drawings/d.xml".toList
    ∧ opcResolve "xl/worksheets".toList "../../xl/drawings/d.xml".toList = "xl/drawings/d.xml".toList := by decide +kernel

theorem epub_old_counterexample :
    epubResolveOld "OEBPS/".toList "../images/a.png".toList = "OEBPS/../images/a.png".toList
    ∧ opcResolve "OEBPS".toList "../images/a.png".toList = "images/a.png".toList := by decide +kernel

theorem odf_old_counterexample :
    opcResolve [] "./Pictures/a.png".toList = "Pictures/a.png".toList ∧ "./Pictures/a.png".toList ≠ "Pictures/a.png".toList := by decide +kernel

/-- what the old PPTX resolver did get right: relative targets made of proper names -/
theorem pptx_old_partial (d t : Str) (ht : isAbsolute t = false)
    (hd : ∀ s ∈ splitSlash d, isName s = true) (hs : ∀ s ∈ splitSlash t, isName s = true) :
    pptxNormalizeOld d t = opcResolve d t := by
  rw [opc_plain d t ht hd hs]
  unfold pptxNormalizeOld startsSlash
  unfold isAbsolute at ht
  have hnd : ¬ dotdot ∈ splitSlash t := fun hc => by
    have := hs dotdot hc
    simp [isName] at this
  simp [ht, hnd]

/-- what the old DOCX concatenation did get right: the same targets -/
theorem docx_old_partial (t : Str) (ht : isAbsolute t = false) (hs : ∀ s ∈ splitSlash t, isName s = true) :
    docxImagePathOld t = opcResolve "word".toList t := by
  rw [opc_plain _ t ht (by decide +kernel) hs]
  simp [docxImagePathOld]

example : isAbsolute "media/image1.png".toList = false ∧ (∀ s ∈ splitSlash "media/image1.png".toList, isName s = true)
    ∧ (∀ s ∈ splitSlash "ppt/slides".toList, isName s = true) := by decide +kernel

/-! ## content types -/

/-- the extension → MIME tables of the three OOXML extractors give the raster types their registered names -/
def rasterOk (table : List (Str × Str)) : Bool :=
  lookupStr "png".toList table == some "image/png".toList
  && lookupStr "jpg".toList table == some "image/jpeg".toList
  && lookupStr "jpeg".toList table == some "image/jpeg".toList
  && lookupStr "gif".toList table == some "image/gif".toList
  && lookupStr "bmp".toList table == some "image/bmp".toList

theorem gen_ctype_tables_ok :
    rasterOk S2T.Gen.Images.ctype_docx = true ∧ rasterOk S2T.Gen.Images.ctype_pptx = true
    ∧ rasterOk S2T.Gen.Images.ctype_xlsx = true := by decide +kernel

/-- the translator found every table to be the literal the source shows -/
theorem gen_notes_empty : S2T.Gen.Images.notes = [] := by decide

/-- a target ending in `.<ext>` (no later dot, any letter case) gets the table's type for the lower-cased extension -/
theorem ctype_of_ext (table : List (Str × Str)) (stem ext : Str) (m : Str) (hdot : '.' ∉ ext)
    (hm : lookupStr (lowerAscii ext) table = some m) :
    ctypeByTarget table (stem ++ '.' :: ext) = m := by
  have : afterLastDot (stem ++ '.' :: ext) = ext := by
    unfold afterLastDot
    rw [List.reverse_append, List.reverse_cons]
    rw [show ext.reverse ++ ['.'] ++ stem.reverse = ext.reverse ++ ('.' :: stem.reverse) by simp]
    rw [List.takeWhile_append_of_pos (by intro c hc; simp at hc ⊢; intro h; exact hdot (h ▸ hc))]
    simp
  simp [ctypeByTarget, this, hm]

example : ctypeByTarget S2T.Gen.Images.ctype_pptx "../media/Image1.PNG".toList = "image/png".toList := by decide +kernel
example : ctypeByTarget S2T.Gen.Images.ctype_docx "media/x.webp".toList = "image/webp".toList := by decide +kernel
example : ctypeXlsx S2T.Gen.Images.ctype_xlsx "image1.jpeg".toList = "image/jpeg".toList := by decide +kernel

end S2T.C14.Resolve
