import S2T.Model.Setting
import S2T.Model.Cells
import S2T.Gen.GlobalWrites
/-!
# C15 §9 — sections that set interpreter-global settings; registries extended at import time

* an unsynchronised save / set / restore section (`S2T.Setting`) restores the setting when it runs ALONE, from any state
  and for any update function (`setting_section_alone_restores`);
* two overlapping sections are NOT isolated, for every original value `g` and every raised value `v > g`
  (`setting_overlap_not_isolated`, `setting_overlap_body_under_original`): the protocol can only be admitted behind a lock +
  user count (`S2T.Patch.Fixed`, §1);
* generated fact, re-decided from the current source on every run: NO function of the package — and no module at import
  time — calls a setter of an interpreter-global setting or extends an interpreter-wide registry
  (`inventory_no_setting_writers`, `inventory_no_import_time_registration`).
-/
namespace S2T.C15.Settings
open S2T.Setting S2T.Setting.Pc

private theorem step_save {upd : Nat → Nat} {s : St} {t l : Nat} (h : s.thr[t]? = some ⟨save, l⟩) :
    step upd s t = { s with thr := s.thr.set t ⟨.set, s.G⟩ } := by
  unfold step; rw [h]

private theorem step_set {upd : Nat → Nat} {s : St} {t l : Nat} (h : s.thr[t]? = some ⟨.set, l⟩) :
    step upd s t = { s with G := upd l, thr := s.thr.set t ⟨body, l⟩ } := by
  unfold step; rw [h]

private theorem step_body {upd : Nat → Nat} {s : St} {t l : Nat} (h : s.thr[t]? = some ⟨body, l⟩) :
    step upd s t = { s with obs := s.obs ++ [(t, s.G)], thr := s.thr.set t ⟨restore, l⟩ } := by
  unfold step; rw [h]

private theorem step_restore {upd : Nat → Nat} {s : St} {t l : Nat} (h : s.thr[t]? = some ⟨restore, l⟩) :
    step upd s t = { s with G := l, thr := s.thr.set t ⟨done, l⟩ } := by
  unfold step; rw [h]

/-- A section that runs alone (thread `t` takes its four steps in a row, whatever the other threads' states are) leaves the
    setting as it found it, and its body ran under `upd` of the value it found. -/
theorem setting_section_alone_restores (upd : Nat → Nat) (s : St) (t : Nat) (l : Nat)
    (h : s.thr[t]? = some ⟨save, l⟩) :
    (run upd s [t, t, t, t]).G = s.G ∧ (run upd s [t, t, t, t]).obs = s.obs ++ [(t, upd s.G)] := by
  have hl : t < s.thr.length := by
    rcases Nat.lt_or_ge t s.thr.length with h' | h'
    · exact h'
    · rw [List.getElem?_eq_none h'] at h; cases h
  let s1 : St := { s with thr := s.thr.set t ⟨.set, s.G⟩ }
  have h1 : s1.thr[t]? = some ⟨.set, s.G⟩ := by simp [s1, hl]
  let s2 : St := { s1 with G := upd s.G, thr := s1.thr.set t ⟨body, s.G⟩ }
  have h2 : s2.thr[t]? = some ⟨body, s.G⟩ := by simp [s2, s1, hl]
  let s3 : St := { s2 with obs := s2.obs ++ [(t, s2.G)], thr := s2.thr.set t ⟨restore, s.G⟩ }
  have h3 : s3.thr[t]? = some ⟨restore, s.G⟩ := by simp [s3, s2, s1, hl]
  have e : run upd s [t, t, t, t] = { s3 with G := s.G, thr := s3.thr.set t ⟨done, s.G⟩ } := by
    simp only [run, List.foldl]
    rw [step_save h, step_set h1, step_body h2, step_restore h3]
  rw [e]; simp [s3, s2, s1]

example : (init 1000 3).thr[1]? = some ⟨save, 0⟩ := by decide

/-- Full-strength statement FALSE for the unsynchronised protocol
    (`∀ sched, allDone (run upd (init g k) sched) → (run upd (init g k) sched).G = g`):
    A.enter B.enter A.exit B.exit — for EVERY original value `g` and EVERY raised value `v > g` the setting stays at `v`
    for the rest of the process … -/
theorem setting_overlap_not_isolated (g v : Nat) (h : g < v) :
    let s := run (raiseTo v) (init g 2) [0, 0, 1, 1, 0, 0, 1, 1]
    allDone s = true ∧ s.G = v ∧ s.G ≠ g := by
  have h2 : ¬ v < v := Nat.lt_irrefl v
  simp [run, step, init, raiseTo, allDone, h, h2, List.replicate]
  omega

/-- … and B's body ran under the ORIGINAL value `g` although it asked for `v` (A left in between):
    a document that needs the raised setting fails only when another extraction overlaps. -/
theorem setting_overlap_body_under_original (g v : Nat) (h : g < v) :
    (run (raiseTo v) (init g 2) [0, 0, 1, 1, 0, 0, 1, 1]).obs = [(0, v), (1, g)] := by
  have h2 : ¬ v < v := Nat.lt_irrefl v
  simp [run, step, init, raiseTo, h, h2, List.replicate]

/-- another overlap (A has only READ the setting when B enters; A then sets, extracts, restores; B continues): afterwards the
    setting IS back at `g` — nothing is visible in the process state — and yet B's body ran under `g` instead of `v`:
    only B's result shows the defect (hence deep documents in the schedules of the harness). -/
theorem setting_overlap_invisible_afterwards (g v : Nat) (h : g < v) :
    let s := run (raiseTo v) (init g 2) [0, 1, 1, 0, 0, 0, 1, 1]
    allDone s = true ∧ s.G = g ∧ s.obs = [(0, v), (1, g)] := by
  simp [run, step, init, raiseTo, allDone, h, List.replicate]

/-! ## generated facts from the current source -/
open S2T.Cells S2T.Gen.GlobalWrites

/-- no function of the package calls a setter of an interpreter-global setting / registry (kind `globalcall`) … -/
theorem inventory_no_setting_writers : ∀ s ∈ sites, s.kind ≠ "globalcall".toList := by decide +kernel

/-- … and no module does at import time (the router imports extractor modules lazily, on the first document of a type) -/
theorem inventory_no_import_time_registration : ∀ s ∈ sites, s.func ≠ "<module>".toList := by decide +kernel

end S2T.C15.Settings
