import S2T.Lemmas.PyHtml
import S2T.Lemmas.HtmlSkip
import S2T.Gen.PyHtmlTree
import S2T.Gen.PyEpubXhtml
import S2T.Gen.HtmlSkip
/-!
# C17 (source tie) — the translated handler methods of the two parsers ARE the transitions of `S2T.HtmlSkip`

`S2T.Gen.PyHtmlTree` / `S2T.Gen.PyEpubXhtml` are regenerated on every run from the current text of
`html_extractor._HtmlTreeBuilder` and `epub_extractor._XhtmlTextExtractor` (`tools/gen/pyfun_html.py`, construct by
construct): every handler method is a state transformer on a record of the parser's own fields.  `html.parser.HTMLParser`
(text → handler calls) stays the parameter it is in the model.

For EVERY parser state (satisfying the invariant `Inv` where there is one), EVERY argument and EVERY `str.lower`
(`env.lower`, a parameter), each translated handler computes — through the explicit abstraction functions `absE` /
`absT` — exactly the transition of the hand model, gate AND class-specific rest (node tree / text, table and title
collection):

    absE (handle_starttag env s tag attrs) = handleStarttag epubTables (Epub.down epubBlock) (absE s) (env.lower tag) attrs
    Inv s → ∃ s', handle_starttag env s tag attrs = ok s' ∧ Inv s' ∧
                   absT s' = handleStarttag htmlTables (Tree.down htmlVoid) (absT s) (env.lower tag) attrs     … per handler

so every theorem of `Props/C17.lean` about `run T D st evs` is a theorem about code regenerated from the source
(`html_run_eq`, `epub_run_eq`; `html_source_C17` / `epub_source_C17` spell out the main theorem for the translation).

* `_XhtmlTextExtractor`: the record IS the model state (`absE` renames fields); no invariant is needed.  The cell text
  `_normalize_ws(" ".join(cell).strip())` is proved equal to the model's `cellText` (`S2T.Py.Html.cellText_eq`).
* `_HtmlTreeBuilder`: its node dicts are shared between `self.stack`, the parent's `children` list and
  `self.last_closed` and are updated in place, so the translation keeps them in a HEAP (`S2T/Py/Html.lean`) and the
  handlers read and write through addresses.  `absT` (`S2T.Py.Html.absTree`) reads the model's frames and finished nodes
  out of the heap; `Inv` (`S2T.Py.Html.InvAt`) is the object invariant: non-empty stack, every stack element is the last
  child of the one below, `last_closed` is `None` or the last child of the top, finished subtrees are closed and lie in
  allocation order, an open element has no `tail` yet.  The model's invariant-free statement is recovered because
  `__init__` establishes `Inv` and every handler preserves it (each theorem below says so).  No handler can raise:
  `self.stack[-1]` (`IndexError`), the dereferences and the narrowing of `last_closed` never fail under `Inv`.
* `get_tree()` returns `self.root`; `html_get_tree_eq`: the tree at that address is the model's `Tree.getTree` (the bottom of
  the stack is `self.root`: part of `Inv`).
* `handle_comment` is `pass` (the translation has no result state), `handle_decl` / `handle_pi` / `unknown_decl` are not
  overridden (`C17.gen_overrides_modelled`).

The proofs never mention a local variable of the source, the order of its statements or the form of its conditions:
case analysis on the MODEL's conditions, `simp` with the case hypotheses evaluates the source's `if`s, heap updates are
discharged by the operation lemmas (A)–(I) of `S2T/Lemmas/PyHtml.lean`.
-/
set_option linter.unusedSimpArgs false
set_option linter.unusedVariables false
namespace S2T.C17.Src
open S2T.Py S2T.Py.Html S2T.HtmlSkip S2T.Gen.HtmlSkip

/-- the translator understood every construct of the whitelisted methods -/
theorem gen_py_notes_empty : S2T.Gen.PyHtmlTree.notes = [] ∧ S2T.Gen.PyEpubXhtml.notes = [] := by decide

/-- the methods this file ties (a renamed / removed method breaks this) -/
theorem gen_py_translated :
    S2T.Gen.PyHtmlTree.translated =
      ["_HtmlTreeBuilder.__init__", "_HtmlTreeBuilder.handle_starttag", "_HtmlTreeBuilder.handle_endtag",
       "_HtmlTreeBuilder.handle_startendtag", "_HtmlTreeBuilder.handle_data", "_HtmlTreeBuilder.handle_comment",
       "_HtmlTreeBuilder.get_tree"] ∧
    S2T.Gen.PyEpubXhtml.translated =
      ["_XhtmlTextExtractor._normalize_ws", "_XhtmlTextExtractor.__init__", "_XhtmlTextExtractor.handle_starttag",
       "_XhtmlTextExtractor.handle_endtag", "_XhtmlTextExtractor.handle_startendtag",
       "_XhtmlTextExtractor.handle_data"] := by decide

/-- every method of the two classes that mentions the gate's fields is translated (closed world, from the generated
    inventory of `tools/gen/htmlskip.py`) -/
theorem gate_methods_translated :
    (∀ m ∈ htmlSkipTouch, ("_HtmlTreeBuilder.".toList ++ m) ∈ S2T.Gen.PyHtmlTree.translated.map String.toList) ∧
    (∀ m ∈ epubSkipTouch, ("_XhtmlTextExtractor.".toList ++ m) ∈ S2T.Gen.PyEpubXhtml.translated.map String.toList) := by
  decide

/-! ## `_XhtmlTextExtractor` -/

/-- ABSTRACTION function of `_XhtmlTextExtractor`: the record of the object's fields ↦ the state of the hand model -/
def absE (s : XhtmlExtractor) : St Epub.State :=
  { skipDepth := s.skipDepth, skipTag := s.skipTag,
    down := { textParts := s.textParts, inBlock := s.inBlock, tables := s.tables, currentTable := s.currentTable,
              currentRow := s.currentRow, currentCell := s.currentCell, inTable := s.inTable, inCell := s.inCell,
              title := s.title, inTitle := s.inTitle } }

@[simp] theorem absE_skipDepth (s : XhtmlExtractor) : (absE s).skipDepth = s.skipDepth := rfl
@[simp] theorem absE_skipTag (s : XhtmlExtractor) : (absE s).skipTag = s.skipTag := rfl

section epub
open S2T.Gen.PyEpubXhtml

/-- one leaf of a case analysis on the MODEL's conditions: evaluate the source's `if`s under the case hypotheses
    (whatever their arrangement), then compare the resulting record with the model's -/
local macro "epub_leaf" : tactic => `(tactic| (
  (try subst_vars)
  (try simp [setContains, *])
  (try simp [absE, setContains, cellText_eq, _XhtmlTextExtractor._normalize_ws, Id.run, pure, *])
  (try (intros; omega))))

set_option hygiene false in
/-- the tag names the two sides compare with become opaque constants (no literal is ever normalised differently
    in a hypothesis and in the goal) -/
local macro "epub_names" : tactic => `(tactic| (
  generalize "title".toList = kTitle
  generalize "table".toList = kTable
  generalize "tr".toList = kTr
  generalize "td".toList = kTd
  generalize "th".toList = kTh
  generalize "br".toList = kBr
  -- `"br" == tag` and `tag == "br"`, `self._skip_tag == tag` and `tag == self._skip_tag` are the same test
  have ec1 : (kTitle = t) = (t = kTitle) := propext eq_comm
  have ec2 : (kTable = t) = (t = kTable) := propext eq_comm
  have ec3 : (kTr = t) = (t = kTr) := propext eq_comm
  have ec4 : (kTd = t) = (t = kTd) := propext eq_comm
  have ec5 : (kTh = t) = (t = kTh) := propext eq_comm
  have ec6 : (kBr = t) = (t = kBr) := propext eq_comm
  have ec7 : (s.skipTag = some t) = (some t = s.skipTag) := propext eq_comm))

theorem epub_handle_starttag_eq (env : Env) (s : XhtmlExtractor) (tag : S2T.Py.Str) (attrs : Attrs) :
    absE (_XhtmlTextExtractor.handle_starttag env s tag attrs)
      = handleStarttag epubTables (Epub.down epubBlock) (absE s) (env.lower tag) attrs := by
  unfold _XhtmlTextExtractor.handle_starttag handleStarttag
  simp only [Id.run, pure, Epub.down, Epub.start, epubTables]
  generalize env.lower tag = t
  epub_names
  by_cases h1 : 0 < s.skipDepth
  · by_cases h2 : some t = s.skipTag <;> epub_leaf
  by_cases h3 : t ∈ epubRemove
  · by_cases h4 : t ∈ epubVoid <;> epub_leaf
  by_cases h5 : t = kTitle
  · epub_leaf
  by_cases h6 : t = kTable
  · epub_leaf
  by_cases h7 : s.inTable = true <;> by_cases h8 : t = kTr <;> by_cases h9 : t = kTd ∨ t = kTh <;>
    by_cases h10 : t ∈ epubBlock <;> by_cases h11 : t = kBr <;> epub_leaf

theorem epub_handle_endtag_eq (env : Env) (s : XhtmlExtractor) (tag : S2T.Py.Str) :
    absE (_XhtmlTextExtractor.handle_endtag env s tag)
      = handleEndtag (Epub.down epubBlock) (absE s) (env.lower tag) := by
  unfold _XhtmlTextExtractor.handle_endtag handleEndtag
  simp only [Id.run, pure, Epub.down, Epub.end_]
  generalize env.lower tag = t
  epub_names
  by_cases h1 : 0 < s.skipDepth
  · by_cases h2 : some t = s.skipTag <;> by_cases h2' : s.skipDepth - 1 = 0 <;> epub_leaf
  by_cases h5 : t = kTitle
  · epub_leaf
  by_cases h6 : t = kTable
  · by_cases h6' : s.currentTable = [] <;> epub_leaf
  by_cases h7 : s.inTable = true <;> by_cases h8 : t = kTr <;> by_cases h8' : s.currentRow = [] <;>
    by_cases h9 : t = kTd ∨ t = kTh <;> by_cases h10 : t ∈ epubBlock <;> epub_leaf

theorem epub_handle_data_eq (s : XhtmlExtractor) (data : S2T.Py.Str) :
    absE (_XhtmlTextExtractor.handle_data s data) = handleData (Epub.down epubBlock) (absE s) data := by
  unfold _XhtmlTextExtractor.handle_data handleData
  simp only [Id.run, pure, Epub.down, Epub.data]
  by_cases h1 : 0 < s.skipDepth
  · epub_leaf
  by_cases h2 : s.inTitle = true
  · epub_leaf
  by_cases h3 : s.inCell = true <;> epub_leaf

theorem epub_handle_startendtag_eq (env : Env) (s : XhtmlExtractor) (tag : S2T.Py.Str) (attrs : Attrs) :
    absE (_XhtmlTextExtractor.handle_startendtag env s tag attrs)
      = handleStartendtag epubTables (Epub.down epubBlock) (absE s) (env.lower tag) attrs := by
  unfold _XhtmlTextExtractor.handle_startendtag handleStartendtag
  simp only [Id.run, pure]
  by_cases h1 : 0 < s.skipDepth
  · simp [setContains, h1, epubTables]
  by_cases h2 : env.lower tag ∈ epubRemove
  · simp [setContains, h1, h2, epubTables]
  · simp [setContains, h1, h2, epubTables, epub_handle_endtag_eq, epub_handle_starttag_eq]

theorem epub_init_eq (s : XhtmlExtractor) : absE (_XhtmlTextExtractor.__init__ s) = init Epub.initState := by
  simp [_XhtmlTextExtractor.__init__, Id.run, pure, absE, init, Epub.initState]

end epub

/-! ## `_HtmlTreeBuilder` -/
section html
open S2T.Gen.PyHtmlTree

/-- a branch in which only the gate's fields change: with or without the allocation of a node nobody refers to -/
local macro "html_gate_op" hA:ident : tactic => `(tactic| first
  | refine square_of (InvAt.gate $hA rfl rfl rfl (by rfl)) ?_
  | refine square_of (InvAt.alloc $hA rfl rfl rfl (by rfl)) ?_)

theorem html_handle_data_eq (s : TreeBuilder) (data : S2T.Py.Str) (hI : Inv s) :
    ∃ s', _HtmlTreeBuilder.handle_data s data = Except.ok s' ∧ Inv s' ∧
      absT s' = handleData (Tree.down htmlVoid) (absT s) data := by
  obtain ⟨t, rs, hA⟩ := hI
  obtain ⟨o, ho⟩ := hA.top_alloc
  have hstk := hA.1
  unfold _HtmlTreeBuilder.handle_data
  by_cases h1 : 0 < s.skipDepth
  · simp [h1]
    exact ⟨⟨t, rs, hA⟩, by simp [handleData, h1]⟩
  cases hlc : s.lastClosed with
  | some l =>
    obtain ⟨ol, hol⟩ := hA.last_alloc hlc
    simp [h1, hlc, hol]
    refine square_of (hA.data_last hlc hol rfl (by simp [hstk]) (by simp [hlc]) (by rfl)) ?_
    simp [handleData, Tree.down, h1]
  | none =>
    simp [h1, hlc, hstk, ho]
    refine square_of (hA.data_top hlc ho rfl (by simp [hstk]) (by simp [hlc]) (by rfl)) ?_
    simp [handleData, Tree.down, h1]

theorem html_handle_endtag_eq (env : Env) (s : TreeBuilder) (tag : S2T.Py.Str) (hI : Inv s) :
    ∃ s', _HtmlTreeBuilder.handle_endtag env s tag = Except.ok s' ∧ Inv s' ∧
      absT s' = handleEndtag (Tree.down htmlVoid) (absT s) (env.lower tag) := by
  obtain ⟨t, rs, hA⟩ := hI
  obtain ⟨o, ho⟩ := hA.top_alloc
  have hstk := hA.1
  unfold _HtmlTreeBuilder.handle_endtag
  simp only []
  generalize env.lower tag = tg
  have ec1 : (s.skipTag = some tg) = (some tg = s.skipTag) := propext eq_comm
  have ec2 : (tg = o.tag) = (o.tag = tg) := propext eq_comm
  by_cases h1 : 0 < s.skipDepth
  · by_cases h2 : some tg = s.skipTag <;> by_cases h3 : s.skipDepth - 1 = 0 <;>
    · simp [h1, h2, h3, ec1]
      html_gate_op hA
      simp [handleEndtag, h1, h2, h3, absT]
  by_cases h4 : rs = []
  · subst h4
    simp [h1, hstk, len]
    html_gate_op hA
    simp [handleEndtag, Tree.down, h1, hA.end_nil, absT]
  by_cases h5 : o.tag = tg
  · simp [h1, hstk, h4, ho, h5, ec2]
    obtain ⟨p, rs', rfl⟩ := List.exists_cons_of_ne_nil h4
    refine square_of (hA.pop ho rfl (by simp) (by simp) (by rfl)) ?_
    simp [handleEndtag, Tree.down, h1, h5]
  · simp [h1, hstk, h4, ho, h5, ec2]
    html_gate_op hA
    simp [handleEndtag, Tree.down, h1, hA.end_ne ho h5, absT]

theorem html_handle_starttag_eq (env : Env) (s : TreeBuilder) (tag : S2T.Py.Str) (attrs : Attrs) (hI : Inv s) :
    ∃ s', _HtmlTreeBuilder.handle_starttag env s tag attrs = Except.ok s' ∧ Inv s' ∧
      absT s' = handleStarttag htmlTables (Tree.down htmlVoid) (absT s) (env.lower tag) attrs := by
  obtain ⟨t, rs, hA⟩ := hI
  obtain ⟨o, ho⟩ := hA.top_alloc
  have hstk := hA.1
  unfold _HtmlTreeBuilder.handle_starttag
  simp only []
  generalize env.lower tag = tg
  rw [mapM_unwrap_filter _ _ (by intros; rfl) (by intros; rfl)]
  simp only [M.ok_bind, dictOfPairs_filterMap]
  have ec1 : (s.skipTag = some tg) = (some tg = s.skipTag) := propext eq_comm
  by_cases h1 : 0 < s.skipDepth
  · by_cases h2 : some tg = s.skipTag <;>
    · simp [h1, h2, ec1]
      html_gate_op hA
      simp [handleStarttag, h1, h2, absT]
  by_cases h3 : tg ∈ htmlRemove
  · by_cases h4 : tg ∈ htmlVoid <;>
    · simp [h1, h3, h4, setContains]
      html_gate_op hA
      simp [handleStarttag, htmlTables, h1, h3, h4, absT]
  by_cases h5 : tg ∈ htmlVoid
  · simp [h1, h3, h5, setContains, hstk, getElem?_append_of_some ho]
    refine square_of ((hA.push ho ⟨rfl, rfl, rfl⟩ rfl (by rfl)).2 (by simp [hstk]) (by simp)) ?_
    simp [handleStarttag, htmlTables, Tree.down, Tree.start, h1, h3, h5, absT]
  · simp [h1, h3, h5, setContains, hstk, getElem?_append_of_some ho]
    refine square_of ((hA.push ho ⟨rfl, rfl, rfl⟩ rfl (by rfl)).1 (by simp [hstk]) (by simp)) ?_
    simp [handleStarttag, htmlTables, Tree.down, Tree.start, h1, h3, h5, absT]

theorem html_handle_startendtag_eq (env : Env) (s : TreeBuilder) (tag : S2T.Py.Str) (attrs : Attrs) (hI : Inv s) :
    ∃ s', _HtmlTreeBuilder.handle_startendtag env s tag attrs = Except.ok s' ∧ Inv s' ∧
      absT s' = handleStartendtag htmlTables (Tree.down htmlVoid) (absT s) (env.lower tag) attrs := by
  unfold _HtmlTreeBuilder.handle_startendtag handleStartendtag
  by_cases h1 : 0 < s.skipDepth
  · simp [h1]; exact hI
  by_cases h2 : env.lower tag ∈ htmlRemove
  · simp [h1, h2, setContains, htmlTables]; exact hI
  obtain ⟨s1, e1, hI1, a1⟩ := html_handle_starttag_eq env s tag attrs hI
  obtain ⟨s2, e2, hI2, a2⟩ := html_handle_endtag_eq env s1 tag hI1
  simp [h1, h2, setContains, htmlTables, e1, e2]
  exact ⟨hI2, by rw [a2, a1]; rfl⟩

/-- OUTSIDE the invariant (a stack that has been emptied — no handler does that): a start tag that passes the gate
    raises the `IndexError` of `self.stack[-1]`, as the source does; the model has no such state. -/
theorem html_handle_starttag_outside (env : Env) (s : TreeBuilder) (tag : S2T.Py.Str) (attrs : Attrs)
    (h0 : s.stack = []) (h1 : ¬ 0 < s.skipDepth) (h3 : env.lower tag ∉ htmlRemove) :
    _HtmlTreeBuilder.handle_starttag env s tag attrs = Except.error pIndexError := by
  unfold _HtmlTreeBuilder.handle_starttag
  simp only []
  rw [mapM_unwrap_filter _ _ (by intros; rfl) (by intros; rfl)]
  simp [h0, h1, h3, setContains, listGetItem]

/-- `handle_comment` is `pass`: it returns `None` and, having no access to the object other than reading, leaves it
    as it is (the translation has no result state at all) — the model's `.comment _ => st` -/
theorem html_handle_comment_eq (s : TreeBuilder) (data : S2T.Py.Str) :
    _HtmlTreeBuilder.handle_comment s data = () := rfl

theorem html_init_eq (s : TreeBuilder) :
    Inv (_HtmlTreeBuilder.__init__ s) ∧ absT (_HtmlTreeBuilder.__init__ s) = init Tree.initState := by
  unfold _HtmlTreeBuilder.__init__
  simp [Id.run, pure]
  refine square_of (InvAt.init (h0 := s.heap) rfl rfl rfl (by rfl)) ?_
  simp [init]

/-- `get_tree()` returns `self.root`; under the invariant the tree at that address is the model's `Tree.getTree` — what
    `_HtmlTextExtractor` goes on to read is the tree the model builds -/
theorem html_get_tree_eq (s : TreeBuilder) (hI : Inv s) :
    readNode s.heap (_HtmlTreeBuilder.get_tree s) = Tree.getTree (absT s).down := by
  obtain ⟨t, rs, hA⟩ := hI
  simpa [_HtmlTreeBuilder.get_tree, Id.run, pure] using hA.get_tree
end html

/-! ## `feed`: the handler calls in order -/

/-- HTMLParser lower-cases tag names; the handlers lower-case them again (`tag.lower()`): the model sees the result -/
def lowerEv (env : Env) : Ev → Ev
  | .start t a => .start (env.lower t) a
  | .end_ t => .end_ (env.lower t)
  | .startend t a => .startend (env.lower t) a
  | e => e

open S2T.Gen.PyHtmlTree in
/-- one handler call on a `_HtmlTreeBuilder` (`handle_decl` / `handle_pi` / `unknown_decl`: base class, nothing) -/
def htmlStep (env : Env) (s : TreeBuilder) : Ev → M TreeBuilder
  | .start t a => _HtmlTreeBuilder.handle_starttag env s t a
  | .end_ t => _HtmlTreeBuilder.handle_endtag env s t
  | .startend t a => _HtmlTreeBuilder.handle_startendtag env s t a
  | .data d => _HtmlTreeBuilder.handle_data s d
  | .comment d => let _ := _HtmlTreeBuilder.handle_comment s d; pure s
  | _ => pure s

open S2T.Gen.PyEpubXhtml in
/-- one handler call on a `_XhtmlTextExtractor` (`handle_comment` is not overridden there) -/
def epubStep (env : Env) (s : XhtmlExtractor) : Ev → XhtmlExtractor
  | .start t a => _XhtmlTextExtractor.handle_starttag env s t a
  | .end_ t => _XhtmlTextExtractor.handle_endtag env s t
  | .startend t a => _XhtmlTextExtractor.handle_startendtag env s t a
  | .data d => _XhtmlTextExtractor.handle_data s d
  | _ => s

theorem html_step_eq (env : Env) (s : TreeBuilder) (e : Ev) (hI : Inv s) :
    ∃ s', htmlStep env s e = Except.ok s' ∧ Inv s' ∧
      absT s' = step htmlTables (Tree.down htmlVoid) (absT s) (lowerEv env e) := by
  cases e with
  | start t a => exact html_handle_starttag_eq env s t a hI
  | end_ t => exact html_handle_endtag_eq env s t hI
  | startend t a => exact html_handle_startendtag_eq env s t a hI
  | data d => exact html_handle_data_eq s d hI
  | comment d => exact ⟨s, rfl, hI, rfl⟩
  | decl d => exact ⟨s, rfl, hI, rfl⟩
  | pi d => exact ⟨s, rfl, hI, rfl⟩
  | unknownDecl d => exact ⟨s, rfl, hI, rfl⟩

theorem epub_step_eq (env : Env) (s : XhtmlExtractor) (e : Ev) :
    absE (epubStep env s e) = step epubTables (Epub.down epubBlock) (absE s) (lowerEv env e) := by
  cases e with
  | start t a => exact epub_handle_starttag_eq env s t a
  | end_ t => exact epub_handle_endtag_eq env s t
  | startend t a => exact epub_handle_startendtag_eq env s t a
  | data d => exact epub_handle_data_eq s d
  | comment d => rfl
  | decl d => rfl
  | pi d => rfl
  | unknownDecl d => rfl

/-- the translated handlers of `_HtmlTreeBuilder`, called in the order of ANY event list from ANY state satisfying the
    invariant, never raise, keep the invariant, and compute the model's `run` -/
theorem html_run_eq (env : Env) (evs : List Ev) : ∀ (s : TreeBuilder), Inv s →
    ∃ s', evs.foldlM (htmlStep env) s = Except.ok s' ∧ Inv s' ∧
      absT s' = run htmlTables (Tree.down htmlVoid) (absT s) (evs.map (lowerEv env)) := by
  induction evs with
  | nil => intro s hI; exact ⟨s, rfl, hI, rfl⟩
  | cons e r ih =>
    intro s hI
    obtain ⟨s1, e1, hI1, a1⟩ := html_step_eq env s e hI
    obtain ⟨s2, e2, hI2, a2⟩ := ih s1 hI1
    refine ⟨s2, ?_, hI2, ?_⟩
    · simp [List.foldlM_cons, e1, e2]
    · rw [a2, a1]; rfl

/-- the same for `_XhtmlTextExtractor` (no invariant needed) -/
theorem epub_run_eq (env : Env) (evs : List Ev) : ∀ (s : XhtmlExtractor),
    absE (evs.foldl (epubStep env) s) = run epubTables (Epub.down epubBlock) (absE s) (evs.map (lowerEv env)) := by
  induction evs with
  | nil => intro s; rfl
  | cons e r ih => intro s; rw [List.foldl_cons, ih, epub_step_eq]; rfl

/-- **C17 for the translated `_HtmlTreeBuilder`.**  A fresh object (`__init__` on any record), fed with the handler
    calls of any document of the Spec grammar whose tags are delivered lower-cased, does not raise and holds exactly
    the tree the visible items build. -/
theorem html_source_C17 (env : Env) (s0 : TreeBuilder) (doc : Doc) (hd : DocOk htmlTables doc = true)
    (hlow : (events doc).map (lowerEv env) = events doc) :
    ∃ s', (events doc).foldlM (htmlStep env) (S2T.Gen.PyHtmlTree._HtmlTreeBuilder.__init__ s0) = Except.ok s' ∧
      absT s' = init ((Tree.down htmlVoid).feed Tree.initState (downEvents doc)) := by
  obtain ⟨hI, a0⟩ := html_init_eq s0
  obtain ⟨s', e, _, a⟩ := html_run_eq env (events doc) _ hI
  refine ⟨s', e, ?_⟩
  rw [a, hlow, a0]
  exact run_doc htmlTables (Tree.down htmlVoid) doc (init Tree.initState) hd ⟨rfl, rfl⟩

/-- **C17 for the translated `_XhtmlTextExtractor`.** -/
theorem epub_source_C17 (env : Env) (s0 : XhtmlExtractor) (doc : Doc) (hd : DocOk epubTables doc = true)
    (hlow : (events doc).map (lowerEv env) = events doc) :
    absE ((events doc).foldl (epubStep env) (S2T.Gen.PyEpubXhtml._XhtmlTextExtractor.__init__ s0))
      = init ((Epub.down epubBlock).feed Epub.initState (downEvents doc)) := by
  rw [epub_run_eq, hlow, epub_init_eq]
  exact run_doc epubTables (Epub.down epubBlock) doc (init Epub.initState) hd ⟨rfl, rfl⟩

/-! ## Non-vacuity -/

/-- the invariant is satisfiable: a fresh object has it, and so has every state reached from it -/
example : Inv (S2T.Gen.PyHtmlTree._HtmlTreeBuilder.__init__ default) := (html_init_eq default).1

/-- `<p>a<img>b</p>` on a fresh object: no exception, and a state with a non-trivial tree (tail text after a void
    element inside a closed element) -/
example (env : Env) : ∃ s', [Ev.start "p".toList [], .data "a".toList, .start "img".toList [], .data "b".toList,
      .end_ "p".toList].foldlM (htmlStep env) (S2T.Gen.PyHtmlTree._HtmlTreeBuilder.__init__ default) = Except.ok s' ∧ Inv s' :=
  let ⟨s', e, hI, _⟩ := html_run_eq env _ _ (html_init_eq default).1
  ⟨s', e, hI⟩

/-- the hypothesis `hlow` holds for a document whose tags `str.lower` leaves alone (here: the identity) -/
example (doc : Doc) : (events doc).map (lowerEv ⟨id, fun _ => (none, none), []⟩) = events doc := by
  have : lowerEv ⟨id, fun _ => (none, none), []⟩ = id := by funext e; cases e <;> rfl
  rw [this, List.map_id]

end S2T.C17.Src
