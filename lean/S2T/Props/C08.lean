import S2T.Lemmas.Encryption
import S2T.Lemmas.Guard
import S2T.Gen.Encryption
import S2T.Gen.Wrappers
import S2T.Props.C08_PdfCrypt
import S2T.Props.C08_PdfData
/-!
# C08 — Encrypted input is rejected as encrypted, plain input never is

Statement (fixed): a password-protected or encrypted input of any supported container kind
(OOXML wrapped in OLE, ODF with an encrypted manifest, PDF needing a non-empty password, legacy
DOC/XLS/PPT, encrypted ZIP or 7z archives, DRM-protected EPUB) is rejected with the
file-encrypted error before any content is returned, through every entry point.  An input that
is not encrypted is never rejected as encrypted, and a PDF encrypted with the empty user password
extracts the same content as its unencrypted original.

What is proved here (for ALL inputs of the stated parameter types — lists, trees, directories of
any size): for every detector, *exactly* which inputs it flags, in terms of the container facts the
specifications name (marker streams, FILEPASS record, FIB bit, flag bit 0, AES coder id,
`encryption-data` element, `EncryptedData` / rights.xml); that the flagging decision is taken
before the first `yield` in every wrapper; and that nothing else reaches the encrypted error in
the modelled archive paths.  Constants are generated from the source (`S2T.Gen.Encryption`), the
decidable `…Ok` predicates are re-decided by the kernel on every run.

Three parts of the full statement were FALSE on the unmodified source and are proved for the
repaired code (fix patches: odf-manifest-elements, zip-unsupported-method-not-encrypted,
7z-encrypted-header); the counterexample theorems at the end show the legacy behaviour on the model,
their witnesses are replayed on the real code by the harness (`known_witnesses`).

Not proved (parameters): bytes → OLE directory / ZIP infolist / 7z folders / XML tree / PDF
decrypt result are third-party parsers; the tie of this model to the code is the correspondence run.
-/
namespace S2T.C08
open S2T.Enc

abbrev K : Consts := S2T.Gen.Encryption.consts

/-- the translator found every constant to be the literal the source shows and the runtime probes agree -/
theorem gen_notes_empty : S2T.Gen.Encryption.notes = [] := by decide

/-! ## Spec constants ([MS-OFFCRYPTO] §2.3, [MS-PPT] §2.1.5, [MS-XLS] §2.4.117, [MS-DOC] §2.5.1, APPNOTE §4.4.4,
7zFormat.txt / 7-Zip Methods.txt, ODF 1.2 part 3 §4.8, OCF 3.2 §4.2.6) -/

def specOleMarkers : List Str := ["encryptioninfo".toList, "encryptedpackage".toList, "dataspaces".toList]
def specPptExtra : List Str := ["encryptedsummary".toList, "encryptedsummaryinformation".toList]
def specXlsStreams : List Str := ["workbook".toList, "book".toList]
def specOdfTag : Str := "{urn:oasis:names:tc:opendocument:xmlns:manifest:1.0}encryption-data".toList
def specEpubEncPath : Str := "META-INF/encryption.xml".toList
def specEpubRightsPath : Str := "META-INF/rights.xml".toList
def specEpubTag : Str := "{http://www.w3.org/2001/04/xmlenc#}EncryptedData".toList

/-! ## 1. OLE-wrapped OOXML and PPT: marker streams -/

/-- `is_ooxml_encrypted` flags exactly the OLE files whose root directory has an entry named
    (case-insensitively) like one of the marker names. -/
theorem C08_ole (C : Consts) (dir : OleDir) :
    isOoxmlEncrypted C (some dir) = true ↔ ∃ m ∈ C.oleMarkers, ∃ e ∈ dir, lower e.1 = lower m := by
  simp only [isOoxmlEncrypted, hasOleEncryptionStream, oleExists, List.any_eq_true, beq_iff_eq]

/-- something that is not an OLE file (e.g. a plain OOXML ZIP) is never flagged -/
theorem C08_ole_plain (C : Consts) : isOoxmlEncrypted C none = false ∧ isPptEncrypted C none = false := ⟨rfl, rfl⟩

theorem C08_ppt (C : Consts) (dir : OleDir) :
    isPptEncrypted C (some dir) = true ↔ ∃ m ∈ C.oleMarkers ++ C.pptExtra, ∃ e ∈ dir, lower e.1 = lower m := by
  simp only [isPptEncrypted, hasOleEncryptionStream, oleExists, Bool.or_eq_true, List.any_eq_true, beq_iff_eq,
    List.mem_append]
  constructor
  · rintro (⟨m, hm, h⟩ | ⟨m, hm, h⟩)
    · exact ⟨m, Or.inl hm, h⟩
    · exact ⟨m, Or.inr hm, h⟩
  · rintro ⟨m, hm | hm, h⟩
    · exact Or.inl ⟨m, hm, h⟩
    · exact Or.inr ⟨m, hm, h⟩

/-- the source's marker tables are the specification's names -/
def OleOk (C : Consts) : Bool :=
  C.oleMarkers.map lower == specOleMarkers && C.pptExtra.map lower == specPptExtra
  && C.xlsStreams.map lower == specXlsStreams && C.filepassId == 0x2F

theorem gen_ole_ok : OleOk K = true := by decide

private theorem mem_map_lower {ms : List Str} {x : Str} :
    (∃ m ∈ ms, x = lower m) ↔ x ∈ ms.map lower := by
  simp only [List.mem_map]
  constructor
  · rintro ⟨m, hm, h⟩; exact ⟨m, hm, h.symm⟩
  · rintro ⟨m, hm, h⟩; exact ⟨m, hm, h.symm⟩

/-- On the current source: an OLE container is rejected as encrypted OOXML iff it has a root entry
    EncryptionInfo / EncryptedPackage / DataSpaces (any letter case). -/
theorem C08_ole_spec {C : Consts} (hC : OleOk C = true) (dir : OleDir) :
    isOoxmlEncrypted C (some dir) = true ↔ ∃ e ∈ dir, lower e.1 ∈ specOleMarkers := by
  simp only [OleOk, Bool.and_eq_true, beq_iff_eq] at hC
  rw [C08_ole, ← hC.1.1.1]
  constructor
  · rintro ⟨m, hm, e, he, h⟩; exact ⟨e, he, mem_map_lower.mp ⟨m, hm, h⟩⟩
  · rintro ⟨e, he, h⟩
    obtain ⟨m, hm, h'⟩ := mem_map_lower.mpr h
    exact ⟨m, hm, e, he, h'⟩

theorem C08_ppt_spec {C : Consts} (hC : OleOk C = true) (dir : OleDir) :
    isPptEncrypted C (some dir) = true ↔ ∃ e ∈ dir, lower e.1 ∈ specOleMarkers ++ specPptExtra := by
  simp only [OleOk, Bool.and_eq_true, beq_iff_eq] at hC
  rw [C08_ppt, ← hC.1.1.1, ← hC.1.1.2, ← List.map_append]
  constructor
  · rintro ⟨m, hm, e, he, h⟩; exact ⟨e, he, mem_map_lower.mp ⟨m, hm, h⟩⟩
  · rintro ⟨e, he, h⟩
    obtain ⟨m, hm, h'⟩ := mem_map_lower.mpr h
    exact ⟨m, hm, e, he, h'⟩

example : isOoxmlEncrypted K (some [("encryptedPACKAGE".toList, some [1, 2, 3]), ("x".toList, none)]) = true := by decide
example : isOoxmlEncrypted K (some [("WordDocument".toList, some [1]), ("\u0006DataSpaces".toList, none)]) = false := by decide
example : isPptEncrypted K (some [("PowerPoint Document".toList, some []), ("EncryptedSummary".toList, some [])]) = true := by decide

/-! ## 2. XLS: FILEPASS at any record position -/

/-- The scan over a well-framed BIFF record stream (any number of records, any payloads, followed
    by fewer than 4 stray bytes) answers exactly "some record has the wanted id" — it terminates
    (the definition is by well-founded recursion on the remaining length) and is position-independent. -/
theorem C08_filepass (fid : Nat) (rs : List Rec) (hok : ∀ r ∈ rs, r.Ok) (junk : List Nat) (hj : junk.length < 4) :
    scan fid (serialize rs ++ junk) = rs.any (fun r => r.id == fid) := by
  rw [scan_serialize_append fid rs hok, scan_short fid junk hj, Bool.or_false]

/-- … and whatever follows a FILEPASS record cannot hide it, whatever precedes it (well-framed) cannot either -/
theorem C08_filepass_anywhere (fid : Nat) (pre : List Rec) (hok : ∀ r ∈ pre, r.Ok) (p : List Nat) (hp : p.length < 65536)
    (hf : fid < 65536) (post : List Nat) :
    scan fid (serialize pre ++ (Rec.ser ⟨fid, p⟩ ++ post)) = true := by
  rw [scan_serialize_append fid pre hok, scan_rec_append fid ⟨fid, p⟩ ⟨hf, hp⟩]
  simp

example : (∀ r ∈ [Rec.mk 0x809 [0, 6, 5, 0], Rec.mk 0x2F [1, 0, 1, 0], Rec.mk 0x0A []], r.Ok) := by
  intro r hr; simp at hr; rcases hr with h | h | h <;> subst h <;> simp [Rec.Ok]
example : scan 0x2F (serialize [Rec.mk 0x809 [0, 6, 5, 0], Rec.mk 0x2F [1, 0, 1, 0], Rec.mk 0x0A []] ++ [7]) = true := by
  rw [scan_eq_scanS]; decide
example : scan 0x2F (serialize [Rec.mk 0x809 [0x2F, 0, 0, 0], Rec.mk 0x0A []]) = false := by
  rw [scan_eq_scanS]; decide

/-- `is_xls_encrypted` answers True exactly when the first existing workbook stream scans positive -/
theorem C08_xls (C : Consts) (dir : OleDir) :
    isXlsEncrypted C (some dir) = .enc true ↔
      ∃ n data, firstExisting dir C.xlsStreams = some n ∧ oleFind dir n = some (some data) ∧ scan C.filepassId data = true := by
  simp only [isXlsEncrypted]
  cases hfe : firstExisting dir C.xlsStreams with
  | none => simp
  | some n =>
    cases hof : oleFind dir n with
    | none => simp [hof]
    | some v =>
      cases v with
      | none => simp [hof]
      | some data => simp [hof]

theorem C08_xls_plain (C : Consts) : isXlsEncrypted C none = .enc false := rfl

example : isXlsEncrypted K (some [("Workbook".toList, some (serialize [⟨0x809, [0, 6]⟩, ⟨0x2F, [0, 0]⟩]))]) = .enc true := by
  rw [C08_xls]
  exact ⟨"Workbook".toList, serialize [⟨0x809, [0, 6]⟩, ⟨0x2F, [0, 0]⟩], by decide, by decide, by rw [scan_eq_scanS]; decide⟩

/-! ## 3. DOC: the FIB flag -/

def FibOk (C : Consts) : Bool :=
  C.fibFlagsOffset == 0x0A && C.fibEncryptedFlag == 2 ^ 8 && decide (C.fibFlagsOffset + 2 ≤ C.minDocSize)
  && C.fibMagics == [0xA5EC, 0xA5DC]

theorem gen_fib_ok : FibOk K = true := by decide

/-- A WordDocument stream is rejected as encrypted iff it is long enough, carries a Word FIB magic,
    and bit 8 (fEncrypted) of the little-endian flags word at offset 0x0A is set.  The flags word lies
    inside the minimum size, so the test never reads beyond the data. -/
theorem C08_fib {C : Consts} (hC : FibOk C = true) (wd : List Nat) :
    docCheck C (some wd) = .encrypted ↔
      C.minDocSize ≤ wd.length ∧ (le16At wd 0 = 0xA5EC ∨ le16At wd 0 = 0xA5DC) ∧ (le16At wd 0x0A).testBit 8 = true := by
  simp only [FibOk, Bool.and_eq_true, beq_iff_eq, decide_eq_true_eq] at hC
  obtain ⟨⟨⟨ho, hf⟩, hm⟩, hg⟩ := hC
  unfold docCheck
  simp only [hg, hf, ho]
  by_cases he : wd.isEmpty = true
  · have : wd = [] := by simpa using he
    subst this
    simp only [List.isEmpty_nil, if_true, List.length_nil]
    constructor
    · intro h; cases h
    · rintro ⟨h, _⟩; omega
  · simp only [he, if_false, Bool.false_eq_true]
    by_cases hl : wd.length < C.minDocSize
    · simp only [hl, if_true]
      constructor
      · intro h; cases h
      · rintro ⟨h, _⟩; omega
    · simp only [hl, if_false]
      by_cases hmg : [0xA5EC, 0xA5DC].contains (le16At wd 0) = true
      · have hmg' : le16At wd 0 = 0xA5EC ∨ le16At wd 0 = 0xA5DC := by simpa using hmg
        simp only [hmg, Bool.not_true, Bool.false_eq_true, if_false]
        by_cases hb : le16At wd 10 &&& 2 ^ 8 ≠ 0
        · rw [if_pos hb]
          simp only [true_iff]
          exact ⟨by omega, hmg', (and_two_pow_ne_zero _ _).mp hb⟩
        · rw [if_neg hb]
          constructor
          · intro h; cases h
          · rintro ⟨_, _, h⟩; exact absurd ((and_two_pow_ne_zero _ _).mpr h) hb
      · have hmg' : ¬ (le16At wd 0 = 0xA5EC ∨ le16At wd 0 = 0xA5DC) := by simpa using hmg
        have : [0xA5EC, 0xA5DC].contains (le16At wd 0) = false := by simpa using hmg
        simp only [this, Bool.not_false, if_true]
        constructor
        · intro h; cases h
        · rintro ⟨_, h, _⟩; exact absurd h hmg'

-- a 512-byte FIB with magic 0xA5EC and flags 0x0100 (encrypted) / 0xFEFF (every bit but 8)
set_option maxRecDepth 8000 in
example : docCheck K (some ([0xEC, 0xA5] ++ List.replicate 8 0 ++ [0x00, 0x01] ++ List.replicate 500 0)) = .encrypted := by decide
set_option maxRecDepth 8000 in
example : docCheck K (some ([0xEC, 0xA5] ++ List.replicate 8 0 ++ [0xFF, 0xFE] ++ List.replicate 500 0)) = .proceed := by decide

/-! ## 4. ZIP archives: flag bit 0 of any non-directory member, decided before anything is read -/

def ZipOk (C : Consts) : Bool :=
  C.zipEncMask == 1
  && readFailure C .notImplemented != .encrypted && readFailure C .badZip != .encrypted
  && readFailure C .other != .encrypted && readFailure C .runtimeError == .encrypted

theorem gen_zip_ok : ZipOk K = true := by decide

/-- member `i` is a non-directory entry with general-purpose flag bit 0 set -/
def ZEnc (i : ZInfo) : Prop := i.isDir = false ∧ i.flagBits % 2 = 1

private theorem zenc_iff {C : Consts} (h : C.zipEncMask = 1) (i : ZInfo) :
    (i.isDir = false ∧ i.flagBits &&& C.zipEncMask ≠ 0) ↔ ZEnc i := by
  rw [h, Nat.and_one_is_mod, ZEnc]
  constructor
  · rintro ⟨a, b⟩; exact ⟨a, by omega⟩
  · rintro ⟨a, b⟩; exact ⟨a, by omega⟩

/-- An archive with an encrypted member — at any position, skipped/hidden or not, readable or
    not — is rejected as encrypted and NOTHING has been yielded before. -/
theorem C08_zip_encrypted {C : Consts} (hC : ZipOk C = true) (infos : List ZInfo) (h : ∃ i ∈ infos, ZEnc i) :
    zipExtract C (some infos) = (0, .encrypted) := by
  simp only [ZipOk, Bool.and_eq_true, beq_iff_eq] at hC
  have hm := hC.1.1.1.1
  have : zipPass1 C infos = none := by
    rw [zipPass1_none_iff]
    obtain ⟨i, hi, he⟩ := h
    exact ⟨i, hi, (zenc_iff hm i).mpr he⟩
  simp [zipExtract, this]

/-- A ZIP none of whose non-directory members has flag bit 0 set, and whose reads do not raise the
    "password required" RuntimeError, never ends with the encrypted error — whatever else goes wrong
    (unsupported compression method, bad CRC, any other exception). -/
theorem C08_zip_plain {C : Consts} (hC : ZipOk C = true) (infos : List ZInfo)
    (hp : ∀ i ∈ infos, ¬ ZEnc i) (hr : ∀ i ∈ infos, i.read ≠ .runtimeError) :
    (zipExtract C (some infos)).2 ≠ .encrypted := by
  simp only [ZipOk, Bool.and_eq_true, beq_iff_eq, bne_iff_ne, ne_eq] at hC
  obtain ⟨⟨⟨⟨hm, hni⟩, hbz⟩, hot⟩, _⟩ := hC
  unfold zipExtract
  simp only
  cases h1 : zipPass1 C infos with
  | none =>
    obtain ⟨i, hi, he⟩ := (zipPass1_none_iff C infos).mp h1
    exact absurd ((zenc_iff hm i).mp he) (hp i hi)
  | some todo =>
    simp only
    intro hcon
    obtain ⟨i, hi, hnd, hf⟩ := zipPass2_encrypted C todo hcon
    have hmem := zipPass1_some_sub C infos todo h1 i hi
    cases hrd : i.read with
    | data => exact hnd hrd
    | runtimeError => exact hr i hmem hrd
    | notImplemented => rw [hrd] at hf; exact hni hf
    | badZip => rw [hrd] at hf; exact hbz hf
    | other => rw [hrd] at hf; exact hot hf

/-- With zipfile's documented behaviour (the "password required" RuntimeError is raised only for
    members whose flag bit 0 is set): rejected as encrypted ⇔ some non-directory member has bit 0. -/
theorem C08_zipflag {C : Consts} (hC : ZipOk C = true) (infos : List ZInfo)
    (hz : ∀ i ∈ infos, i.read = .runtimeError → ZEnc i) :
    (zipExtract C (some infos)).2 = .encrypted ↔ ∃ i ∈ infos, ZEnc i := by
  constructor
  · intro h
    apply Classical.byContradiction
    intro hne
    have hp : ∀ i ∈ infos, ¬ ZEnc i := fun i hi he => hne ⟨i, hi, he⟩
    exact C08_zip_plain hC infos hp (fun i hi hr => hp i hi (hz i hi hr)) h
  · intro h; rw [C08_zip_encrypted hC infos h]

/-- something `zipfile.ZipFile` refuses to open is a failed extraction, not an encrypted one -/
theorem C08_zip_unopenable (C : Consts) : zipExtract C none = (0, .failed) := rfl

/-- hidden member with bit 0 after two readable ones: rejected, nothing yielded -/
example : zipExtract K (some [⟨false, 0, false, false, .data, 1⟩, ⟨true, 1, false, false, .data, 0⟩,
    ⟨false, 0x0808, false, false, .data, 2⟩, ⟨false, 9, true, false, .runtimeError, 0⟩]) = (0, .encrypted) := by decide
/-- deflate64 member in a plain archive: the first member's content, then a failed (not encrypted) extraction -/
example : zipExtract K (some [⟨false, 0, false, false, .data, 1⟩, ⟨false, 2, false, false, .notImplemented, 0⟩]) = (1, .failed) := by decide
example : (∀ i ∈ [ZInfo.mk false 0 false false .data 1, ⟨true, 1, false, false, .data, 0⟩], ¬ ZEnc i) := by
  intro i hi; simp at hi; rcases hi with h | h <;> subst h <;> simp [ZEnc]

/-! ## 5. 7z archives: AES coder id in any folder, or in the folder of an encoded header -/

def SzOk (C : Consts) : Bool :=
  C.aesPrefix == [0x06, 0xF1, 0x07] && C.szHeaderEncDetected
  && !C.aesPrefix.isPrefixOf C.coderCopy && !C.aesPrefix.isPrefixOf C.coderLzma
  && !C.aesPrefix.isPrefixOf C.coderLzma2 && !C.aesPrefix.isPrefixOf C.coderBcj

theorem gen_sz_ok : SzOk K = true := by decide

/-- coder id starts with 06 F1 07 (7-Zip's AES family; 06 F1 07 01 = AES-256 + SHA-256) -/
def IsAes (c : Coder) : Prop := [0x06, 0xF1, 0x07] <+: c

theorem C08_7z {C : Consts} (hC : SzOk C = true) (folders : List (List Coder)) :
    needsPassword C folders = true ↔ ∃ f ∈ folders, ∃ c ∈ f, IsAes c := by
  simp only [SzOk, Bool.and_eq_true, beq_iff_eq] at hC
  simp only [needsPassword, List.any_eq_true, hC.1.1.1.1.1, List.isPrefixOf_iff_prefix, IsAes]

private theorem applyDecoder_aes {C : Consts} (hC : SzOk C = true) (l : Bool) (c : Coder) (h : IsAes c) :
    applyDecoder C l c = .encrypted := by
  simp only [SzOk, Bool.and_eq_true, beq_iff_eq, Bool.not_eq_true'] at hC
  obtain ⟨⟨⟨⟨⟨hp, _⟩, h1⟩, h2⟩, h3⟩, h4⟩ := hC
  have hpre : C.aesPrefix.isPrefixOf c = true := by rw [hp, List.isPrefixOf_iff_prefix]; exact h
  unfold applyDecoder
  have n1 : c ≠ C.coderCopy := by intro e; rw [e, h1] at hpre; cases hpre
  have n2 : c ≠ C.coderLzma := by intro e; rw [e, h2] at hpre; cases hpre
  have n3 : c ≠ C.coderLzma2 := by intro e; rw [e, h3] at hpre; cases hpre
  have n4 : c ≠ C.coderBcj := by intro e; rw [e, h4] at hpre; cases hpre
  simp [n1, n2, n3, n4, hpre]

private theorem applyDecoder_enc_aes {C : Consts} (hC : SzOk C = true) (l : Bool) (c : Coder)
    (h : applyDecoder C l c = .encrypted) : IsAes c := by
  simp only [SzOk, Bool.and_eq_true, beq_iff_eq] at hC
  unfold applyDecoder at h
  by_cases h1 : c = C.coderCopy
  · rw [if_pos h1] at h; cases h
  · rw [if_neg h1] at h
    by_cases h2 : c = C.coderLzma
    · rw [if_pos h2] at h; cases l <;> simp at h
    · rw [if_neg h2] at h
      by_cases h3 : c = C.coderLzma2
      · rw [if_pos h3] at h; cases l <;> simp at h
      · rw [if_neg h3] at h
        by_cases h4 : c = C.coderBcj
        · rw [if_pos h4] at h; cases h
        · rw [if_neg h4] at h
          by_cases h5 : C.aesPrefix.isPrefixOf c = true
          · rw [hC.1.1.1.1.1, List.isPrefixOf_iff_prefix] at h5; exact h5
          · rw [if_neg h5] at h; cases h

private theorem go_enc_mem {C : Consts} (hC : SzOk C = true) (l : Bool) (cs : List Coder)
    (h : decodeFolder.go C l cs = .encrypted) : ∃ c ∈ cs, IsAes c := by
  induction cs with
  | nil => simp [decodeFolder.go] at h
  | cons c r ih =>
    simp only [decodeFolder.go] at h
    cases ha : applyDecoder C l c with
    | ok => rw [ha] at h; obtain ⟨x, hx, hx'⟩ := ih h; exact ⟨x, List.mem_cons_of_mem _ hx, hx'⟩
    | encrypted => exact ⟨c, List.mem_cons_self .., applyDecoder_enc_aes hC l c ha⟩
    | bad => rw [ha] at h; cases h

/-- An archive with an AES coder in a data folder (header readable), or whose encoded header's
    folder ends with the AES coder (the coder applied first to the packed bytes — the layout 7-Zip
    writes for `-mhe=on`), is rejected as encrypted. -/
theorem C08_7z_encrypted {C : Consts} (hC : SzOk C = true) (l : Bool) (a : SzArchive) :
    ((a.headerCoders = none ∨ ∃ cs, a.headerCoders = some cs ∧ decodeFolder C l cs = .ok) ∧
        (∃ f ∈ a.folders, ∃ c ∈ f, IsAes c))
      ∨ (∃ pre c, a.headerCoders = some (pre ++ [c]) ∧ IsAes c) →
    szOpen C l a = .encrypted := by
  have hd : C.szHeaderEncDetected = true := by
    simp only [SzOk, Bool.and_eq_true] at hC; exact hC.1.1.1.1.2
  rintro (⟨hh, hf⟩ | ⟨pre, c, hh, hc⟩)
  · have hn := (C08_7z hC a.folders).mpr hf
    unfold szOpen
    rcases hh with hh | ⟨cs, hh, hok⟩
    · simp [hh, hn]
    · simp [hh, hok, hn]
  · unfold szOpen
    have : decodeFolder C l (pre ++ [c]) = .encrypted := by
      unfold decodeFolder
      simp only [List.isEmpty_iff, List.append_eq_nil_iff, List.cons_ne_self, and_false, if_false,
        List.reverse_append, List.reverse_cons, List.reverse_nil, List.nil_append, List.cons_append,
        decodeFolder.go, applyDecoder_aes hC l c hc]
    simp [hh, this, hd]

/-- An archive without any AES coder (neither in the header folder nor in a data folder) is never
    rejected as encrypted. -/
theorem C08_7z_plain {C : Consts} (hC : SzOk C = true) (l : Bool) (a : SzArchive)
    (hh : ∀ cs, a.headerCoders = some cs → ∀ c ∈ cs, ¬ IsAes c)
    (hf : ∀ f ∈ a.folders, ∀ c ∈ f, ¬ IsAes c) :
    szOpen C l a ≠ .encrypted := by
  have hn : needsPassword C a.folders = false := by
    cases h : needsPassword C a.folders with
    | false => rfl
    | true => obtain ⟨f, hf', c, hc, ha⟩ := (C08_7z hC a.folders).mp h; exact absurd ha (hf f hf' c hc)
  unfold szOpen
  cases hhc : a.headerCoders with
  | none => simp [hn]
  | some cs =>
    simp only
    cases hdc : decodeFolder C l cs with
    | ok => simp [hn]
    | bad => simp
    | encrypted =>
      exfalso
      unfold decodeFolder at hdc
      split at hdc
      · cases hdc
      · obtain ⟨c, hc, ha⟩ := go_enc_mem hC l _ hdc
        exact hh cs hhc c (List.mem_reverse.mp hc) ha

/-! ### 5b. the reader's state: the verdict is that of the LAST streams info parsed, whatever was parsed or asked before -/

def SzReaderOk (C : Consts) : Bool := C.szAskPure && C.szFoldersLastWriteWins

/-- the current source: `needs_password` is a pure function of `self._folders`, `_folders` is plainly re-assigned -/
theorem gen_sz_reader_ok : SzReaderOk K = true := by decide

private theorem run_append (C : Consts) (r : SzReader) (a b : List SzEv) :
    SzReader.run C r (a ++ b) = SzReader.run C (SzReader.run C r a) b := by
  induction a generalizing r with
  | nil => rfl
  | cons e es ih => cases e <;> simp [SzReader.run, ih]

private theorem run_asks {C : Consts} (hC : SzReaderOk C = true) (r : SzReader) (n : Nat) :
    SzReader.run C r (List.replicate n .ask) = r := by
  simp only [SzReaderOk, Bool.and_eq_true] at hC
  induction n with
  | zero => rfl
  | succ n ih => simp [List.replicate, SzReader.run, SzReader.ask, hC.1, ih]

/-- For EVERY parse / ask history `before` (the folder of a compressed EncodedHeader parsed first, additional streams,
    `needs_password()` asked early by the parser or anybody else, any number of times), once the streams info with folders
    `fs` has been parsed the reader answers `needsPassword fs` — to every later question.  With `C08_7z`: an AES coder in a
    data folder is reported however the header was stored. -/
theorem C08_7z_reader_history {C : Consts} (hC : SzReaderOk C = true) (before : List SzEv) (fs : List (List Coder)) (asks : Nat) :
    szVerdict C (before ++ [.parsed fs] ++ List.replicate asks .ask) = needsPassword C fs := by
  have hC' := hC
  simp only [SzReaderOk, Bool.and_eq_true] at hC'
  unfold szVerdict
  rw [run_append, run_append, run_asks hC]
  simp [SzReader.run, SzReader.parsed, SzReader.ask, hC'.1, hC'.2]

theorem C08_7z_reader_encrypted {C : Consts} (hC : SzOk C = true) (hR : SzReaderOk C = true) (before : List SzEv)
    (fs : List (List Coder)) (asks : Nat) (f : List Coder) (hf : f ∈ fs) (c : Coder) (hc : c ∈ f) (ha : IsAes c) :
    szVerdict C (before ++ [.parsed fs] ++ List.replicate asks .ask) = true := by
  rw [C08_7z_reader_history hR]
  exact (C08_7z hC fs).mpr ⟨f, hf, c, hc, ha⟩

example : szVerdict K [.parsed [[[0x03, 0x01, 0x01]]], .ask, .parsed [[[0x21], [0x06, 0xF1, 0x07, 0x01]]]] = true := by decide

/-- class "memoised needs_password": one early question (while only the folder of the compressed header is known) freezes
    the answer, the AES coder of the data folders is never seen -/
theorem C08_7z_memo_counterexample :
    szVerdict { K with szAskPure := false } [.parsed [[[0x03, 0x01, 0x01]]], .ask, .parsed [[[0x21], [0x06, 0xF1, 0x07, 0x01]]]] = false := by decide

/-- class "first streams info wins" (`if not self._folders:` / extend-once): the header's own folder hides the data folders -/
theorem C08_7z_first_write_counterexample :
    szVerdict { K with szFoldersLastWriteWins := false } [.parsed [[[0x03, 0x01, 0x01]]], .parsed [[[0x06, 0xF1, 0x07, 0x01]]]] = false := by decide

example : szOpen K true ⟨none, [[[0x21]], [[0x21], [0x06, 0xF1, 0x07, 0x01]]]⟩ = .encrypted := by decide
example : szOpen K false ⟨some [[0x21], [0x06, 0xF1, 0x07, 0x01]], []⟩ = .encrypted := by decide
example : szOpen K true ⟨some [[0x21]], [[[0x03, 0x01, 0x01]], [[0x00]]]⟩ = .done := by decide
example : IsAes [0x06, 0xF1, 0x07, 0x01] := ⟨[1], rfl⟩

/-! ## 6. ODF: an `encryption-data` element in the manifest — and nothing else -/

def OdfOk (C : Consts) : Bool := C.odfEncTag == some specOdfTag

theorem gen_odf_ok : OdfOk K = true := by decide

/-- For every well-formed manifest: the package is rejected as encrypted iff the manifest tree contains
    a `manifest:encryption-data` element (sound AND complete).  The answer does not depend on the
    manifest's text, so member names, attribute values and comments cannot trigger it. -/
theorem C08_odf {C : Consts} (hC : OdfOk C = true) (text : Str) (t : Xml) :
    isOdfEncrypted C ⟨true, some (text, some t)⟩ = true ↔ specOdfTag ∈ t.elems := by
  simp only [OdfOk, beq_iff_eq] at hC
  simp only [isOdfEncrypted, hC, Bool.not_true, Bool.false_eq_true, if_false]
  exact Xml.anyTag_iff specOdfTag t

/-- not a ZIP, or no manifest member: never flagged -/
theorem C08_odf_plain (C : Consts) (m : Option (Str × Option Xml)) :
    isOdfEncrypted C ⟨false, m⟩ = false ∧ isOdfEncrypted C ⟨true, none⟩ = false := ⟨rfl, rfl⟩

/-- the manifest of a real encrypted package: file-entry / encryption-data / algorithm -/
example : isOdfEncrypted K ⟨true, some ([], some (.node "{urn:oasis:names:tc:opendocument:xmlns:manifest:1.0}manifest".toList
    [.node "{urn:oasis:names:tc:opendocument:xmlns:manifest:1.0}file-entry".toList
      [.node "{urn:oasis:names:tc:opendocument:xmlns:manifest:1.0}encryption-data".toList
        [.node "{urn:oasis:names:tc:opendocument:xmlns:manifest:1.0}algorithm".toList []]]]))⟩ = true := by decide

/-- the confirmed witness of the legacy defect is now accepted: manifest text naming a member
    `Pictures/encryption-data.png`, tree without any encryption-data element -/
def odfWitnessText : Str := "<manifest:file-entry manifest:full-path=\"Pictures/encryption-data.png\" manifest:media-type=\"image/png\"/>".toList
def odfWitnessTree : Xml := .node "{urn:oasis:names:tc:opendocument:xmlns:manifest:1.0}manifest".toList
  [.node "{urn:oasis:names:tc:opendocument:xmlns:manifest:1.0}file-entry".toList [],
   .node "{urn:oasis:names:tc:opendocument:xmlns:manifest:1.0}file-entry".toList []]
example : isOdfEncrypted K ⟨true, some (odfWitnessText, some odfWitnessTree)⟩ = false := by decide

/-! ## 7. EPUB -/

def EpubOk (C : Consts) : Bool :=
  C.epubEncPath == specEpubEncPath && C.epubRightsPath == specEpubRightsPath && C.epubEncTag == specEpubTag

theorem gen_epub_ok : EpubOk K = true := by decide

/-- An EPUB is rejected as DRM-protected iff it has META-INF/rights.xml, or its
    META-INF/encryption.xml parses and has an `enc:EncryptedData` element below the root. -/
theorem C08_epub {C : Consts} (hC : EpubOk C = true) (i : EpubInput) :
    isEpubEncrypted C i = true ↔
      (specEpubEncPath ∈ i.names ∧ ∃ tag cs, i.encXml = some (.node tag cs) ∧ specEpubTag ∈ Xml.elemsL cs)
      ∨ specEpubRightsPath ∈ i.names := by
  simp only [EpubOk, Bool.and_eq_true, beq_iff_eq] at hC
  obtain ⟨⟨h1, h2⟩, h3⟩ := hC
  simp only [isEpubEncrypted, h1, h2, h3, Bool.or_eq_true, Bool.and_eq_true, List.contains_iff_mem]
  constructor
  · rintro (⟨hn, hx⟩ | hr)
    · left
      refine ⟨hn, ?_⟩
      cases hx' : i.encXml with
      | none => rw [hx'] at hx; cases hx
      | some t =>
        rw [hx'] at hx
        cases t with
        | node tag cs => exact ⟨tag, cs, rfl, (Xml.anyTagL_iff _ cs).mp hx⟩
    · exact Or.inr hr
  · rintro (⟨hn, tag, cs, hx, hm⟩ | hr)
    · left
      refine ⟨hn, ?_⟩
      rw [hx]
      exact (Xml.anyTagL_iff _ cs).mpr hm
    · exact Or.inr hr

example : isEpubEncrypted K ⟨["mimetype".toList, "META-INF/encryption.xml".toList],
    some (.node "{urn:oasis:names:tc:opendocument:xmlns:container}encryption".toList
      [.node "{http://www.w3.org/2001/04/xmlenc#}EncryptedData".toList []])⟩ = true := by decide
/-- an empty encryption.xml, or one that does not parse, does not make the book "encrypted" -/
example : isEpubEncrypted K ⟨["META-INF/encryption.xml".toList], some (.node "{urn:oasis:names:tc:opendocument:xmlns:container}encryption".toList [])⟩ = false := by decide
example : isEpubEncrypted K ⟨["META-INF/encryption.xml".toList], none⟩ = false := by decide
example : isEpubEncrypted K ⟨["META-INF/rights.xml".toList], none⟩ = true := by decide

/-! ### the verdict does not depend on what the entries SAY (methods, keys, references, order)

`encryption.xml` (EPUB) and the manifest (ODF) carry, besides the element that marks the package as encrypted, a
description of HOW: `EncryptionMethod/@Algorithm`, key information, cipher references, checksum and key-derivation
attributes.  A protected package may mix entries (a DRM-protected book that also ships an obfuscated font; an ODF package
with AES-256 or an algorithm the library has never heard of): it is protected all the same.  The attributed detectors
(`isEpubEncryptedA`, `isOdfEncryptedA`: the model the correspondence runs on the attributed trees of generated packages)
are functions of the tag skeleton. -/

/-- attributes, text, and therefore the algorithms named, are irrelevant to the EPUB verdict -/
theorem C08_epub_content_irrelevant (C : Consts) (names : List Str) (t₁ t₂ : XmlA) (h : t₁.skeleton = t₂.skeleton) :
    isEpubEncryptedA C names (some t₁) = isEpubEncryptedA C names (some t₂) := by
  simp only [isEpubEncryptedA, Option.map_some, h]

/-- an `EncryptedData` element below the root of encryption.xml: rejected — whatever `Algorithm` its `EncryptionMethod`
    (or that of ANY OTHER entry, e.g. a font-obfuscation entry next to it) names, in any order, at any depth -/
theorem C08_epub_any_method {C : Consts} (hC : EpubOk C = true) (names : List Str) (tag : Str) (attrs : List (Str × Str))
    (text : Str) (cs : List XmlA) (hp : specEpubEncPath ∈ names) (hd : specEpubTag ∈ Xml.elemsL (XmlA.skeletonL cs)) :
    isEpubEncryptedA C names (some (.node tag attrs text cs)) = true := by
  unfold isEpubEncryptedA
  exact (C08_epub hC ⟨names, some (.node tag (XmlA.skeletonL cs))⟩).mpr (Or.inl ⟨hp, tag, _, rfl, hd⟩)

/-- attributes and text are irrelevant to the ODF verdict; an `encryption-data` element anywhere: rejected, whatever
    algorithm / checksum / key derivation it declares -/
theorem C08_odf_content_irrelevant {C : Consts} (hC : OdfOk C = true) (text : Str) (t : XmlA) :
    isOdfEncryptedA C true (some (text, some t)) = true ↔ specOdfTag ∈ t.skeleton.elems := by
  unfold isOdfEncryptedA
  exact C08_odf hC text t.skeleton

/-- a DRM-protected book that also declares an obfuscated font (entry order: font first) -/
def epubDrmPlusFont : XmlA :=
  .node "{urn:oasis:names:tc:opendocument:xmlns:container}encryption".toList [] []
    [.node "{http://www.w3.org/2001/04/xmlenc#}EncryptedData".toList [("Id".toList, "EDfont".toList)] []
       [.node "{http://www.w3.org/2001/04/xmlenc#}EncryptionMethod".toList
          [("Algorithm".toList, "http://www.idpf.org/2008/embedding".toList)] [] []],
     .node "{http://www.w3.org/2001/04/xmlenc#}EncryptedData".toList [("Id".toList, "ED1".toList)] []
       [.node "{http://www.w3.org/2001/04/xmlenc#}EncryptionMethod".toList
          [("Algorithm".toList, "http://www.w3.org/2001/04/xmlenc#aes128-cbc".toList)] [] []]]

example : isEpubEncryptedA K ["META-INF/encryption.xml".toList] (some epubDrmPlusFont) = true := by decide

/-- the class of defects: a detector that EXEMPTS a package as soon as some entry names a "harmless" algorithm -/
def isEpubEncryptedExempting (C : Consts) (harmless : List Str) (names : List Str) (enc : Option XmlA) : Bool :=
  isEpubEncryptedA C names enc &&
    !(match enc with
      | some t => (t.attrValues "Algorithm".toList).any (fun a => harmless.contains a)
      | none => false)

/-- the same book without the font entry -/
def epubDrmOnly : XmlA :=
  .node "{urn:oasis:names:tc:opendocument:xmlns:container}encryption".toList [] []
    [.node "{http://www.w3.org/2001/04/xmlenc#}EncryptedData".toList [("Id".toList, "ED1".toList)] []
       [.node "{http://www.w3.org/2001/04/xmlenc#}EncryptionMethod".toList
          [("Algorithm".toList, "http://www.w3.org/2001/04/xmlenc#aes128-cbc".toList)] [] []]]

/-- … extracts the DRM-protected book with an obfuscated font, and is indistinguishable from the detector on a book with
    DRM entries only -/
theorem C08_epub_exemption_counterexample :
    isEpubEncryptedExempting K ["http://www.idpf.org/2008/embedding".toList] ["META-INF/encryption.xml".toList]
      (some epubDrmPlusFont) = false ∧
    isEpubEncryptedA K ["META-INF/encryption.xml".toList] (some epubDrmPlusFont) = true ∧
    isEpubEncryptedExempting K ["http://www.idpf.org/2008/embedding".toList] ["META-INF/encryption.xml".toList]
      (some epubDrmOnly) = true := by decide

/-! ## 8. PDF: the decision built on pypdf's `decrypt('')` -/

/-- every answer `reader.decrypt(…)` can give: it raised (`none`) or one of pypdf's `PasswordType` members
    (the inventory is read from the installed pypdf on every run) -/
def PdfOutcome (C : Consts) (d : Option Nat) : Prop := d = none ∨ ∃ p ∈ C.pdfPasswordTypes, d = some p.2

/-- decidable: the password tried is the empty one; the value assigned when `decrypt` raises makes the test true;
    pypdf's outcome inventory names NOT_DECRYPTED as 0 and gives every other outcome another value; the translated
    test — whatever its spelling in the source — agrees with "`== 0`" on every outcome of the inventory -/
def PdfOk (C : Consts) : Bool :=
  C.pdfPassword == [] && C.pdfExcRejects
    && C.pdfPasswordTypes.contains ("NOT_DECRYPTED", 0)
    && C.pdfPasswordTypes.all (fun p => (p.1 == "NOT_DECRYPTED") == (p.2 == 0))
    && C.pdfPasswordTypes.all (fun p => C.pdfTest.eval p.2 == (p.2 == 0))

theorem gen_pdf_ok : PdfOk K = true := by decide

/-- `read_pdf` raises the encrypted error iff the reader says "encrypted" and trying the EMPTY
    password does not open it (returns NOT_DECRYPTED = 0, or raises) — for every answer `decrypt` can give.
    In particular a PDF that the empty password opens (as user password or as owner password) is not rejected. -/
theorem C08_pdf {C : Consts} (hC : PdfOk C = true) (isEnc : Bool) (d : Option Nat) (hd : PdfOutcome C d) :
    pdfRejects C isEnc d = true ↔ isEnc = true ∧ (d = none ∨ d = some 0) := by
  simp only [PdfOk, Bool.and_eq_true] at hC
  rcases hd with rfl | ⟨p, hp, rfl⟩
  · simp [pdfRejects, hC.1.1.1.2]
  · have := beq_iff_eq.mp (List.all_eq_true.mp hC.2 p hp)
    simp [pdfRejects, this]

/-- over pypdf's own outcome inventory: of all the ways `decrypt('')` can answer, exactly NOT_DECRYPTED is
    rejected — a file the empty password opens as the USER *or* as the OWNER password (pypdf tries the owner
    password first, so a file whose two passwords are both empty reports OWNER_PASSWORD) is extracted. -/
theorem C08_pdf_password_types {C : Consts} (hC : PdfOk C = true) (p : String × Nat) (hp : p ∈ C.pdfPasswordTypes) :
    pdfRejects C true (some p.2) = (p.1 == "NOT_DECRYPTED") := by
  simp only [PdfOk, Bool.and_eq_true] at hC
  have h1 := beq_iff_eq.mp (List.all_eq_true.mp hC.2 p hp)
  have h2 := beq_iff_eq.mp (List.all_eq_true.mp hC.1.2 p hp)
  simp only [pdfRejects, Bool.true_and, h1, h2]

/-- the inventory is the one the theorems are meant for: three outcomes, owner and user among them -/
theorem gen_pdf_outcomes :
    ((K.pdfPasswordTypes.map (·.1)).contains "OWNER_PASSWORD" && (K.pdfPasswordTypes.map (·.1)).contains "USER_PASSWORD"
      && K.pdfPasswordTypes.length == 3) = true := by decide

example : PdfOutcome K (some 2) := Or.inr ⟨("OWNER_PASSWORD", 2), by decide, rfl⟩
example : pdfRejects K true (some 1) = false ∧ pdfRejects K true (some 2) = false ∧ pdfRejects K true (some 0) = true
    ∧ pdfRejects K true none = true ∧ pdfRejects K false none = false := by decide

/-- the strict reading (the test is literally equivalent to `== 0` for EVERY natural number, decided on `0 … bound`
    of the translated test and extended by `PdfTest.eval_stable`) -/
def PdfStrict (C : Consts) : Bool :=
  C.pdfPassword == [] && C.pdfExcRejects
    && (List.range (C.pdfTest.bound + 1)).all (fun v => C.pdfTest.eval v == (v == 0))

/-- … under which the statement holds for results of any size, not only pypdf's three.  (Not tied to the generated
    constants: a spelling such as `not in (USER_PASSWORD, OWNER_PASSWORD)` is correct on every outcome but not strict.) -/
theorem C08_pdf_all_results {C : Consts} (hC : PdfStrict C = true) (isEnc : Bool) (d : Option Nat) :
    pdfRejects C isEnc d = true ↔ isEnc = true ∧ (d = none ∨ d = some 0) := by
  simp only [PdfStrict, Bool.and_eq_true] at hC
  have ht := PdfTest.eval_eq_isZero _ hC.2
  cases d with
  | none => simp [pdfRejects, hC.1.2]
  | some n => simp [pdfRejects, ht n]

example : PdfStrict { K with pdfTest := .eq 0 } = true ∧ PdfStrict { K with pdfTest := .lt 1 } = true
    ∧ PdfStrict { K with pdfTest := .not .truthy } = true := by decide

/-- why the owner outcome matters: a decision that lets only USER_PASSWORD through (`decrypt_result is not
    PasswordType.USER_PASSWORD`, handler default NOT_DECRYPTED) fails `PdfOk` and rejects the PDF whose empty
    password is reported as the owner password — although no password is needed to open it. -/
theorem C08_pdf_user_only_counterexample :
    PdfOk { K with pdfTest := .ne 1 } = false ∧ pdfRejects { K with pdfTest := .ne 1 } true (some 2) = true := by decide

/-- `PdfOk` judges the meaning on pypdf's outcomes, not the spelling -/
example : PdfOk { K with pdfTest := .not (.mem [1, 2]) } = true ∧ PdfStrict { K with pdfTest := .not (.mem [1, 2]) } = false
    ∧ PdfOk { K with pdfTest := .and (.ne 1) (.ne 2) } = true ∧ PdfOk { K with pdfTest := .ge 2 } = false
    ∧ PdfOk { K with pdfExcRejects := false } = false := by decide

/-! ## 9. "Before any content is returned": the wrapper skeletons -/

open S2T.Guard

/-- the container kinds whose wrapper carries an explicit detector test -/
def guardedWrappers : List String :=
  ["read_docx", "read_xlsx", "read_pptx", "read_xls", "read_ppt", "read_odt", "read_ods", "read_odp",
   "read_odg", "read_odf", "read_epub"]

def noStuck (_ : String) : Bool := false

/-- every one of them is a registered extractor and the translator found its guard -/
theorem C08_guards_cover :
    guardedWrappers.all (fun w => (S2T.Gen.Wrappers.extractorWrappers.map (·.1)).contains w
      && (S2T.Gen.Encryption.guards.map (·.1)).contains w) = true := by decide

/-- decidable core of `C08_before_content` -/
def guardsOk : Bool :=
  S2T.Gen.Encryption.guards.all (fun g =>
    match S2T.Gen.Wrappers.extractorWrappers.lookup g.1 with
    | none => false
    | some s =>
      hasGuard g.2 (guardify s) && noYield (· == g.2) noStuck (guardify s)
        && guardRaises (· == g.2) "ExtractionFileEncryptedError" (guardify s))

theorem gen_guards_ok : guardsOk = true := by decide

/-- In each of the 11 guarded wrappers: whenever the detector test answers True, NO execution of the
    wrapper — whatever any parser call does, whichever exceptions fly — performs a `yield`; and the
    statement under the test is `raise ExtractionFileEncryptedError`. -/
theorem C08_before_content (w tag : String) (s : S2T.Wrapper.Stmt)
    (hg : (w, tag) ∈ S2T.Gen.Encryption.guards)
    (hs : S2T.Gen.Wrappers.extractorWrappers.lookup w = some s)
    (n : Nat) (o : Out) (hrun : Run (· == tag) noStuck (guardify s) n o) : n = 0 := by
  have h := gen_guards_ok
  simp only [guardsOk, List.all_eq_true] at h
  have h' := h (w, tag) hg
  simp only [hs, Bool.and_eq_true] at h'
  exact (noYield_sound hrun).1 h'.1.2

/-- DOC has no separate detector call: the FIB test sits inside `doc.read()`.  Whenever that call
    raises (as `C08_fib` says it does for an encrypted stream) nothing is yielded. -/
theorem C08_before_content_doc (n : Nat) (o : Out)
    (hrun : Run (fun _ => false) (· == "stmt:doc.read()") (guardify S2T.Gen.Wrappers.read_doc) n o) : n = 0 :=
  (noYield_sound hrun).1 (by decide)

/-- PDF: the decision is taken on local values (no call in the tests), so the skeleton cannot link
    it to the raise; but every execution of `read_pdf` that ends with an exception — in particular
    with the encrypted error — has yielded nothing. -/
theorem C08_before_content_pdf (encT stuck : String → Bool) (n : Nat)
    (hrun : Run encT stuck (guardify S2T.Gen.Wrappers.read_pdf) n .raised) : n = 0 :=
  quiet_sound hrun (by decide) rfl

/-- the hypotheses are satisfiable: executions of the shapes used above exist (miniature skeleton
    of the same form: seek; if test: raise; parse; yield — test answers True, the error leaves) -/
example : Run (· == "test:t") noStuck
    (guardify (.try_ (.seq (.atom "stmt:seek" false) (.seq (.seq (.atom "test:t" false) (.ite (.raise_ "ExtractionFileEncryptedError") (.atom "skip" true))) (.seq (.atom "stmt:parse" false) .yield_)))
      [(["ExtractionError"], .reraise)] (.atom "skip" true))) 0 .raised :=
  Run.tryCaught (h := .reraise) (k := 0) (m := 0) (o' := .normal)
    (Run.seqGo (n := 0) (m := 0) (Run.atomOk rfl) (Run.seqStop (Run.ifTrue rfl Run.raise_) (by decide)))
    (List.mem_cons_self ..) Run.reraise (Run.atomOk rfl)
/-- … and without the assumption the same skeleton can yield (the analysis is not vacuous) -/
example : noYield (fun _ => false) noStuck
    (guardify (.seq (.seq (.atom "test:t" false) (.ite (.raise_ "E") (.atom "skip" true))) .yield_)) = false := by decide

/-! ## Counterexamples: the three parts of the statement that were false on the unmodified source -/

/-- Legacy ODF test (text markers only, `odfEncTag = none`): the plain package whose manifest lists a
    member `Pictures/encryption-data.png` is flagged although its tree has no encryption-data element.
    Full-strength `C08_odf` is false for those constants. -/
theorem C08_legacy_odf_counterexample :
    isOdfEncrypted { K with odfEncTag := none } ⟨true, some (odfWitnessText, some odfWitnessTree)⟩ = true
    ∧ specOdfTag ∉ odfWitnessTree.elems := by decide

/-- Legacy ZIP read handler (`except RuntimeError` alone — NotImplementedError is a RuntimeError): a plain
    archive with a member stored with an unsupported method (e.g. deflate64) ends "encrypted", after
    having yielded the first member's content.  `C08_zip_plain` is false for those constants. -/
theorem C08_legacy_zip_counterexample :
    zipExtract { K with zipReadHandlers := [("RuntimeError", "ExtractionFileEncryptedError")] }
      (some [⟨false, 0, false, false, .data, 1⟩, ⟨false, 0, false, false, .notImplemented, 0⟩]) = (1, .encrypted) := by decide

/-- Legacy 7z path (`Bad7zFile` for an AES coder met while decoding the header → "Invalid 7z archive"):
    a header-encrypted archive is a *failed* extraction, not an encrypted one. -/
theorem C08_legacy_7z_counterexample :
    szOpen { K with szHeaderEncDetected := false } true ⟨some [[0x21], [0x06, 0xF1, 0x07, 0x01]], []⟩ = .failed := by decide

end S2T.C08
