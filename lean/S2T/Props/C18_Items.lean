import S2T.Lemmas.SharePointRaw
import S2T.Props.C18_Folders
import S2T.Gen.SharePointItems
/-!
# C18, part "names as the server sees them / items as the client looks at them"

Two families of inputs of the property's quantifier ("names needing URL quoting", "optional fields missing") that
the model had abstracted away before the theorems started:

A. ESCAPE LOOK-ALIKES.  A folder may be NAMED `Rates %2B fees`, `Growth 100%25`, `Q%31`: a `%` followed by two hex
   digits that is data, not an escape — possibly beside a sibling carrying the decoded name (`Rates + fees`).  The
   server percent-decodes the request path exactly once (`pctDecode`).  `C18_start_decoded`: for EVERY start folder
   what the server decodes from the client's request is, component by component, the UTF-8 bytes of the name the
   caller wrote (so `Folders.C18_folders_complete` — which resolves names by comparing their encodings — is about the
   decoding server, `C18_server_decodes`); `C18_lookalike_distinct`: two different start folders are never asked for
   by the same URL (this is `Folders.C18_start_url`'s injectivity, at the level of requests);
   `decode_before_quote_collides`: any client that decodes before it quotes asks for `Rates + fees` when it is given
   `Rates %2B fees`.  `gen_escape_literal` re-decides on every run, for all 22 x 22 hex pairs and the other
   look-alike families, that the REAL `_get_folder_by_path` requests what the model requests.

B. OPTIONAL MEMBERS.  `RawItem` is a driveItem before the client has looked at it; `classify` is the accessor code.
   `C18_classify_ignores_optional`: what an item is (folder to descend into / file with these fields / nothing)
   depends on the presence of the facets, `name`, `id` and the two timestamps only — not on childCount, the other
   facet members, size, webUrl, parentReference, fileSystemInfo, listItem, unrelated facets.
   `C18_optional_irrelevant`: for ANY two servers whose answers agree up to optional members, every listing call
   behaves identically (results, order, errors, request log, open / close counters).
   `C18_complete_any_decoration` / `C18_folders_complete_any_decoration`: the completeness theorems hold for every
   presentation of the library (any optional members on any item of any answer, any facet shape).
   `gen_classify_probes` re-decides on every run that the REAL `_walk_drive_items` treats each of the 361 item shapes
   of the probe lattice as `classify` says; `gen_item_reads_accounted` that the listing code reads no dict key the
   model does not account for (deciding keys anywhere; carried keys only where metadata is filled in).
-/
namespace S2T.C18.Items
open S2T.SP S2T.C18.Folders

/-! ## ties to the current source (regenerated on every run) -/

theorem gen_items_notes_empty : S2T.Gen.SharePointItems.notes = [] := by decide

/-- keys that decide what is listed (the model reads them: `Obj`, `classify`) -/
def decidingKeys : List String :=
  ["value", "@odata.nextLink", "folder", "file", "name", "id", "createdDateTime", "lastModifiedDateTime", "access_token"]

/-- keys that are only copied into metadata fields the property does not mention, and the functions that do so -/
def carriedKeys : List String := ["webUrl", "@microsoft.graph.downloadUrl", "size", "mimeType", "listItem", "fields"]
def carriers : List String := ["_parse_file_item", "_extract_custom_fields"]

/-- CLOSED WORLD: every string key with which a function reachable from `list_all_files` / `list_files_filtered` /
    `list_files_modified_since` / `list_files_created_since` reads a dict is one the model accounts for -/
theorem gen_item_reads_accounted :
    ∀ p ∈ S2T.Gen.SharePointItems.itemReads,
      p.2 ∈ decidingKeys ∨ (p.2 ∈ carriedKeys ∧ p.1 ∈ carriers) := by decide +kernel

/-- what the walk does with one item of a page, according to the model -/
def viewOf : Item → S2T.Gen.SharePointItems.View
  | .folder n (some id) => if id.isEmpty then .nothing else .descends n id
  | .folder _ none => .nothing
  | .file f => .file f
  | .other => .nothing

/-- the real `_walk_drive_items`, run on every item shape of the probe lattice (facet shapes x name x id x optional
    members), did what `classify` says -/
theorem gen_classify_probes :
    ∀ p ∈ S2T.Gen.SharePointItems.classifyProbes, viewOf (classify p.1) = p.2 := by decide +kernel

/-- the real `_get_folder_by_path` accepts a by-path answer as a folder exactly when the `folder` member is present,
    whatever its shape (`{}`, with / without childCount, a childCount of 0) and whatever else the answer carries -/
theorem gen_by_path_probes :
    ∀ p ∈ S2T.Gen.SharePointItems.byPathProbes, p.1.present = p.2 := by decide +kernel

/-- the real `_get_folder_by_path` requests, for every start folder of the look-alike families (a literal `%XY` for
    all hex pairs in both cases, double escapes, `+`, NFC / NFD, …), the path the model requests: it neither decodes
    nor normalises what the caller wrote -/
theorem gen_escape_literal :
    ∀ p ∈ S2T.Gen.SharePointItems.pctProbes, quote (stripSlash p.1) = p.2 := by decide +kernel

/-! ## A. escape look-alikes -/

/-- DECODE-ONCE SERVER: what the server decodes from the request for a start folder is, component by component, the
    UTF-8 encoding of the components the caller wrote — whatever characters they contain (`%2B` stays `%2B`) -/
theorem C18_start_decoded (st : Start) (h : st.Ok) :
    (splitSlash (quote (stripSlash st.raw))).map pctDecode = st.comps.map utf8Str := by
  rw [(C18_start_url st h).2.1, List.map_map]
  apply List.map_congr_left
  intro c _
  exact pctDecode_quote c

/-- the healthy server of the theorems compares percent-ENCODED names; on every request the client can build this is
    the same as comparing the DECODED request segment with the bytes of the name -/
theorem C18_server_decodes (nm c : Str) : (quote nm == quote c) = (utf8Str nm == pctDecode (quote c)) := by
  rw [quote_beq, pctDecode_quote]
  by_cases h : nm = c
  · subst h; simp
  · have : utf8Str nm ≠ utf8Str c := fun e => h (utf8Str_injective _ _ e)
    rw [beq_eq_false_iff_ne.mpr this, beq_eq_false_iff_ne.mpr h]

/-- two start folders that differ after `strip("/")` are never looked up by the same request -/
theorem C18_lookalike_distinct (site a b : Str) (h : stripSlash a ≠ stripSlash b) :
    Url.byPath site (quote (stripSlash a)) ≠ Url.byPath site (quote (stripSlash b)) := by
  intro e
  injection e with _ e2
  exact h (quote_injective _ _ e2)

def exF (nm : String) : FileItem := ⟨nm.toList, ("ID" ++ nm).toList, some "2024-01-15T10:00:00Z".toList, some "2024-01-15T10:00:00Z".toList⟩

/-- siblings whose names differ by one escape only, a nested look-alike, a name ending in `%25` beside `…%` -/
def exLib : Lib :=
  .folder "Rates %2B fees".toList "E1".toList
    (.file (exF "encoded.pdf") (.folder "Q%31".toList "E2".toList (.file (exF "deep.txt") .nil) .nil))
  (.folder "Rates + fees".toList "P1".toList (.file (exF "plus.pdf") .nil)
  (.folder "Growth 100%25".toList "G1".toList (.file (exF "escape.xlsx") .nil)
  (.folder "Growth 100%".toList "G2".toList (.file (exF "plain.xlsx") .nil)
  (.file (exF "root.txt") .nil))))

def stEnc : Start := ⟨"Rates %2B fees".toList, ["Rates %2B fees".toList]⟩
def stDeep : Start := ⟨"/Rates %2B fees/Q%31/".toList, ["Rates %2B fees".toList, "Q%31".toList]⟩
def stPlus : Start := ⟨"Rates + fees".toList, ["Rates + fees".toList]⟩
def stPct : Start := ⟨"Growth 100%25".toList, ["Growth 100%25".toList]⟩

example : resolves exLib exLib = true ∧ exLib.size + 2 ≤ 14 := by decide +kernel
private theorem valid_of_all (cs : List Str) (h : cs.all (fun c => !c.isEmpty && !c.contains '/') = true) : ValidComps cs := by
  intro c hc
  have := List.all_eq_true.mp h c hc
  simp only [Bool.and_eq_true, Bool.not_eq_true', List.isEmpty_eq_false_iff, List.contains_eq_mem, decide_eq_false_iff_not] at this
  exact ⟨this.1, this.2⟩

example : stEnc.Ok ∧ stDeep.Ok ∧ stPlus.Ok ∧ stPct.Ok :=
  ⟨⟨valid_of_all _ (by decide +kernel), by decide +kernel, fun h => by cases h⟩,
   ⟨valid_of_all _ (by decide +kernel), by decide +kernel, fun h => by cases h⟩,
   ⟨valid_of_all _ (by decide +kernel), by decide +kernel, fun h => by cases h⟩,
   ⟨valid_of_all _ (by decide +kernel), by decide +kernel, fun h => by cases h⟩⟩

/-- the requests: the literal `%` is encoded, nothing is decoded -/
example : quote (stripSlash stDeep.raw) = "Rates%20%252B%20fees/Q%2531".toList ∧
    quote (stripSlash stPlus.raw) = "Rates%20%2B%20fees".toList := by decide +kernel

/-- the run of the model (page size 1): each look-alike start folder yields ITS files with ITS name as parent path,
    with the sibling of the decoded name present -/
example : (listFilteredL .fixed (healthy exLib 1) isoStrict asciiLower globMatch {} [stEnc.raw, stPct.raw, stPlus.raw] 14 {}).1 =
    ⟨[parseFile "Rates %2B fees".toList (exF "encoded.pdf"), parseFile "Rates %2B fees/Q%31".toList (exF "deep.txt"),
      parseFile "Growth 100%25".toList (exF "escape.xlsx"), parseFile "Rates + fees".toList (exF "plus.pdf")], none⟩ := by
  decide +kernel

/-- WHY NOTHING MAY BE DECODED BEFORE QUOTING: a client that percent-decodes the start folder first asks for the
    sibling — `Rates %2B fees` and `Rates + fees`, `Growth 100%25` and `Growth 100%`, `Q%31` and `Q1` collide -/
theorem decode_before_quote_collides :
    ("Rates %2B fees".toList ≠ "Rates + fees".toList ∧
      quote (pctDecodeAscii "Rates %2B fees".toList) = quote "Rates + fees".toList) ∧
    quote (pctDecodeAscii "Growth 100%25".toList) = quote "Growth 100%".toList ∧
    quote (pctDecodeAscii "Q%31".toList) = quote "Q1".toList ∧
    quote "Rates %2B fees".toList ≠ quote "Rates + fees".toList := by decide +kernel

/-! ## B. optional members -/

/-- what an item is depends on the presence of the facets, `name`, `id` and the two timestamps only -/
theorem C18_classify_ignores_optional (r r' : RawItem) (h : r.essence = r'.essence) : classify r = classify r' := by
  rw [← classify_essence r, ← classify_essence r', h]

/-- in particular: the shape of a present facet (childCount missing / 0 / n, other members) and every optional
    member can be replaced without changing what the item is -/
theorem C18_facet_shape_irrelevant (r : RawItem) (cc cc' : Option Nat) (x x' : Bool) (o o' : Optional)
    (h : r.folder = .obj cc x) :
    classify { r with folder := .obj cc' x', opt := o' } = classify { r with opt := o } := by
  apply C18_classify_ignores_optional
  simp [RawItem.essence, Facet.present, h]

/-- OPTIONAL MEMBERS NEVER MATTER: for any two servers (healthy or not) whose answers agree up to optional members,
    `list_all_files` and the generator `list_files_filtered` (any filter, any start folders, any client state) behave
    identically: same values handed out, same order, same error, same request log and open / close counters -/
theorem C18_optional_irrelevant (rt rt' : RawTransport) (h : ∀ i u, (rt i u).essence = (rt' i u).essence)
    (iso : Str → Option Int) (lower : Str → Str) (glob : Str → Str → Bool) (f : Filter) (folders : List Str)
    (fuel : Nat) (s : St) :
    listAll .fixed (ofRaw rt) fuel s = listAll .fixed (ofRaw rt') fuel s ∧
    listFilteredL .fixed (ofRaw rt) iso lower glob f folders fuel s =
      listFilteredL .fixed (ofRaw rt') iso lower glob f folders fuel s := by
  have e : ofRaw rt = ofRaw rt' := by
    rw [← ofRaw_essence rt, ← ofRaw_essence rt']
    funext i u
    show ((rt i u).essence).toOutcome = ((rt' i u).essence).toOutcome
    rw [h i u]
  rw [e]
  exact ⟨rfl, rfl⟩

/-- a faithful presentation: every item is shown as a raw item that IS that item, by-path answers carry a present
    `folder` facet of any shape -/
def Faithful (d : Decoration) (fd : Facet) : Prop := (∀ i u k it, classify (d i u k it) = it) ∧ fd.present = true

/-- the healthy server of library `L` presenting its items with decoration `d` -/
def healthyRaw (L : Lib) (n : Nat) (d : Decoration) (fd : Facet) : RawTransport :=
  fun i u => decorateOutcome (d i u) fd (healthy L n i u)

theorem healthyRaw_eq (L : Lib) (n : Nat) (d : Decoration) (fd : Facet) (h : Faithful d fd) :
    ofRaw (healthyRaw L n d fd) = healthy L n := by
  funext i u
  exact toOutcome_decorate (d i u) (h.1 i u) fd h.2 _

/-- COMPLETE for every presentation: whatever optional members the server adds to or leaves out of whichever item
    (childCount missing on a non-empty folder included), `list_all_files` returns the complete listing -/
theorem C18_complete_any_decoration (L : Lib) (n : Nat) (hn : 0 < n) (hL : resolves L L = true)
    (d : Decoration) (fd : Facet) (hd : Faithful d fd)
    (fuel : Nat) (hf : L.size + 2 ≤ fuel) (s : St) (hs : Consistent s) :
    ∃ out s', listAll .fixed (ofRaw (healthyRaw L n d fd)) fuel s = (.ok out, s') ∧
      out = clientListing [] L ∧ out.Perm (specListing [] L) := by
  rw [healthyRaw_eq L n d fd hd]
  obtain ⟨s', h⟩ := listAll_healthy .fixed L n hn hL fuel hf s hs
  exact ⟨_, s', h, rfl, clientListing_perm L []⟩

/-- … and so does the filtered listing with any start folders (`Folders.C18_folders_complete`) -/
theorem C18_folders_complete_any_decoration (iso : Str → Option Int) (lower : Str → Str) (glob : Str → Str → Bool)
    (f : Filter) (L : Lib) (n : Nat) (hn : 0 < n) (hL : resolves L L = true)
    (d : Decoration) (fd : Facet) (hd : Faithful d fd) (fuel : Nat) (hf : L.size + 2 ≤ fuel)
    (sts : List Start) (hsts : ∀ st ∈ sts, st.Ok) (s : St) (hs : Consistent s) :
    ∃ s', listFilteredL .fixed (ofRaw (healthyRaw L n d fd)) iso lower glob f (sts.map (·.raw)) fuel s =
        (⟨expected (matchesF .fixed iso lower glob f) L sts, none⟩, s') ∧ Consistent s' := by
  rw [healthyRaw_eq L n d fd hd]
  exact C18_folders_complete iso lower glob f L n hn hL fuel hf sts hsts s hs

theorem classify_rawOf (o : Optional) (fc : Facet) (h : fc.present = true) (it : Item) : classify (rawOf o fc it) = it := by
  cases it with
  | file fi => cases fc <;> simp_all [rawOf, classify, Facet.present, RawId.orEmpty]
  | folder n id => cases fc <;> cases id <;> simp_all [rawOf, classify, Facet.present, RawId.get]
  | other => rfl

/-- the hypotheses are satisfiable by the presentations that matter: NO childCount anywhere (`"folder": {}`), a
    childCount on every other answer only, size 0 / parentReference / fileSystemInfo / unrelated facets present -/
example : Faithful (fun _ _ _ => rawOf {} (.obj none false)) (.obj none false) :=
  ⟨fun _ _ _ it => classify_rawOf _ _ rfl it, rfl⟩

example : Faithful (fun i _ k => rawOf { size := some 0, parentRef := true, fileSystemInfo := true, extraFacet := k % 2 == 0 }
    (if i % 2 == 0 then .obj none true else .obj (some 7) false)) (.obj (some 0) false) :=
  ⟨fun i _ _ it => classify_rawOf _ _ (by split <;> rfl) it, rfl⟩

/-- a non-empty folder presented without childCount is descended into (model run, page size 2) -/
example : (listAll .fixed (ofRaw (healthyRaw exLib 2 (fun _ _ _ => rawOf {} (.obj none false)) (.obj none false))) 14 {}).1 =
    .ok (clientListing [] exLib) := by decide +kernel

end S2T.C18.Items

/-! ### fnmatch character classes (the concrete `globMatch` of the driver; every theorem above holds for ANY `glob`) -/
namespace S2T.C18.Items
open S2T.SP

/-- a one-member class is that character: `[c]` then `p` accepts `x :: s` iff `x = c` and `p` accepts `s` -/
theorem C18_glob_class_step (neg : Bool) (m : Str) (toks : List GTok) (x : Char) (s : Str) :
    globTok (.cls neg m :: toks) (x :: s) = ((classHas x m != neg) && globTok toks s) := rfl

/-- a class never accepts the empty rest: it stands for exactly one character (it is not literal text) -/
theorem C18_glob_class_needs_char (neg : Bool) (m : Str) (toks : List GTok) : globTok (.cls neg m :: toks) [] = false := rfl

/-- the seeded-change shapes: a class BEFORE the first `*` in the folder part selects the folder -/
theorem C18_glob_class_examples :
    globMatch "Reports/2024/jan.pdf".toList "[Rr]eports/*.pdf".toList = true ∧
    globMatch "reports/old.pdf".toList "[Rr]eports/*.pdf".toList = true ∧
    globMatch "Year 2024/sub/b.pdf".toList "Year 202[34]/*".toList = true ∧
    globMatch "Year 2022/a.pdf".toList "Year 202[34]/*".toList = false ∧
    globMatch "Reports/2024/jan.pdf".toList "Reports/202[0-9]/*".toList = true ∧
    globMatch "Reports/2024/jan.pdf".toList "Reports/202[!0-9]/*".toList = false ∧
    globMatch "a[b".toList "a[b".toList = true := by decide

end S2T.C18.Items
