import S2T.Lemmas.Router
import S2T.Gen.Router
import S2T.Props.C07_Src
/-!
# C07 — Routing: `is_supported_file` ⇔ `get_extractor` succeeds; the extension decides

Theorems are proved for *every* table set satisfying the decidable predicate `TablesOk`
and then instantiated at the tables generated from the source (`S2T.Gen.Router.tables`),
for which `TablesOk` is re-decided by the kernel on every run.
Quantifiers: every lower-cased path `pl : List Char`, every MIME guess `mime`.
-/
namespace S2T.C07
open S2T.Router

/-- `_SUPPORTED_EXTENSIONS` as the source derives it. -/
def derivedSupported (T : Tables) : List Str :=
  T.registry.map (fun kv => '.' :: kv.1) ++ T.aliases.map (fun kv => '.' :: kv.1) ++ T.compound.map (·.1)

/-- Table well-formedness the routing theorems need (decidable; re-decided on the generated tables). -/
def TablesOk (T : Tables) : Bool :=
  -- the runtime frozenset is exactly the derived one
  T.supported.all (derivedSupported T).contains && (derivedSupported T).all T.supported.contains
  -- alias targets, MIME values and compound values are registered file types
  && T.aliases.all (fun kv => (lookup kv.2 T.registry).isSome)
  && T.mimeMap.all (fun kv => (lookup kv.2 T.registry).isSome && !kv.1.isEmpty)
  && T.compound.all (fun kv => (lookup kv.2 T.registry).isSome && kv.1.head? == some '.')
  -- no empty keys
  && T.registry.all (fun kv => !kv.1.isEmpty) && T.aliases.all (fun kv => !kv.1.isEmpty)

theorem gen_tables_ok : TablesOk S2T.Gen.Router.tables = true := by decide +kernel

/-- the translator found every table to be the literal the source shows -/
theorem gen_notes_empty : S2T.Gen.Router.notes = [] := by decide

section generic
variable {T : Tables}

private theorem ok_parts (h : TablesOk T = true) :
    (∀ e, T.supported.contains e = (derivedSupported T).contains e) ∧
    (∀ a b, (a, b) ∈ T.aliases → (lookup b T.registry).isSome = true) ∧
    (∀ m t, (m, t) ∈ T.mimeMap → (lookup t T.registry).isSome = true ∧ m ≠ []) ∧
    (∀ c t, (c, t) ∈ T.compound → (lookup t T.registry).isSome = true ∧ c.head? = some '.') ∧
    (∀ k v, (k, v) ∈ T.registry → k ≠ []) ∧ (∀ k v, (k, v) ∈ T.aliases → k ≠ []) := by
  simp only [TablesOk, Bool.and_eq_true, List.all_eq_true] at h
  obtain ⟨⟨⟨⟨⟨⟨h1, h2⟩, h3⟩, h4⟩, h5⟩, h6⟩, h7⟩ := h
  refine ⟨?_, ?_, ?_, ?_, ?_, ?_⟩
  · intro e
    apply Bool.eq_iff_iff.mpr
    constructor
    · intro he; exact h1 e (by simpa using he)
    · intro he; exact h2 e (by simpa using he)
  · intro a b hab; exact h3 (a, b) hab
  · intro m t hm
    have := h4 (m, t) hm
    simp only [Bool.and_eq_true, Bool.not_eq_true', List.isEmpty_eq_false_iff] at this
    exact this
  · intro c t hc
    have := h5 (c, t) hc
    simp only [Bool.and_eq_true, beq_iff_eq] at this
    exact this
  · intro k v hk
    have := h6 (k, v) hk
    simpa using this
  · intro k v hk
    have := h7 (k, v) hk
    simpa using this

private theorem reg_key_nonempty (h : TablesOk T = true) (t : Str)
    (ht : (lookup t T.registry).isSome = true) : t ≠ [] := by
  obtain ⟨_, _, _, _, h6, _⟩ := ok_parts h
  rw [lookup_isSome_iff] at ht
  obtain ⟨⟨k, v⟩, hm, hk⟩ := List.mem_map.mp ht
  simp at hk; subst hk
  exact h6 k v hm

/-- `_file_type_from_extension` only ever answers with a registered, non-empty file type. -/
theorem fileType_registered (h : TablesOk T = true) (pl t : Str)
    (ht : fileTypeFromExt T pl = some t) : (lookup t T.registry).isSome = true ∧ t ≠ [] := by
  obtain ⟨_, _, _, h5, _, _⟩ := ok_parts h
  unfold fileTypeFromExt at ht
  split at ht
  · rename_i t' hc
    cases ht
    obtain ⟨e, hm, _⟩ := compoundMatch_some_mem _ _ _ hc
    exact ⟨(h5 e t hm).1, reg_key_nonempty h t (h5 e t hm).1⟩
  · split at ht
    · cases ht
    · split at ht
      · cases ht
      · simp only at ht
        split at ht
        · rename_i hreg
          cases ht
          exact ⟨hreg, reg_key_nonempty h _ hreg⟩
        · cases ht

/-- With the compound check negative, the supported-set test and the file-type lookup agree. -/
private theorem supported_iff_fileType (h : TablesOk T = true) (pl : Str)
    (hc : compoundMatch T.compound pl = none) :
    T.supported.contains (splitextExt pl) = (fileTypeFromExt T pl).isSome := by
  obtain ⟨h1, h3, _, h5, h6, h7⟩ := ok_parts h
  have hsuf := splitextExt_suffix pl
  rw [h1]
  unfold fileTypeFromExt
  rw [hc]
  simp only
  generalize hext : splitextExt pl = e at *
  cases e with
  | nil =>
    simp only [Option.isSome_none]
    apply Bool.eq_false_iff.mpr
    intro hcon
    simp only [derivedSupported, List.contains_iff_mem, List.mem_append, List.mem_map] at hcon
    rcases hcon with (⟨kv, _, hk⟩ | ⟨kv, _, hk⟩) | ⟨kv, hm, hk⟩
    · cases hk
    · cases hk
    · have := (h5 kv.1 kv.2 hm).2
      rw [hk] at this; simp at this
  | cons d ext =>
    -- d = '.' because the extension begins with a dot
    have hd : d = '.' := by
      have := hext
      unfold splitextExt at this
      simp only at this
      split at this
      · cases this
      · split at this
        · cases this; rfl
        · cases this
    subst hd
    by_cases hempty : ext = []
    · subst hempty
      simp only [↓reduceIte, Option.isSome_none]
      apply Bool.eq_false_iff.mpr
      intro hcon
      simp only [derivedSupported, List.contains_iff_mem, List.mem_append, List.mem_map] at hcon
      rcases hcon with (⟨kv, hm, hk⟩ | ⟨kv, hm, hk⟩) | ⟨kv, hm, hk⟩
      · simp at hk; exact h6 kv.1 kv.2 hm hk
      · simp at hk; exact h7 kv.1 kv.2 hm hk
      · have := compoundMatch_none _ _ hc kv.1 kv.2 hm
        rw [hk] at this
        have hs : (['.'] : Str).isSuffixOf pl = true := by simpa using hsuf
        rw [hs] at this; cases this
    · simp only [hempty, ↓reduceIte]
      apply Bool.eq_iff_iff.mpr
      constructor
      · intro hcon
        simp only [derivedSupported, List.contains_iff_mem, List.mem_append, List.mem_map] at hcon
        rcases hcon with (⟨kv, hm, hk⟩ | ⟨kv, hm, hk⟩) | ⟨kv, hm, hk⟩
        · simp at hk; subst hk
          cases hal : lookup kv.1 T.aliases with
          | none =>
            have : (lookup kv.1 T.registry).isSome = true := by
              rw [lookup_isSome_iff]; exact List.mem_map.mpr ⟨kv, hm, rfl⟩
            simp [this]
          | some b =>
            have := h3 kv.1 b (lookup_mem _ _ _ hal)
            simp [this]
        · simp at hk; subst hk
          have hin : (lookup kv.1 T.aliases).isSome = true := by
            rw [lookup_isSome_iff]; exact List.mem_map.mpr ⟨kv, hm, rfl⟩
          obtain ⟨b, hb⟩ := Option.isSome_iff_exists.mp hin
          have := h3 kv.1 b (lookup_mem _ _ _ hb)
          simp [hb, this]
        · have := compoundMatch_none _ _ hc kv.1 kv.2 hm
          rw [hk] at this
          have hs : ('.' :: ext).isSuffixOf pl = true := by simpa using hsuf
          rw [hs] at this; cases this
      · intro hft
        simp only [derivedSupported, List.contains_iff_mem, List.mem_append, List.mem_map]
        cases hal : lookup ext T.aliases with
        | none =>
          simp only [hal, Option.getD_none] at hft
          split at hft
          · rename_i hreg
            rw [lookup_isSome_iff] at hreg
            obtain ⟨kv, hm, hk⟩ := List.mem_map.mp hreg
            left; left; exact ⟨kv, hm, by simp [hk]⟩
          · cases hft
        | some b =>
          have hm := lookup_mem _ _ _ hal
          left; right; exact ⟨(ext, b), hm, rfl⟩

/-- **C07 (equivalence).** `is_supported_file(path)` is true exactly when `get_extractor(path)`
    returns an extractor; for every path and every MIME database answer. -/
theorem equiv (h : TablesOk T = true) (pl : Str) (mime : Option Str) :
    isSupported T pl mime = true ↔ ∃ f, getExtractor T pl mime = .ok f := by
  obtain ⟨_, _, h4, _, _, _⟩ := ok_parts h
  have mimeB : ∀ (hne : (fileTypeFromExt T pl).isSome = false),
      ((match mime with | none => false | some m => !m.isEmpty && (lookup m T.mimeMap).isSome) = true
        ↔ ∃ f, getExtractor.mimeBranch T mime = .ok f) := by
    intro _
    unfold getExtractor.mimeBranch
    cases mime with
    | none => simp
    | some m =>
      cases hl : lookup m T.mimeMap with
      | none => simp [hl]
      | some t =>
        obtain ⟨hreg, hne⟩ := h4 m t (lookup_mem _ _ _ hl)
        obtain ⟨f, hf⟩ := Option.isSome_iff_exists.mp hreg
        simp [getExtractorByType, hf, hne, hl]
  cases hft : fileTypeFromExt T pl with
  | some t =>
    obtain ⟨hreg, hne⟩ := fileType_registered h pl t hft
    obtain ⟨f, hf⟩ := Option.isSome_iff_exists.mp hreg
    have hsup : isSupported T pl mime = true := by
      unfold isSupported
      cases hc : compoundMatch T.compound pl with
      | some _ => simp
      | none =>
        have := supported_iff_fileType h pl hc
        rw [hft] at this
        simp only [Option.isSome_some] at this
        simp only [hc, Option.isSome_none, Bool.false_eq_true, ↓reduceIte, this]
    have hget : getExtractor T pl mime = .ok f := by
      unfold getExtractor
      rw [hft]
      simp [hne, getExtractorByType, hf]
    simp [hsup, hget]
  | none =>
    have hc : compoundMatch T.compound pl = none := by
      cases hc : compoundMatch T.compound pl with
      | none => rfl
      | some t => unfold fileTypeFromExt at hft; rw [hc] at hft; cases hft
    have hs := supported_iff_fileType h pl hc
    rw [hft] at hs
    unfold isSupported getExtractor
    rw [hc, hft]
    simp only [Option.isSome_none, Bool.false_eq_true, ↓reduceIte, hs]
    exact mimeB (by simp [hft])

/-- **C07 (only error).** When `get_extractor` fails it fails with the format-not-supported error. -/
theorem only_error (T : Tables) (pl : Str) (mime : Option Str) (e : Err)
    (_ : getExtractor T pl mime = .error e) : e = .formatNotSupported := by
  cases e; rfl

/-- **C07 (extension decides).** If the lower-cased trailing extension names a file type, the
    extractor is that type's registered function, whatever the host MIME database answers. -/
theorem ext_decides (h : TablesOk T = true) (pl t : Str) (ht : fileTypeFromExt T pl = some t) :
    ∃ f, lookup t T.registry = some f ∧ ∀ mime, getExtractor T pl mime = .ok f := by
  obtain ⟨hreg, hne⟩ := fileType_registered h pl t ht
  obtain ⟨f, hf⟩ := Option.isSome_iff_exists.mp hreg
  refine ⟨f, hf, fun mime => ?_⟩
  unfold getExtractor
  rw [ht]
  simp [hne, getExtractorByType, hf]

end generic

/-! ## Stems: `stem ++ "." ++ ext` -/

/-- a stem whose last path component contains a character other than '.' -/
def validStem (s : Str) : Bool := (baseName s).any (· ≠ '.')

/-- an extension word: no '.' and no '/' -/
def plainExt (a : Str) : Bool := a.all (fun c => c ≠ '.' && c ≠ '/')

theorem baseName_append_plain (s a : Str) (ha : plainExt a = true) :
    baseName (s ++ '.' :: a) = baseName s ++ '.' :: a := by
  unfold baseName
  simp only [List.reverse_append, List.reverse_cons, List.append_assoc, List.cons_append,
    List.nil_append]
  have ha' : ∀ c ∈ a.reverse, (decide (c ≠ '/')) = true := by
    intro c hc
    have := List.all_eq_true.mp ha c (List.mem_reverse.mp hc)
    simp only [Bool.and_eq_true] at this
    exact this.2
  rw [List.takeWhile_append_of_pos (l₁ := a.reverse) ha']
  simp [List.takeWhile_cons]

theorem splitextExt_stem (s a : Str) (hs : validStem s = true) (ha : plainExt a = true) :
    splitextExt (s ++ '.' :: a) = '.' :: a := by
  unfold splitextExt
  simp only
  rw [baseName_append_plain s a ha]
  have ha' : ∀ c ∈ a.reverse, (decide (c ≠ '.')) = true := by
    intro c hc
    have := List.all_eq_true.mp ha c (List.mem_reverse.mp hc)
    simp only [Bool.and_eq_true] at this
    exact this.1
  have htw : ((baseName s ++ '.' :: a).reverse.takeWhile (· ≠ '.')) = a.reverse := by
    simp only [List.reverse_append, List.reverse_cons, List.append_assoc, List.cons_append,
      List.nil_append]
    rw [List.takeWhile_append_of_pos (l₁ := a.reverse) ha']
    simp [List.takeWhile_cons]
  rw [htw]
  have hlen : ¬ (a.reverse.length = (baseName s ++ '.' :: a).length) := by
    simp; omega
  simp only [hlen, ↓reduceIte, List.reverse_reverse]
  have htake : List.take ((baseName s ++ '.' :: a).length - a.reverse.length - 1) (baseName s ++ '.' :: a)
      = baseName s := by
    have : (baseName s ++ '.' :: a).length - a.reverse.length - 1 = (baseName s).length := by
      simp; omega
    rw [this]; simp
  rw [htake]
  unfold validStem at hs
  simp only [hs, ↓reduceIte]

/-- Extra table condition for the stem theorems: extension words are plain, and a compound
    extension that ends in `.ext` routes to the same extractor as `ext` itself. -/
def StemOk (T : Tables) : Bool :=
  T.aliases.all (fun kv => plainExt kv.1 && plainExt kv.2 && (lookup kv.2 T.aliases).isNone)
  && T.registry.all (fun kv => plainExt kv.1)
  && T.compound.all (fun ct =>
      T.aliases.all (fun kv =>
        ((('.' :: kv.1).isSuffixOf ct.1 || ('.' :: kv.2).isSuffixOf ct.1)
          → lookup ct.2 T.registry = lookup kv.2 T.registry))
      && T.registry.all (fun kv =>
        (('.' :: kv.1).isSuffixOf ct.1 → lookup ct.2 T.registry = lookup kv.1 T.registry)))

theorem gen_stem_ok : StemOk S2T.Gen.Router.tables = true := by decide +kernel

/-- extractor reached by a file-type word (after alias resolution) -/
def extractorOfExt (T : Tables) (ext : Str) : Option (Str × Str) :=
  lookup ((lookup ext T.aliases).getD ext) T.registry

section stems
variable {T : Tables}

/-- For a valid stem and a plain, known extension word `a`, `stem.a` is routed to the extractor
    of `a` (alias-resolved), for every MIME answer — also when a compound extension matches. -/
theorem route_stem (h : TablesOk T = true) (h2 : StemOk T = true) (s a : Str)
    (hs : validStem s = true)
    (hknown : (∃ b, (a, b) ∈ T.aliases ∧ lookup a T.aliases = some b) ∨
              (lookup a T.aliases = none ∧ ∃ v, (a, v) ∈ T.registry)) :
    ∃ f, extractorOfExt T a = some f ∧ ∀ mime, getExtractor T (s ++ '.' :: a) mime = .ok f := by
  simp only [StemOk, Bool.and_eq_true, List.all_eq_true] at h2
  obtain ⟨⟨hal, hrg⟩, hcp⟩ := h2
  obtain ⟨_, h3, _, _, _, _⟩ := ok_parts h
  have hplain : plainExt a = true := by
    rcases hknown with ⟨b, hm, _⟩ | ⟨_, v, hm⟩
    · have := hal (a, b) hm; simp only [Bool.and_eq_true] at this; exact this.1.1
    · exact hrg (a, v) hm
  have hext := splitextExt_stem s a hs hplain
  have hne : a ≠ [] := by
    obtain ⟨_, _, _, _, h6, h7⟩ := ok_parts h
    rcases hknown with ⟨b, hm, _⟩ | ⟨_, v, hm⟩
    · exact h7 a b hm
    · exact h6 a v hm
  -- the extractor for `a`
  have hreg : (extractorOfExt T a).isSome = true := by
    unfold extractorOfExt
    rcases hknown with ⟨b, hm, hl⟩ | ⟨hl, v, hm⟩
    · simp only [hl, Option.getD_some]; exact h3 a b hm
    · simp only [hl, Option.getD_none]; rw [lookup_isSome_iff]; exact List.mem_map.mpr ⟨(a, v), hm, rfl⟩
  obtain ⟨f, hf⟩ := Option.isSome_iff_exists.mp hreg
  refine ⟨f, hf, ?_⟩
  -- file type of the path
  have hft : ∃ t, fileTypeFromExt T (s ++ '.' :: a) = some t ∧ lookup t T.registry = some f := by
    unfold fileTypeFromExt
    cases hc : compoundMatch T.compound (s ++ '.' :: a) with
    | some t =>
      refine ⟨t, rfl, ?_⟩
      obtain ⟨c, hm, hsuf⟩ := compoundMatch_some_mem _ _ _ hc
      have hcd := (ok_parts h).2.2.2.1 c t hm
      -- c and '.'::a are both suffixes of the path; c starts with '.', a is plain ⇒ '.'::a is a suffix of c
      have hsuf' : ('.' :: a).isSuffixOf c = true := by
        have h1 : c <:+ s ++ '.' :: a := by simpa using hsuf
        have h2 : ('.' :: a) <:+ s ++ '.' :: a := List.suffix_append _ _
        rcases List.suffix_or_suffix_of_suffix h1 h2 with hca | hac
        · -- c is a suffix of '.'::a, c starts with '.', a has no dots ⇒ c = '.'::a
          obtain ⟨pre, hpre⟩ := hca
          cases pre with
          | nil => simp at hpre; simp [hpre]
          | cons p ps =>
            exfalso
            cases c with
            | nil => simp at hcd
            | cons c0 cs =>
              have hc0 : c0 = '.' := by simpa using hcd.2
              have : '.' ∈ a := by
                have : c0 ∈ ps ++ c0 :: cs := by simp
                have hh : ps ++ c0 :: cs = a := by
                  have := hpre; simp at this; exact this.2
                rw [hh] at this; rw [← hc0]; exact this
              have := List.all_eq_true.mp hplain '.' this
              simp at this
        · simpa using hac
      have hrow := (hcp (c, t) hm)
      simp only [Bool.and_eq_true, List.all_eq_true] at hrow
      rcases hknown with ⟨b, hmb, hl⟩ | ⟨hl, v, hmv⟩
      · have := hrow.1 (a, b) hmb
        simp only [Bool.or_eq_true, decide_eq_true_eq] at this
        have := this (Or.inl hsuf')
        rw [this]; unfold extractorOfExt at hf; simpa [hl] using hf
      · have := hrow.2 (a, v) hmv
        simp only [decide_eq_true_eq] at this
        have := this hsuf'
        rw [this]; unfold extractorOfExt at hf; simpa [hl] using hf
    | none =>
      simp only [hext, hne, ↓reduceIte]
      unfold extractorOfExt at hf
      refine ⟨(lookup a T.aliases).getD a, ?_, hf⟩
      simp [hf]
  obtain ⟨t, ht, hlt⟩ := hft
  obtain ⟨f', hf', hall⟩ := ext_decides h _ t ht
  rw [hlt] at hf'; cases hf'
  exact hall

/-- **C07 (alias).** An alias behaves exactly like its base format: for every valid stem and every
    pair of MIME answers, `stem.alias` and `stem.base` reach the same extractor. -/
theorem alias_same (h : TablesOk T = true) (h2 : StemOk T = true) (s a b : Str)
    (hs : validStem s = true) (hab : (a, b) ∈ T.aliases) (hl : lookup a T.aliases = some b)
    (m1 m2 : Option Str) :
    getExtractor T (s ++ '.' :: a) m1 = getExtractor T (s ++ '.' :: b) m2 ∧
    ∃ f, getExtractor T (s ++ '.' :: a) m1 = .ok f := by
  have h2' := h2
  simp only [StemOk, Bool.and_eq_true, List.all_eq_true] at h2'
  have hb := h2'.1.1 (a, b) hab
  simp only [Bool.and_eq_true, Option.isNone_iff_eq_none] at hb
  obtain ⟨_, h3, _, _, _, _⟩ := ok_parts h
  have hbreg := h3 a b hab
  rw [lookup_isSome_iff] at hbreg
  obtain ⟨⟨k, v⟩, hm, hk⟩ := List.mem_map.mp hbreg
  simp at hk; subst hk
  obtain ⟨f, hf, hfa⟩ := route_stem h h2 s a hs (Or.inl ⟨k, hab, hl⟩)
  obtain ⟨g, hg, hgb⟩ := route_stem h h2 s k hs (Or.inr ⟨hb.2, v, hm⟩)
  have : f = g := by
    unfold extractorOfExt at hf hg
    simp only [hl, Option.getD_some] at hf
    simp only [hb.2, Option.getD_none] at hg
    rw [hf] at hg; exact Option.some.inj hg
  subst this
  exact ⟨by rw [hfa m1, hgb m2], f, hfa m1⟩

end stems

/-! ## Instances at the generated tables -/

open S2T.Gen.Router in
/-- **C07 on the current source**: equivalence of the two predicates. -/
theorem C07_equiv (pl : Str) (mime : Option Str) :
    isSupported tables pl mime = true ↔ ∃ f, getExtractor tables pl mime = .ok f :=
  equiv gen_tables_ok pl mime

open S2T.Gen.Router in
theorem C07_ext_decides (pl t : Str) (ht : fileTypeFromExt tables pl = some t) :
    ∃ f, lookup t tables.registry = some f ∧ ∀ mime, getExtractor tables pl mime = .ok f :=
  ext_decides gen_tables_ok pl t ht

/-- every alias entry is its own `lookup` answer (keys are unique) -/
theorem gen_alias_lookup : S2T.Gen.Router.aliases.all
    (fun kv => lookup kv.1 S2T.Gen.Router.aliases == some kv.2) = true := by decide +kernel

open S2T.Gen.Router in
/-- **C07 on the current source**: every alias behaves like its base format. -/
theorem C07_alias (s a b : Str) (hs : validStem s = true) (hab : (a, b) ∈ aliases)
    (m1 m2 : Option Str) :
    getExtractor tables (s ++ '.' :: a) m1 = getExtractor tables (s ++ '.' :: b) m2 ∧
    ∃ f, getExtractor tables (s ++ '.' :: a) m1 = .ok f := by
  have hl : lookup a tables.aliases = some b := by
    have := List.all_eq_true.mp gen_alias_lookup (a, b) hab
    show lookup a aliases = some b
    simpa using this
  exact alias_same gen_tables_ok gen_stem_ok s a b hs hab hl m1 m2

/-- documented extension words (README rows without the leading dot), single-dot ones -/
def docWords : List Str :=
  (S2T.Gen.Router.readmeRows.flatten.filterMap
    (fun e => match e with | '.' :: w => if plainExt w then some w else none | _ => none))

/-- every documented single extension is a registry key or an alias key -/
theorem gen_documented_known : docWords.all (fun a =>
    (match lookup a S2T.Gen.Router.aliases with
      | some b => S2T.Gen.Router.aliases.contains (a, b)
      | none => (lookup a S2T.Gen.Router.registry).isSome)) = true := by decide +kernel

/-- every documented compound extension (more than one dot) is in the compound table -/
theorem gen_documented_compound :
    (S2T.Gen.Router.readmeRows.flatten.filter
      (fun e => match e with | '.' :: w => !plainExt w | _ => true)).all
      (fun e => (lookup e S2T.Gen.Router.compound).isSome) = true := by decide +kernel

/-- extensions documented in the same README row reach the same extractor function -/
theorem gen_rows_consistent : S2T.Gen.Router.readmeRows.all (fun row =>
    row.all (fun e => row.all (fun e' =>
      let r := fun (x : Str) => match x with
        | '.' :: w => if plainExt w then extractorOfExt S2T.Gen.Router.tables w
                      else (lookup x S2T.Gen.Router.compound).bind (lookup · S2T.Gen.Router.registry)
        | _ => none
      r e == r e' && (r e).isSome))) = true := by decide +kernel

open S2T.Gen.Router in
/-- **C07 on the current source**: every documented single extension is routed by extension
    alone, to the extractor the tables give for it, for every valid stem and MIME answer. -/
theorem C07_documented (s a : Str) (hs : validStem s = true) (ha : a ∈ docWords) :
    ∃ f, extractorOfExt tables a = some f ∧ ∀ mime, getExtractor tables (s ++ '.' :: a) mime = .ok f := by
  have hk := List.all_eq_true.mp gen_documented_known a ha
  apply route_stem gen_tables_ok gen_stem_ok s a hs
  cases hl : lookup a aliases with
  | some b =>
    simp only [hl] at hk
    left; exact ⟨b, by show (a, b) ∈ aliases; simpa using hk, hl⟩
  | none =>
    simp only [hl] at hk
    right
    refine ⟨hl, ?_⟩
    rw [lookup_isSome_iff] at hk
    obtain ⟨⟨k, v⟩, hm, hkk⟩ := List.mem_map.mp hk
    simp at hkk; subst hkk
    exact ⟨v, hm⟩

/-! ## Non-vacuity -/
example : validStem "dir/report.v2".toList = true := by decide
example : ("htm".toList, "html".toList) ∈ S2T.Gen.Router.aliases := by decide
example : "docx".toList ∈ docWords := by decide +kernel
example : getExtractor S2T.Gen.Router.tables "a/b.tar.gz".toList none
    = .ok ("sharepoint2text.parsing.extractors.archive_extractor".toList, "read_archive".toList) := by
  decide +kernel
example : isSupported S2T.Gen.Router.tables "noext".toList (some "text/plain".toList) = true := by
  decide +kernel
example : isSupported S2T.Gen.Router.tables ".docx".toList none = false := by decide +kernel

/-! ## The translated source functions themselves (end to end)

The statements above are about `S2T.Model.Router`; `Props/C07_Src.lean` proves the functions
re-translated from `router.py` on every run equal to that model.  Composed here, the property is
stated about `is_supported_file` / `get_extractor` **as the source has them now**, for every host
(`Env`: any `str.lower`, any `mimetypes.guess_type`) and every path: a change of either function that
lets the raw path, or the MIME answer of a path with a known extension, reach the decision makes one
of these proofs fail. -/
section src
open S2T.Py S2T.Gen.PyRouter S2T.Gen.Router

/-- **C07 at the source level (equivalence).** -/
theorem C07_src_equiv (env : Env) (path : Py.Str) :
    is_supported_file env path = .ok true ↔ ∃ f, get_extractor env path = .ok f := by
  have hs := Src.is_supported_file_eq env path
  have hg := Src.get_extractor_eq env path
  have he := C07_equiv (env.lower path) (env.guessType (env.lower path)).1
  rw [hs]
  constructor
  · intro h
    have hb : isSupported tables (env.lower path) (env.guessType (env.lower path)).1 = true := by
      simpa [pure, Except.pure] using h
    obtain ⟨f, hf⟩ := he.mp hb
    rw [hf] at hg
    refine ⟨f, ?_⟩
    cases hx : get_extractor env path with
    | ok g => rw [hx] at hg; simp [Except.mapError] at hg; rw [hg]
    | error e => rw [hx] at hg; simp [Except.mapError] at hg
  · rintro ⟨f, hf⟩
    rw [hf] at hg
    cases hx : getExtractor tables (env.lower path) (env.guessType (env.lower path)).1 with
    | ok g =>
      have := he.mpr ⟨g, hx⟩
      rw [this]; rfl
    | error e => rw [hx] at hg; simp [Except.mapError] at hg

/-- **C07 at the source level.** `is_supported_file` never raises. -/
theorem C07_src_total (env : Env) (path : Py.Str) :
    ∃ b, is_supported_file env path = .ok b := ⟨_, Src.is_supported_file_eq env path⟩

/-- **C07 at the source level (only error).** A failing `get_extractor` raises the
    format-not-supported error, and does so only for a path `is_supported_file` answers `False` for. -/
theorem C07_src_only_error (env : Env) (path : Py.Str) (e : Exc)
    (h : get_extractor env path = .error e) :
    e.cls = "ExtractionFileFormatNotSupportedError" ∧ is_supported_file env path = .ok false := by
  have hg := Src.get_extractor_eq env path
  rw [h] at hg
  constructor
  · cases hx : getExtractor tables (env.lower path) (env.guessType (env.lower path)).1 with
    | ok g => rw [hx] at hg; simp [Except.mapError] at hg
    | error e' =>
      rw [hx] at hg
      simp only [Except.mapError, Src.classify] at hg
      by_cases hc : e.cls = "ExtractionFileFormatNotSupportedError"
      · exact hc
      · simp [hc] at hg
  · obtain ⟨b, hb⟩ := C07_src_total env path
    cases b with
    | false => exact hb
    | true =>
      obtain ⟨f, hf⟩ := (C07_src_equiv env path).mp hb
      rw [hf] at h; cases h

/-- **C07 at the source level (case-insensitive).** -/
theorem C07_src_case_insensitive (env : Env) (p q : Py.Str) (h : env.lower p = env.lower q) :
    get_extractor env p = get_extractor env q ∧ is_supported_file env p = is_supported_file env q := by
  constructor
  · unfold get_extractor; simp only [h]
  · unfold is_supported_file; simp only [h]

/-- **C07 at the source level (MIME-database independence).** -/
theorem C07_src_mime_independent (env env' : Env) (path : Py.Str) (t : Py.Str)
    (hl : env'.lower = env.lower)
    (ht : _file_type_from_extension (env.lower path) = some t) :
    get_extractor env' path = get_extractor env path ∧
    is_supported_file env' path = .ok true ∧ is_supported_file env path = .ok true := by
  rw [Src.file_type_from_extension_eq] at ht
  obtain ⟨f, _, hall⟩ := C07_ext_decides (env.lower path) t ht
  have key : ∀ e : Env, e.lower = env.lower → get_extractor e path = .ok f := by
    intro e hle
    have hg := Src.get_extractor_eq e path
    rw [hle, hall] at hg
    cases hx : get_extractor e path with
    | ok g => rw [hx] at hg; simp [Except.mapError] at hg; rw [hg]
    | error x => rw [hx] at hg; simp [Except.mapError] at hg
  refine ⟨by rw [key env' hl, key env rfl], ?_, ?_⟩
  · exact (C07_src_equiv env' path).mpr ⟨f, key env' hl⟩
  · exact (C07_src_equiv env path).mpr ⟨f, key env rfl⟩


/-! ### Non-vacuity of the source-level statements -/
/-- an ASCII host: `str.lower` on ASCII, an empty MIME database -/
def asciiEnv : Env := ⟨fun s => s.map Char.toLower, fun _ => (none, none), []⟩
/-- a host whose MIME database calls everything a PDF -/
def hostileEnv : Env := ⟨fun s => s.map Char.toLower, fun _ => (some "application/pdf".toList, none), []⟩
example : asciiEnv.lower "Dir/Report.DOCX".toList = asciiEnv.lower "dir/report.docx".toList := by decide +kernel
example : _file_type_from_extension (asciiEnv.lower "Dir/Report.DOCX".toList) = some "docx".toList := by
  rw [Src.file_type_from_extension_eq]; decide +kernel
example : hostileEnv.lower = asciiEnv.lower := rfl
example : ∃ f, get_extractor hostileEnv "noext".toList = .ok f :=
  (C07_src_equiv _ _).mp (by
    rw [Src.is_supported_file_eq]
    exact congrArg Except.ok (by decide +kernel :
      isSupported tables (hostileEnv.lower "noext".toList)
        (hostileEnv.guessType (hostileEnv.lower "noext".toList)).1 = true))
example : is_supported_file asciiEnv "noext".toList = .ok false := by
  rw [Src.is_supported_file_eq]
  exact congrArg Except.ok (by decide +kernel :
    isSupported tables (asciiEnv.lower "noext".toList)
      (asciiEnv.guessType (asciiEnv.lower "noext".toList)).1 = false)
end src

end S2T.C07
