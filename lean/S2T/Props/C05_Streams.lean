import S2T.Model.SerialHeap
import S2T.Gen.SerialSites
/-!
# C05, restored objects are independent: streams handed out by `from_json`, and the CLI's binary flag

`from_json` rebuilds "the same image / attachment bytes" only if the streams of the rebuilt object can be
*consumed*: read one after the other, closed, the same JSON restored again — by whoever holds whichever of the
restored objects.  `S2T/Model/SerialHeap.lean` models the process as a heap of `io.BytesIO` objects.  Proved here
for the decoder of the current source (a new object per call), for EVERY heap state a process can be in and
EVERY later history (any number of further `from_json` calls, any reads / closes / rewinds of other streams):

* `C05_restore_addrs`   the streams of a restored object are new objects, pairwise distinct, one per leaf;
* `C05_restore_keeps`   restoring does not touch any stream handed out earlier;
* `C05_stream_op_frame` an operation on one stream changes no other stream;
* `C05_stream_after_any_history`  hence a restored stream stays complete, positioned at 0 and open until
  its holder touches it, and reading it then returns the whole payload (`C05_read_after_any_history`);
* `C05_cex_memoised_decoder`  with a memoising decoder (`functools.lru_cache` on `_base64_to_bytesio`) the same
  statements are false: second read returns nothing, closing one restored object's stream makes another one
  unserialisable.

Tie to the source (re-decided on every run from `S2T.Gen.SerialSites`, beside the cache / state-cell inventory of
`C05_History`): what every function on the deserialiser's path can return is a new object, a parameter handed
through, or what another path function returns (`gen_alloc_sites_ok`) — in particular the binary decoders return a
constructor call — and no module-level object other than the registry exists that could be handed out.

The CLI's `--binary` flag: every mention of `serialize_extraction` / of a flag-taking helper inside `cli.py` is a
call that passes the enclosing function's `include_binary` on (`gen_flag_sites_ok`); a bare reference
(`map(serialize_extraction, …)`), a call without the keyword or with a constant falls back to the default `True`.
-/
namespace S2T.C05.Streams
open S2T.Serial S2T.SerialHeap

/-! ## allocation by the current decoder -/

theorem allocAll_fresh (st : State) (ps : List (List Nat)) :
    allocAll .fresh st ps = (⟨st.heap ++ ps.map mk, st.cache⟩, List.range' st.heap.length ps.length) := by
  induction ps generalizing st with
  | nil => simp [allocAll]
  | cons p ps ih =>
    simp [allocAll, allocOne, ih, List.range'_succ]

/-- the streams of a restored object are NEW objects (addresses not handed out before), pairwise distinct, one per
`io.BytesIO` leaf, each holding its payload, positioned at 0, open -/
theorem C05_restore_addrs (st : State) (ps : List (List Nat)) :
    (allocAll .fresh st ps).2 = List.range' st.heap.length ps.length
    ∧ (allocAll .fresh st ps).2.Nodup
    ∧ (∀ a ∈ (allocAll .fresh st ps).2, st.heap.length ≤ a)
    ∧ (∀ i, (h : i < ps.length) → (allocAll .fresh st ps).1.heap[st.heap.length + i]? = some (mk ps[i])) := by
  rw [allocAll_fresh]
  refine ⟨rfl, List.nodup_range', ?_, ?_⟩
  · intro a ha
    exact (List.mem_range'_1.mp ha).1
  · intro i h
    show (st.heap ++ ps.map mk)[st.heap.length + i]? = _
    rw [List.getElem?_append_right (by omega)]
    simp [h]

/-- restoring leaves every stream handed out earlier as it is -/
theorem C05_restore_keeps (st : State) (ps : List (List Nat)) (a : Addr) (h : a < st.heap.length) :
    (allocAll .fresh st ps).1.heap[a]? = st.heap[a]? := by
  rw [allocAll_fresh]
  exact List.getElem?_append_left h

/-- an operation on the stream at `a` changes no other stream (and never the number of streams) -/
theorem C05_stream_op_frame (h : Heap) (a b : Addr) (op : SOp) (hne : b ≠ a) :
    (heapStep h a op).2[b]? = h[b]? ∧ (heapStep h a op).2.length = h.length := by
  unfold heapStep
  split
  · exact ⟨rfl, rfl⟩
  · refine ⟨?_, by simp⟩
    rw [List.getElem?_set_ne (Ne.symm hne)]

private theorem hstep_keeps (st : State) (op : HOp) (a : Addr) (s : Stream) (hs : st.heap[a]? = some s)
    (hno : touches a op = false) : (hstep .fresh st op).heap[a]? = some s := by
  have hlt : a < st.heap.length := by
    rcases Nat.lt_or_ge a st.heap.length with h | h
    · exact h
    · rw [List.getElem?_eq_none h] at hs; cases hs
  cases op with
  | restore ps => simp only [hstep]; rw [C05_restore_keeps st ps a hlt]; exact hs
  | stream b o =>
    simp only [touches, beq_eq_false_iff_ne, ne_eq] at hno
    simp only [hstep]
    rw [(C05_stream_op_frame st.heap b a o (fun h => hno h.symm)).1]; exact hs

private theorem hrun_keeps (ops : List HOp) : ∀ (st : State) (a : Addr) (s : Stream), st.heap[a]? = some s →
    (∀ op ∈ ops, touches a op = false) → (hrun .fresh st ops).heap[a]? = some s := by
  induction ops with
  | nil => intro st a s hs _; exact hs
  | cons op ops ih =>
    intro st a s hs hno
    simp only [hrun]
    exact ih _ a s (hstep_keeps st op a s hs (hno op (List.mem_cons_self ..))) (fun o ho => hno o (List.mem_cons_of_mem _ ho))

/-- **Every stream, after any history.**  In ANY process state `st`, the `i`-th stream of the object a `from_json`
call returns is — after ANY later history `mid` that does not operate on that very stream: further `from_json`
calls of anything, reads / closes / rewinds of every other stream of this and of every other restored object —
still complete, positioned at 0 and open. -/
theorem C05_stream_after_any_history (st : State) (ps : List (List Nat)) (i : Nat) (hi : i < ps.length) (mid : List HOp)
    (hmid : ∀ op ∈ mid, touches (st.heap.length + i) op = false) :
    (hrun .fresh (hstep .fresh st (.restore ps)) mid).heap[st.heap.length + i]? = some (mk ps[i]) :=
  hrun_keeps mid _ _ _ ((C05_restore_addrs st ps).2.2.2 i hi) hmid

/-- … so reading it then returns the whole payload, and `to_json` of its holder finds it open -/
theorem C05_read_after_any_history (st : State) (ps : List (List Nat)) (i : Nat) (hi : i < ps.length) (mid : List HOp)
    (hmid : ∀ op ∈ mid, touches (st.heap.length + i) op = false) :
    (heapStep (hrun .fresh (hstep .fresh st (.restore ps)) mid).heap (st.heap.length + i) .read).1 = .ok ps[i]
    ∧ (heapStep (hrun .fresh (hstep .fresh st (.restore ps)) mid).heap (st.heap.length + i) .getvalue).1 = .ok ps[i] := by
  simp [heapStep, C05_stream_after_any_history st ps i hi mid hmid, streamStep, mk]

example : (heapStep (hrun .fresh (hstep .fresh State.empty (.restore [[1, 2], [1, 2]]))
    [.restore [[1, 2]], .stream 0 .read, .stream 2 .close]).heap 1 .read).1 = .ok [1, 2] := by decide

/-! ## why the obligation on the decoder is there -/

/-- the shape of seeded change C05/memoised decoder: the same file attached twice (`[[1,2],[1,2]]`).  With a
memoising decoder both attachments are ONE object: reading the first leaves nothing for the second; restoring the
JSON again hands out the consumed object; closing it makes the other restored object unserialisable.  With the
current decoder all three come out right. -/
theorem C05_cex_memoised_decoder :
    let twice : List (List Nat) := [[1, 2], [1, 2]]
    -- one from_json, two reads
    (allocAll .memo State.empty twice).2 = [0, 0]
    ∧ (heapStep (hrun .memo State.empty [.restore twice, .stream 0 .read]).heap 0 .read).1 = .ok []
    -- second from_json after the first object was consumed
    ∧ (allocAll .memo (hrun .memo State.empty [.restore twice, .stream 0 .read]) twice).2 = [0, 0]
    -- closing a stream of the first object, then to_json of the second
    ∧ observable (hrun .memo State.empty [.restore twice, .restore twice, .stream 0 .close]).heap
        (allocAll .memo (hstep .memo State.empty (.restore twice)) twice).2 = false
    -- the current decoder
    ∧ (allocAll .fresh State.empty twice).2 = [0, 1]
    ∧ (heapStep (hrun .fresh State.empty [.restore twice, .stream 0 .read]).heap 1 .read).1 = .ok [1, 2]
    ∧ observable (hrun .fresh State.empty [.restore twice, .restore twice, .stream 0 .close]).heap
        (allocAll .fresh (hstep .fresh State.empty (.restore twice)) twice).2 = true := by
  decide

/-! ## the inventory of the current source -/

theorem gen_sites_notes_empty : S2T.Gen.SerialSites.notes = [] := by decide

/-- what a function of the deserialiser's path may return: a new object (constructor call, comprehension,
display), a constant, a parameter (or a local bound to one / to a fresh copy of one) handed through, what another
function of the path returns, the registry (its loader only) -/
def allowedReturn (k : String) : Bool :=
  k == "new" || k == "const" || k == "param" || k == "path-call" || k == "cell" || k == "class-call"

/-- helpers of the path that return types / hints / the registry, never a part of the restored object -/
def typeHelpers : List String := ["_unwrap_optional", "_get_field_types", "_get_type_registry"]

def allocSitesOk (rets : List (String × String × String)) (decoders : List (String × String)) (modObjects : List String) : Bool :=
  rets.all (fun r => allowedReturn r.2.1 || typeHelpers.contains r.1)
  -- … and a helper's result is never handed on as (part of) a restored value
  && rets.all (fun r => !(r.2.1 == "path-call") || !typeHelpers.contains r.2.2)
  && decoders.all (fun d => !typeHelpers.contains d.1)
  -- the registry is handed out by its loader only
  && rets.all (fun r => !(r.2.1 == "cell") || r.1 == "_get_type_registry")
  -- every constructor call that makes a stream is the whole return value of its function: `return io.BytesIO(…)`
  && decoders.all (fun d => rets.filter (fun r => r.1 == d.1) == [(d.1, "new", d.2)])
  && !decoders.isEmpty
  -- no module-level object that could be handed out instead
  && modObjects.isEmpty

theorem gen_alloc_sites_ok :
    allocSitesOk S2T.Gen.SerialSites.returns S2T.Gen.SerialSites.streamMakers S2T.Gen.SerialSites.moduleObjects = true := by
  decide +kernel

/-- every mention of a flag-taking serialiser inside `cli.py` is a call passing the caller's `include_binary` on;
the flag's only source is `--binary` -/
def flagSitesOk (sites : List (String × String × String)) (sources : List String) : Bool :=
  sites.all (fun s => s.2.2 == "kw=include_binary")
  && !sites.isEmpty
  && sources == ["bool(args.binary)"]

theorem gen_flag_sites_ok :
    flagSitesOk S2T.Gen.SerialSites.flagSites S2T.Gen.SerialSites.flagSources = true := by
  decide +kernel

end S2T.C05.Streams
