import S2T.Model.History
import S2T.Model.Exhaust
import S2T.Model.CellKinds
import S2T.Spec.C06Cells
import S2T.Gen.ModCells
import S2T.Gen.ValueKinds
/-!
# C06 (cells) — process-global state that is not a container, and third-party values that become output

(1) A module-level ONE-SHOT ITERATOR scanned by every extraction: a fresh process is right (`scan_fresh`), but after
ANY earlier extraction the first entry is gone (`exhaustible_first_entry_lost`), and after an extraction that
matched nothing everything is (`exhaustible_miss_blinds`) — history dependence for every table, every predicate,
every pair of documents of that shape.  The same loop over a re-iterable table is history free
(`const_table_history_free`).  Decided on the current source: every module- / class-level value, default value and
element of a module-level container that is not immutable by construction is a reviewed one (`stateful_cells_reviewed`),
none of them an iterator, a stream, a random generator or an instance with writable fields.

(2) A value handed out by a third-party reader and rendered through a generic `str()` fallback: rendering is a
function of the content iff the kind is rendered by content (`render_address_free`, `identity_fallback_address_dependent`);
decided on the current source and the installed reader: every kind of value every reader call site hands out under
the flags written at that site is rendered by content (`reader_values_by_content`).
-/
namespace S2T.C06Cells
open S2T.History S2T.Exhaust S2T.CellKinds S2T.Spec.C06Cells

/-! ## (1) exhaustible module-level objects -/

/-- in a fresh process the iterator still is the whole table: the loop finds what the `if / elif` chain finds -/
theorem scan_fresh {κ ν δ} (p : δ → κ → Bool) (tbl : List (κ × ν)) (d : δ) : (scan p tbl d).1 = sniff p tbl d := by
  induction tbl with
  | nil => rfl
  | cons e es ih => simp only [scan, sniff]; split <;> simp_all

theorem scan_suffix {κ ν δ} (p : δ → κ → Bool) (tbl : List (κ × ν)) (d : δ) : (scan p tbl d).2 <:+ tbl := by
  induction tbl with
  | nil => exact List.suffix_refl _
  | cons e es ih =>
    simp only [scan]; split
    · exact List.suffix_cons e es
    · exact ih.trans (List.suffix_cons e es)

theorem sniff_none {κ ν δ} (p : δ → κ → Bool) (s : List (κ × ν)) (d : δ) (h : ∀ x ∈ s, p d x.1 = false) :
    sniff p s d = none := by
  induction s with
  | nil => rfl
  | cons e es ih =>
    simp only [sniff, h e List.mem_cons_self]
    exact ih (fun x hx => h x (List.mem_cons_of_mem _ hx))

/-- an extraction that matches no entry leaves NOTHING for later ones -/
theorem scan_miss_empties {κ ν δ} (p : δ → κ → Bool) (tbl : List (κ × ν)) (d : δ) (h : sniff p tbl d = none) :
    (scan p tbl d).2 = [] := by
  induction tbl with
  | nil => rfl
  | cons e es ih =>
    simp only [sniff] at h
    simp only [scan]
    split at h
    · cases h
    · simp_all

/-- **C06 (history, exhaustible table)**: after ANY earlier extraction `a`, a document that matches only the FIRST
    entry of the table is no longer recognised — whatever the table, the predicate and `a` are -/
theorem exhaustible_first_entry_lost {κ ν δ} (p : δ → κ → Bool) (e : κ × ν) (es : List (κ × ν)) (a b : δ)
    (hb : p b e.1 = true) (hes : ∀ x ∈ es, p b x.1 = false) :
    (scan p (after (scan p) (e :: es) [a]) b).1 = none ∧ (scan p (e :: es) b).1 = some e.2 := by
  constructor
  · rw [scan_fresh]
    apply sniff_none
    intro x hx
    apply hes
    have hsuf : (scan p (e :: es) a).2 <:+ es := by
      simp only [scan]; split
      · exact List.suffix_refl _
      · exact scan_suffix p es a
    exact hsuf.subset hx
  · simp [scan, hb]

/-- … and after an extraction that matched nothing (a document without any mark), EVERY later document is treated
    as if the table were empty, although a fresh process recognises it -/
theorem exhaustible_miss_blinds {κ ν δ} (p : δ → κ → Bool) (tbl : List (κ × ν)) (a b : δ) (v : ν)
    (ha : sniff p tbl a = none) (hb : sniff p tbl b = some v) :
    (scan p (after (scan p) tbl [a]) b).1 ≠ (scan p tbl b).1 := by
  simp only [after, scan_miss_empties p tbl a ha, scan_fresh, hb]
  simp [sniff]

/-- the same loop over a re-iterable table (tuple, list, dict, `if / elif` chain) is history free -/
theorem const_table_history_free {κ ν δ} (p : δ → κ → Bool) (tbl : List (κ × ν)) (hist : List δ) (d : δ) :
    (runConst p (after (runConst p) tbl hist) d).1 = sniff p tbl d := by
  induction hist with
  | nil => rfl
  | cons e es ih => simpa [after, runConst] using ih

/-- **C06 (no hidden cells), decided on the current source**: every value bound at module / class level, stored in a
    module-level container or used as a default value that is not immutable by construction (and not a builtin
    container, which `module_state_sealed` covers) is a reviewed one -/
theorem stateful_cells_reviewed :
    S2T.Gen.ModCells.statefulCells.all (fun c => reviewedStatefulCells.contains (c.1, c.2.1, c.2.2.2)) = true := by decide

/-- … in particular nothing an extraction could exhaust, move or reseed -/
theorem no_exhaustible_cells :
    S2T.Gen.ModCells.statefulCells.all (fun c => c.2.2.2 == "lock") = true := by decide

theorem modcells_translation_clean : S2T.Gen.ModCells.notes = [] := by decide

/-! ## (2) third-party values rendered into the result -/

/-- a kind rendered by content yields the same whatever address the object lives at (another run, another process) -/
theorem render_address_free (k : Kind) (h : k.byContent = true) (c a a' : Nat) : render k c a = render k c a' := by
  simp [render, h]

/-- the generic `str()` fallback on a class without `__str__` shows the address: two runs differ -/
theorem identity_fallback_address_dependent (k : Kind) (h : k.byContent = false) (c a a' : Nat) (ha : a ≠ a') :
    render k c a ≠ render k c a' := by
  simp [render, h, ha]

/-- **C06 (reader values), decided on the current source and the installed readers**: every kind of value a reader call
    site hands out under the flags written at that site is rendered by content -/
theorem reader_values_by_content : S2T.Gen.ValueKinds.sites.all Site.ok = true := by decide

/-- hence: for every inventoried site and every kind it hands out, the rendering does not depend on the address -/
theorem reader_values_address_free (s : Site) (hs : s ∈ S2T.Gen.ValueKinds.sites) (k : Kind) (hk : k ∈ s.kinds)
    (c a a' : Nat) : render k c a = render k c a' := by
  have h := List.all_eq_true.mp reader_values_by_content s hs
  exact render_address_free k (List.all_eq_true.mp h k hk) c a a'

theorem valuekinds_translation_clean : S2T.Gen.ValueKinds.notes = [] := by decide

/-! ## Non-vacuity -/
/-- the BOM table of `read_html`: a document without a mark, then a UTF-16 document -/
example : (scan (fun (d : List Nat) (k : List Nat) => k.isPrefixOf d) (after (scan (fun d k => k.isPrefixOf d))
    [([239, 187, 191], 8), ([255, 254], 16), ([254, 255], 17)] [[60, 104]]) [255, 254, 60, 0]).1 = none
  ∧ (scan (fun (d : List Nat) (k : List Nat) => k.isPrefixOf d) [([239, 187, 191], 8), ([255, 254], 16), ([254, 255], 17)] [255, 254, 60, 0]).1 = some 16 := by decide
example : render ⟨"ArrayFormula", false⟩ 5 1000 ≠ render ⟨"ArrayFormula", false⟩ 5 2000 := by decide
example : S2T.Gen.ValueKinds.sites.length ≥ 1 ∧ (S2T.Gen.ValueKinds.sites.map (·.kinds.length)).all (· ≥ 5) = true := by decide

end S2T.C06Cells
